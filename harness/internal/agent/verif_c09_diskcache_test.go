package agent

// C09 conformance driver (injected by /verif/tools via -overlay; see /verif/DESIGN.md).
//
// S->I: behaviours of specs/DiskCache.tla exported by TLC (exhaustive small scope, simulated
// long ones with three shards, and one family with 17 MiB bodies that crosses the real
// 50 MiB rotation threshold) are replayed step by step on the real DiskBucketStorage in a
// scratch directory.  After every step the API result, TotalFileSize and the projection parsed
// from the files on disk are compared with the state the specification expects.  Crash steps
// are produced without killing anything: the cache never fsyncs, so the files are the state; the
// harness diffs the directory before/after the last write and rewrites it with only the first k
// bytes of that write applied.  At the end of every behaviour the final state, and (if the last
// step wrote) the state torn at EVERY byte offset of that write, is copied, opened by a fresh
// storage and drained (ReadNextTailBucket* + GetBucket); the result must be the seconds put
// and not erased, in write order, byte-identical, except for the second whose write was torn.

import (
	"bytes"
	"encoding/binary"
	"fmt"
	"hash/crc32"
	"os"
	"path/filepath"
	"sort"
	"strconv"
	"sync"
	"testing"

	"github.com/VKCOM/statshouse/internal/verifkit"
)

type verifC09Content struct {
	sec  uint32
	body []byte
	spec int // timestamp in the specification's alphabet
}

type verifC09Rec struct {
	pos   int64
	st    string // good | del | half | other
	sec   uint32
	body  []byte
	crcOK bool
}

type verifC09File struct {
	name string
	size int64
	recs []verifC09Rec
	torn int64 // bytes after the last complete record
}

type verifC09Snap map[string][]byte // base name -> content

type verifC09Write struct {
	s    int
	pre  verifC09Snap
	post verifC09Snap // including the last content of files the operation removed ("gone")
	gone map[string]bool
}

type verifC09Run struct {
	dir     string
	n       int
	dc      *DiskBucketStorage
	idmap   []map[int]int64
	idpid   []map[int]int
	issued  []map[int64]bool
	content []map[int]verifC09Content
	fds     map[string]*os.File
	lastW   *verifC09Write
	lastWAt int // index of the step that made lastW
	cur     int // index of the step being executed
	logs    []string
	mu      sync.Mutex
}

func verifC09MagicBytes(m uint32) []byte {
	var b [4]byte
	binary.LittleEndian.PutUint32(b[:], m)
	return b[:]
}

// magic after the first k bytes of the deleted magic went over the good one
func verifC09MixedMagic(k int) uint32 {
	g, d := verifC09MagicBytes(magicGoodBucket), verifC09MagicBytes(magicDeletedBucket)
	var b [4]byte
	copy(b[:], g)
	copy(b[:k], d[:k])
	return binary.LittleEndian.Uint32(b[:])
}

func verifC09Parse(name string, data []byte) verifC09File {
	f := verifC09File{name: name, size: int64(len(data))}
	pos := int64(0)
	for {
		rest := int64(len(data)) - pos
		if rest < headerSize {
			f.torn = rest
			return f
		}
		h := data[pos : pos+headerSize]
		magic := binary.LittleEndian.Uint32(h[0:4])
		sz := int64(binary.LittleEndian.Uint64(h[8:16]))
		if sz < 0 || sz > maxChunkSize || pos+headerSize+sz > int64(len(data)) {
			f.torn = rest
			return f
		}
		body := data[pos+headerSize : pos+headerSize+sz]
		r := verifC09Rec{pos: pos, sec: binary.LittleEndian.Uint32(h[4:8]), body: body,
			crcOK: crc32.Checksum(body, castagnoliTable) == binary.LittleEndian.Uint32(h[16:20])}
		switch {
		case magic == magicGoodBucket:
			r.st = "good"
		case magic == magicDeletedBucket:
			r.st = "del"
		case magic == verifC09MixedMagic(1) || magic == verifC09MixedMagic(2) || magic == verifC09MixedMagic(3):
			r.st = "half"
		default:
			r.st = "other"
		}
		f.recs = append(f.recs, r)
		pos += headerSize + sz
	}
}

func verifC09Body(s, pid, n int) []byte {
	b := make([]byte, n)
	x := uint32(s*7919+pid*104729) + 1
	for i := range b {
		x = x*1664525 + 1013904223
		b[i] = byte(x >> 24)
		if i < 8 { // make short bodies distinct per (shard, pid)
			b[i] = byte(pid*31 + s*97 + i*13 + 1)
		}
	}
	return b
}

func (r *verifC09Run) logf(format string, args ...interface{}) {
	r.mu.Lock()
	if len(r.logs) < 200 {
		r.logs = append(r.logs, fmt.Sprintf(format, args...))
	}
	r.mu.Unlock()
}

func (r *verifC09Run) shardDir(s int) string { return filepath.Join(r.dir, strconv.Itoa(s)) }

func verifC09List(dir string) ([]string, error) {
	des, err := os.ReadDir(dir)
	if err != nil {
		if os.IsNotExist(err) {
			return nil, nil
		}
		return nil, err
	}
	var names []string
	for _, de := range des {
		if !de.IsDir() {
			names = append(names, de.Name())
		}
	}
	sort.Strings(names)
	return names, nil
}

// snapshot of shard s; keeps a descriptor on every file so that the content of a file the
// cache removes can still be read afterwards
func (r *verifC09Run) snapshot(s int) (verifC09Snap, error) {
	dir := r.shardDir(s)
	names, err := verifC09List(dir)
	if err != nil {
		return nil, err
	}
	snap := verifC09Snap{}
	for _, nm := range names {
		p := filepath.Join(dir, nm)
		fd := r.fds[p]
		if fd == nil {
			fd, err = os.Open(p)
			if err != nil {
				return nil, err
			}
			r.fds[p] = fd
		}
		b, err := verifC09ReadFD(fd)
		if err != nil {
			return nil, err
		}
		snap[nm] = b
	}
	return snap, nil
}

func verifC09ReadFD(fd *os.File) ([]byte, error) {
	st, err := fd.Stat()
	if err != nil {
		return nil, err
	}
	b := make([]byte, st.Size())
	if len(b) == 0 {
		return b, nil
	}
	if _, err := fd.ReadAt(b, 0); err != nil {
		return nil, err
	}
	return b, nil
}

func (r *verifC09Run) dropFDs() {
	for p, fd := range r.fds {
		fd.Close()
		delete(r.fds, p)
	}
}

// after an operation on shard s: remember the write if the files changed
func (r *verifC09Run) noteWrite(s int, pre verifC09Snap, isWrite bool) error {
	post, err := r.snapshot(s)
	if err != nil {
		return err
	}
	changed := len(pre) != len(post)
	gone := map[string]bool{}
	for nm, b := range pre {
		pb, ok := post[nm]
		if !ok {
			changed = true
			fd := r.fds[filepath.Join(r.shardDir(s), nm)]
			if fd == nil {
				return fmt.Errorf("no descriptor for removed file %s", nm)
			}
			gb, err := verifC09ReadFD(fd)
			if err != nil {
				return err
			}
			post[nm] = gb
			gone[nm] = true
			continue
		}
		if !bytes.Equal(b, pb) {
			changed = true
		}
	}
	if changed {
		r.lastW = nil // a removal by the tail reader is not a write that can be torn
		if isWrite {
			r.lastW = &verifC09Write{s: s, pre: pre, post: post, gone: gone}
			r.lastWAt = r.cur
		}
	}
	return nil
}

// the files of the written shard after only the first k bytes of the last write arrived.
// n = length of the write.  Format-agnostic except for locating the start of the overwritten
// record (an erase rewrites 4 bytes of which only the last two differ).
func verifC09Torn(w *verifC09Write, k int) (state verifC09Snap, n int, kind string, err error) {
	var grown, rewritten []string
	for nm, pb := range w.post {
		b, had := w.pre[nm]
		switch {
		case !had:
			grown = append(grown, nm)
		case len(pb) > len(b) && bytes.Equal(pb[:len(b)], b):
			grown = append(grown, nm)
		case !bytes.Equal(pb, b):
			rewritten = append(rewritten, nm)
		}
	}
	state = verifC09Snap{}
	switch {
	case len(grown) == 1 && len(rewritten) == 0: // put: appended to a (possibly new) file; a rotation removed its file before
		nm := grown[0]
		pre, post := w.pre[nm], w.post[nm]
		n = len(post) - len(pre)
		if k > n {
			k = n
		}
		for x, b := range w.post {
			if !w.gone[x] {
				state[x] = b
			}
		}
		state[nm] = append(append([]byte{}, pre...), post[len(pre):len(pre)+k]...)
		return state, n, "put", nil
	case len(grown) == 0 && len(rewritten) == 1: // erase: bytes overwritten in place, file possibly removed afterwards
		nm := rewritten[0]
		pre, post := w.pre[nm], w.post[nm]
		if len(pre) != len(post) {
			return nil, 0, "", fmt.Errorf("rewritten file changed its length")
		}
		a, b := -1, -1
		for i := range pre {
			if pre[i] != post[i] {
				if a < 0 {
					a = i
				}
				b = i
			}
		}
		start := -1
		for _, rec := range verifC09Parse(nm, pre).recs {
			if rec.pos <= int64(a) && int64(a) < rec.pos+headerSize+int64(len(rec.body)) {
				start = int(rec.pos)
			}
		}
		if start < 0 {
			return nil, 0, "", fmt.Errorf("overwrite at %d is not inside a record", a)
		}
		n = b - start + 1
		if k > n {
			k = n
		}
		for x, c := range w.pre { // nothing was removed yet
			state[x] = c
		}
		t := append([]byte{}, pre...)
		copy(t[start:start+k], post[start:start+k])
		state[nm] = t
		return state, n, "erase", nil
	}
	return nil, 0, "", fmt.Errorf("cannot identify the last write (grown=%v rewritten=%v)", grown, rewritten)
}

func verifC09WriteDir(dir string, state verifC09Snap) error {
	if err := os.MkdirAll(dir, 0o777); err != nil {
		return err
	}
	names, err := verifC09List(dir)
	if err != nil {
		return err
	}
	for _, nm := range names {
		if _, ok := state[nm]; !ok {
			if err := os.Remove(filepath.Join(dir, nm)); err != nil {
				return err
			}
		}
	}
	for nm, b := range state {
		if err := os.WriteFile(filepath.Join(dir, nm), b, 0o666); err != nil {
			return err
		}
	}
	return nil
}

func (r *verifC09Run) open() error {
	dc, err := MakeDiskBucketStorage(r.dir, r.n, r.logf)
	if err != nil {
		return err
	}
	r.dc = dc
	r.idmap = make([]map[int]int64, r.n)
	r.idpid = make([]map[int]int, r.n)
	r.issued = make([]map[int64]bool, r.n)
	for i := 0; i < r.n; i++ {
		r.idmap[i] = map[int]int64{}
		r.idpid[i] = map[int]int{}
		r.issued[i] = map[int64]bool{}
	}
	return nil
}

type verifC09Drained struct {
	sec  uint32
	body []byte
}

// a fresh session over dir: everything ReadNextTailBucket hands out and GetBucket returns
func verifC09Drain(dir string, n int, logf func(string, ...interface{})) (out [][]verifC09Drained, unreadable []int, problem string, err error) {
	dc, err := MakeDiskBucketStorage(dir, n, logf)
	if err != nil {
		return nil, nil, "", err
	}
	defer dc.Close()
	out = make([][]verifC09Drained, n)
	unreadable = make([]int, n)
	for s := 0; s < n; s++ {
		seen := map[int64]bool{}
		var scratch []byte
		for guard := 0; ; guard++ {
			sec, id := dc.ReadNextTailBucket(s)
			if id == 0 {
				break
			}
			if seen[id] {
				return out, unreadable, fmt.Sprintf("shard %d: ReadNextTailBucket returned id %d twice", s, id), nil
			}
			seen[id] = true
			if guard > 1000000 {
				return out, unreadable, "ReadNextTailBucket does not terminate", nil
			}
			b, gerr := dc.GetBucket(s, id, sec, &scratch)
			if gerr != nil {
				unreadable[s]++
				continue
			}
			out[s] = append(out[s], verifC09Drained{sec: sec, body: append([]byte{}, b...)})
		}
		total, unsent := dc.TotalFileSize(s)
		var sum int64
		names, _ := verifC09List(filepath.Join(dir, strconv.Itoa(s)))
		for _, nm := range names {
			if st, e := os.Stat(filepath.Join(dir, strconv.Itoa(s), nm)); e == nil {
				sum += st.Size()
			}
		}
		var known int64
		for _, d := range out[s] {
			known += headerSize + int64(len(d.body))
		}
		if total != sum {
			return out, unreadable, fmt.Sprintf("shard %d after draining: total %d, files on disk hold %d bytes", s, total, sum), nil
		}
		if unreadable[s] == 0 && unsent != known {
			return out, unreadable, fmt.Sprintf("shard %d after draining: unsent %d, known seconds hold %d bytes", s, unsent, known), nil
		}
	}
	return out, unreadable, "", nil
}

func verifC09Ints(v any) []int {
	l, _ := v.([]any)
	out := make([]int, 0, len(l))
	for _, x := range l {
		if f, ok := x.(float64); ok {
			out = append(out, int(f))
		}
	}
	return out
}

func verifC09Has(l []int, x int) bool {
	for _, y := range l {
		if y == x {
			return true
		}
	}
	return false
}

// got must be the seconds of `live` in order; those in opt may be absent
func (r *verifC09Run) matchLive(s int, got []verifC09Drained, live, opt []int) (bool, []int) {
	i := 0
	var missing []int
	for _, pid := range live {
		c := r.content[s][pid]
		if i < len(got) && got[i].sec == c.sec && bytes.Equal(got[i].body, c.body) {
			i++
			continue
		}
		if verifC09Has(opt, pid) {
			continue
		}
		missing = append(missing, pid)
	}
	return i == len(got) && len(missing) == 0, missing
}

func (r *verifC09Run) describe(got []verifC09Drained, s int) []string {
	var out []string
	for _, g := range got {
		name := "?"
		for pid, c := range r.content[s] {
			if c.sec == g.sec && bytes.Equal(c.body, g.body) {
				name = strconv.Itoa(pid)
			}
		}
		out = append(out, fmt.Sprintf("pid%s(sec=%d,len=%d)", name, g.sec, len(g.body)))
	}
	return out
}

type verifC09Fail struct {
	sig  string
	want any
	got  any
	note string
}

func verifC09Shard(post map[string]any, s int) map[string]any {
	m, _ := post[strconv.Itoa(s)].(map[string]any)
	return m
}

// compare the real cache with the state the specification expects after a step
func (r *verifC09Run) compare(post map[string]any) *verifC09Fail {
	for s := 0; s < r.n; s++ {
		p := verifC09Shard(post, s)
		if p == nil {
			return &verifC09Fail{sig: "machinery", note: "no expected state for shard"}
		}
		total, unsent := r.dc.TotalFileSize(s)
		names, err := verifC09List(r.shardDir(s))
		if err != nil {
			return &verifC09Fail{sig: "machinery", note: err.Error()}
		}
		var files []verifC09File
		var sum int64
		for _, nm := range names {
			b, err := os.ReadFile(filepath.Join(r.shardDir(s), nm))
			if err != nil {
				return &verifC09Fail{sig: "machinery", note: err.Error()}
			}
			files = append(files, verifC09Parse(nm, b))
			sum += int64(len(b))
		}
		if total != sum {
			return &verifC09Fail{sig: "sizes", want: sum, got: total,
				note: fmt.Sprintf("shard %d: reported total size differs from the bytes of the files on disk", s)}
		}
		if int64(p["total"].(float64)) != total || int64(p["unsent"].(float64)) != unsent {
			return &verifC09Fail{sig: "sizes", want: []any{p["total"], p["unsent"]}, got: []int64{total, unsent},
				note: fmt.Sprintf("shard %d: (total, unsent)", s)}
		}
		lost := verifC09Ints(p["lost"])
		want, _ := p["files"].([]any)
		if len(want) != len(files) {
			sig := "files"
			if len(files) > len(want) {
				sig = "erased file not deleted"
			}
			return &verifC09Fail{sig: sig, want: want, got: verifC09FilesDesc(files), note: fmt.Sprintf("shard %d: files on disk", s)}
		}
		for i, wf := range want {
			w := wf.(map[string]any)
			f := files[i]
			wrecs, _ := w["recs"].([]any)
			if int64(w["size"].(float64)) != f.size || len(wrecs) != len(f.recs) {
				return &verifC09Fail{sig: "files", want: w, got: verifC09FilesDesc(files[i : i+1]), note: fmt.Sprintf("shard %d file %d", s, i)}
			}
			for j, wr := range wrecs {
				wrm := wr.(map[string]any)
				pid := int(wrm["pid"].(float64))
				c := r.content[s][pid]
				g := f.recs[j]
				bad := g.st != wrm["st"].(string) || g.sec != c.sec || len(g.body) != len(c.body)
				if !bad && !verifC09Has(lost, pid) && (!bytes.Equal(g.body, c.body) || !g.crcOK) {
					bad = true
				}
				if bad {
					return &verifC09Fail{sig: "files", want: wrm, got: fmt.Sprintf("st=%s sec=%d len=%d crcOK=%v", g.st, g.sec, len(g.body), g.crcOK),
						note: fmt.Sprintf("shard %d file %d record %d (pid %d: sec=%d len=%d)", s, i, j, pid, c.sec, len(c.body))}
				}
			}
		}
	}
	return nil
}

func verifC09FilesDesc(files []verifC09File) []string {
	var out []string
	for _, f := range files {
		s := fmt.Sprintf("%s size=%d torn=%d:", f.name, f.size, f.torn)
		for _, r := range f.recs {
			s += fmt.Sprintf(" [%s sec=%d len=%d]", r.st, r.sec, len(r.body))
		}
		out = append(out, s)
	}
	return out
}

func (r *verifC09Run) realSec(specSec, pid, n int) uint32 {
	if n == 0 { // empty bodies are told apart by their timestamp
		return uint32(specSec*1000 + pid)
	}
	return uint32(specSec * 1000)
}

// one step on the real cache; nil if the cache did what the specification expects
func (r *verifC09Run) step(st verifkit.Step) (*verifC09Fail, error) {
	s := st.Int("s")
	var scratch []byte
	switch st.Act() {
	case "Put":
		pid, n := st.Int("pid"), st.Int("len")
		c := verifC09Content{sec: r.realSec(st.Int("sec"), pid, n), body: verifC09Body(s, pid, n), spec: st.Int("sec")}
		r.content[s][pid] = c
		pre, err := r.snapshot(s)
		if err != nil {
			return nil, err
		}
		id, perr := r.dc.PutBucket(s, c.sec, c.body)
		if perr != nil {
			return &verifC09Fail{sig: "api:put", want: "id", got: perr.Error()}, nil
		}
		if id == 0 || r.issued[s][id] {
			return &verifC09Fail{sig: "ids", want: "fresh id", got: id, note: "PutBucket returned an id already in use (or 0)"}, nil
		}
		r.issued[s][id] = true
		r.idmap[s][st.Int("id")] = id
		r.idpid[s][st.Int("id")] = pid
		if err := r.noteWrite(s, pre, true); err != nil {
			return nil, err
		}
	case "Get":
		id := st.Int("id")
		pid := r.idpid[s][id]
		c := r.content[s][pid]
		sec := c.sec
		if st.Int("sec") != c.spec {
			sec++
		}
		pre, err := r.snapshot(s)
		if err != nil {
			return nil, err
		}
		b, gerr := r.dc.GetBucket(s, r.idmap[s][id], sec, &scratch)
		wantOK := st.Bool("ok")
		if (gerr == nil) != wantOK {
			sig := "api:get"
			if gerr == nil {
				sig = "erased or corrupted second returned"
			}
			return &verifC09Fail{sig: sig, want: wantOK, got: fmt.Sprint(gerr), note: fmt.Sprintf("GetBucket(shard %d, id %d -> pid %d)", s, id, pid)}, nil
		}
		if gerr == nil && !bytes.Equal(b, c.body) {
			return &verifC09Fail{sig: "wrong bytes returned", want: c.body, got: b, note: fmt.Sprintf("GetBucket(shard %d, id %d -> pid %d)", s, id, pid)}, nil
		}
		if err := r.noteWrite(s, pre, true); err != nil {
			return nil, err
		}
	case "Erase":
		pre, err := r.snapshot(s)
		if err != nil {
			return nil, err
		}
		if eerr := r.dc.EraseBucket(s, r.idmap[s][st.Int("id")]); eerr != nil {
			return &verifC09Fail{sig: "api:erase", want: nil, got: eerr.Error()}, nil
		}
		if err := r.noteWrite(s, pre, true); err != nil {
			return nil, err
		}
	case "Tail":
		pre, err := r.snapshot(s)
		if err != nil {
			return nil, err
		}
		sec, id := r.dc.ReadNextTailBucket(s)
		wid, pid := st.Int("id"), st.Int("pid")
		if (id == 0) != (wid == 0) {
			return &verifC09Fail{sig: "reread", want: fmt.Sprintf("id=%d pid=%d", wid, pid), got: fmt.Sprintf("id=%d sec=%d", id, sec),
				note: fmt.Sprintf("ReadNextTailBucket(shard %d)", s)}, nil
		}
		if id != 0 {
			if r.issued[s][id] {
				return &verifC09Fail{sig: "ids", want: "fresh id", got: id, note: "ReadNextTailBucket returned an id already in use"}, nil
			}
			r.issued[s][id] = true
			r.idmap[s][wid] = id
			r.idpid[s][wid] = pid
			if c := r.content[s][pid]; c.sec != sec {
				return &verifC09Fail{sig: "reread", want: fmt.Sprintf("pid=%d sec=%d", pid, c.sec), got: fmt.Sprintf("sec=%d", sec),
					note: fmt.Sprintf("ReadNextTailBucket(shard %d)", s)}, nil
			}
		}
		if err := r.noteWrite(s, pre, false); err != nil {
			return nil, err
		}
	case "Tick":
		sh := r.dc.shards[s]
		sh.mu.Lock()
		sh.writingFileCreatedTs = sh.writingFileCreatedTs.Add(-fileRotateInterval)
		sh.mu.Unlock()
	case "Restart":
		if err := r.dc.Close(); err != nil {
			return nil, err
		}
		r.lastW = nil
		if err := r.open(); err != nil {
			return nil, err
		}
	case "Crash":
		if r.lastW == nil {
			return nil, fmt.Errorf("crash step without a recorded write")
		}
		state, n, _, err := verifC09Torn(r.lastW, st.Int("k"))
		if err != nil {
			return nil, err
		}
		if st.Int("k") > n {
			return nil, fmt.Errorf("crash offset %d beyond the write of %d bytes", st.Int("k"), n)
		}
		if err := r.dc.Close(); err != nil {
			return nil, err
		}
		r.dropFDs()
		if err := verifC09WriteDir(r.shardDir(r.lastW.s), state); err != nil {
			return nil, err
		}
		r.lastW = nil
		if err := r.open(); err != nil {
			return nil, err
		}
	case "Corrupt":
		pid := st.Int("pid")
		names, err := verifC09List(r.shardDir(s))
		if err != nil {
			return nil, err
		}
		done := false
		for _, nm := range names {
			p := filepath.Join(r.shardDir(s), nm)
			b, err := os.ReadFile(p)
			if err != nil {
				return nil, err
			}
			c := r.content[s][pid]
			for _, rec := range verifC09Parse(nm, b).recs {
				if !done && rec.st == "good" && rec.sec == c.sec && bytes.Equal(rec.body, c.body) && len(rec.body) > 0 {
					fd, err := os.OpenFile(p, os.O_RDWR, 0)
					if err != nil {
						return nil, err
					}
					off := rec.pos + headerSize + int64(len(rec.body))/2
					_, err = fd.WriteAt([]byte{b[off] ^ 0x40}, off)
					fd.Close()
					if err != nil {
						return nil, err
					}
					done = true
				}
			}
		}
		if !done {
			return nil, fmt.Errorf("record of pid %d to corrupt not found", pid)
		}
		r.lastW = nil
	default:
		return nil, fmt.Errorf("unknown action %q", st.Act())
	}
	if f := r.compare(st.Post()); f != nil {
		return f, nil
	}
	return nil, nil
}

// the end of a behaviour: what a restart (and a crash at every byte of the last write) re-reads
func (r *verifC09Run) finalCheck(b []verifkit.Step, res *verifkit.Result, sweepKs []int) (*verifC09Fail, int, error) {
	last := b[len(b)-1]
	post := last.Post()
	var prev map[string]any
	if len(b) > 1 {
		prev = b[len(b)-2].Post()
	}
	cur := make([]verifC09Snap, r.n)
	for s := 0; s < r.n; s++ {
		sn, err := r.snapshot(s)
		if err != nil {
			return nil, 0, err
		}
		cur[s] = sn
	}
	type variant struct {
		k, n int
		kind string
		st   verifC09Snap
	}
	variants := []variant{{k: -1}}
	wrote := r.lastW != nil && r.lastWAt == len(b)-1 && (last.Act() == "Put" || last.Act() == "Erase" || last.Act() == "Get")
	if wrote {
		_, n, kind, err := verifC09Torn(r.lastW, 0)
		if err != nil {
			return nil, 0, err
		}
		ks := sweepKs
		if ks == nil {
			for k := 0; k <= n; k++ {
				ks = append(ks, k)
			}
		}
		for _, k := range ks {
			if k > n {
				continue
			}
			stt, _, _, err := verifC09Torn(r.lastW, k)
			if err != nil {
				return nil, 0, err
			}
			variants = append(variants, variant{k: k, n: n, kind: kind, st: stt})
		}
	}
	checks := 0
	for _, v := range variants {
		dir, err := os.MkdirTemp(filepath.Dir(r.dir), "c09sweep-")
		if err != nil {
			return nil, 0, err
		}
		for s := 0; s < r.n; s++ {
			state := cur[s]
			if v.k >= 0 && s == r.lastW.s {
				state = v.st
			}
			if err := verifC09WriteDir(filepath.Join(dir, strconv.Itoa(s)), state); err != nil {
				return nil, 0, err
			}
		}
		got, unreadable, problem, err := verifC09Drain(dir, r.n, r.logf)
		os.RemoveAll(dir)
		if err != nil {
			return nil, 0, err
		}
		checks++
		where := "restart after the last step"
		if v.k >= 0 {
			where = fmt.Sprintf("crash after %d of %d bytes of the last write (%s)", v.k, v.n, v.kind)
		}
		if problem != "" {
			sig := "sizes"
			if !bytes.Contains([]byte(problem), []byte("after draining")) {
				sig = "ids"
			}
			return &verifC09Fail{sig: sig, got: problem, note: where}, checks, nil
		}
		for s := 0; s < r.n; s++ {
			p := verifC09Shard(post, s)
			live, opt, lost := verifC09Ints(p["live"]), verifC09Ints(p["opt"]), verifC09Ints(p["lost"])
			var alts [][]int
			if v.k < 0 || s != r.lastW.s {
				alts = [][]int{live}
			} else {
				var before []int
				if prev != nil {
					before = verifC09Ints(verifC09Shard(prev, s)["live"])
				}
				switch {
				case v.kind == "put" && v.k < v.n:
					alts = [][]int{before} // the torn second is missing, nothing else
				case v.kind == "put":
					alts = [][]int{live}
				case v.k == 0:
					alts = [][]int{before}
				case v.k == v.n:
					alts = [][]int{live}
				default: // erase torn in the middle: erased or not
					alts = [][]int{before, live}
				}
			}
			ok := false
			var missing []int
			for _, a := range alts {
				m, miss := r.matchLive(s, got[s], a, opt)
				if m {
					ok = true
				}
				if len(miss) > 0 {
					missing = miss
				}
			}
			if ok && unreadable[s] > 0 && len(lost) == 0 {
				return &verifC09Fail{sig: "unreadable second handed out", want: alts, got: unreadable[s],
					note: fmt.Sprintf("shard %d, %s: ReadNextTailBucket returned seconds GetBucket cannot deliver", s, where)}, checks, nil
			}
			if !ok {
				sig := "reread"
				// a second that is live before and after an erase write disappears when that write is torn
				if v.k >= 0 && v.kind == "erase" && len(missing) > 0 {
					sig = "torn-erase hides later records"
				}
				return &verifC09Fail{sig: sig, want: fmt.Sprintf("pids %v (optional %v)", alts, opt), got: r.describe(got[s], s),
					note: fmt.Sprintf("shard %d, %s", s, where)}, checks, nil
			}
		}
	}
	return nil, checks, nil
}

func verifC09HasHalf(post map[string]any, s int) bool {
	p := verifC09Shard(post, s)
	if p == nil {
		return false
	}
	files, _ := p["files"].([]any)
	for _, f := range files {
		recs, _ := f.(map[string]any)["recs"].([]any)
		for _, rc := range recs {
			if rc.(map[string]any)["st"] == "half" {
				return true
			}
		}
	}
	return false
}

func verifC09NumShards(b []verifkit.Step) int {
	n := 0
	for k := range b[0].Post() {
		if i, err := strconv.Atoi(k); err == nil && i+1 > n {
			n = i + 1
		}
	}
	return n
}

func verifC09Replay(t *testing.T, base string, idx int, b []verifkit.Step, res *verifkit.Result, sweepKs []int) error {
	dir, err := os.MkdirTemp(base, fmt.Sprintf("b%d-", idx))
	if err != nil {
		return err
	}
	defer os.RemoveAll(dir)
	r := &verifC09Run{dir: filepath.Join(dir, "cache"), n: verifC09NumShards(b), fds: map[string]*os.File{}}
	if err := os.MkdirAll(r.dir, 0o777); err != nil {
		return err
	}
	r.content = make([]map[int]verifC09Content, r.n)
	for i := range r.content {
		r.content[i] = map[int]verifC09Content{}
	}
	if err := r.open(); err != nil {
		return err
	}
	defer func() {
		r.dropFDs()
		if r.dc != nil {
			r.dc.Close()
		}
	}()
	report := func(i int, f *verifC09Fail) {
		sig := f.sig
		// the reader gives up on a file at a half-erased magic (candidate defect 14)
		if (sig == "reread" || sig == "files" || sig == "sizes" || sig == "erased file not deleted") && i < len(b) && verifC09HasHalf(b[i].Post(), b[i].Int("s")) {
			sig = "torn-erase hides later records"
		}
		res.Mismatch(verifkit.Mismatch{Beh: b[:min(i+1, len(b))], Step: i, Want: f.want, Got: f.got, Sig: sig, Note: f.note})
	}
	for i, st := range b {
		r.cur = i
		f, err := r.step(st)
		if err != nil {
			return fmt.Errorf("behaviour %d step %d (%s): %v", idx, i, st.Act(), err)
		}
		res.Count("steps:"+st.Act(), 1)
		if f != nil {
			if f.sig == "machinery" {
				return fmt.Errorf("behaviour %d step %d: %s", idx, i, f.note)
			}
			report(i, f)
			return nil
		}
	}
	f, nchecks, err := r.finalCheck(b, res, sweepKs)
	if err != nil {
		return fmt.Errorf("behaviour %d final check: %v", idx, err)
	}
	res.Count("restart_and_tear_checks", nchecks)
	if f != nil {
		res.Mismatch(verifkit.Mismatch{Beh: b, Step: len(b), Want: f.want, Got: f.got, Sig: f.sig, Note: f.note})
	}
	return nil
}

func TestVerifC09(t *testing.T) {
	verifkit.Gate(t)
	res := verifkit.NewResult()
	defer res.Write(t)
	res.Consts["headerSize"] = headerSize
	res.Consts["fileRotateSize"] = fileRotateSize
	res.Consts["magicLen"] = 4
	common := 0
	g, d := verifC09MagicBytes(magicGoodBucket), verifC09MagicBytes(magicDeletedBucket)
	for common < 4 && g[common] == d[common] {
		common++
	}
	res.Consts["magicCommon"] = common
	res.Consts["fileRotateIntervalSec"] = int(fileRotateInterval.Seconds())
	behs := verifkit.LoadBehaviours(t)
	base := verifkit.TmpDir(t, "c09-")
	var sweepKs []int
	if os.Getenv("VERIF_C09_BIG") == "1" { // 17 MiB bodies: a few offsets instead of every byte
		sweepKs = []int{0, 3, 4, 20, 1 << 20, 17825811, 17825812}
	}
	workers := verifkit.EnvInt("VERIF_C09_WORKERS", 6)
	var wg sync.WaitGroup
	var mu sync.Mutex
	var firstErr error
	next := 0
	for w := 0; w < workers; w++ {
		wg.Add(1)
		go func() {
			defer wg.Done()
			for {
				mu.Lock()
				i := next
				next++
				stop := firstErr != nil
				mu.Unlock()
				if stop || i >= len(behs) {
					return
				}
				if len(behs[i]) == 0 {
					continue
				}
				err := verifC09Replay(t, base, i, behs[i], res, sweepKs)
				mu.Lock()
				if err != nil && firstErr == nil {
					firstErr = err
				}
				if err == nil {
					res.Replayed++
					res.Steps += len(behs[i])
				}
				mu.Unlock()
			}
		}()
	}
	wg.Wait()
	if firstErr != nil {
		res.Note("driver error: %v", firstErr)
		res.Counters["driver_errors"]++
	}
	for i := 0; i < len(behs) && i < 3; i++ {
		var acts []string
		for _, s := range behs[len(behs)-1-i] {
			acts = append(acts, s.Act())
		}
		res.Sample(fmt.Sprint(acts))
	}
}
