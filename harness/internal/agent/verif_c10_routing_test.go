package agent

// C10 harness (white box).  The grid points exported by TLC from specs/Routing.tla are
// evaluated on the real code and written, inputs plus the code's outputs, as lines for
// specs/RoutingTrace.tla (which judges them with the property invariants of Routing.tla):
//
//   shard    sharding.Shard, Agent.shard (real *Agent with N shards and the by-metric count the
//            aggregator hands out), MetricMetaValue.Sharded/.Shard, and the server the API's
//            ClickHouse.Select picks (a real chutil.ClickHouse over 3*N fake addresses, called
//            with a cancelled context so it returns right after choosing shard and host)
//   replica  Agent.getShardReplicaForSecond for t and t+3 on real ShardReplicas with the
//            alive pattern set
//
// The tags-hash strategy cannot be driven to a given hash, so for it (grid points with that
// strategy and many seeded random ones) real keys are generated and the line carries the key's
// real hash.  Random metas / ids / shard counts / timestamps extend the grid.

import (
	"context"
	"fmt"
	"path/filepath"
	"strings"
	"testing"
	"time"

	"github.com/ClickHouse/ch-go"

	"github.com/VKCOM/statshouse/internal/chutil"
	"github.com/VKCOM/statshouse/internal/data_model"
	"github.com/VKCOM/statshouse/internal/format"
	"github.com/VKCOM/statshouse/internal/sharding"
	"github.com/VKCOM/statshouse/internal/verifkit"
)

type verifC10Sh struct {
	Shard  int  `json:"shard"`
	Ok     bool `json:"ok"`
	Shard2 int  `json:"shard2"`
}
type verifC10Raw struct {
	Shard int  `json:"shard"`
	Ok    bool `json:"ok"`
}
type verifC10ShardLine struct {
	A        string        `json:"a"`
	N        int           `json:"N"`
	S        int           `json:"S"`
	Fk       int           `json:"fk"`
	Strat    string        `json:"strat"`
	Num      int           `json:"num"`
	Fk2      int           `json:"fk2"`
	Id       int           `json:"id"`
	Hi       int           `json:"hi"`
	Lo       int           `json:"lo"`
	Ts       []int         `json:"ts"`
	Sh       []verifC10Sh  `json:"sh"`
	Raw      []verifC10Raw `json:"raw"`
	Msharded bool          `json:"msharded"`
	Mshard   int           `json:"mshard"`
	Api      int           `json:"api"`
}
type verifC10Sel struct {
	Idx   int  `json:"idx"`
	Spare bool `json:"spare"`
}
type verifC10ReplicaLine struct {
	A     string      `json:"a"`
	N     int         `json:"N"`
	Shn   int         `json:"shn"`
	T     int         `json:"t"`
	Alive []bool      `json:"alive"`
	Out   verifC10Sel `json:"out"`
	Out3  verifC10Sel `json:"out3"`
}

// one real agent skeleton and one real API ClickHouse handle per cluster configuration
type verifC10Cluster struct {
	agent *Agent
	ch    *chutil.ClickHouse
	addrs map[string]int // fake server address -> index
}

func verifC10NewAgent(n int, cnt uint32) *Agent {
	a := &Agent{shardByMetricCount: cnt}
	for i := 0; i < n; i++ {
		a.Shards = append(a.Shards, &Shard{agent: a, ShardNum: i, ShardKey: int32(i) + 1})
	}
	for i := 0; i < 3*n; i++ {
		a.ShardReplicas = append(a.ShardReplicas, &ShardReplica{agent: a, ShardReplicaNum: i, ShardKey: int32(i/3) + 1, ReplicaKey: int32(i%3) + 1})
	}
	return a
}

func verifC10NewCluster(t *testing.T, n, s int) *verifC10Cluster {
	// what agents get is what the aggregator computes from its flag (MakeAggregator: 0 -> number
	// of shards; bound to the real aggregator by the "config" lines of the aggregator harness)
	eff := s
	if eff == 0 {
		eff = n
	}
	cl := &verifC10Cluster{agent: verifC10NewAgent(n, uint32(eff)), addrs: map[string]int{}}
	var addrs []string
	for i := 0; i < 3*n; i++ {
		ad := fmt.Sprintf("127.0.0.%d:%d", 100+i/3, 9000+i%3) // never dialed
		addrs = append(addrs, ad)
		cl.addrs[ad] = i
	}
	ch, err := chutil.OpenClickHouse(chutil.ChConnOptions{
		Addrs:               addrs,
		User:                "verif",
		DialTimeout:         time.Second,
		SelectTimeout:       time.Second,
		ShardByMetricShards: s, // "a copy from aggregator's config"
		MaxShardConnsRatio:  100,
		ConnLimits: chutil.ConnLimits{FastLightMaxConns: 4, FastHeavyMaxConns: 4, SlowLightMaxConns: 4,
			SlowHeavyMaxConns: 4, SlowHardwareMaxConns: 4, FastHardwareMaxConns: 4},
		RateLimitConfig: chutil.RateLimitConfig{RateLimitDisable: true, RecalcInterval: time.Hour, WindowDuration: time.Hour},
	})
	if err != nil {
		t.Fatalf("OpenClickHouse: %v", err)
	}
	cl.ch = ch
	return cl
}

var verifC10Cancelled = func() context.Context {
	ctx, cancel := context.WithCancel(context.Background())
	cancel()
	return ctx
}()

// apiShard: what the API does for a metric - handler.go passes Sharded: metric.Sharded() and the
// metric; chutil decides.  Returns the 0-based shard the chosen server belongs to, or -1 if
// the API did not restrict the query to one shard.
func (cl *verifC10Cluster) apiShard(t *testing.T, meta *format.MetricMetaValue, lane int) int {
	info, err := cl.ch.Select(verifC10Cancelled, chutil.QueryMetaInto{
		IsFast: lane&1 != 0, IsLight: lane&2 != 0, IsHardware: lane&4 != 0,
		User: "verif", Metric: meta, Sharded: meta.Sharded(), Table: "t",
	}, ch.Query{Body: "SELECT 1"})
	if err == nil {
		t.Fatalf("Select with a cancelled context succeeded")
	}
	idx, ok := cl.addrs[info.Host]
	if !ok {
		t.Fatalf("Select picked no server: host %q err %v", info.Host, err)
	}
	if info.Shard == 0 {
		return -1
	}
	if idx/3 != info.Shard-1 {
		// the reported shard and the server queried disagree: report the server's shard, that is
		// where the data is read from
		return idx / 3
	}
	return info.Shard - 1
}

func verifC10Key(id int, ts int, salt uint64) data_model.Key {
	k := data_model.Key{Timestamp: uint32(ts), Metric: int32(id)}
	x := salt*0x9E3779B97F4A7C15 + 1
	for i := 0; i < 6; i++ {
		x ^= x >> 29
		x *= 0xBF58476D1CE4E5B9
		k.Tags[i] = int32(x >> 33)
	}
	if salt%3 == 0 {
		k.STags[7] = fmt.Sprintf("s%d", salt)
	}
	return k
}

func (cl *verifC10Cluster) evalShard(t *testing.T, ln *verifC10ShardLine, salt uint64, lane int) {
	meta := &format.MetricMetaValue{MetricID: int32(ln.Id), ShardStrategy: ln.Strat, ShardNum: uint32(ln.Num),
		ShardFixedKey: uint32(ln.Fk), ShardFixedKey2: uint32(ln.Fk2)}
	if len(ln.Ts) > 0 { // some of the key timestamps are before, some after the secondary shard's start
		meta.ShardFixedKey2Timestamp = uint32(ln.Ts[int(salt)%len(ln.Ts)])
	}
	var scratch []byte
	for i, ts := range ln.Ts {
		key := verifC10Key(ln.Id, ts, salt)
		if ln.Strat == format.ShardByTagsHash {
			_, h := key.XXHash(nil)
			hi, lo := int(h>>48), int(h>>32&0xFFFF)
			if i == 0 { // should the hash move with the timestamp, the shards below will tell
				ln.Hi, ln.Lo = hi, lo
			}
		}
		var sc *[]byte
		if i%2 == 1 {
			sc = &scratch
		}
		rs, rok := sharding.Shard(&key, meta, cl.agent.shardByMetricCount, sc)
		ln.Raw = append(ln.Raw, verifC10Raw{int(rs), rok})
		s1, ok, s2 := cl.agent.shard(&key, meta, sc)
		o := verifC10Sh{Shard: -2, Ok: ok, Shard2: -1}
		if s1 != nil {
			o.Shard = s1.ShardNum
			if cl.agent.Shards[s1.ShardNum] != s1 {
				o.Shard = -3
			}
		}
		if s2 != nil {
			o.Shard2 = s2.ShardNum
		}
		ln.Sh = append(ln.Sh, o)
	}
	ln.Msharded = meta.Sharded()
	// MetricMetaValue.Shard with the count the API uses (chutil: its flag, 0 -> number of shards)
	apiCnt := ln.S
	if apiCnt == 0 {
		apiCnt = ln.N
	}
	ln.Mshard = meta.Shard(apiCnt)
	ln.Api = cl.apiShard(t, meta, lane)
}

func (cl *verifC10Cluster) evalReplica(ln *verifC10ReplicaLine) {
	for i, al := range ln.Alive {
		cl.agent.ShardReplicas[i].alive.Store(al)
	}
	sel := func(tt int) verifC10Sel {
		sr, spare := cl.agent.getShardReplicaForSecond(ln.Shn, uint32(tt))
		if sr == nil {
			return verifC10Sel{-1, spare}
		}
		idx := sr.ShardReplicaNum
		if cl.agent.ShardReplicas[idx] != sr {
			idx = -2
		}
		return verifC10Sel{idx, spare}
	}
	ln.Out, ln.Out3 = sel(ln.T), sel(ln.T+3)
}

func TestVerifC10Routing(t *testing.T) {
	verifkit.Gate(t)
	res := verifkit.NewResult()
	defer res.Write(t)
	rnd := verifkit.Rand(10)
	clusters := map[[2]int]*verifC10Cluster{}
	defer func() {
		for _, cl := range clusters {
			cl.ch.Close()
		}
	}()
	cluster := func(n, s int) *verifC10Cluster {
		k := [2]int{n, s}
		if clusters[k] == nil {
			clusters[k] = verifC10NewCluster(t, n, s)
		}
		return clusters[k]
	}
	var lines []any
	salt := uint64(verifkit.Seed()) * 1000
	extraTs := func(ts []int) []int { // the grid's timestamps plus seeded random ones
		out := append([]int{}, ts...)
		for i := 0; i < 2; i++ {
			out = append(out, rnd.Intn(1<<31-1))
		}
		return out
	}
	ints := func(v any) []int {
		var out []int
		if a, ok := v.([]any); ok {
			for _, x := range a {
				if f, ok := x.(float64); ok {
					out = append(out, int(f))
				}
			}
		}
		return out
	}
	for _, b := range verifkit.LoadBehaviours(t) {
		for _, s := range b {
			switch s.Act() {
			case "shard":
				salt++
				ln := &verifC10ShardLine{A: "shard", N: s.Int("N"), S: s.Int("S"), Fk: s.Int("fk"), Strat: s.Str("strat"),
					Num: s.Int("num"), Fk2: s.Int("fk2"), Id: s.Int("id"), Hi: s.Int("hi"), Lo: s.Int("lo"), Ts: extraTs(ints(s["ts"]))}
				cluster(ln.N, ln.S).evalShard(t, ln, salt, int(salt%8))
				lines = append(lines, ln)
				res.Replayed++
				res.Steps += len(ln.Ts)
				res.Seen(fmt.Sprintf("shard/%s/fk%v/fk2%v", ln.Strat, ln.Fk > 0, ln.Fk2 > 0))
			case "replica":
				ln := &verifC10ReplicaLine{A: "replica", N: s.Int("N"), Shn: s.Int("shn"), T: s.Int("t")}
				if a, ok := s["alive"].([]any); ok {
					for _, x := range a {
						bv, _ := x.(bool)
						ln.Alive = append(ln.Alive, bv)
					}
				}
				if len(ln.Alive) != 3*ln.N {
					t.Fatalf("bad replica point %v", s)
				}
				cluster(ln.N, 0).evalReplica(ln)
				lines = append(lines, ln)
				res.Replayed++
				res.Steps += 2
				res.Seen("replica")
			}
		}
	}
	// seeded random extension with larger clusters and arbitrary ids / hashes / times
	nrand := verifkit.EnvInt("VERIF_NRANDOM", 2000)
	strats := []string{format.ShardByTagsHash, format.ShardFixed, format.ShardByMetricID, format.ShardBuiltinDist, "bogus"}
	for i := 0; i < nrand; i++ {
		n := 1 + rnd.Intn(8)
		if i%10 == 0 {
			n = 16
		}
		s := rnd.Intn(n + 1)
		cl := cluster(n, s)
		salt++
		if i%4 == 3 {
			ln := &verifC10ReplicaLine{A: "replica", N: n, Shn: rnd.Intn(n), T: rnd.Intn(1<<31 - 10)}
			for j := 0; j < 3*n; j++ {
				ln.Alive = append(ln.Alive, rnd.Intn(3) != 0)
			}
			cl.evalReplica(ln)
			lines = append(lines, ln)
			res.Steps += 2
			res.Count("random_replica", 1)
			continue
		}
		ln := &verifC10ShardLine{A: "shard", N: n, S: s, Strat: strats[rnd.Intn(len(strats))], Num: rnd.Intn(n + 2),
			Id: int(int32(rnd.Uint32()))}
		if i%2 == 0 {
			ln.Strat = format.ShardByTagsHash // the strategy the grid cannot enumerate
		}
		if ln.Id == -1<<31 {
			ln.Id++
		}
		if rnd.Intn(4) == 0 {
			ln.Fk = 1 + rnd.Intn(n+1)
		}
		if rnd.Intn(2) == 0 {
			ln.Fk2 = 1 + rnd.Intn(n+1)
		}
		for j := 0; j < 4; j++ {
			ln.Ts = append(ln.Ts, rnd.Intn(1<<31-1))
		}
		cl.evalShard(t, ln, salt, int(salt%8))
		lines = append(lines, ln)
		res.Steps += len(ln.Ts)
		res.Count("random_shard", 1)
		res.Seen(fmt.Sprintf("shard/%s/fk%v/fk2%v", ln.Strat, ln.Fk > 0, ln.Fk2 > 0))
	}
	p := filepath.Join(verifkit.TmpDir(t, "c10-routing-"), "routing.ndjson")
	if err := verifkit.WriteNDJSON(p, lines); err != nil {
		t.Fatal(err)
	}
	res.Files = append(res.Files, p)
	res.Consts["strategies"] = strings.Join([]string{format.ShardByTagsHash, format.ShardFixed, format.ShardByMetricID, format.ShardBuiltinDist}, ",")
	if len(lines) > 0 {
		res.Sample(lines[0])
		res.Sample(lines[len(lines)-1])
	}
}
