package agent

// C02 at the agent call site (S->I).  The behaviours exported by TLC from specs/RowTransfer.tla
// (sample factor 1, keys whose timestamp is not in the future) are sent through a real
// agent.Shard: ApplyCounter / ApplyValues / ApplyUnique (string-top value in tag 47), then the
// real Shard.sampleBucket with an ample budget.  The tlstatshouse.MultiItem it emits is written
// with WriteTL1, read back as MultiItemBytes and merged into an empty aggregator item with the
// real KeyFromStatshouseMultiItem + MergeWithTLMultiItem; the result is compared with the
// specification's post state (exported API of data_model only).

import (
	"encoding/binary"
	"encoding/json"
	"fmt"
	"math"
	"sync"
	"testing"

	"pgregory.net/rand"

	"github.com/VKCOM/statshouse/internal/data_model"
	"github.com/VKCOM/statshouse/internal/data_model/gen2/tlstatshouse"
	"github.com/VKCOM/statshouse/internal/format"
	"github.com/VKCOM/statshouse/internal/pcache"
	"github.com/VKCOM/statshouse/internal/verifkit"
)

type verifC02MV struct {
	Cnt  int      `json:"cnt"`
	CntH int      `json:"cntH"`
	Set  bool     `json:"set"`
	Min  int      `json:"min"`
	Max  int      `json:"max"`
	Sum  int      `json:"sum"`
	Sq   int      `json:"sq"`
	MinH int      `json:"minH"`
	MaxH int      `json:"maxH"`
	Cent [][2]int `json:"cent"`
	Uniq []int    `json:"uniq"`
	ACnt []int    `json:"aCnt"`
	AMin []int    `json:"aMin"`
	AMax []int    `json:"aMax"`
	Imp  []int    `json:"imp"`
}
type verifC02Top struct {
	K int        `json:"k"`
	V verifC02MV `json:"v"`
}
type verifC02Row struct {
	Tail verifC02MV    `json:"tail"`
	Top  []verifC02Top `json:"top"`
}
type verifC02Shape struct {
	ID   int      `json:"id"`
	Kind string   `json:"kind"`
	Cnt  int      `json:"cnt"`
	Vals []int    `json:"vals"`
	Hist [][2]int `json:"hist"`
	Host int      `json:"host"`
	Top  int      `json:"top"`
}
type verifC02Key struct {
	ID     int     `json:"id"`
	Metric int32   `json:"metric"`
	Ts     uint32  `json:"ts"`
	Warn   string  `json:"warn"`
	Tags   [][]any `json:"tags"`
	STags  [][]any `json:"stags"`
}

func (k *verifC02Key) key() data_model.Key {
	key := data_model.Key{Metric: k.Metric, Timestamp: k.Ts}
	for _, p := range k.Tags {
		key.Tags[int(p[0].(float64))] = int32(p[1].(float64))
	}
	for _, p := range k.STags {
		key.STags[int(p[0].(float64))] = p[1].(string)
	}
	return key
}

func verifC02Conv(v any, out any) {
	b, _ := json.Marshal(v)
	_ = json.Unmarshal(b, out)
}

var verifC02Hosts = map[int]data_model.TagUnion{0: {}, 1: {I: 101}, 2: {I: 102}, 3: {S: "h3"}, 9: {I: 109}}

func verifC02HostID(t data_model.TagUnion) int {
	for id, h := range verifC02Hosts {
		if h == t {
			return id
		}
	}
	return -1
}

func verifC02MakeAgent(config Config, nowUnix uint32) *Agent {
	agent := &Agent{
		config:        config,
		logF:          func(f string, a ...any) {},
		mappingsCache: pcache.NewMappingsCache(data_model.NewChunkedStorageNop(), 1024*1024, 86400),
		componentTag:  format.TagValueIDComponentAgent,
	}
	agent.Shards = make([]*Shard, 2)
	for i := range agent.Shards {
		// SendTime = CurrentTime: late timestamps are "sent immediately", i.e. land in the current bucket
		shard := &Shard{ShardNum: i, config: config, agent: agent, CurrentTime: nowUnix, SendTime: nowUnix, rng: rand.New(uint64(verifkit.Seed()) + uint64(i))}
		for j := 0; j < superQueueLen; j++ {
			shard.SuperQueue[j] = &data_model.MetricsBucket{}
		}
		shard.cond = sync.NewCond(&shard.mu)
		shard.metricBudgetsFromAgg = data_model.NewExpDecay(config.BudgetDecayHalfLife)
		agent.Shards[i] = shard
	}
	agent.shardByMetricCount = uint32(len(agent.Shards))
	agent.initBuiltInMetrics()
	return agent
}

type verifC02Got struct {
	Cnt, Min, Max, Sum, Sq float64
	Set                    bool
	CntH, MinH, MaxH       int
	Cent                   map[float64]float64
	NUniq, Skip            int
}

func verifC02Project(mv *data_model.MultiValue) verifC02Got {
	g := verifC02Got{Cnt: mv.Value.Count(), Min: mv.Value.ValueMin, Max: mv.Value.ValueMax, Sum: mv.Value.ValueSum,
		Sq: mv.Value.ValueSumSquare, Set: mv.Value.ValueSet, CntH: verifC02HostID(mv.Value.MaxCounterHostTag),
		MinH: verifC02HostID(mv.Value.MinHostTag), MaxH: verifC02HostID(mv.Value.MaxHostTag), Cent: map[float64]float64{}}
	if mv.ValueTDigest != nil {
		for _, c := range mv.ValueTDigest.Centroids() {
			g.Cent[c.Mean] += c.Weight
		}
	}
	b := mv.HLL.MarshallAppend(nil)
	g.Skip = int(b[0])
	n, _ := binary.Uvarint(b[1:])
	g.NUniq = int(n)
	return g
}

func verifC02Close(got float64, want int, den int, tol float64) bool {
	w := float64(want) / float64(den)
	return math.Abs(got-w) <= tol*math.Max(1, math.Abs(w))
}

func verifC02Compare(g *verifC02Got, w *verifC02MV, den int) []string {
	var bad []string
	add := func(c bool, f string) {
		if !c {
			bad = append(bad, f)
		}
	}
	add(g.Cnt == float64(w.Cnt), "count")
	add(g.Set == w.Set, "valueSet")
	if w.Set && g.Set {
		add(g.Min == float64(w.Min), "min")
		add(g.Max == float64(w.Max), "max")
		add(verifC02Close(g.Sum, w.Sum, den, 1e-9), "sum")
		add(verifC02Close(g.Sq, w.Sq, den, 1e-9), "sumsquare")
		add(g.MinH == w.MinH, "minHost")
		add(g.MaxH == w.MaxH, "maxHost")
	}
	if w.Cnt > 0 {
		add(g.CntH == w.CntH, "maxCountHost")
	}
	uq := map[int]bool{}
	for _, v := range w.Uniq {
		uq[v] = true
	}
	add(g.NUniq == len(uq) && g.Skip == 0, "uniques")
	if len(w.Imp) == 3 {
		ok := len(g.Cent) == 1
		for v, wt := range g.Cent {
			ok = ok && v >= float64(w.Imp[0]) && v <= float64(w.Imp[1]) && verifC02Close(wt, w.Imp[2], den, 1e-6)
		}
		add(ok, "centroids")
	} else {
		ok := len(g.Cent) == len(w.Cent)
		for _, c := range w.Cent {
			wt, has := g.Cent[float64(c[0])]
			ok = ok && has && verifC02Close(wt, c[1], den, 1e-6)
		}
		add(ok, "centroids")
	}
	return bad
}

func verifC02TopKey(id int) data_model.TagUnion {
	if id == 1 {
		return data_model.TagUnion{S: "a"}
	}
	return data_model.TagUnion{I: 77}
}

func TestVerifC02Agent(t *testing.T) {
	verifkit.Gate(t)
	res := verifkit.NewResult()
	defer res.Write(t)
	den := verifkit.EnvInt("VERIF_DEN", 6)
	nowUnix := uint32(verifkit.EnvInt("VERIF_BUCKET", 1700000000))
	behs := verifkit.LoadBehaviours(t)
	if len(behs) == 0 || behs[0][0].Act() != "Tables" {
		t.Fatalf("first input line must be the tables")
	}
	var shapeList []verifC02Shape
	var keyList []verifC02Key
	verifC02Conv(behs[0][0]["shapes"], &shapeList)
	verifC02Conv(behs[0][0]["keys"], &keyList)
	shapes := map[int]*verifC02Shape{}
	for i := range shapeList {
		shapes[shapeList[i].ID] = &shapeList[i]
	}
	keys := map[int]*verifC02Key{}
	for i := range keyList {
		keys[keyList[i].ID] = &keyList[i]
	}
	config := DefaultConfig()
	config.SampleBudget = 10_000_000
	agent := verifC02MakeAgent(config, nowUnix)
	shard := agent.Shards[0]
	rng := rand.New(uint64(verifkit.Seed()) + 3)
	agentHost := verifC02Hosts[9]
	var buffers data_model.SamplerBuffers
	var scratch []byte
	budgetScratch, sizeScratch := map[int32]uint32{}, map[int32]uint32{}
	for bi, b := range behs[1:] {
		init, last := b[0], b[len(b)-1]
		kd := keys[init.Int("key")]
		if last.Int("sf") != 1 || kd.Ts > nowUnix {
			continue
		}
		perc := init.Bool("perc")
		mi := &format.MetricMetaValue{MetricID: kd.Metric, EffectiveResolution: 1, HasPercentiles: perc}
		var events []int
		for _, st := range b[1 : len(b)-1] {
			e := shapes[st.Int("s")]
			events = append(events, e.ID)
			key := kd.key()
			if e.Top != 0 {
				key.SetTagUnion(format.StringTopTagIndexV3, verifC02TopKey(e.Top))
			}
			host := verifC02Hosts[e.Host]
			switch e.Kind {
			case "C":
				shard.ApplyCounter(&key, 0, float64(e.Cnt), host, mi, 0)
			case "V":
				values := make([]float64, len(e.Vals))
				for i, v := range e.Vals {
					values[i] = float64(v)
				}
				var histogram [][2]float64
				for _, h := range e.Hist {
					histogram = append(histogram, [2]float64{float64(h[0]), float64(h[1])})
				}
				shard.ApplyValues(&key, 0, histogram, values, float64(e.Cnt), host, mi, 0)
			case "U":
				hashes := make([]int64, len(e.Vals))
				for i, v := range e.Vals {
					hashes[i] = int64(v)
				}
				shard.ApplyUnique(&key, 0, hashes, float64(e.Cnt), host, mi, 0)
			}
			res.Steps++
		}
		cs := map[string]any{"key": kd.ID, "perc": perc, "events": events, "sf": 1}
		var pre, post verifC02Row
		var kpost verifC02Key
		verifC02Conv(last["pre"], &pre)
		verifC02Conv(last["post"], &post)
		verifC02Conv(last["kpost"], &kpost)
		bucket := shard.SuperQueue[nowUnix%superQueueLen]
		bucket.Time = nowUnix
		// take the specification's concrete choice for the random max-count host
		var row *data_model.MultiItem
		for _, it := range bucket.MultiItems {
			if it.Key.Metric == kd.Metric {
				row = it
			}
		}
		if row == nil {
			t.Fatalf("behaviour %d: the shard did not file the row in the current bucket", bi)
		}
		preCells := map[data_model.TagUnion]*verifC02MV{{}: &pre.Tail}
		for i := range pre.Top {
			preCells[verifC02TopKey(pre.Top[i].K)] = &pre.Top[i].V
		}
		drift := len(preCells) != len(row.Top)+1
		for k, w := range preCells {
			mv := &row.Tail
			if !k.Empty() {
				mv = row.Top[k]
			}
			if mv == nil || mv.Value.Count() != float64(w.Cnt) {
				drift = true
				continue
			}
			mv.Value.MaxCounterHostTag = verifC02Hosts[w.CntH]
			if w.Set {
				mv.Value.MinHostTag, mv.Value.MaxHostTag = verifC02Hosts[w.MinH], verifC02Hosts[w.MaxH]
			}
		}
		if drift {
			res.Count("drift", 1)
			res.Note("row built by the real Shard.Apply* differs from the specification's: case %v", cs)
			clear(bucket.MultiItems)
			continue
		}
		var sb tlstatshouse.SourceBucket3
		buffers, scratch = shard.sampleBucket(bucket, &sb, buffers, scratch, budgetScratch, sizeScratch, rng)
		var sent []tlstatshouse.MultiItem
		for _, it := range sb.Metrics {
			if it.Metric == kd.Metric {
				sent = append(sent, it)
			}
		}
		// builtin rows sampleBucket files for this second would pile up in the queue
		for _, sh := range agent.Shards {
			for _, q := range sh.SuperQueue {
				clear(q.MultiItems)
			}
		}
		if len(sent) != 1 {
			res.Mismatch(verifkit.Mismatch{Beh: cs, Step: len(events) + 1, Want: "one item for the row", Got: len(sent), Sig: "agent-transfer-row-count"})
			continue
		}
		wire := sent[0].WriteTL1(nil)
		var rd tlstatshouse.MultiItemBytes
		if _, err := rd.ReadTL1(wire); err != nil {
			res.Mismatch(verifkit.Mismatch{Beh: cs, Step: len(events) + 1, Want: "decodable", Got: err.Error(), Sig: "agent-transfer-undecodable"})
			continue
		}
		gotKey, _ := data_model.KeyFromStatshouseMultiItem(&rd, nowUnix)
		for i, str := range rd.Skeys {
			if i < format.MaxTags {
				gotKey.STags[i] = string(str)
			}
		}
		agg := &data_model.MultiItem{}
		if is := agg.MergeWithTLMultiItem(rng, data_model.AggregatorStringTopCapacity, &rd, agentHost); is != 0 {
			res.Mismatch(verifkit.Mismatch{Beh: cs, Step: len(events) + 1, Want: "no ingestion error", Got: is, Sig: "agent-transfer-ingestion-error"})
			continue
		}
		postCells := map[data_model.TagUnion]*verifC02MV{{}: &post.Tail}
		for i := range post.Top {
			postCells[verifC02TopKey(post.Top[i].K)] = &post.Top[i].V
		}
		failed := len(agg.Top)+1 != len(postCells)
		if failed {
			res.Mismatch(verifkit.Mismatch{Beh: cs, Step: len(events) + 1, Want: post, Got: fmt.Sprint(len(agg.Top)), Sig: "agent-transfer-top-keys"})
		}
		for k, w := range postCells {
			if failed {
				break
			}
			mv := &agg.Tail
			if !k.Empty() {
				mv = agg.Top[k]
			}
			if mv == nil {
				res.Mismatch(verifkit.Mismatch{Beh: cs, Step: len(events) + 1, Want: w, Got: "missing string-top entry", Sig: "agent-transfer-top-keys"})
				failed = true
				break
			}
			g := verifC02Project(mv)
			if bad := verifC02Compare(&g, w, den); len(bad) != 0 {
				res.Mismatch(verifkit.Mismatch{Beh: cs, Step: len(events) + 1, Want: w, Got: fmt.Sprintf("%+v", g), Sig: "agent-transfer-" + bad[0],
					Note: fmt.Sprintf("string-top key %+v fields %v", k, bad)})
				failed = true
			}
		}
		if wantKey := kpost.key(); !failed && gotKey != wantKey {
			res.Mismatch(verifkit.Mismatch{Beh: cs, Step: len(events) + 1, Want: fmt.Sprintf("%+v", wantKey), Got: fmt.Sprintf("%+v", gotKey), Sig: "agent-transfer-key"})
		}
		res.Replayed++
		res.Seen(fmt.Sprintf("k%d/p%v/n%d", kd.ID, perc, len(events)))
	}
}
