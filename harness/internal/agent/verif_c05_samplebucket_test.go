package agent

// C05 at the agent call site: Shard.sampleBucket (agent_shard_send.go).  Every row of the bucket
// must leave exactly once (sent row, ok_cached ingestion status, or discarded); a sent row's
// counter is its true counter times the sample factor the sampler attached (>= 1); rows of a
// NoSampleAgent metric are always sent unscaled; bytes are accounted to the metric the row is
// billed to (ingestion statuses to the metric they describe).

import (
	"fmt"
	"sync"
	"testing"

	"pgregory.net/rand"

	"github.com/VKCOM/statshouse/internal/data_model"
	"github.com/VKCOM/statshouse/internal/data_model/gen2/tlstatshouse"
	"github.com/VKCOM/statshouse/internal/format"
	"github.com/VKCOM/statshouse/internal/pcache"
	"github.com/VKCOM/statshouse/internal/verifkit"
)

const verifC05SigAgent = "agent: sampleBucket loses a row, sends it twice or scales a not-to-sample row"

type verifC05AgentStorage struct {
	m map[int32]*format.MetricMetaValue
}

func (s verifC05AgentStorage) GetMetaMetric(id int32) *format.MetricMetaValue     { return s.m[id] }
func (s verifC05AgentStorage) GetMetaMetricByName(string) *format.MetricMetaValue { return nil }
func (s verifC05AgentStorage) GetGroup(int32) *format.MetricsGroup                { return nil }
func (s verifC05AgentStorage) GetNamespace(int32) *format.NamespaceMeta           { return nil }
func (s verifC05AgentStorage) GetNamespaceByName(string) *format.NamespaceMeta    { return nil }
func (s verifC05AgentStorage) GetGroupByName(string) *format.MetricsGroup         { return nil }

func verifC05MakeAgent(config Config, nowUnix uint32, st format.MetaStorageInterface) *Agent {
	agent := &Agent{
		config:        config,
		logF:          func(f string, a ...any) {},
		mappingsCache: pcache.NewMappingsCache(data_model.NewChunkedStorageNop(), 1024*1024, 86400),
		componentTag:  format.TagValueIDComponentAgent,
		metricStorage: st,
	}
	agent.Shards = make([]*Shard, 3)
	for i := range agent.Shards {
		shard := &Shard{ShardNum: i, config: config, agent: agent, CurrentTime: nowUnix, SendTime: nowUnix - 2}
		for j := 0; j < superQueueLen; j++ {
			shard.SuperQueue[j] = &data_model.MetricsBucket{}
		}
		shard.cond = sync.NewCond(&shard.mu)
		shard.metricBudgetsFromAgg = data_model.NewExpDecay(config.BudgetDecayHalfLife)
		agent.Shards[i] = shard
	}
	agent.shardByMetricCount = uint32(len(agent.Shards))
	agent.initBuiltInMetrics()
	return agent
}

func verifC05Counter(it *tlstatshouse.MultiItem) float64 {
	if it.Tail.IsSetCounterEq1(it.FieldsMask) {
		return 1
	}
	if it.Tail.IsSetCounter(it.FieldsMask) {
		return it.Tail.Counter
	}
	return 0
}

func TestVerifC05AgentSampleBucket(t *testing.T) {
	verifkit.Gate(t)
	res := verifkit.NewResult()
	defer res.Write(t)
	rnd := rand.New(uint64(verifkit.Seed()) + 9)
	const nowUnix = uint32(1000 * 24 * 3600)
	n := verifkit.EnvInt("VERIF_N", 60)
	fail := func(c any, format string, a ...any) {
		res.Mismatch(verifkit.Mismatch{Beh: c, Want: verifC05SigAgent, Got: fmt.Sprintf(format, a...), Sig: verifC05SigAgent})
	}
	for iter := 0; iter < n; iter++ {
		config := DefaultConfig()
		config.SampleNamespaces, config.SampleGroups, config.SampleKeys = rnd.Intn(2) == 0, rnd.Intn(2) == 0, rnd.Intn(2) == 0
		config.SampleBudgets = rnd.Intn(2) == 0
		config.SampleKeepSingle = rnd.Intn(4) == 0
		config.DisableNoSampleAgent = rnd.Intn(5) == 0
		config.MinSampleBudget = 1
		st := verifC05AgentStorage{m: map[int32]*format.MetricMetaValue{}}
		nMetrics := 2 + rnd.Intn(6)
		for m := 1; m <= nMetrics; m++ {
			st.m[int32(m)] = &format.MetricMetaValue{MetricID: int32(m), NamespaceID: int32(rnd.Intn(3)), GroupID: int32(rnd.Intn(3)),
				EffectiveWeight: int64(1 + rnd.Intn(3)), EffectiveResolution: 1, NoSampleAgent: rnd.Intn(4) == 0}
		}
		isMeta := format.BuiltinMetrics[format.BuiltinMetricIDIngestionStatus]
		bucket := &data_model.MetricsBucket{Time: nowUnix, MultiItemMap: data_model.MultiItemMap{MultiItems: map[string]*data_model.MultiItem{}}}
		type row struct {
			item    *data_model.MultiItem
			count   float64
			cached  bool
			nsa     bool
			account int32
			size    int
			id      string
		}
		var rows []*row
		var total int
		add := func(key data_model.Key, meta *format.MetricMetaValue, account int32) {
			cnt := float64(1 + rnd.Intn(50))
			item := &data_model.MultiItem{Key: key, SF: 1, MetricMeta: meta} // as GetOrCreateMultiItem creates rows
			item.Tail.Value.AddCounter(cnt)
			r := &row{item: item, count: cnt, account: account, nsa: meta.NoSampleAgent}
			r.cached = key.Metric == format.BuiltinMetricIDIngestionStatus && key.Tags[2] == format.TagValueIDSrcIngestionStatusOKCached
			r.size = key.TLSizeEstimate(nowUnix) + item.TLSizeEstimate()
			r.id = fmt.Sprint(key.Metric, key.TagSlice())
			bucket.MultiItems[fmt.Sprint(len(rows))] = item
			rows = append(rows, r)
			if !r.cached && !r.nsa {
				total += r.size
			}
		}
		for m := 1; m <= nMetrics; m++ {
			for k, nr := 0, 1+rnd.Intn(12); k < nr; k++ {
				key := data_model.Key{Timestamp: nowUnix, Metric: int32(m)}
				key.Tags[1], key.Tags[2] = int32(1+rnd.Intn(3)), int32(1000+len(rows))
				add(key, st.m[int32(m)], int32(m))
			}
			for k, nr := 0, rnd.Intn(3); k < nr; k++ { // ingestion statuses billed to metric m
				key := data_model.Key{Timestamp: nowUnix, Metric: format.BuiltinMetricIDIngestionStatus}
				key.Tags[0], key.Tags[1], key.Tags[3] = 1, int32(m), int32(1000+len(rows))
				key.Tags[2] = format.TagValueIDSrcIngestionStatusOKCached
				if rnd.Intn(2) == 0 {
					key.Tags[2] = format.TagValueIDSrcIngestionStatusOKCached + 1
				}
				add(key, isMeta, int32(m))
			}
		}
		switch rnd.Intn(4) {
		case 0:
			config.SampleBudget = 3 * (total + 100) * 3 // fits: budget is divided by the number of shards
		default:
			config.SampleBudget = 3 * (1 + rnd.Intn(total+1))
		}
		agent := verifC05MakeAgent(config, nowUnix, st)
		shard := agent.Shards[0]
		var fixed int64
		if rnd.Intn(2) == 0 {
			shard.metricBudgetsFromAgg.MergeMax(func(f func(k int32, v uint32)) {
				for m := 1; m <= nMetrics; m++ {
					if rnd.Intn(3) == 0 {
						b := uint32(1 + rnd.Intn(400))
						f(int32(m), b)
						fixed += int64(b)
					}
				}
			})
		}
		desc := map[string]any{"iter": iter, "rows": len(rows), "budget": config.SampleBudget, "budgets": config.SampleBudgets,
			"ns": config.SampleNamespaces, "grp": config.SampleGroups, "keys": config.SampleKeys, "single": config.SampleKeepSingle}
		sb := tlstatshouse.SourceBucket3{}
		func() {
			defer func() {
				if p := recover(); p != nil {
					fail(desc, "panic: %v", p)
				}
			}()
			shard.sampleBucket(bucket, &sb, data_model.SamplerBuffers{}, nil, map[int32]uint32{}, map[int32]uint32{}, rnd)
		}()
		sent := map[string][]float64{}
		for i := range sb.Metrics {
			it := &sb.Metrics[i]
			id := fmt.Sprint(it.Metric, it.Keys)
			sent[id] = append(sent[id], verifC05Counter(it))
		}
		cached := map[string]float64{}
		for _, s := range sb.IngestionStatusOk2 {
			cached[fmt.Sprint(s.Env, s.Metric)] += float64(s.Value)
		}
		wantCached := map[string]float64{}
		billed := map[int32]uint32{}
		nSampled := 0
		for _, r := range rows {
			got := sent[r.id]
			switch {
			case r.cached:
				wantCached[fmt.Sprint(r.item.Key.Tags[0], r.item.Key.Tags[1])] += r.count
				if len(got) != 0 {
					fail(desc, "ok_cached ingestion status row %s sent as a metric row", r.id)
				}
			case r.nsa:
				if len(got) != 1 || got[0] != r.count {
					fail(desc, "NoSampleAgent row %s (counter %v) sent as %v", r.id, r.count, got)
				}
			default:
				billed[r.account] += uint32(r.size)
				if len(got) > 1 {
					fail(desc, "row %s sent %d times", r.id, len(got))
				} else if len(got) == 1 {
					if r.item.SF < 1 || got[0] != r.count*r.item.SF {
						fail(desc, "row %s counter %v sent as %v with SF %v", r.id, r.count, got[0], r.item.SF)
					}
					if r.item.SF > 1 {
						nSampled++
					}
				} else {
					nSampled++
					if r.item.SF <= 1 {
						fail(desc, "row %s discarded with SF %v", r.id, r.item.SF)
					}
				}
			}
		}
		for k, v := range wantCached {
			if cached[k] != v {
				fail(desc, "ok_cached statuses %s: counter %v sent as %v", k, v, cached[k])
			}
		}
		if len(sent) > len(rows) {
			fail(desc, "%d distinct rows sent, bucket had %d", len(sent), len(rows))
		}
		// bytes are billed to the metric a row is accounted to, once
		seen := map[int32]bool{}
		for _, sf := range sb.SampleFactors {
			if seen[sf.Metric] {
				fail(desc, "metric %d has two sample factor entries", sf.Metric)
			}
			seen[sf.Metric] = true
			if sf.OriginalSize != billed[sf.Metric] {
				fail(desc, "metric %d original size %d, its rows (with ingestion statuses) have %d bytes", sf.Metric, sf.OriginalSize, billed[sf.Metric])
			}
		}
		for m, b := range billed {
			if b != 0 && !seen[m] {
				fail(desc, "metric %d (%d bytes) has no original size entry", m, b)
			}
		}
		// everything fits => nothing sampled
		perShard := int64((config.SampleBudget + 2) / 3)
		// (the agent subtracts the budgets received from the aggregator from the shard budget whether or not
		// SampleBudgets is on, so the claim is only made when none were received)
		if int64(total) <= perShard-fixed && fixed == 0 && nSampled != 0 {
			fail(desc, "bucket of %d bytes fits the shard budget %d but %d rows were sampled", total, perShard, nSampled)
		}
		res.Replayed++
		res.Steps += len(rows)
		res.Seen(fmt.Sprint(config.SampleBudgets, config.SampleNamespaces, config.SampleGroups, config.SampleKeys, nSampled > 0))
		res.Sample(desc)
	}
}
