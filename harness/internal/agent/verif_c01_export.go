//go:build verif

package agent

// Injected by /verif (overlay) for the C01 conformance driver only.  The repository's agent has
// no way to stop its goroutines (Close is a TODO) because the process simply exits after the
// shutdown sequence; an in-process restart needs the equivalent of that exit.

// VerifExit emulates process exit after the graceful shutdown sequence: nothing more leaves the
// old instance (its replicas are pointed at a dead address and marked dead; requests already
// at an aggregator stay there, as they would after a real exit) and the disk cache with its
// lock file is released so that a new Agent can open the same cache directory.  The send
// context is deliberately NOT cancelled: goEraseHistoric returns on cancellation with its
// mutex already unlocked under a deferred Unlock (fatal "unlock of unlocked mutex"; unreachable
// in production because nothing ever cancels that context).
func (s *Agent) VerifExit() {
	for _, sr := range s.ShardReplicas {
		sr.mu.Lock()
		sr.clientField.Address = "127.0.0.1:1"
		sr.mu.Unlock()
		sr.alive.Store(false)
	}
	s.cancelFlushFunc()
	if s.diskBucketCache != nil {
		_ = s.diskBucketCache.Close()
	}
}
