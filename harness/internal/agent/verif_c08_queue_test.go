package agent

// C08 conformance driver (injected by /verif/tools via -overlay; see /verif/DESIGN.md and
// /verif/specs/AgentQueue.tla).
//
// S->I: behaviours of specs/AgentQueue.tla instantiated with the code's real constants
// (128 / 3 / 120, AgentWindow 1.3 s) and exported by TLC are replayed on real Agents/Shards built
// the way Test_AgentQueue builds them.  Every behaviour runs on TWO agents:
//   A  empty mapping cache, tags in canonical order with canonical keys;
//   B  mapping cache that knows every tag value, tags in a seeded random order, addressed by
//      name / by number / (sometimes) by the legacy "keyN" alias, sometimes with an unknown tag.
// Events of kind "metric" take the real path Agent.Map -> Agent.ApplyMetric (counter / value /
// unique payloads, so ApplyCounter, ApplyValues and ApplyUnique are all exercised), events of kind
// "api" the builtin path (AddCounterS, AddValueCounterS, MergeItemValue, AddCounterHostAERA).
// The spread index the specification chose for an event is realised by searching a tag value
// whose real OriginalHash lands in that index (the search runs once, on agent A's header).
// After every step the abstract state - CurrentTime, SendTime, channel occupancy and the set of
// (shard, ring index, event, key timestamp) read white-box from SuperQueue - must equal the state
// the specification expects, on both agents (hence the two agents coincide).  Buckets are read
// from BucketsToPreprocess; every row of every bucket (also rows of builtin metrics) is checked
// for Timestamp <= bucket.Time and Timestamp % resolution == 0.

import (
	"encoding/json"
	"fmt"
	"math"
	"os"
	"sort"
	"strconv"
	"strings"
	"sync"
	"testing"
	"time"

	"pgregory.net/rand"

	"github.com/VKCOM/statshouse/internal/data_model"
	"github.com/VKCOM/statshouse/internal/data_model/gen2/tl"
	"github.com/VKCOM/statshouse/internal/data_model/gen2/tlstatshouse"
	"github.com/VKCOM/statshouse/internal/format"
	"github.com/VKCOM/statshouse/internal/pcache"
	"github.com/VKCOM/statshouse/internal/verifkit"
)

const (
	verifC08MapEv   = 1000000 // mapping of "e<id>"
	verifC08MapX    = 2000000 // mapping of "x<j>"
	verifC08MapMisc = 3000000
	verifC08MaxEv   = 4096
	verifC08MaxX    = 2048
)

type verifC08MetricSpec struct {
	ID    int    `json:"id"`
	Res   int    `json:"res"`
	Sh    int    `json:"sh"`
	Sh2   int    `json:"sh2"`
	From2 uint32 `json:"from2"`
}

type verifC08Config struct {
	QLen    int                  `json:"qlen"`
	Future  int                  `json:"future"`
	Spread  int                  `json:"spread"`
	NShards int                  `json:"nshards"`
	T0      uint32               `json:"t0"`
	Timing  int                  `json:"timing_shard"`
	Metrics []verifC08MetricSpec `json:"metrics"`
}

type verifC08Env struct {
	name    string
	mapped  bool
	agent   *Agent
	metas   map[int]*format.MetricMetaValue
	rnd     *rand.Rand
	scratch []byte
	closed  bool
	// property-level observations on the real code, independent of the specification's state:
	delivered map[[2]int]int // (shard, event) -> buckets handed to the preprocessor that carried it
	facts     []verifC08Fact // broken row-level facts seen so far
}

// verifC08Fact is a violation of the property observed on the real code alone (no comparison with the
// specification): a row in a bucket stamped later than the bucket, a timestamp that is not a multiple of
// the resolution, an event delivered twice or never.
type verifC08Fact struct{ sig, msg string }

// Specification metrics 50..69 / 70..89 are "hardware" metrics (MetricID <= -1000, fast / slow): their
// resolution is not the metric's own (60 here) but the one configured in the shard.
func verifC08Hardware(id int) (hw, slow bool) { return id >= 50 && id < 90, id >= 70 && id < 90 }

func verifC08MetricID(id int) int32 {
	if hw, _ := verifC08Hardware(id); hw {
		return int32(-1000 - id)
	}
	return int32(id)
}

func verifC08SpecID(metric int32) int {
	if format.HardwareMetric(metric) {
		return int(-metric) - 1000
	}
	return int(metric)
}

func verifC08Meta(ms verifC08MetricSpec, nshards int) (*format.MetricMetaValue, error) {
	m := &format.MetricMetaValue{
		MetricID:   verifC08MetricID(ms.ID),
		Name:       "verif_c08_m" + strconv.Itoa(ms.ID),
		Kind:       format.MetricKindMixed,
		Resolution: ms.Res,
		Tags: []format.MetricMetaTag{{}, {Name: "ev"}, {Name: "x"}, {Name: "r", RawKind: "uint"}, {Name: "y"}},
	}
	hw, slow := verifC08Hardware(ms.ID)
	if hw {
		m.Resolution = 60
		m.IsHardwareSlowMetric = slow
	}
	// three ways of fixing the primary shard, all must agree with the specification's `sh`
	switch {
	case hw || ms.ID%3 == 0:
		m.ShardFixedKey = uint32(ms.Sh)
	case ms.ID%3 == 1:
		m.ShardStrategy = format.ShardFixed
		m.ShardNum = uint32(ms.Sh - 1)
	default:
		if ms.ID%nshards == ms.Sh-1 {
			m.ShardStrategy = format.ShardByMetricID
		} else {
			m.ShardFixedKey = uint32(ms.Sh)
		}
	}
	if ms.Sh2 != 0 {
		m.ShardFixedKey2 = uint32(ms.Sh2)
		m.ShardFixedKey2Timestamp = ms.From2
	}
	if err := m.RestoreCachedInfo(); err != nil {
		return nil, err
	}
	if !hw && m.EffectiveResolution != ms.Res {
		return nil, fmt.Errorf("resolution %d is not an allowed resolution (effective %d)", ms.Res, m.EffectiveResolution)
	}
	return m, nil
}

func verifC08FullCache(now uint32) *pcache.MappingsCache {
	c := pcache.NewMappingsCache(data_model.NewChunkedStorageNop(), 1<<30, 86400*365)
	pairs := make([]pcache.MappingPair, 0, verifC08MaxEv+verifC08MaxX+4)
	for i := 0; i < verifC08MaxEv; i++ {
		pairs = append(pairs, pcache.MappingPair{Str: "e" + strconv.Itoa(i), Value: int32(verifC08MapEv + i)})
	}
	for i := 0; i < verifC08MaxX; i++ {
		pairs = append(pairs, pcache.MappingPair{Str: "x" + strconv.Itoa(i), Value: int32(verifC08MapX + i)})
	}
	pairs = append(pairs, pcache.MappingPair{Str: "prod", Value: verifC08MapMisc + 1}, pcache.MappingPair{Str: "const", Value: verifC08MapMisc + 2})
	for len(pairs) > 0 { // AddValues is meant for small batches
		n := min(len(pairs), 512)
		c.AddValues(now, pairs[:n])
		pairs = pairs[n:]
	}
	return c
}

var verifC08Metas map[int]*format.MetricMetaValue // built once: metric descriptions are immutable

func verifC08NewEnv(cfg *verifC08Config, name string, cache *pcache.MappingsCache, mapped bool, salt int64, lag int, full bool) (*verifC08Env, error) {
	config := Config{}
	agent := &Agent{
		config:                            config,
		logF:                              func(f string, a ...any) {},
		mappingsCache:                     cache,
		shardByMetricCount:                uint32(cfg.NShards),
		builtinMetricMetaUsageCPU:         *format.BuiltinMetricMetaUsageCPU,
		builtinMetricMetaUsageMemory:      *format.BuiltinMetricMetaUsageMemory,
		builtinMetricMetaHeartbeatVersion: *format.BuiltinMetricMetaHeartbeatVersion,
		componentTag:                      format.TagValueIDComponentAgent,
		cancelFlushFunc:                   func() {},
		// addBuiltins (queue sizes, cache statistics ... of the previous second) would put rows
		// outside the model into the ring; it only runs when the clock passes beforeFlushTime
		beforeFlushTime: math.MaxUint32,
	}
	rng := rand.New(uint64(salt) + 17)
	for i := 0; i < cfg.NShards; i++ {
		shard := &Shard{
			config:      config,
			agent:       agent,
			ShardNum:    i,
			ShardKey:    int32(i) + 1,
			rng:         rng,
			CurrentTime: cfg.T0,
			SendTime:    cfg.T0 - uint32(lag), // 2: as MakeAgent
		}
		for j := 0; j < superQueueLen; j++ {
			shard.SuperQueue[j] = &data_model.MetricsBucket{}
		}
		shard.hardwareMetricResolutionResolved.Store(1)
		shard.hardwareSlowMetricResolutionResolved.Store(1)
		for _, ms := range cfg.Metrics {
			if hw, slow := verifC08Hardware(ms.ID); hw && slow {
				shard.hardwareSlowMetricResolutionResolved.Store(int32(ms.Res))
			} else if hw {
				shard.hardwareMetricResolutionResolved.Store(int32(ms.Res))
			}
		}
		shard.cond = sync.NewCond(&shard.mu)
		shard.BucketsToPreprocess = make(chan *data_model.MetricsBucket, 1) // as MakeAgent
		if full {                                                           // the preprocessor has not taken the previous second yet
			shard.BucketsToPreprocess <- &data_model.MetricsBucket{Time: cfg.T0 - uint32(lag) - 1}
		}
		agent.Shards = append(agent.Shards, shard)
	}
	agent.initBuiltInMetrics()
	if verifC08Metas == nil {
		metas := map[int]*format.MetricMetaValue{}
		for _, ms := range cfg.Metrics {
			m, err := verifC08Meta(ms, cfg.NShards)
			if err != nil {
				return nil, err
			}
			metas[ms.ID] = m
		}
		verifC08Metas = metas
	}
	env := &verifC08Env{name: name, mapped: mapped, agent: agent, metas: verifC08Metas, rnd: rand.New(uint64(salt)), delivered: map[[2]int]int{}}
	for _, ms := range cfg.Metrics {
		m := env.metas[ms.ID]
		// shard selection of the real code must be the specification's
		key := data_model.Key{Metric: m.MetricID}
		s1, ok, s2 := agent.shard(&key, m, nil)
		if !ok || s1.ShardNum != ms.Sh-1 || (ms.Sh2 != 0 && ms.Sh2 != ms.Sh && (s2 == nil || s2.ShardNum != ms.Sh2-1)) || ((ms.Sh2 == 0 || ms.Sh2 == ms.Sh) && s2 != nil) {
			return nil, fmt.Errorf("shard selection: metric %d expected shards %d/%d", ms.ID, ms.Sh, ms.Sh2)
		}
	}
	return env, nil
}

// ---------------------------------------------------------------------------- projection

// verifC08ItemID maps a row of the ring to the specification's item id (0, false: a row the
// model does not know).
func (e *verifC08Env) itemID(k *data_model.Key) (int, bool) {
	if m, ok := e.metas[verifC08SpecID(k.Metric)]; ok && m.MetricID == k.Metric {
		if s := k.STags[1]; s != "" {
			if !strings.HasPrefix(s, "e") {
				return 0, false
			}
			n, err := strconv.Atoi(s[1:])
			return n, err == nil
		}
		if k.Tags[1] >= verifC08MapEv && k.Tags[1] < verifC08MapEv+verifC08MaxEv {
			return int(k.Tags[1] - verifC08MapEv), true
		}
		return 0, false
	}
	switch k.Metric {
	case format.BuiltinMetricIDIngestionStatus:
		m := verifC08SpecID(k.Tags[1])
		if mm, ok := e.metas[m]; !ok || mm.MetricID != k.Tags[1] {
			return 0, false
		}
		if k.Tags[2] == format.TagValueIDSrcIngestionStatusWarnTimestampClampedFuture {
			return -(100 + m), true
		}
		return -m, true
	case format.BuiltinMetricMetaTimingErrors.MetricID:
		if k.Tags[1] == format.TagValueIDTimingMissedSecondsAgent {
			return -200, true
		}
	}
	return 0, false
}

type verifC08State struct {
	Cur  []int    `json:"cur"`
	Send []int    `json:"send"`
	Ch   []int    `json:"ch"`
	Ring [][4]int `json:"ring"`
}

// sorted set: status / warning rows of one metric and second are one item of the specification
func verifC08SortRing(r [][4]int) [][4]int {
	sort.Slice(r, func(i, j int) bool {
		for k := 0; k < 4; k++ {
			if r[i][k] != r[j][k] {
				return r[i][k] < r[j][k]
			}
		}
		return false
	})
	out := r[:0]
	for i, x := range r {
		if i == 0 || x != r[i-1] {
			out = append(out, x)
		}
	}
	return out
}

func (e *verifC08Env) project() (verifC08State, error) {
	var st verifC08State
	st.Ring = [][4]int{}
	for si, sh := range e.agent.Shards {
		sh.mu.Lock()
		st.Cur = append(st.Cur, int(sh.CurrentTime))
		st.Send = append(st.Send, int(sh.SendTime))
		ch := -1
		if !e.closed && len(sh.BucketsToPreprocess) != 0 {
			// peek: take and put back (single-threaded driver, capacity 1)
			b := <-sh.BucketsToPreprocess
			ch = int(b.Time)
			e.facts = append(e.facts, verifC08RowFacts(b)...) // it has been handed to sending: the row facts must hold
			sh.BucketsToPreprocess <- b
		}
		st.Ch = append(st.Ch, ch)
		for i, b := range sh.SuperQueue {
			for _, it := range b.MultiItems {
				id, ok := e.itemID(&it.Key)
				if !ok {
					sh.mu.Unlock()
					return st, fmt.Errorf("row outside the model in shard %d slot %d: metric %d tags %v", si+1, i, it.Key.Metric, it.Key.Tags[:6])
				}
				st.Ring = append(st.Ring, [4]int{si + 1, i, id, int(it.Key.Timestamp)})
			}
		}
		sh.mu.Unlock()
	}
	st.Ring = verifC08SortRing(st.Ring)
	return st, nil
}

func verifC08Ints(v any) []int {
	a, _ := v.([]any)
	r := make([]int, 0, len(a))
	for _, x := range a {
		f, _ := x.(float64)
		r = append(r, int(f))
	}
	return r
}

func verifC08WantState(post map[string]any) verifC08State {
	st := verifC08State{Cur: verifC08Ints(post["cur"]), Send: verifC08Ints(post["send"]), Ch: verifC08Ints(post["ch"]), Ring: [][4]int{}}
	ring, _ := post["ring"].([]any)
	for _, x := range ring {
		t := verifC08Ints(x)
		if len(t) == 4 {
			st.Ring = append(st.Ring, [4]int{t[0], t[1], t[2], t[3]})
		}
	}
	st.Ring = verifC08SortRing(st.Ring)
	return st
}

type verifC08Bucket struct {
	Time  int      `json:"time"`
	Items [][2]int `json:"items"`
}

func verifC08SortItems(r [][2]int) [][2]int {
	sort.Slice(r, func(i, j int) bool {
		if r[i][0] != r[j][0] {
			return r[i][0] < r[j][0]
		}
		return r[i][1] < r[j][1]
	})
	out := r[:0]
	for i, x := range r {
		if i == 0 || x != r[i-1] {
			out = append(out, x)
		}
	}
	return out
}

func verifC08WantBucket(v any) verifC08Bucket {
	m, _ := v.(map[string]any)
	t, _ := m["time"].(float64)
	b := verifC08Bucket{Time: int(t), Items: [][2]int{}}
	items, _ := m["items"].([]any)
	for _, x := range items {
		p := verifC08Ints(x)
		if len(p) == 2 {
			b.Items = append(b.Items, [2]int{p[0], p[1]})
		}
	}
	b.Items = verifC08SortItems(b.Items)
	return b
}

// verifC08RowFacts checks the row-level facts of the property on EVERY row of a bucket handed to sending
// (also rows of metrics the model does not number).
func verifC08RowFacts(b *data_model.MetricsBucket) []verifC08Fact {
	var facts []verifC08Fact
	for _, it := range b.MultiItems {
		if it.Key.Timestamp > b.Time {
			facts = append(facts, verifC08Fact{"prop:NotEarly", fmt.Sprintf("row of metric %d stamped %d delivered in the earlier bucket %d (bucket.Time < Key.Timestamp)", it.Key.Metric, it.Key.Timestamp, b.Time)})
		}
		if it.MetricMeta != nil && !format.HardwareMetric(it.MetricMeta.MetricID) && it.MetricMeta.EffectiveResolution > 1 &&
			it.Key.Timestamp%uint32(it.MetricMeta.EffectiveResolution) != 0 {
			facts = append(facts, verifC08Fact{"prop:Rounded", fmt.Sprintf("row of metric %d resolution %d stamped %d: not a multiple", it.Key.Metric, it.MetricMeta.EffectiveResolution, it.Key.Timestamp)})
		}
	}
	return facts
}

// bucket projects a bucket taken by the preprocessor (shard si, 0-based), records the facts it breaks and
// counts the deliveries of every event.
func (e *verifC08Env) bucket(si int, b *data_model.MetricsBucket) (verifC08Bucket, []string) {
	res := verifC08Bucket{Time: int(b.Time), Items: [][2]int{}}
	var bad []string
	e.facts = append(e.facts, verifC08RowFacts(b)...)
	for _, it := range b.MultiItems {
		id, ok := e.itemID(&it.Key)
		if !ok {
			bad = append(bad, fmt.Sprintf("row outside the model in bucket %d: metric %d", b.Time, it.Key.Metric))
			continue
		}
		res.Items = append(res.Items, [2]int{id, int(it.Key.Timestamp)})
		if id > 0 {
			e.delivered[[2]int{si + 1, id}]++
			if n := e.delivered[[2]int{si + 1, id}]; n > 1 {
				e.facts = append(e.facts, verifC08Fact{"prop:ExactlyOnce", fmt.Sprintf("event %d of shard %d delivered in %d buckets (last: %d)", id, si+1, n, b.Time)})
			}
		}
	}
	res.Items = verifC08SortItems(res.Items)
	return res, bad
}

// ---------------------------------------------------------------------------- events

type verifC08Tag struct{ name, num, legacy, val string }

// tagsFor builds the original tag set of event id with the free value "x<j>".
func verifC08Tags(id, j int) []verifC08Tag {
	return []verifC08Tag{
		{"0", "0", "key0", "prod"},
		{"ev", "1", "key1", "e" + strconv.Itoa(id)},
		{"x", "2", "key2", "x" + strconv.Itoa(j)},
		{"r", "3", "key3", strconv.Itoa(id*7 + 1)},
		{"y", "4", "key4", "const"},
	}
}

func (e *verifC08Env) metricBytes(meta *format.MetricMetaValue, ts uint32, id, j int, canonical bool) *tlstatshouse.MetricBytes {
	m := &tlstatshouse.MetricBytes{Name: []byte(meta.Name), Ts: ts}
	tags := verifC08Tags(id, j)
	if !canonical {
		e.rnd.Shuffle(len(tags), func(a, b int) { tags[a], tags[b] = tags[b], tags[a] })
	}
	for _, t := range tags {
		key := t.name
		if !canonical {
			switch e.rnd.Intn(8) {
			case 0, 1, 2:
				key = t.num
			case 3:
				key = t.legacy // deprecated alias: only adds a warning row next to the status row
			}
		}
		m.Tags = append(m.Tags, tl.DictFieldStringStringBytes{Key: []byte(key), Value: []byte(t.val)})
	}
	if !canonical && e.rnd.Intn(4) == 0 {
		// a tag the metric does not have: warning row through AddCounterHostStringBytesSrcIngestionStatus,
		// same second and slot as the status row; not part of the original values of a known tag
		m.Tags = append(m.Tags, tl.DictFieldStringStringBytes{Key: []byte("zzz"), Value: []byte("q")})
	}
	switch id % 3 {
	case 0:
		m.Counter = 1
	case 1:
		m.Value = []float64{float64(id)}
	default:
		m.Unique = []int64{int64(id), int64(id) + 1}
	}
	return m
}

func (e *verifC08Env) mapHeader(meta *format.MetricMetaValue, m *tlstatshouse.MetricBytes, clock time.Time) (*data_model.MappedMetricHeader, error) {
	// what worker.HandleMetrics does: fillTime, fillMetricMeta, Map
	h := &data_model.MappedMetricHeader{ReceiveTime: clock, MetricMeta: meta}
	if m.Ts != 0 {
		h.Key.Timestamp = m.Ts
	} else {
		h.Key.Timestamp = uint32(clock.Unix())
	}
	h.Key.Metric = meta.MetricID
	e.agent.Map(data_model.HandlerArgs{MetricBytes: m, Scratch: &e.scratch}, h, nil)
	if h.IngestionStatus != 0 {
		return nil, fmt.Errorf("mapping failed: %v", h.MapErrorFromHeader(m))
	}
	return h, nil
}

// verifC08FindJ searches the free tag value whose OriginalHash (of the real mapping of agent A)
// falls into spread index want.
func (e *verifC08Env) findJ(meta *format.MetricMetaValue, specRes int, ts uint32, id, want int, clock time.Time) (int, error) {
	res := uint64(specRes)
	for j := 0; j < verifC08MaxX; j++ {
		m := e.metricBytes(meta, ts, id, j, true)
		h, err := e.mapHeader(meta, m, clock)
		if err != nil {
			return 0, err
		}
		var hash uint64
		e.scratch, hash = h.OriginalHash(e.scratch)
		if int((hash&0xFFFFFFFF)*res>>32) == want {
			return j, nil
		}
	}
	return 0, fmt.Errorf("no tag value hashes into spread index %d of %d", want, res)
}

func (e *verifC08Env) event(kind string, metric int, ts uint32, id, j int, clock time.Time) error {
	meta := e.metas[metric]
	if meta == nil {
		return fmt.Errorf("unknown metric %d", metric)
	}
	if kind == "metric" {
		m := e.metricBytes(meta, ts, id, j, !e.mapped)
		h, err := e.mapHeader(meta, m, clock)
		if err != nil {
			return err
		}
		e.agent.ApplyMetric(m, h, &e.scratch)
		return nil
	}
	// builtin path: no mapping of the event, resolution hash 0
	tags := []int32{0, int32(verifC08MapEv + id), 0, int32(id*7 + 1)}
	stags := []string{"", "e" + strconv.Itoa(id), "x0"}
	switch id % 4 {
	case 0:
		e.agent.AddCounterS(ts, meta, []int32{0, 0, 0, int32(id*7 + 1)}, stags, 1)
	case 1:
		e.agent.AddValueCounterS(ts, meta, []int32{0, 0, 0, int32(id*7 + 1)}, stags, float64(id), 1)
	case 2:
		var iv data_model.ItemValue
		iv.AddValueCounter(float64(id), 1)
		e.agent.MergeItemValue(ts, meta, tags, &iv)
	default:
		e.agent.AddCounterHostAERA(ts, meta, tags, 2, data_model.TagUnion{}, data_model.AgentEnvRouteArch{})
	}
	return nil
}

// ---------------------------------------------------------------------------- replay

type verifC08Runner struct {
	cfg   *verifC08Config
	res   *verifkit.Result
	cache *pcache.MappingsCache
	res4  map[int]int // specification metric -> resolution
	spec4 map[int]verifC08MetricSpec
}

func verifC08Clock(sec int, half bool, r *rand.Rand) time.Time {
	// AgentWindow is 1.3 s: floor(now - 1.3) = sec - 2 below .3, sec - 1 from .3 on
	w := int64(data_model.AgentWindow - time.Second)
	var frac int64
	if half {
		frac = []int64{w, w + 1, int64(time.Second) - 1, w + int64(r.Intn(int(int64(time.Second)-w)))}[r.Intn(4)]
	} else {
		frac = []int64{0, w - 1, int64(r.Intn(int(w)))}[r.Intn(3)]
	}
	return time.Unix(int64(sec), frac)
}

func (rn *verifC08Runner) replay(t *testing.T, bi int, beh []verifkit.Step) (ok bool) {
	lag, full := 2, false
	if len(beh) > 0 && beh[0].Act() == "Init" {
		lag, full = beh[0].Int("lag"), beh[0].Bool("full")
	}
	envA, err := verifC08NewEnv(rn.cfg, "A:unmapped,canonical", pcache.NewMappingsCache(data_model.NewChunkedStorageNop(), 1<<20, 86400), false, int64(bi)*2+1, lag, full)
	if err != nil {
		rn.res.Count("driver_errors", 1)
		rn.res.Note("behaviour %d: %v", bi, err)
		return false
	}
	envB, err := verifC08NewEnv(rn.cfg, "B:mapped,permuted", rn.cache, true, verifkit.Seed()*7919+int64(bi)*2+2, lag, full)
	if err != nil {
		rn.res.Count("driver_errors", 1)
		rn.res.Note("behaviour %d: %v", bi, err)
		return false
	}
	envs := []*verifC08Env{envA, envB}
	crnd := rand.New(uint64(verifkit.Seed())*1000003 + uint64(bi))
	clock := time.Unix(int64(rn.cfg.T0), 0)
	mismatch := func(i int, env *verifC08Env, want, got any, note string) {
		rn.res.Mismatch(verifkit.Mismatch{Beh: beh, Step: i, Want: want, Got: got, Sig: "s2i:" + beh[i].Act(),
			Note: fmt.Sprintf("agent %s: %s", env.name, note)})
	}
	// the property observed on the real code alone (no comparison with the specification)
	factsOK := func(i int) bool {
		for _, env := range envs {
			if len(env.facts) != 0 {
				f := env.facts[0]
				var msgs []string
				for _, x := range env.facts {
					msgs = append(msgs, x.msg)
				}
				rn.res.Mismatch(verifkit.Mismatch{Beh: beh, Step: i, Want: "property " + f.sig[5:] + " on every bucket handed to sending", Got: msgs, Sig: f.sig,
					Note: fmt.Sprintf("agent %s: %s", env.name, f.msg)})
				return false
			}
		}
		return true
	}
	for i, st := range beh {
		act := st.Act()
		rn.res.Count("steps:"+act, 1)
		switch act {
		case "Init":
			continue
		case "Tick":
			clock = verifC08Clock(st.Int("sec"), st.Bool("half"), crnd)
			continue
		case "Event":
			metric, ts, id, want := st.Int("m"), uint32(st.Int("ts")), st.Int("id"), st.Int("h")
			kind := st.Str("kind")
			if id >= verifC08MaxEv {
				rn.res.Count("driver_errors", 1)
				rn.res.Note("behaviour %d: event id %d too big", bi, id)
				return false
			}
			j := 0
			if kind == "metric" && envA.metas[metric] != nil && rn.res4[metric] != 1 {
				if j, err = envA.findJ(envA.metas[metric], rn.res4[metric], ts, id, want, clock); err != nil {
					rn.res.Count("driver_errors", 1)
					rn.res.Note("behaviour %d step %d: %v", bi, i, err)
					return false
				}
			}
			for _, env := range envs {
				if err := env.event(kind, metric, ts, id, j, clock); err != nil {
					rn.res.Count("driver_errors", 1)
					rn.res.Note("behaviour %d step %d agent %s: %v", bi, i, env.name, err)
					return false
				}
			}
		case "Flush":
			for _, env := range envs {
				env.agent.Shards[st.Int("s")-1].flushBuckets(clock)
			}
		case "FlushAll":
			for _, env := range envs {
				env.agent.goFlushIteration(clock)
			}
		case "Consume":
			want := verifC08WantBucket(st["b"])
			for _, env := range envs {
				sh := env.agent.Shards[st.Int("s")-1]
				select {
				case b := <-sh.BucketsToPreprocess:
					got, bad := env.bucket(st.Int("s")-1, b)
					if !factsOK(i) {
						return false
					}
					if len(bad) != 0 {
						mismatch(i, env, want, got, strings.Join(bad, "; "))
						return false
					}
					if verifkit.Canon(got) != verifkit.Canon(want) {
						mismatch(i, env, want, got, "bucket handed to the preprocessor differs")
						return false
					}
				default:
					mismatch(i, env, want, nil, "no bucket in BucketsToPreprocess")
					return false
				}
			}
			continue
		case "Stop":
			for _, env := range envs {
				env.agent.ShutdownFlusher()
			}
			continue
		case "FlushAllData":
			outs, _ := st["outs"].([]any)
			wsend := verifC08Ints(st["send"])
			for _, env := range envs {
				got := make([][]verifC08Bucket, len(env.agent.Shards))
				badAll := make([][]string, len(env.agent.Shards))
				raw := make([][]*data_model.MetricsBucket, len(env.agent.Shards))
				var wg sync.WaitGroup
				for si, sh := range env.agent.Shards {
					wg.Add(1)
					go func() { // the preprocessor: takes buckets until the channel is closed
						defer wg.Done()
						for b := range sh.BucketsToPreprocess {
							raw[si] = append(raw[si], b)
						}
					}()
				}
				env.agent.FlushAllData()
				wg.Wait()
				env.closed = true
				for si := range raw {
					for _, b := range raw[si] {
						pb, bad := env.bucket(si, b)
						got[si] = append(got[si], pb)
						badAll[si] = append(badAll[si], bad...)
					}
				}
				// after the shutdown flush every event the shard accepted has been handed to sending
				for _, prev := range beh[:i] {
					if prev.Act() != "Event" {
						continue
					}
					ms := rn.spec4[prev.Int("m")]
					for k, sh := range []int{ms.Sh, ms.Sh2} {
						if ok := prev.Bool([]string{"ok1", "ok2"}[k]); ok && sh != 0 && env.delivered[[2]int{sh, prev.Int("id")}] == 0 {
							env.facts = append(env.facts, verifC08Fact{"prop:ExactlyOnce", fmt.Sprintf("event %d accepted by shard %d was never handed to sending", prev.Int("id"), sh)})
						}
					}
				}
				if !factsOK(i) {
					return false
				}
				for si := range env.agent.Shards {
					want := []verifC08Bucket{}
					if si < len(outs) {
						l, _ := outs[si].([]any)
						for _, x := range l {
							want = append(want, verifC08WantBucket(x))
						}
					}
					g := got[si]
					if g == nil {
						g = []verifC08Bucket{}
					}
					if len(badAll[si]) != 0 {
						mismatch(i, env, want, g, strings.Join(badAll[si], "; "))
						return false
					}
					if verifkit.Canon(g) != verifkit.Canon(want) {
						mismatch(i, env, want, g, fmt.Sprintf("shard %d: buckets flushed at shutdown differ", si+1))
						return false
					}
					if si < len(wsend) && int(env.agent.Shards[si].SendTime) != wsend[si] {
						mismatch(i, env, wsend, int(env.agent.Shards[si].SendTime), "SendTime after FlushAllData")
						return false
					}
				}
			}
			continue
		default:
			rn.res.Count("driver_errors", 1)
			rn.res.Note("behaviour %d: unknown action %q", bi, act)
			return false
		}
		post := st.Post()
		if post == nil {
			rn.res.Count("driver_errors", 1)
			rn.res.Note("behaviour %d step %d: no post state", bi, i)
			return false
		}
		want := verifC08WantState(post)
		for _, env := range envs {
			got, err := env.project()
			if !factsOK(i) {
				return false
			}
			if err != nil {
				rn.res.Count("driver_errors", 1)
				rn.res.Note("behaviour %d step %d agent %s: %v", bi, i, env.name, err)
				return false
			}
			if verifkit.Canon(got) != verifkit.Canon(want) {
				mismatch(i, env, want, got, "abstract state (CurrentTime, SendTime, channel, ring rows [shard, slot, event, timestamp]) differs")
				return false
			}
		}
		if act == "Event" {
			// classes for the distinct count: how the event was treated
			rn.res.Seen(fmt.Sprintf("ev:%s:m%d:ok1=%v:ok2=%v", st.Str("kind"), st.Int("m"), st.Bool("ok1"), st.Bool("ok2")))
		}
	}
	return true
}

// verifC08Consts reads the constants the specification is instantiated with from the code.  The gap
// literal has no name: it is measured, after checking that the gap is CurrentTime - SendTime - c.
func verifC08Consts(res *verifkit.Result) {
	res.Consts["superQueueLen"] = superQueueLen
	res.Consts["superQueueFutureSlots"] = superQueueFutureSlots
	probe := &Shard{CurrentTime: 100000, SendTime: 100000}
	g0 := probe.gapInReceivingQueueLocked()
	linear := true
	for _, d := range [][2]uint32{{100000, 99000}, {100500, 100495}, {200000, 200009}, {86400000, 86399994}, {5000, 5130}} {
		p := &Shard{CurrentTime: d[0], SendTime: d[1]}
		if p.gapInReceivingQueueLocked() != int64(d[0])-int64(d[1])+g0 {
			linear = false
		}
	}
	res.Consts["gapLinear"] = linear
	res.Consts["spread"] = int64(superQueueLen-superQueueFutureSlots) + g0
	res.Consts["agentWindowMs"] = int64(data_model.AgentWindow / time.Millisecond)
	key := data_model.Key{Metric: format.BuiltinMetricMetaTimingErrors.MetricID}
	a := &Agent{shardByMetricCount: 2, Shards: []*Shard{{ShardNum: 0}, {ShardNum: 1}}}
	s1, _, _ := a.shard(&key, format.BuiltinMetricMetaTimingErrors, nil)
	res.Consts["timingShard"] = s1.ShardNum + 1
}

// TestVerifC08Consts only reports the constants; the check instantiates the specification with them.
func TestVerifC08Consts(t *testing.T) {
	verifkit.Gate(t)
	res := verifkit.NewResult()
	defer res.Write(t)
	verifC08Consts(res)
}

func TestVerifC08Replay(t *testing.T) {
	verifkit.Gate(t)
	res := verifkit.NewResult()
	defer res.Write(t)
	verifC08Consts(res)
	var cfg *verifC08Config
	var behs [][]verifkit.Step
	first := true
	verifkit.ForEachLine(t, os.Getenv("VERIF_IN"), func(line []byte) {
		if first {
			first = false
			cfg = &verifC08Config{}
			if err := json.Unmarshal(line, cfg); err != nil {
				t.Fatalf("bad config line: %v", err)
			}
			return
		}
		var b []verifkit.Step
		if err := json.Unmarshal(line, &b); err != nil {
			t.Fatalf("bad behaviour line: %v", err)
		}
		behs = append(behs, b)
	})
	if cfg == nil {
		t.Fatalf("no config line")
	}
	if cfg.QLen != superQueueLen || cfg.Future != superQueueFutureSlots || int64(cfg.Spread) != res.Consts["spread"].(int64) || cfg.Timing != res.Consts["timingShard"].(int) {
		res.Count("driver_errors", 1)
		res.Note("specification instance %d/%d/%d does not match the code %d/%d/%v", cfg.QLen, cfg.Future, cfg.Spread, superQueueLen, superQueueFutureSlots, res.Consts["spread"])
		return
	}
	rn := &verifC08Runner{cfg: cfg, res: res, cache: verifC08FullCache(cfg.T0), res4: map[int]int{}, spec4: map[int]verifC08MetricSpec{}}
	for _, ms := range cfg.Metrics {
		rn.res4[ms.ID] = ms.Res
		rn.spec4[ms.ID] = ms
	}
	for bi, b := range behs {
		if len(b) == 0 {
			continue
		}
		if rn.replay(t, bi, b) {
			res.Replayed++
		}
		res.Steps += len(b)
		if bi < 2 {
			res.Sample(fmt.Sprintf("behaviour of %d steps, e.g. %s", len(b), verifkit.Canon(b[len(b)/2])[:min(300, len(verifkit.Canon(b[len(b)/2])))]))
		}
	}
}

