package api

// C26 harness, part 2: tokenizer, recursive-descent parser and evaluator for the where-clause
// fragment the query builder writes (AND / OR / NOT / [NOT] IN / = != >= < / match / the raw64
// bit expression).  TRUSTED BASE: this file stands in for the storage's SQL semantics; it is kept
// small, typed strictly (an ill-typed comparison is an error, not a guess) and rejects anything
// outside the fragment.

import (
	"fmt"
	"regexp"
	"strconv"
)

type verifC26Tok struct {
	kind byte   // 'S' string literal, 'W' word, 'N' number, 'P' punctuation
	text string // decoded value for 'S'
}

func verifC26IsWordByte(c byte, first bool) bool {
	return c == '_' || (c >= 'a' && c <= 'z') || (c >= 'A' && c <= 'Z') || (!first && c >= '0' && c <= '9')
}

// verifC26Tokens groups the bytes outside literals into words, numbers and punctuation.  Bytes the
// builder never writes outside a literal (double quotes, backticks, backslashes, control and
// non-ASCII bytes, comment openers) are errors: they would be structure made of user input.
func verifC26Tokens(q string) ([]verifC26Tok, error) {
	segs, ok := verifC26Split(q)
	if !ok {
		return nil, fmt.Errorf("string literal not closed")
	}
	var toks []verifC26Tok
	for i := 0; i < len(segs); {
		if segs[i].lit {
			if i > 0 && segs[i-1].lit {
				return nil, fmt.Errorf("adjacent literals")
			}
			toks = append(toks, verifC26Tok{'S', segs[i].val})
			i++
			continue
		}
		c := segs[i].val[0]
		switch {
		case c == ' ':
			i++
		case verifC26IsWordByte(c, true):
			j := i
			var w []byte
			for j < len(segs) && !segs[j].lit && verifC26IsWordByte(segs[j].val[0], false) {
				w = append(w, segs[j].val[0])
				j++
			}
			if j < len(segs) && segs[j].lit {
				return nil, fmt.Errorf("literal glued to word %q", w)
			}
			toks = append(toks, verifC26Tok{'W', string(w)})
			i = j
		case c >= '0' && c <= '9':
			j := i
			var w []byte
			for j < len(segs) && !segs[j].lit && segs[j].val[0] >= '0' && segs[j].val[0] <= '9' {
				w = append(w, segs[j].val[0])
				j++
			}
			if j < len(segs) && (segs[j].lit || verifC26IsWordByte(segs[j].val[0], true)) {
				return nil, fmt.Errorf("number %q glued to the next token", w)
			}
			toks = append(toks, verifC26Tok{'N', string(w)})
			i = j
		case c == '(' || c == ')' || c == ',' || c == '=' || c == '+' || c == '*' || c == '<' || c == '>' || c == '!' || c == '-' || c == '/':
			two := ""
			if i+1 < len(segs) && !segs[i+1].lit {
				two = string([]byte{c, segs[i+1].val[0]})
			}
			switch two {
			case "!=", ">=", "<=":
				toks = append(toks, verifC26Tok{'P', two})
				i += 2
			case "--", "/*":
				return nil, fmt.Errorf("comment opener outside a literal")
			default:
				toks = append(toks, verifC26Tok{'P', string(c)})
				i++
			}
		default:
			return nil, fmt.Errorf("byte %q outside a literal", c)
		}
	}
	return toks, nil
}

// ---- values and syntax tree

type verifC26Val struct {
	k byte // 'i' int64, 's' string, 'b' bool
	i int64
	s string
	b bool
}

type verifC26Node struct {
	op   string // and or not cmp in lit col call
	sub  string // comparison operator / function name / column name
	neg  bool   // NOT IN
	args []*verifC26Node
	val  verifC26Val
	re   *regexp.Regexp
}

type verifC26Parser struct {
	toks  []verifC26Tok
	pos   int
	alias map[string]*verifC26Node
}

func (p *verifC26Parser) peek() verifC26Tok {
	if p.pos < len(p.toks) {
		return p.toks[p.pos]
	}
	return verifC26Tok{}
}
func (p *verifC26Parser) isWord(w string) bool { t := p.peek(); return t.kind == 'W' && t.text == w }
func (p *verifC26Parser) isP(s string) bool    { t := p.peek(); return t.kind == 'P' && t.text == s }
func (p *verifC26Parser) expectP(s string) error {
	if !p.isP(s) {
		return fmt.Errorf("expected %q at token %d, got %q", s, p.pos, p.peek().text)
	}
	p.pos++
	return nil
}

func (p *verifC26Parser) parseOr() (*verifC26Node, error) {
	l, err := p.parseAnd()
	if err != nil {
		return nil, err
	}
	for p.isWord("OR") {
		p.pos++
		r, err := p.parseAnd()
		if err != nil {
			return nil, err
		}
		l = &verifC26Node{op: "or", args: []*verifC26Node{l, r}}
	}
	return l, nil
}

func (p *verifC26Parser) parseAnd() (*verifC26Node, error) {
	l, err := p.parseNot()
	if err != nil {
		return nil, err
	}
	for p.isWord("AND") {
		p.pos++
		r, err := p.parseNot()
		if err != nil {
			return nil, err
		}
		l = &verifC26Node{op: "and", args: []*verifC26Node{l, r}}
	}
	return l, nil
}

func (p *verifC26Parser) parseNot() (*verifC26Node, error) {
	if p.isWord("NOT") {
		p.pos++
		a, err := p.parseNot()
		if err != nil {
			return nil, err
		}
		return &verifC26Node{op: "not", args: []*verifC26Node{a}}, nil
	}
	return p.parseCmp()
}

func (p *verifC26Parser) parseCmp() (*verifC26Node, error) {
	l, err := p.parseTerm()
	if err != nil {
		return nil, err
	}
	t := p.peek()
	if t.kind == 'P' && (t.text == "=" || t.text == "!=" || t.text == ">=" || t.text == "<=" || t.text == "<" || t.text == ">") {
		p.pos++
		r, err := p.parseTerm()
		if err != nil {
			return nil, err
		}
		return &verifC26Node{op: "cmp", sub: t.text, args: []*verifC26Node{l, r}}, nil
	}
	neg := false
	if p.isWord("NOT") && p.pos+1 < len(p.toks) && p.toks[p.pos+1].kind == 'W' && p.toks[p.pos+1].text == "IN" {
		neg = true
		p.pos++
	}
	if p.isWord("IN") {
		p.pos++
		if err := p.expectP("("); err != nil {
			return nil, err
		}
		n := &verifC26Node{op: "in", neg: neg, args: []*verifC26Node{l}}
		for {
			it, err := p.parseTerm()
			if err != nil {
				return nil, err
			}
			if it.op != "lit" {
				return nil, fmt.Errorf("IN list item is not a constant")
			}
			n.args = append(n.args, it)
			if p.isP(",") {
				p.pos++
				continue
			}
			break
		}
		if err := p.expectP(")"); err != nil {
			return nil, err
		}
		return n, nil
	}
	return l, nil
}

func (p *verifC26Parser) parseTerm() (*verifC26Node, error) {
	t := p.peek()
	switch {
	case t.kind == 'N' || (t.kind == 'P' && t.text == "-" && p.pos+1 < len(p.toks) && p.toks[p.pos+1].kind == 'N'):
		txt := t.text
		if t.kind == 'P' {
			p.pos++
			txt = "-" + p.peek().text
		}
		p.pos++
		v, err := strconv.ParseInt(txt, 10, 64)
		if err != nil {
			return nil, fmt.Errorf("bad number %q", txt)
		}
		return &verifC26Node{op: "lit", val: verifC26Val{k: 'i', i: v}}, nil
	case t.kind == 'S':
		p.pos++
		return &verifC26Node{op: "lit", val: verifC26Val{k: 's', s: t.text}}, nil
	case t.kind == 'P' && t.text == "(":
		p.pos++
		e, err := p.parseOr()
		if err != nil {
			return nil, err
		}
		return e, p.expectP(")")
	case t.kind == 'W':
		switch t.text {
		case "AND", "OR", "NOT", "IN", "AS", "FROM", "WHERE", "GROUP", "BY", "ORDER", "LIMIT", "HAVING", "SETTINGS", "SELECT":
			return nil, fmt.Errorf("keyword %s where a value is expected (token %d)", t.text, p.pos)
		}
		p.pos++
		if !p.isP("(") {
			if a, ok := p.alias[t.text]; ok {
				return a, nil
			}
			return &verifC26Node{op: "col", sub: t.text}, nil
		}
		p.pos++
		n := &verifC26Node{op: "call", sub: t.text}
		for !p.isP(")") {
			a, err := p.parseOr()
			if err != nil {
				return nil, err
			}
			n.args = append(n.args, a)
			if p.isP(",") {
				p.pos++
				if p.isP(")") {
					return nil, fmt.Errorf("dangling comma")
				}
			} else if !p.isP(")") {
				return nil, fmt.Errorf("expected , or ) in call of %s at token %d", t.text, p.pos)
			}
		}
		p.pos++
		arity := map[string]int{"match": 2, "bitOr": 2, "bitShiftLeft": 2, "toInt64": 1, "toUInt32": 1}
		want, known := arity[n.sub]
		if !known || want != len(n.args) {
			return nil, fmt.Errorf("function %s/%d outside the fragment", n.sub, len(n.args))
		}
		if n.sub == "match" {
			if n.args[1].op != "lit" || n.args[1].val.k != 's' {
				return nil, fmt.Errorf("match pattern is not a string constant")
			}
			re, err := regexp.Compile(n.args[1].val.s)
			if err != nil {
				return nil, fmt.Errorf("match pattern %q does not compile: %v", n.args[1].val.s, err)
			}
			n.re = re
		}
		return n, nil
	}
	return nil, fmt.Errorf("unexpected token %q at %d", t.text, p.pos)
}

type verifC26Row map[string]verifC26Val

func verifC26Eval(n *verifC26Node, r verifC26Row) (verifC26Val, error) {
	bv := func(b bool) verifC26Val { return verifC26Val{k: 'b', b: b} }
	switch n.op {
	case "lit":
		return n.val, nil
	case "col":
		v, ok := r[n.sub]
		if !ok {
			return v, fmt.Errorf("unknown column %q", n.sub)
		}
		return v, nil
	case "and", "or":
		a, err := verifC26Eval(n.args[0], r)
		if err != nil {
			return a, err
		}
		b, err := verifC26Eval(n.args[1], r)
		if err != nil {
			return b, err
		}
		if a.k != 'b' || b.k != 'b' {
			return a, fmt.Errorf("%s of non-boolean", n.op)
		}
		if n.op == "and" {
			return bv(a.b && b.b), nil
		}
		return bv(a.b || b.b), nil
	case "not":
		a, err := verifC26Eval(n.args[0], r)
		if err != nil {
			return a, err
		}
		if a.k != 'b' {
			return a, fmt.Errorf("NOT of non-boolean")
		}
		return bv(!a.b), nil
	case "cmp":
		a, err := verifC26Eval(n.args[0], r)
		if err != nil {
			return a, err
		}
		b, err := verifC26Eval(n.args[1], r)
		if err != nil {
			return b, err
		}
		if a.k != b.k || a.k == 'b' {
			return a, fmt.Errorf("comparison %s of different or boolean types", n.sub)
		}
		var c int
		if a.k == 'i' {
			switch {
			case a.i < b.i:
				c = -1
			case a.i > b.i:
				c = 1
			}
		} else {
			switch {
			case a.s < b.s:
				c = -1
			case a.s > b.s:
				c = 1
			}
		}
		switch n.sub {
		case "=":
			return bv(c == 0), nil
		case "!=":
			return bv(c != 0), nil
		case ">=":
			return bv(c >= 0), nil
		case "<=":
			return bv(c <= 0), nil
		case "<":
			return bv(c < 0), nil
		case ">":
			return bv(c > 0), nil
		}
	case "in":
		a, err := verifC26Eval(n.args[0], r)
		if err != nil {
			return a, err
		}
		found := false
		for _, it := range n.args[1:] {
			if it.val.k != a.k || a.k == 'b' {
				return a, fmt.Errorf("IN list item type differs from the column's")
			}
			if (a.k == 'i' && a.i == it.val.i) || (a.k == 's' && a.s == it.val.s) {
				found = true
			}
		}
		return bv(found != n.neg), nil
	case "call":
		var av []verifC26Val
		for _, x := range n.args {
			v, err := verifC26Eval(x, r)
			if err != nil {
				return v, err
			}
			av = append(av, v)
		}
		switch n.sub {
		case "match":
			if av[0].k != 's' {
				return av[0], fmt.Errorf("match on a non-string")
			}
			return bv(n.re.MatchString(av[0].s)), nil
		case "toInt64":
			if av[0].k != 'i' {
				return av[0], fmt.Errorf("toInt64 of non-integer")
			}
			return av[0], nil
		case "toUInt32":
			if av[0].k != 'i' {
				return av[0], fmt.Errorf("toUInt32 of non-integer")
			}
			return verifC26Val{k: 'i', i: int64(uint32(av[0].i))}, nil
		case "bitOr":
			if av[0].k != 'i' || av[1].k != 'i' {
				return av[0], fmt.Errorf("bitOr of non-integer")
			}
			return verifC26Val{k: 'i', i: av[0].i | av[1].i}, nil
		case "bitShiftLeft":
			if av[0].k != 'i' || av[1].k != 'i' || av[1].i < 0 || av[1].i > 63 {
				return av[0], fmt.Errorf("bad bitShiftLeft")
			}
			return verifC26Val{k: 'i', i: int64(uint64(av[0].i) << uint(av[1].i))}, nil
		}
	}
	return verifC26Val{}, fmt.Errorf("cannot evaluate %s", n.op)
}

// verifC26Query is a parsed storage query: the token list, and the where-clause as a tree.
type verifC26Query struct {
	toks  []verifC26Tok
	where *verifC26Node
}

func verifC26Depth0(toks []verifC26Tok, from int, words ...string) int {
	d := 0
	for i := from; i < len(toks); i++ {
		t := toks[i]
		if t.kind == 'P' && t.text == "(" {
			d++
		} else if t.kind == 'P' && t.text == ")" {
			d--
		} else if d == 0 && t.kind == 'W' {
			for _, w := range words {
				if t.text == w {
					return i
				}
			}
		}
	}
	return -1
}

// verifC26Parse checks the overall shape SELECT .. FROM .. WHERE .. [GROUP BY ..] and parses the
// where-clause; select-list items of the form `<expr> AS <alias>` whose expression is inside the
// fragment become aliases usable in the where-clause (as in the storage).
func verifC26Parse(q string) (*verifC26Query, error) {
	toks, err := verifC26Tokens(q)
	if err != nil {
		return nil, err
	}
	d := 0
	for _, t := range toks {
		if t.kind == 'P' && t.text == "(" {
			d++
		} else if t.kind == 'P' && t.text == ")" {
			d--
			if d < 0 {
				return nil, fmt.Errorf("unbalanced )")
			}
		}
	}
	if d != 0 {
		return nil, fmt.Errorf("unbalanced (")
	}
	if len(toks) == 0 || toks[0].kind != 'W' || toks[0].text != "SELECT" {
		return nil, fmt.Errorf("query does not start with SELECT")
	}
	from := verifC26Depth0(toks, 1, "FROM")
	if from < 0 {
		return nil, fmt.Errorf("no FROM")
	}
	wh := verifC26Depth0(toks, from, "WHERE")
	if wh < 0 {
		return nil, fmt.Errorf("no WHERE")
	}
	if verifC26Depth0(toks, wh+1, "WHERE", "SELECT", "FROM", "UNION") >= 0 {
		return nil, fmt.Errorf("second SELECT/FROM/WHERE/UNION")
	}
	end := verifC26Depth0(toks, wh+1, "GROUP", "HAVING", "ORDER", "LIMIT", "SETTINGS")
	if end < 0 {
		end = len(toks)
	}
	alias := map[string]*verifC26Node{}
	start := 1
	dd := 0
	for i := 1; i <= from; i++ {
		if i < from {
			if toks[i].kind == 'P' && toks[i].text == "(" {
				dd++
			} else if toks[i].kind == 'P' && toks[i].text == ")" {
				dd--
			}
		}
		if i == from || (dd == 0 && toks[i].kind == 'P' && toks[i].text == ",") {
			item := toks[start:i]
			if n := len(item); n >= 3 && item[n-2].kind == 'W' && item[n-2].text == "AS" && item[n-1].kind == 'W' {
				ap := &verifC26Parser{toks: item[:n-2]}
				if e, err := ap.parseOr(); err == nil && ap.pos == n-2 {
					alias[item[n-1].text] = e
				}
			}
			start = i + 1
		}
	}
	p := &verifC26Parser{toks: toks[wh+1 : end], alias: alias}
	e, err := p.parseOr()
	if err != nil {
		return nil, fmt.Errorf("where-clause: %v", err)
	}
	if p.pos != len(p.toks) {
		return nil, fmt.Errorf("where-clause: trailing token %q at %d", p.peek().text, p.pos)
	}
	return &verifC26Query{toks: toks, where: e}, nil
}
