package api

// C25 conformance driver (injected by /verif/tools via -overlay; see /verif/DESIGN.md).
//
// A case is an *input* of getTableFromLODs in the vocabulary of specs/TableAssembly.tla: a LOD
// split, the storage output per handler-what (query group) as a set of row keys, the row markers,
// the direction and the limit.  The driver calls the real getTableFromLODs with a loadPoints stub
// that returns exactly that storage output and compares what the real code returns
//   - with the relation the specification states (computed here, verifC25Expect), and
//   - for cases exported by TLC, with the output of the specification's transcription ("exp").
// Random larger cases are additionally written as input/output pairs for TableAssemblyTrace.tla.

import (
	"context"
	"encoding/json"
	"fmt"
	"math"
	"os"
	"path/filepath"
	"sort"
	"strings"
	"testing"
	"time"

	"github.com/hrissan/tdigest"

	"github.com/VKCOM/statshouse/internal/data_model"
	"github.com/VKCOM/statshouse/internal/format"
	"github.com/VKCOM/statshouse/internal/promql"
	"github.com/VKCOM/statshouse/internal/verifkit"
)

// key = [time, tag_1 .. tag_nby, skeyRank]; skeyRank only when the case groups by the string top.
type verifC25Key []int64

type verifC25Case struct {
	Lods  [][]int64       `json:"lods"` // ascending, adjacent [from,to), step 1
	St    [][]verifC25Key `json:"st"`   // per handler-what: keys the storage has a value for
	From  verifC25Key     `json:"from"` // empty = no marker
	To    verifC25Key     `json:"to"`
	Desc  bool            `json:"desc"`
	Limit int             `json:"limit"`
	NBy   int             `json:"nby"`  // number of integer group-by tags (default 1)
	SKey  bool            `json:"skey"` // group by the string top as well
	Exp   *verifC25Out    `json:"exp,omitempty"`
}

type verifC25Row struct {
	K verifC25Key `json:"k"`
	D []int       `json:"d"` // per column: 0 = NaN, c = value of function c (1-based column number)
}

type verifC25Out struct {
	Rows []verifC25Row `json:"rows"`
	More bool          `json:"more"`
}

func verifC25Less(a, b verifC25Key) bool {
	for i := 0; i < len(a) && i < len(b); i++ {
		if a[i] != b[i] {
			return a[i] < b[i]
		}
	}
	return len(a) < len(b)
}

func verifC25Eq(a, b verifC25Key) bool { return !verifC25Less(a, b) && !verifC25Less(b, a) }

// before(a,b): a comes strictly before b in the requested direction
func verifC25Before(a, b verifC25Key, desc bool) bool {
	if desc {
		return verifC25Less(b, a)
	}
	return verifC25Less(a, b)
}

// the requested functions: as many as needed to get n handler-whats (7 distinct selectors each)
func verifC25Whats(n int) []promql.SelectorWhat {
	all := []promql.DigestWhat{
		promql.DigestCount, promql.DigestSum, promql.DigestAvg, promql.DigestMin, promql.DigestMax, promql.DigestP0_1, promql.DigestP1, // 1st
		promql.DigestP5, promql.DigestP10, promql.DigestP25, promql.DigestP50, promql.DigestP75, promql.DigestP90, promql.DigestP95, // 2nd
		promql.DigestP99, promql.DigestP999, promql.DigestStdDev, promql.DigestCardinality, promql.DigestCardinalityRaw,
	}
	var take int
	switch n {
	case 1:
		take = 2
	case 2:
		take = 9
	default:
		take = len(all)
	}
	res := make([]promql.SelectorWhat, 0, take)
	for _, d := range all[:take] {
		res = append(res, promql.SelectorWhat{Digest: d})
	}
	return res
}

// a marker without time is no marker (RowMarker.Time == 0)
func verifC25None(k verifC25Key) bool { return len(k) == 0 || k[0] == 0 }

func verifC25SKeyStr(rank int64) string {
	if rank == 0 {
		return ""
	}
	return fmt.Sprintf("s%03d", rank)
}

type verifC25Env struct {
	h      *requestHandler
	loc    *time.Location
	whats  map[int][]handlerWhat
	meta   *format.MetricMetaValue
	orders map[string][]verifC25Ord
}

func verifC25NewEnv() *verifC25Env {
	loc, _ := time.LoadLocation("")
	// raw tags: their values are shown as numbers, no mapping storage is consulted
	meta := &format.MetricMetaValue{Tags: make([]format.MetricMetaTag, 4)}
	for i := range meta.Tags {
		meta.Tags[i].Index = int32(i)
		meta.Tags[i].RawKind = "int"
	}
	return &verifC25Env{
		meta:   meta,
		h:      &requestHandler{Handler: &Handler{HandlerOptions: HandlerOptions{location: loc}}},
		loc:    loc,
		whats:  map[int][]handlerWhat{},
		orders: map[string][]verifC25Ord{},
	}
}

func (e *verifC25Env) handlerWhats(n int) []handlerWhat {
	if w, ok := e.whats[n]; ok {
		return w
	}
	w := e.h.getHandlerWhat(verifC25Whats(n))
	if len(w) != n {
		panic(fmt.Sprintf("verifC25: expected %d handler-whats, the code made %d", n, len(w)))
	}
	e.whats[n] = w
	return w
}

type verifC25Ord struct {
	comp int // index into the key
	desc bool
}

// storageOrder reads the ORDER BY clause of the query the real code would send for this load and
// maps its sort keys onto key components: every key without DESC sorts ascending (SQL).
func (e *verifC25Env) storageOrder(c *verifC25Case, pq *queryBuilder, lod data_model.LOD) ([]verifC25Ord, error) {
	q, err := pq.buildSeriesQuery(lod, "")
	if err != nil {
		return nil, fmt.Errorf("stub: buildSeriesQuery: %w", err)
	}
	if o, ok := e.orders[q.body]; ok {
		return o, nil
	}
	var ord []verifC25Ord
	if i := strings.Index(q.body, " ORDER BY "); i >= 0 {
		rest := q.body[i+len(" ORDER BY "):]
		if j := strings.Index(rest, " LIMIT "); j >= 0 {
			rest = rest[:j]
		}
		for _, item := range strings.Split(rest, ",") {
			f := strings.Fields(item)
			if len(f) == 0 || len(f) > 2 {
				return nil, fmt.Errorf("stub: cannot read ORDER BY item %q of %q", item, q.body)
			}
			desc := len(f) == 2 && strings.EqualFold(f[1], "DESC")
			if len(f) == 2 && !desc && !strings.EqualFold(f[1], "ASC") {
				return nil, fmt.Errorf("stub: cannot read ORDER BY item %q of %q", item, q.body)
			}
			var n int
			switch {
			case f[0] == "_time":
				// rows are put into their time slot whatever the order
			case strings.HasPrefix(f[0], "stag"):
				if _, err := fmt.Sscanf(f[0], "stag%d", &n); err != nil {
					return nil, fmt.Errorf("stub: unknown sort key %q", f[0])
				}
				if n == format.StringTopTagIndexV3 && c.SKey {
					ord = append(ord, verifC25Ord{comp: c.nby() + 1, desc: desc})
				}
			case strings.HasPrefix(f[0], "tag"):
				if _, err := fmt.Sscanf(f[0], "tag%d", &n); err != nil {
					return nil, fmt.Errorf("stub: unknown sort key %q", f[0])
				}
				if 1 <= n && n <= c.nby() {
					ord = append(ord, verifC25Ord{comp: n, desc: desc})
				}
			default:
				return nil, fmt.Errorf("stub: unknown sort key %q in %q", f[0], q.body)
			}
		}
	} else {
		// no order requested: the storage may answer in any order, take the reverse of the wanted one
		for j := 1; j <= c.nby(); j++ {
			ord = append(ord, verifC25Ord{comp: j, desc: !c.Desc})
		}
	}
	e.orders[q.body] = ord
	return ord, nil
}

func (c *verifC25Case) nby() int {
	if c.NBy == 0 {
		return 1
	}
	return c.NBy
}

func (c *verifC25Case) by() []string {
	var by []string
	for j := 1; j <= c.nby(); j++ {
		by = append(by, format.TagID(j))
	}
	if c.SKey {
		by = append(by, format.StringTopTagID)
	}
	return by
}

func (c *verifC25Case) marker(k verifC25Key) RowMarker {
	if verifC25None(k) {
		return RowMarker{}
	}
	m := RowMarker{Time: k[0]}
	for j := 1; j <= c.nby(); j++ {
		m.Tags = append(m.Tags, RawTag{Index: j, Value: k[j]})
	}
	if c.SKey {
		m.SKey = verifC25SKeyStr(k[c.nby()+1])
	}
	return m
}

func (c *verifC25Case) row(q int, k verifC25Key) tsSelectRow {
	var r tsSelectRow
	r.time = k[0]
	for j := 1; j <= c.nby(); j++ {
		r.tag[j] = k[j]
	}
	if c.SKey {
		r.stag[format.StringTopTagIndexV3] = verifC25SKeyStr(k[c.nby()+1])
	}
	v := float64(q+1) * 100000
	for _, x := range k {
		v = v*7 + float64(x)
	}
	r.count = v + 1
	r.sum = 3*v + 2
	r.min = v + 0.25
	r.max = v + 0.5
	r.sumsquare = r.sum * r.sum
	r.cardinality = v + 0.75
	r.percentile = tdigest.NewWithCompression(2) // small: one centroid is all it holds
	r.percentile.Add(v+0.125, 1)
	return r
}

func (c *verifC25Case) keyOf(r *tsSelectRow) verifC25Key {
	k := verifC25Key{r.time}
	for j := 1; j <= c.nby(); j++ {
		k = append(k, r.tag[j])
	}
	if c.SKey {
		var rank int64
		if s := r.stag[format.StringTopTagIndexV3]; s != "" {
			fmt.Sscanf(s, "s%d", &rank)
		}
		k = append(k, rank)
	}
	return k
}

func (c *verifC25Case) inWindow(k verifC25Key) bool {
	if !verifC25None(c.From) && !verifC25Before(c.From, k, c.Desc) {
		return false
	}
	if !verifC25None(c.To) && !verifC25Before(k, c.To, c.Desc) {
		return false
	}
	return true
}

// verifC25Expect is the relation of TableAssembly.tla (Spec...): what the property demands.
func (e *verifC25Env) expect(c *verifC25Case) (keys []verifC25Key, has []map[string]bool, more bool) {
	has = make([]map[string]bool, len(c.St))
	seen := map[string]bool{}
	for q := range c.St {
		has[q] = map[string]bool{}
		for _, k := range c.St[q] {
			if !c.inWindow(k) {
				continue
			}
			s := fmt.Sprint(k)
			has[q][s] = true
			if !seen[s] {
				seen[s] = true
				keys = append(keys, k)
			}
		}
	}
	sort.Slice(keys, func(i, j int) bool { return verifC25Before(keys[i], keys[j], c.Desc) })
	lim := c.Limit
	if lim < 0 {
		lim = 0
	}
	if len(keys) > lim {
		keys = keys[:lim]
		more = true
	}
	return keys, has, more
}

type verifC25Got struct {
	rows []queryTableRow
	more bool
	out  verifC25Out // projection for the trace / comparison with the transcription
}

func (e *verifC25Env) run(c *verifC25Case) (*verifC25Got, error) {
	hw := e.handlerWhats(len(c.St))
	var lods []data_model.LOD
	for _, l := range c.Lods {
		lods = append(lods, data_model.LOD{FromSec: l[0], ToSec: l[1], StepSec: 1, Version: Version6, Location: e.loc})
	}
	req := seriesRequest{
		numResults: c.Limit,
		what:       verifC25Whats(len(c.St)),
		by:         c.by(),
		fromEnd:    c.Desc,
		fromRow:    c.marker(c.From),
		toRow:      c.marker(c.To),
	}
	p := tableReqParams{req: req, metricMeta: e.meta, desiredStepMul: 1, location: e.loc}
	var stubErr error
	load := func(_ context.Context, _ *requestHandler, pq *queryBuilder, lod data_model.LOD, _ bool) ([][]tsSelectRow, error) {
		q := -1
		for i := range hw {
			if hw[i].qry == pq.what {
				q = i
			}
		}
		if q < 0 {
			stubErr = fmt.Errorf("stub: unknown what %v", pq.what)
			return nil, stubErr
		}
		if (pq.sort == sortDescending) != c.Desc {
			stubErr = fmt.Errorf("stub: sort %v for desc=%v", pq.sort, c.Desc)
			return nil, stubErr
		}
		n := lod.ToSec - lod.FromSec
		if n <= 0 {
			return nil, nil
		}
		res := make([][]tsSelectRow, n) // one group per time slot, like cache2.Get
		var ks []verifC25Key
		for _, k := range c.St[q] {
			if lod.FromSec <= k[0] && k[0] < lod.ToSec {
				ks = append(ks, k)
			}
		}
		// the storage sorts the way the real query asks it to (ORDER BY of buildSeriesQuery)
		ord, err := e.storageOrder(c, pq, lod)
		if err != nil {
			stubErr = err
			return nil, err
		}
		sort.SliceStable(ks, func(i, j int) bool {
			for _, o := range ord {
				if a, b := ks[i][o.comp], ks[j][o.comp]; a != b {
					return (a < b) != o.desc
				}
			}
			return verifC25Before(ks[i], ks[j], c.Desc) // keys the query leaves unordered
		})
		for _, k := range ks {
			i := k[0] - lod.FromSec
			res[i] = append(res[i], c.row(q, k))
		}
		return res, nil
	}
	rows, more, err := e.h.getTableFromLODs(context.Background(), lods, p, load)
	if err != nil {
		return nil, err
	}
	if stubErr != nil {
		return nil, stubErr
	}
	g := &verifC25Got{rows: rows, more: more}
	g.out.More = more
	g.out.Rows = []verifC25Row{}
	for i := range rows {
		r := &rows[i]
		k := c.keyOf(&r.row)
		or := verifC25Row{K: k, D: make([]int, len(r.Data))}
		col := 0
		for q := range hw {
			src := c.row(q, k)
			for s := range hw[q].sel {
				if col < len(r.Data) {
					want := src.value(hw[q].sel[s].Digest, hw[q].qry[s].Argument, 1, 1)
					got := float64(r.Data[col])
					switch {
					case math.IsNaN(got):
						or.D[col] = 0
					case got == want:
						or.D[col] = col + 1
					default:
						or.D[col] = -1 // a value that does not belong into this column of this row
						// look for the column it belongs to
						c2 := 0
						for q2 := range hw {
							src2 := c.row(q2, k)
							for s2 := range hw[q2].sel {
								if src2.value(hw[q2].sel[s2].Digest, hw[q2].qry[s2].Argument, 1, 1) == got && or.D[col] == -1 {
									or.D[col] = c2 + 1
								}
								c2++
							}
						}
					}
				}
				col++
			}
		}
		for ; col < len(r.Data); col++ { // surplus columns
			if math.IsNaN(float64(r.Data[col])) {
				or.D[col] = 0
			} else {
				or.D[col] = -1
			}
		}
		g.out.Rows = append(g.out.Rows, or)
	}
	return g, nil
}

func (e *verifC25Env) ncols(c *verifC25Case) (n int, base []int) {
	for _, w := range e.handlerWhats(len(c.St)) {
		base = append(base, n)
		n += len(w.sel)
	}
	return n, base
}

// check compares the real output with the specified relation; returns "" or a signature + text.
func (e *verifC25Env) check(c *verifC25Case, g *verifC25Got) (sig, note string, want verifC25Out) {
	keys, has, more := e.expect(c)
	ncol, _ := e.ncols(c)
	hw := e.handlerWhats(len(c.St))
	want.More = more
	want.Rows = []verifC25Row{}
	for _, k := range keys {
		r := verifC25Row{K: k, D: make([]int, 0, ncol)}
		col := 0
		for q := range hw {
			for range hw[q].sel {
				col++
				if has[q][fmt.Sprint(k)] {
					r.D = append(r.D, col)
				} else {
					r.D = append(r.D, 0)
				}
			}
		}
		want.Rows = append(want.Rows, r)
	}
	got := g.out
	// 1. one column per requested function
	for _, r := range got.Rows {
		if len(r.D) != ncol {
			return "columns", fmt.Sprintf("row %v has %d columns, %d functions requested", r.K, len(r.D), ncol), want
		}
	}
	// 2. unique
	seen := map[string]bool{}
	for _, r := range got.Rows {
		if seen[fmt.Sprint(r.K)] {
			return "duplicate-row", fmt.Sprintf("row %v twice", r.K), want
		}
		seen[fmt.Sprint(r.K)] = true
	}
	// 3. window
	for _, r := range got.Rows {
		if !c.inWindow(r.K) {
			return "window", fmt.Sprintf("row %v outside the requested window", r.K), want
		}
	}
	// 4. limit
	lim := c.Limit
	if lim < 0 {
		lim = 0
	}
	if len(got.Rows) > lim {
		return "limit", fmt.Sprintf("%d rows for limit %d", len(got.Rows), lim), want
	}
	// 5. order
	for i := 1; i < len(got.Rows); i++ {
		if !verifC25Before(got.Rows[i-1].K, got.Rows[i].K, c.Desc) {
			return "order", fmt.Sprintf("row %v before %v (desc=%v)", got.Rows[i-1].K, got.Rows[i].K, c.Desc), want
		}
	}
	// 6. the rows are the first ones of the window
	if len(got.Rows) != len(want.Rows) {
		return "rows", fmt.Sprintf("%d rows, expected %d", len(got.Rows), len(want.Rows)), want
	}
	for i := range want.Rows {
		if !verifC25Eq(got.Rows[i].K, want.Rows[i].K) {
			return "rows", fmt.Sprintf("row %d is %v, expected %v", i, got.Rows[i].K, want.Rows[i].K), want
		}
	}
	// 7. values / NaN padding
	for i := range want.Rows {
		for col := range want.Rows[i].D {
			if got.Rows[i].D[col] != want.Rows[i].D[col] {
				return "values", fmt.Sprintf("row %v column %d holds %d, expected %d (0 = NaN, n = value of function n)",
					want.Rows[i].K, col+1, got.Rows[i].D[col], want.Rows[i].D[col]), want
			}
		}
	}
	// 8. has-more
	if got.More != want.More {
		return "hasmore", fmt.Sprintf("hasMore=%v, expected %v", got.More, want.More), want
	}
	// 9. the markers of the first and the last row (returned to the client as the next window)
	for _, i := range []int{0, len(g.rows) - 1} {
		if i < 0 || i >= len(g.rows) {
			continue
		}
		m := c.marker(got.Rows[i].K)
		r := g.rows[i].rowRepr
		same := m.Time == r.Time && m.SKey == r.SKey && len(m.Tags) == len(r.Tags)
		for j := 0; same && j < len(m.Tags); j++ {
			same = m.Tags[j] == r.Tags[j]
		}
		if !same {
			return "marker", fmt.Sprintf("row %v carries the marker %+v", got.Rows[i].K, r), want
		}
	}
	return "", "", want
}

func verifC25OutEq(a, b *verifC25Out) bool {
	if a.More != b.More || len(a.Rows) != len(b.Rows) {
		return false
	}
	for i := range a.Rows {
		if !verifC25Eq(a.Rows[i].K, b.Rows[i].K) || len(a.Rows[i].D) != len(b.Rows[i].D) {
			return false
		}
		for j := range a.Rows[i].D {
			if a.Rows[i].D[j] != b.Rows[i].D[j] {
				return false
			}
		}
	}
	return true
}

func (e *verifC25Env) one(t *testing.T, res *verifkit.Result, c *verifC25Case, id int) *verifC25Got {
	g, err := e.run(c)
	if err != nil {
		t.Fatalf("verifC25: case %d: %v", id, err)
	}
	res.Replayed++
	res.Steps += len(c.Lods) * len(c.St)
	cls := fmt.Sprintf("l%d/r%d/m%v/f%v/t%v", len(c.Lods), len(g.out.Rows), g.more, !verifC25None(c.From), !verifC25None(c.To))
	res.Seen(cls)
	sig, note, want := e.check(c, g)
	if sig != "" {
		res.Mismatch(verifkit.Mismatch{Beh: c, Step: id, Want: want, Got: g.out, Sig: sig, Note: note})
		return g
	}
	if c.Exp != nil && !verifC25OutEq(c.Exp, &g.out) {
		res.Mismatch(verifkit.Mismatch{Beh: c, Step: id, Want: c.Exp, Got: g.out, Sig: "transcription",
			Note: "the real output satisfies the relation but differs from the output of the specification's transcription"})
	}
	return g
}

func (e *verifC25Env) consts(res *verifkit.Result) {
	for nw := 1; nw <= 3; nw++ {
		nc := 0
		for _, w := range e.handlerWhats(nw) {
			nc += len(w.sel)
		}
		res.Consts[fmt.Sprintf("columns_%d", nw)] = nc
		var ws []int
		for _, w := range e.handlerWhats(nw) {
			ws = append(ws, len(w.sel))
		}
		res.Consts[fmt.Sprintf("widths_%d", nw)] = fmt.Sprint(ws)
	}
	res.Consts["tsValueCount"] = tsValueCount
}

// TestVerifC25Enum: cases enumerated by TLC (VERIF_IN: one JSON case per line)
func TestVerifC25Enum(t *testing.T) {
	verifkit.Gate(t)
	res := verifkit.NewResult()
	defer res.Write(t)
	e := verifC25NewEnv()
	n := 0
	verifkit.ForEachLine(t, os.Getenv("VERIF_IN"), func(line []byte) {
		var c verifC25Case
		if err := json.Unmarshal(line, &c); err != nil {
			t.Fatalf("verifC25: bad case: %v", err)
		}
		n++
		g := e.one(t, res, &c, n)
		if n%9973 == 1 {
			res.Sample(map[string]any{"case": c, "got": g.out})
		}
	})
	e.consts(res)
}

// TestVerifC25Random: seeded random larger inputs; relation checked here and the input/output
// pairs written for TableAssemblyTrace.tla
func TestVerifC25Random(t *testing.T) {
	verifkit.Gate(t)
	res := verifkit.NewResult()
	defer res.Write(t)
	e := verifC25NewEnv()
	rnd := verifkit.Rand(25)
	n := verifkit.EnvInt("VERIF_NRANDOM", 1000)
	ntrace := verifkit.EnvInt("VERIF_NTRACE", 200)
	type ev struct {
		In  *verifC25Case `json:"inp"`
		Out verifC25Out   `json:"out"`
		W   []int         `json:"w"` // columns per handler-what
	}
	var evs []ev
	for i := 0; i < n; i++ {
		c := &verifC25Case{NBy: 1 + rnd.Intn(2), SKey: rnd.Intn(3) == 0, Desc: rnd.Intn(2) == 0}
		small := i < ntrace // small enough for TLC
		nl := 1 + rnd.Intn(3)
		t0 := int64(1 + rnd.Intn(3))
		tcur := t0
		for l := 0; l < nl; l++ {
			w := int64(1 + rnd.Intn(3))
			c.Lods = append(c.Lods, []int64{tcur, tcur + w})
			tcur += w
		}
		ntag := int64(2 + rnd.Intn(2))
		randKey := func() verifC25Key {
			k := verifC25Key{t0 + rnd.Int63n(tcur-t0)}
			for j := 0; j < c.NBy; j++ {
				k = append(k, 1+rnd.Int63n(ntag))
			}
			if c.SKey {
				k = append(k, rnd.Int63n(3))
			}
			return k
		}
		// the universe of keys, then per handler-what a (mostly complete) subset
		nu := 1 + rnd.Intn(12)
		if small {
			nu = 1 + rnd.Intn(6)
		}
		um := map[string]verifC25Key{}
		for j := 0; j < nu; j++ {
			k := randKey()
			um[fmt.Sprint(k)] = k
		}
		var univ []verifC25Key
		for _, s := range verifkit.SortedKeys(um) {
			univ = append(univ, um[s])
		}
		nw := 1 + rnd.Intn(3)
		pdrop := []int{0, 10, 50}[rnd.Intn(3)]
		for q := 0; q < nw; q++ {
			ks := []verifC25Key{}
			for _, k := range univ {
				if rnd.Intn(100) >= pdrop {
					ks = append(ks, k)
				}
			}
			c.St = append(c.St, ks)
		}
		pick := func() verifC25Key {
			switch rnd.Intn(4) {
			case 0:
				return univ[rnd.Intn(len(univ))] // at a row
			case 1:
				return randKey() // at or between rows
			}
			return verifC25Key{0}
		}
		c.From, c.To = pick(), pick()
		c.Limit = 1 + rnd.Intn(len(univ)+2)
		g := e.one(t, res, c, i+1)
		if i < ntrace {
			_, base := e.ncols(c)
			ncol, _ := e.ncols(c)
			w := make([]int, len(base))
			for q := range base {
				if q+1 < len(base) {
					w[q] = base[q+1] - base[q]
				} else {
					w[q] = ncol - base[q]
				}
			}
			evs = append(evs, ev{In: c, Out: g.out, W: w})
		}
		if i < 3 {
			res.Sample(map[string]any{"case": c, "got": g.out})
		}
		if i%4 == 0 { // page through the whole window with the markers of the real rows
			w := &verifC25Walk{St: c.St, To: c.To, Desc: c.Desc, Limit: c.Limit, NBy: c.NBy, SKey: c.SKey}
			pages := e.walk(t, w, c.Lods, 200)
			ok, want := e.partition(w, c.Lods, pages)
			res.Count("walks", 1)
			res.Count("walk_pages", len(pages))
			if !ok {
				res.Mismatch(verifkit.Mismatch{Beh: map[string]any{"walk": w, "lods": c.Lods}, Step: i + 1, Want: want, Got: pages, Sig: "paging",
					Note: "paging with the markers of the real rows does not partition the window"})
			}
		}
	}
	out := filepath.Join(verifkit.TmpDir(t, "c25-"), "trace.ndjson")
	if err := verifkit.WriteNDJSON(out, evs); err != nil {
		t.Fatal(err)
	}
	res.Files = append(res.Files, out)
	e.consts(res)
}

// ---- paging walks (specs/TablePaging.tla) ----

type verifC25Page struct {
	From verifC25Key   `json:"from"`
	Keys []verifC25Key `json:"keys"`
	More bool          `json:"more"`
}

type verifC25Walk struct {
	St    [][]verifC25Key `json:"st"`
	To    verifC25Key     `json:"to"`
	Desc  bool            `json:"desc"`
	Limit int             `json:"limit"`
	NBy   int             `json:"nby"`
	SKey  bool            `json:"skey"`
	Pages []verifC25Page  `json:"pages"`          // the pages of the specification (TLC walks)
	Lods  [][]int64       `json:"lods,omitempty"` // only this split (replay of a stored witness)
}

// partition: do the pages, concatenated, hold every row of the window exactly once and in order,
// every page but the last full and announcing more?
func (e *verifC25Env) partition(w *verifC25Walk, lods [][]int64, pages []verifC25Page) (bool, []verifC25Key) {
	whole := &verifC25Case{Lods: lods, St: w.St, From: verifC25Key{0}, To: w.To, Desc: w.Desc, Limit: 1 << 30, NBy: w.NBy, SKey: w.SKey}
	want, _, _ := e.expect(whole)
	var got []verifC25Key
	ok := true
	for pi, p := range pages {
		got = append(got, p.Keys...)
		last := pi == len(pages)-1
		if p.More == last || (!last && len(p.Keys) != w.Limit) {
			ok = false
		}
	}
	ok = ok && len(got) == len(want)
	for j := 0; ok && j < len(want); j++ {
		ok = verifC25Eq(got[j], want[j])
	}
	return ok, want
}

// the marker the real row carries (what handleGetTable encodes into FromRow/ToRow), as a key
func (c *verifC25Case) keyOfMarker(m RowMarker) verifC25Key {
	k := verifC25Key{m.Time}
	for _, t := range m.Tags {
		k = append(k, t.Value)
	}
	if c.SKey {
		var rank int64
		if m.SKey != "" {
			fmt.Sscanf(m.SKey, "s%d", &rank)
		}
		k = append(k, rank)
	}
	return k
}

// walk pages through the table the way a client does: the next from-marker is the marker of the
// last row received.  Returns the pages the real code produced.
func (e *verifC25Env) walk(t *testing.T, w *verifC25Walk, lods [][]int64, maxPages int) []verifC25Page {
	var pages []verifC25Page
	from := verifC25Key{0}
	for len(pages) < maxPages {
		c := &verifC25Case{Lods: lods, St: w.St, From: from, To: w.To, Desc: w.Desc, Limit: w.Limit, NBy: w.NBy, SKey: w.SKey}
		g, err := e.run(c)
		if err != nil {
			t.Fatalf("verifC25: walk: %v", err)
		}
		p := verifC25Page{From: from, More: g.more, Keys: []verifC25Key{}}
		for _, r := range g.out.Rows {
			p.Keys = append(p.Keys, r.K)
		}
		pages = append(pages, p)
		if !g.more || len(g.rows) == 0 {
			break
		}
		from = c.keyOfMarker(g.rows[len(g.rows)-1].rowRepr)
	}
	return pages
}

func verifC25PagesEq(a, b []verifC25Page) bool {
	if len(a) != len(b) {
		return false
	}
	for i := range a {
		if a[i].More != b[i].More || len(a[i].Keys) != len(b[i].Keys) || !verifC25Eq(a[i].From, b[i].From) {
			return false
		}
		for j := range a[i].Keys {
			if !verifC25Eq(a[i].Keys[j], b[i].Keys[j]) {
				return false
			}
		}
	}
	return true
}

// TestVerifC25Paging: the walks TLC enumerated from TablePaging.tla, replayed page by page on the
// real getTableFromLODs, once per LOD split
func TestVerifC25Paging(t *testing.T) {
	verifkit.Gate(t)
	res := verifkit.NewResult()
	defer res.Write(t)
	e := verifC25NewEnv()
	splits := [][][]int64{{{1, 3}}, {{1, 2}, {2, 3}}}
	n := 0
	verifkit.ForEachLine(t, os.Getenv("VERIF_IN"), func(line []byte) {
		var w verifC25Walk
		if err := json.Unmarshal(line, &w); err != nil {
			t.Fatalf("verifC25: bad walk: %v", err)
		}
		n++
		use := splits
		if len(w.Lods) > 0 {
			use = [][][]int64{w.Lods}
		}
		for _, lods := range use {
			got := e.walk(t, &w, lods, len(w.Pages)+200)
			res.Replayed++
			res.Steps += len(got)
			res.Seen(fmt.Sprintf("p%d/l%d", len(got), len(lods)))
			same := verifC25PagesEq(got, w.Pages)
			if len(w.Pages) == 0 {
				same, _ = e.partition(&w, lods, got)
			}
			if !same {
				res.Mismatch(verifkit.Mismatch{Beh: map[string]any{"walk": w, "lods": lods}, Step: n, Want: w.Pages, Got: got, Sig: "paging",
					Note: "paging with the markers of the real rows does not produce the pages of the specification"})
			}
		}
		if n == 1 {
			res.Sample(map[string]any{"walk": w})
		}
	})
	e.consts(res)
}
