package api

// C25, endpoint level: handleGetTable computes the LOD split itself (data_model.GetLODs) and
// hands it to getTableFromLODs.  The driver runs handleGetTable on a builtin metric with the
// cache's loader replaced by a stub that delivers one row per time slot, over a time range that
// crosses the 1m/1s table edge (two LODs), and checks the same relation as for getTableFromLODs:
// the page is the first `limit` rows of the window in the requested direction.

import (
	"context"
	"fmt"
	"testing"
	"time"

	"github.com/VKCOM/statshouse/internal/data_model"
	"github.com/VKCOM/statshouse/internal/format"
	"github.com/VKCOM/statshouse/internal/promql"
	"github.com/VKCOM/statshouse/internal/verifkit"
)

type verifC25EpCase struct {
	Desc  bool `json:"desc"`
	Limit int  `json:"limit"`
}

func verifC25EpValue(t int64) float64 { return float64(t%100000) + 1 }

func TestVerifC25Endpoint(t *testing.T) {
	verifkit.Gate(t)
	res := verifkit.NewResult()
	defer res.Write(t)
	H := &Handler{HandlerOptions: HandlerOptions{location: time.UTC}}
	load := func(_ context.Context, _ *requestHandler, _ *queryBuilder, lod data_model.LOD, ret [][]tsSelectRow, retStartIx int) (int, error) {
		n := 0
		for ts := lod.FromSec; ts < lod.ToSec; ts += lod.StepSec {
			ix, err := lod.IndexOf(ts)
			if err != nil {
				return 0, err
			}
			var r tsSelectRow
			r.time = ts
			r.count = verifC25EpValue(ts)
			ret[retStartIx+ix] = append(ret[retStartIx+ix], r)
			n++
		}
		return n, nil
	}
	H.cache2 = newCache2(H, 0, load)
	H.CacheBlacklist = []string{getStatTokenName("verif")} // plain loads, no chunk cache
	metric := format.BuiltinMetricMetaAgentSamplingFactor
	id := 0
	for _, desc := range []bool{false, true} {
		for _, limit := range []int{1, 5, 25, 100, 5000} {
			id++
			c := verifC25EpCase{Desc: desc, Limit: limit}
			var lods []data_model.LOD
			var resp *GetTableResp
			ok := false
			for try := 0; try < 200 && !ok; try++ {
				now := time.Now().Unix()
				edge := now - (52*3600 - 2) // Version6: older data only in the 1m table
				from, to := edge-1200, edge+600
				req := seriesRequest{
					numResults: limit,
					metricName: metric.Name,
					from:       time.Unix(from, 0),
					to:         time.Unix(to, 0),
					step:       1,
					what:       []promql.SelectorWhat{{Digest: promql.DigestCountRaw}},
					fromEnd:    desc,
				}
				h := &requestHandler{Handler: H, accessInfo: accessInfo{user: "verif"}}
				h.endpointStat.timings.Timings = map[string][]time.Duration{}
				var err error
				resp, _, err = h.handleGetTable(context.Background(), req)
				if err != nil {
					t.Fatalf("verifC25: handleGetTable: %v", err)
				}
				if time.Now().Unix() != now {
					continue // the clock reading inside the call is not pinned; once more
				}
				lods, err = data_model.GetLODs(data_model.GetTimescaleArgs{
					Start: from, End: to, Step: 1, TimeNow: now, Metric: metric, Location: time.UTC,
				})
				if err != nil {
					t.Fatalf("verifC25: GetLODs: %v", err)
				}
				ok = true
			}
			if !ok {
				t.Fatalf("verifC25: could not pin the clock")
			}
			if len(lods) < 2 {
				t.Fatalf("verifC25: the range no longer splits into two LODs: %+v", lods)
			}
			// the relation: all slots of all LODs, in direction, cut at the limit
			var times []int64
			for _, l := range lods {
				for ts := l.FromSec; ts < l.ToSec; ts += l.StepSec {
					times = append(times, ts)
				}
			}
			if desc {
				for i, j := 0, len(times)-1; i < j; i, j = i+1, j-1 {
					times[i], times[j] = times[j], times[i]
				}
			}
			wantMore := len(times) > limit
			if wantMore {
				times = times[:limit]
			}
			var got []int64
			bad := ""
			for _, r := range resp.Rows {
				got = append(got, r.Time)
				if len(r.Data) != 1 || float64(r.Data[0]) != verifC25EpValue(r.Time) {
					bad = fmt.Sprintf("row %d has the columns %v", r.Time, r.Data)
				}
			}
			sig := ""
			switch {
			case bad != "":
				sig = "endpoint-values"
			case len(got) > limit:
				sig, bad = "endpoint-limit", fmt.Sprintf("%d rows for limit %d", len(got), limit)
			case fmt.Sprint(got) != fmt.Sprint(times):
				sig, bad = "endpoint-rows", "the page is not the beginning of the requested range in the requested direction"
			case resp.More != wantMore:
				sig, bad = "endpoint-hasmore", fmt.Sprintf("more=%v, expected %v", resp.More, wantMore)
			}
			res.Replayed++
			res.Steps += len(lods)
			res.Seen(fmt.Sprintf("%v/%d/%d", desc, len(lods), len(got)))
			if sig != "" {
				head := func(x []int64) []int64 {
					if len(x) > 8 {
						return x[:8]
					}
					return x
				}
				res.Mismatch(verifkit.Mismatch{Beh: map[string]any{"case": c, "lods": fmt.Sprintf("%d LODs, steps %d..%d", len(lods), lods[0].StepSec, lods[len(lods)-1].StepSec),
					"lod_edges_rel_to_first": []int64{0, lods[0].ToSec - lods[0].FromSec, lods[len(lods)-1].ToSec - lods[0].FromSec}},
					Step: id, Want: map[string]any{"first_times_rel": verifC25Rel(head(times), lods[0].FromSec), "more": wantMore},
					Got: map[string]any{"first_times_rel": verifC25Rel(head(got), lods[0].FromSec), "rows": len(got), "more": resp.More}, Sig: sig, Note: bad})
			}
			if id == 1 {
				res.Sample(map[string]any{"endpoint_case": c, "lods": len(lods), "rows": len(got), "more": resp.More})
			}
		}
	}
}

func verifC25Rel(ts []int64, base int64) []int64 {
	r := make([]int64, len(ts))
	for i := range ts {
		r[i] = ts[i] - base
	}
	return r
}
