package api

// C22 conformance driver for the helpers of lod.go (injected by /verif/tools via -overlay).
// I->S: seeded random and boundary inputs run through the real roundTime / shiftTimestamp /
// calcUTCOffset; the recorded (args, result) pairs are judged by specs/TimescaleTrace.tla
// (invariants TrRound, TrShift, TrCalc*).  The month table and the zone offsets handed to the
// specification come from Go's time package only.

import (
	"path/filepath"
	"testing"
	"time"

	"github.com/VKCOM/statshouse/internal/verifkit"
)

type verifC22Ev struct {
	Ev      string  `json:"ev"`
	T       int64   `json:"t"`
	Step    int64   `json:"step"`
	Utc     int64   `json:"utc"`
	Shift   int64   `json:"shift"`
	K       int64   `json:"k"`
	Months  []int64 `json:"months"`
	Loc     string  `json:"loc"`
	Ws      int     `json:"ws"`
	Zone0   int     `json:"zone0"`
	ZoneNow int     `json:"zonenow"`
	Now     int64   `json:"now"`
	Out     int64   `json:"out"`
}

func verifC22MonthTable(lo, hi int64, loc *time.Location) []int64 {
	t := time.Unix(lo, 0).In(loc)
	y, m := t.Year(), int(t.Month())-2
	out := []int64{}
	after := 0
	for i := 0; after < 3; i++ {
		ts := time.Date(y, time.Month(m+i), 1, 0, 0, 0, 0, loc).Unix()
		out = append(out, ts)
		if ts > hi {
			after++
		}
	}
	return out
}

func verifC22Calc(loc *time.Location, ws int, now int64) verifC22Ev {
	_, z0 := time.Date(1970, 1, 1, 0, 0, 0, 0, loc).Zone()
	_, zn := time.Unix(now, 0).In(loc).Zone()
	return verifC22Ev{Ev: "Calc", Loc: loc.String(), Ws: ws, Zone0: z0, ZoneNow: zn, Now: now,
		Out: calcUTCOffset(loc, time.Weekday(ws)), Months: []int64{}}
}

func TestVerifC22Lod(t *testing.T) {
	verifkit.Gate(t)
	res := verifkit.NewResult()
	defer res.Write(t)
	n := verifkit.EnvInt("VERIF_NRANDOM", 3000)
	rnd := verifkit.Rand(2202)
	var evs, known []verifC22Ev
	steps := []int64{_1s, _5s, _15s, _1m, _5m, _15m, _1h, _4h, _24h, _7d}
	names := []string{"UTC", "Europe/Moscow", "America/New_York", "Asia/Kolkata", "Asia/Kathmandu", "America/St_Johns",
		"Europe/London", "Australia/Lord_Howe", "Pacific/Auckland", "Asia/Tokyo", "Pacific/Kiritimati", "Asia/Almaty", "Europe/Samara"}
	var zones []*time.Location
	for _, nm := range names {
		l, err := time.LoadLocation(nm)
		if err != nil {
			t.Fatal(err)
		}
		zones = append(zones, l)
	}
	zones = append(zones, time.FixedZone("F+0530", 5*3600+1800), time.FixedZone("F-0930", -9*3600-1800), time.FixedZone("F-1100", -11*3600))
	// roundTime
	for i := 0; i < n; i++ {
		e := verifC22Ev{Ev: "Round", Step: steps[rnd.Intn(len(steps))], Utc: rnd.Int63n(2*_7d) - _7d, Months: []int64{}}
		switch rnd.Intn(4) {
		case 0:
			e.T = rnd.Int63n(2000000) - 1000000 // around the epoch: negative dividends
		case 1:
			e.T = (1500000000+rnd.Int63n(500000000))/e.Step*e.Step - e.Utc + []int64{0, 1, -1}[rnd.Intn(3)]
		default:
			e.T = 1000000 + rnd.Int63n(2000000000)
		}
		if rnd.Intn(3) == 0 {
			e.Utc = []int64{0, 1800, -1800, 3 * 3600, 5*3600 + 1800, -(3*3600 + 1800), 12*3600 + 2700, 97200}[rnd.Intn(8)]
		}
		e.Out = roundTime(e.T, e.Step, e.Utc)
		evs = append(evs, e)
		res.Steps++
	}
	// shiftTimestamp
	for i := 0; i < n; i++ {
		loc := zones[rnd.Intn(len(zones))]
		e := verifC22Ev{Ev: "Shift", Loc: loc.String(), Months: []int64{}}
		if rnd.Intn(2) == 0 {
			e.Step = _1M
			y, m := 1990+rnd.Intn(45), time.Month(1+rnd.Intn(12))
			e.T = time.Date(y, m, 1, 0, 0, 0, 0, loc).Unix()
			e.K = int64(rnd.Intn(61) - 30)
			e.Shift = e.K * _1M
			e.Out = shiftTimestamp(e.T, e.Step, e.Shift, loc)
			lo, hi := e.T, e.T
			far := time.Date(y, m+time.Month(e.K), 1, 0, 0, 0, 0, loc).Unix()
			lo, hi = min(lo, far, e.Out), max(hi, far, e.Out)
			e.Months = verifC22MonthTable(lo, hi, loc)
			// the table starts two months before lo: express the shift as an index difference only
		} else {
			e.Step = steps[rnd.Intn(len(steps))]
			e.T = 1000000 + rnd.Int63n(1900000000)
			e.K = int64(rnd.Intn(201) - 100)
			e.Shift = e.K * e.Step
			e.Out = shiftTimestamp(e.T, e.Step, e.Shift, loc)
		}
		evs = append(evs, e)
		res.Steps++
	}
	// calcUTCOffset: every zone x every week start, in winter and in summer
	winter := time.Date(2026, 1, 15, 12, 0, 0, 0, time.UTC).Unix()
	summer := time.Date(2026, 7, 15, 12, 0, 0, 0, time.UTC).Unix()
	for _, loc := range zones {
		for ws := 0; ws < 7; ws++ {
			for _, now := range []int64{winter, summer} {
				e := verifC22Calc(loc, ws, now)
				evs = append(evs, e)
				res.Steps++
				if e.Zone0 != e.ZoneNow && len(known) < 40 {
					known = append(known, e)
				}
			}
		}
	}
	res.Replayed = len(evs)
	dir := verifkit.TmpDir(t, "c22l-")
	p := filepath.Join(dir, "trace.ndjson")
	if err := verifkit.WriteNDJSON(p, evs); err != nil {
		t.Fatal(err)
	}
	res.Files = append(res.Files, p)
	res.Count("known_calc_records", len(known))
	if len(known) > 0 {
		res.Note("calcUTCOffset: %+v", known[0])
	}
	res.Consts["month"] = _1M
}
