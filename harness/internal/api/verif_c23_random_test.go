package api

// C23 random concurrent driver: many goroutines of cache2.Get over a few keys, steps and
// chunk-straddling ranges, with concurrent invalidate / setLimits (real trim goroutine) / reset,
// loads of random duration and failures, and randomly held "loaded, not yet published" gates.
// The event log of every run is validated by specs/SeriesCacheAbsTrace.tla.

import (
	"fmt"
	"math/rand"
	"os"
	"path/filepath"
	"runtime"
	"sync"
	"testing"
	"time"
	"unsafe"

	"github.com/VKCOM/statshouse/internal/verifkit"
)

type verifC23RunCfg struct {
	Run       int     `json:"run"`
	ChunkSize int     `json:"chunkSize"`
	Steps     []int64 `json:"steps"`
	NKeys     int     `json:"keys"`
	Workers   int     `json:"workers"`
	Ops       int     `json:"ops"`
	Limits    string  `json:"limits"`
	Reset     bool    `json:"reset"`
	Inflight  bool    `json:"inflight"`
	NearNow   bool    `json:"nearNow"`
	Window    int     `json:"windowChunks"`
	Offset    int64   `json:"utcOffset"`
}

var verifC23Steps = []int64{1, 5, 15, 60, 300, 900, 3600, 14400, 86400, 604800}

// One run = one cache instance.  The run has its own event recorder: goroutines that outlive
// an aborted run (requests that waited forever until shutdown woke them) cannot write into the
// log of the next run.
func verifC23RandomRun(res *verifkit.Result, rnd *rand.Rand, run int, allowReset, allowInflight bool) []map[string]any {
	tr := verifkit.NewTrace()
	cfg := verifC23RunCfg{Run: run}
	cfg.ChunkSize = []int{0, 0, 1, 2, 3, 5}[rnd.Intn(6)]
	nsteps := 1 + rnd.Intn(2)
	for i := 0; i < nsteps; i++ {
		cfg.Steps = append(cfg.Steps, verifC23Steps[rnd.Intn(len(verifC23Steps))])
	}
	cfg.NKeys = 1 + rnd.Intn(5)
	cfg.Workers = 2 + rnd.Intn(7)
	cfg.Ops = 4 + rnd.Intn(14)
	cfg.Limits = []string{"none", "none", "size", "age", "both"}[rnd.Intn(5)]
	cfg.Reset = allowReset && rnd.Intn(4) == 0
	cfg.Inflight = allowInflight && rnd.Intn(3) == 0
	cfg.NearNow = rnd.Intn(4) == 0
	cfg.Window = 2 + rnd.Intn(3)
	if rnd.Intn(3) == 0 {
		cfg.Offset = []int64{3 * 3600, -5 * 3600, 4 * 86400}[rnd.Intn(3)]
	}
	switch os.Getenv("VERIF_C23_ONLY") { // development aid: force one family of runs
	case "inflight":
		cfg.Inflight, cfg.Limits = true, []string{"size", "both"}[rnd.Intn(2)]
	case "plain":
		cfg.Inflight, cfg.Limits, cfg.Reset = false, "none", false
	case "limits":
		cfg.Inflight, cfg.Limits = false, []string{"size", "age", "both"}[rnd.Intn(3)]
	}
	keys := []string{"a", "b", "c", "d", "e"}[:cfg.NKeys]
	tr.Emit("Reset", "run", run, "cfg", cfg)
	e := verifC23NewEnv(tr, res, cfg.ChunkSize, cfg.Offset, keys)
	e.inflight = cfg.Inflight
	rowSize := int(unsafe.Sizeof(tsSelectRow{}))

	// per step: chunk geometry and the window of chunks requests fall into
	type geo struct {
		step, size, dur, base int64
	}
	var geos []geo
	now := time.Now().Unix()
	for _, st := range cfg.Steps {
		sz, d := cache2ChunkSizeDuration(cfg.ChunkSize, time.Duration(st)*time.Second)
		g := geo{step: st, size: int64(sz), dur: int64(d / time.Second)}
		t := now - int64(3600+rnd.Intn(30*86400))
		if cfg.NearNow {
			t = now - g.dur*int64(cfg.Window-1)
		}
		// chunk grid as cache2.chunkStart computes it
		if st <= 3600 {
			g.base = (t / g.dur) * g.dur
		} else {
			g.base = ((t+cfg.Offset)/g.dur)*g.dur - cfg.Offset
		}
		geos = append(geos, g)
	}
	limits := func(r *rand.Rand) cache2Limits {
		var v cache2Limits
		if cfg.Limits == "size" || cfg.Limits == "both" {
			v.maxSize = rowSize * (2 + r.Intn(60))
			if r.Intn(2) == 0 {
				v.maxSizeSoft = v.maxSize / 2
			}
		}
		if cfg.Limits == "age" || cfg.Limits == "both" {
			v.maxAge = time.Duration(1+r.Intn(20)) * time.Millisecond
		}
		return v
	}
	if cfg.Limits != "none" {
		v := limits(rnd)
		tr.Emit("Note", "what", "setLimits", "maxSize", v.maxSize, "soft", v.maxSizeSoft, "maxAgeNs", int64(v.maxAge))
		e.c.setLimits(v)
	}
	var wg sync.WaitGroup
	var gates sync.WaitGroup
	for w := 0; w < cfg.Workers; w++ {
		wr := rand.New(rand.NewSource(rnd.Int63()))
		wg.Add(1)
		go func() {
			defer wg.Done()
			for op := 0; op < cfg.Ops; op++ {
				g := geos[wr.Intn(len(geos))]
				total := int64(cfg.Window) * g.size
				switch x := wr.Intn(100); {
				case x < 66: // Get
					a := wr.Int63n(total)
					n := 1 + wr.Int63n(min(total-a, 2*g.size+1))
					if wr.Intn(4) == 0 { // chunk-aligned request
						a = (a / g.size) * g.size
						n = min(total-a, g.size*(1+wr.Int63n(2)))
					}
					play := []int{0, 0, 0, 0, 1, 5}[wr.Intn(6)]
					r := e.newReq(keys[wr.Intn(len(keys))], play, wr.Intn(12) == 0, g.step, g.base+a*g.step, g.base+(a+n)*g.step)
					r.yields = []int{0, 0, 1, 5, 50, 400}[wr.Intn(6)]
					r.fail = wr.Intn(10) == 0
					if cfg.Inflight && wr.Intn(2) == 0 {
						r.bytes = int64(rowSize * (1 + wr.Intn(40)))
					}
					if wr.Intn(3) == 0 {
						// keep this request's loader between "loaded" and "published" for a while
						r.holdGate()
						k := []int{1, 20, 200, 2000}[wr.Intn(4)]
						gates.Add(1)
						go func() {
							defer gates.Done()
							for i := 0; i < k; i++ {
								runtime.Gosched()
							}
							r.openGate()
						}()
					}
					e.get(r)
					res.Seen(e.class(r))
				case x < 77: // chase: invalidate what a parked loader has just read, then ask for it again
					e.mu.Lock()
					var cand []*verifC23Req
					for _, r := range e.all {
						if r.gateHeld.Load() && r.loads.Load() != 0 {
							select {
							case <-r.loaded:
								cand = append(cand, r)
							default:
							}
						}
					}
					e.mu.Unlock()
					if len(cand) == 0 {
						continue
					}
					r := cand[wr.Intn(len(cand))]
					n := (r.lod.ToSec - r.lod.FromSec) / r.lod.StepSec
					e.invalidate([]int64{r.lod.FromSec + wr.Int63n(n)*r.lod.StepSec}, r.lod.StepSec)
					switch wr.Intn(3) {
					case 0:
						// let the parked loader publish first
						r.openGate()
						<-r.done
						verifC23WaitCond(2*time.Second, func() bool { return r.timing("cache-load-chunks") })
					case 1:
						// two loads of the same chunk in flight: a second request starts the newer load and stays in
						// the loader, a third joins as awaiter, then the older (parked) load publishes first
						r2 := e.newReq(r.key, 0, false, r.lod.StepSec, r.lod.FromSec, r.lod.ToSec)
						r2.loadGate = make(chan verifC23Outcome, 1)
						go e.get(r2)
						verifC23WaitCond(2*time.Second, func() bool {
							select {
							case <-r2.entered:
								return true
							case <-r2.done:
								return true
							default:
								return false
							}
						})
						r3 := e.newReq(r.key, 0, false, r.lod.StepSec, r.lod.FromSec, r.lod.ToSec)
						go e.get(r3)
						w0 := e.tr.Len()
						verifC23WaitCond(20*time.Millisecond, func() bool { // r3 began (and most likely registered)
							select {
							case <-r3.done:
								return true
							default:
								return e.tr.Len() > w0+1
							}
						})
						for i := 0; i < 20; i++ {
							runtime.Gosched()
						}
						r.openGate()
						// the parked loader publishes; its request may itself await the load held here
						// (a range over two chunks), so never wait for the request before releasing that load
						verifC23WaitCond(2*time.Second, func() bool { return r.timing("cache-load-chunks") })
						r2.loadGate <- verifC23Outcome{ok: wr.Intn(8) != 0}
						<-r.done
						<-r2.done
						<-r3.done
						res.Seen(e.class(r2))
						res.Seen(e.class(r3))
						continue
					}
					r2 := e.newReq(r.key, 0, false, r.lod.StepSec, r.lod.FromSec, r.lod.ToSec)
					r2.yields = wr.Intn(3)
					e.get(r2)
					res.Seen(e.class(r2))
				case x < 83: // shard chase: a bucket is dropped (as trim does) while invalidate is between two buckets
					e.mu.Lock()
					var fin []*verifC23Req
					for _, r := range e.all {
						select {
						case <-r.done:
							if r.err == nil && r.lod.StepSec == g.step {
								fin = append(fin, r)
							}
						default:
						}
					}
					e.mu.Unlock()
					if len(fin) == 0 {
						continue
					}
					r0 := fin[wr.Intn(len(fin))]
					verifC23ShardChase(e, wr, r0)
					r2 := e.newReq(r0.key, 0, false, r0.lod.StepSec, r0.lod.FromSec, r0.lod.ToSec)
					e.get(r2)
					res.Seen(e.class(r2))
				case x < 90: // invalidate
					nt := 1 + wr.Intn(3)
					times := make([]int64, 0, nt)
					for i := 0; i < nt; i++ {
						times = append(times, g.base+wr.Int63n(total*g.step))
					}
					e.invalidate(times, g.step)
				case x < 97:
					if cfg.Limits != "none" {
						v := limits(wr)
						if wr.Intn(5) == 0 {
							v = cache2Limits{}
						}
						tr.Emit("Note", "what", "setLimits", "maxSize", v.maxSize, "soft", v.maxSizeSoft, "maxAgeNs", int64(v.maxAge))
						e.c.setLimits(v)
					}
				default:
					if cfg.Reset {
						tr.Emit("Note", "what", "reset")
						e.c.reset()
					}
				}
			}
		}()
	}
	done := make(chan struct{})
	go func() { wg.Wait(); close(done) }()
	finished := e.waitQuiet(func() bool {
		select {
		case <-done:
			return true
		default:
			return false
		}
	})
	// not finished: workers are stuck inside the cache, quiesce reports which requests
	judge := e.quiesce() && finished
	gates.Wait()
	if judge {
		if cfg.Limits == "none" {
			// nothing wakes the trim goroutine: reset empties the cache deterministically
			e.c.reset()
			e.emptied("reset")
		}
		// shutdown stops the trim goroutine (its last pass may leave buckets whose size is 0);
		// reset then empties the cache with nobody else touching it
		e.c.shutdown().Wait()
		e.c.reset()
		e.emptied("shutdown+reset")
	}
	events := tr.Events()
	if !judge {
		e.c.shutdown() // wakes whatever waits on the cache's condition variables
	}
	res.Replayed++
	res.Steps += cfg.Workers * cfg.Ops
	res.Sample(cfg)
	return events
}

// verifC23ShardChase invalidates a slot of the finished request r0 with the invalidate call parked
// at a random bucket of the shard (its mutex is held meanwhile), removes the bucket the shard's
// invalidate cursor points to - the calls reduceMemoryUsage makes - and lets the call finish.
// While a bucket mutex is held the shard mutex is only tried, never waited for (a request
// creating its loader holds the shard mutex while it waits for its bucket).
func verifC23ShardChase(e *verifC23Env, wr *rand.Rand, r0 *verifC23Req) {
	shard := e.c.shards[time.Duration(r0.lod.StepSec)*time.Second]
	shard.mu.Lock()
	var list []*cache2Bucket
	for b := shard.bucketL.next(shard.bucketL.head); b != nil; b = shard.bucketL.next(b) {
		list = append(list, b)
	}
	shard.mu.Unlock()
	if len(list) < 3 {
		return
	}
	hold := list[wr.Intn(len(list)-1)]
	n := (r0.lod.ToSec - r0.lod.FromSec) / r0.lod.StepSec
	times := []int64{r0.lod.FromSec + wr.Int63n(n)*r0.lod.StepSec}
	e.invMu.Lock()
	defer e.invMu.Unlock()
	hold.mu.Lock()
	done := make(chan struct{})
	go func() {
		defer close(done)
		e.invalidateLocked(times, r0.lod.StepSec)
	}()
	var target *cache2Bucket
	var info cache2UpdateInfo
	removed := false
	for i := 0; i < 2000 && !removed; i++ {
		select {
		case <-done:
			i = 2000
			continue
		default:
		}
		if shard.mu.TryLock() {
			if next := shard.bucketL.next(hold); next != nil && shard.invalidateIter == next && hold.key != "" {
				// the call is parked at `hold`; drop the bucket it would visit next
				target = next
				e.tr.Emit("Note", "what", "removeBucket during invalidate", "key", target.key)
				shard.removeBucketUnlocked(target, &info)
				removed = true
			}
			shard.mu.Unlock()
		}
		runtime.Gosched()
	}
	hold.mu.Unlock()
	<-done
	if removed {
		e.c.updateRuntimeInfo(shard.stepS, target.fau, &info)
	}
}

func TestVerifC23Random(t *testing.T) {
	verifkit.Gate(t)
	res := verifkit.NewResult()
	defer res.Write(t)
	lanes := verifkit.EnvInt("VERIF_C23_LANES", 4)
	nruns := verifkit.EnvInt("VERIF_C23_NRUNS", 10)
	allowReset := verifkit.EnvInt("VERIF_C23_RESET", 1) == 1
	allowInflight := verifkit.EnvInt("VERIF_C23_INFLIGHT", 1) == 1
	dir := verifkit.TmpDir(t, "c23-")
	var mu sync.Mutex
	var wg sync.WaitGroup
	for lane := 0; lane < lanes; lane++ {
		wg.Add(1)
		go func() {
			defer wg.Done()
			var events []map[string]any
			lres := verifkit.NewResult()
			rnd := verifkit.Rand(int64(2300 + lane))
			for r := 0; r < nruns; r++ {
				events = append(events, verifC23RandomRun(lres, rnd, lane*100000+r, allowReset, allowInflight)...)
			}
			p := filepath.Join(dir, fmt.Sprintf("random_%d.ndjson", lane))
			if err := verifkit.WriteNDJSON(p, events); err != nil {
				panic(err)
			}
			mu.Lock()
			defer mu.Unlock()
			res.Files = append(res.Files, p)
			res.Replayed += lres.Replayed
			res.Steps += lres.Steps
			for k, v := range lres.Distinct {
				res.Distinct[k] += v
			}
			for k, v := range lres.Counters {
				res.Counters[k] += v
			}
			res.Mismatches = append(res.Mismatches, lres.Mismatches...)
			res.Notes = append(res.Notes, lres.Notes...)
			if len(res.Samples) < 4 && len(lres.Samples) > 0 {
				res.Samples = append(res.Samples, lres.Samples[0])
			}
		}()
	}
	wg.Wait()
	res.Consts["rowSize"] = int(unsafe.Sizeof(tsSelectRow{}))
	res.Consts["invalidateLingerNs"] = int64(invalidateLinger)
}
