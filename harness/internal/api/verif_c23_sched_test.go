package api

// C23 schedule driver: replays interleavings on the real cache2.  A schedule is a sequence of
// steps of the layer-2 specification (specs/SeriesCache.tla: Start / LoadBegin / LoadEnd / Post /
// GetEnd / InvBegin / InvApply / Trim, exported by TLC: counterexamples of the configurations
// that describe the code before its repair, and simulated behaviours of the repaired model) or
// a hand-written scenario with a few more step kinds (memory limits, inflight announcements,
// reset racing with the trim pass).  Steps are hints: each one releases the real goroutine at the
// corresponding point if it is there (see verif_c23_common_test.go for the gates); what the real
// code then does is recorded and judged by specs/SeriesCacheAbsTrace.tla only - nothing the
// model predicts is demanded from the code, so a change that keeps the property passes.  How
// often the code took the same load decisions as the model is reported (informational).

import (
	"fmt"
	"path/filepath"
	"runtime"
	"strings"
	"sync"
	"testing"
	"time"
	"unsafe"

	"github.com/VKCOM/statshouse/internal/verifkit"
)

const verifC23Step = 60 // seconds per slot in scheduled runs

type verifC23Sched struct {
	e     *verifC23Env
	cs    int64
	base  int64
	key   string
	shard *cache2Shard
	reqs  map[int]*verifC23Req
	rel   map[int]bool // load released
	post  map[int]bool // gate opened
	gateB *cache2Bucket
	gateL bool
	invHold *cache2Bucket // bucket whose mutex parks the running invalidate
	inv   map[int]chan struct{}
	trimG chan any // driver-owned trim pass (nil: none)
	trimH bool     // debugLogMu held
	heldB *cache2Bucket
	infra []string
	agree, compared int
}

func (s *verifC23Sched) note(f string, a ...any) { s.infra = append(s.infra, fmt.Sprintf(f, a...)) }

func (s *verifC23Sched) bucket(key string) *cache2Bucket {
	s.shard.mu.Lock()
	defer s.shard.mu.Unlock()
	return s.shard.bucketM[key]
}

// two dummy buckets at the head of the shard's list: invalidate visits them first, so holding
// the mutex of the first parks an invalidate call after it has read its clock
func (s *verifC23Sched) makeGateBuckets() {
	for _, k := range []string{"~gate1", "~gate2"} {
		r := s.e.newReq(k, 0, false, verifC23Step, s.base-10*s.cs*verifC23Step, s.base-10*s.cs*verifC23Step+verifC23Step)
		s.e.get(r)
	}
	s.gateB = s.bucket("~gate1")
}

func (s *verifC23Sched) slotTime(slot int) int64 { return s.base + int64(slot-1)*verifC23Step }

// settled: newLoader (the critical section under the bucket mutex) of request r is over
func (s *verifC23Sched) waitInit(r *verifC23Req, before int64, had bool) bool {
	return verifC23WaitCond(s.e.deadline, func() bool {
		select {
		case <-r.done:
			return true
		default:
		}
		b := s.bucket(r.key)
		if b == nil {
			return false
		}
		b.mu.Lock()
		defer b.mu.Unlock()
		return !had || b.lastAccessTime != before
	})
}

func (s *verifC23Sched) start(g int, key string, lo, hi, play int, force, announce, nowait bool) {
	r := s.e.newReq(key, play, force, verifC23Step, s.slotTime(lo), s.slotTime(hi)+verifC23Step)
	r.loadGate = make(chan verifC23Outcome, 1)
	if announce {
		r.announce = make(chan int64)
	}
	r.holdGate()
	s.reqs[g] = r
	var before int64
	b := s.bucket(key)
	if b != nil {
		b.mu.Lock()
		before = b.lastAccessTime
		b.mu.Unlock()
	}
	go s.e.get(r)
	if nowait {
		return
	}
	if !s.waitInit(r, before, b != nil) {
		s.note("request %d did not get through newLoader", g)
	}
}

func (s *verifC23Sched) loadBegin(g int) bool {
	r := s.reqs[g]
	if r == nil {
		return false
	}
	ok := false
	verifC23WaitCond(3*time.Second, func() bool {
		select {
		case <-r.entered:
			ok = true
			return true
		case <-r.done:
			return true
		default:
			return false
		}
	})
	return ok
}

func (s *verifC23Sched) loadEnd(g int, ok bool) {
	r := s.reqs[g]
	if r == nil || s.rel[g] {
		return
	}
	select {
	case <-r.entered:
	default:
		if !s.loadBegin(g) {
			return // the code decided not to load for this request
		}
	}
	s.rel[g] = true
	r.loadGate <- verifC23Outcome{ok: ok}
	if !verifC23WaitCond(s.e.deadline, func() bool {
		select {
		case <-r.loaded:
			return true
		default:
			return false
		}
	}) {
		s.note("load of request %d did not return", g)
	}
}

func (s *verifC23Sched) postLoad(g int) {
	r := s.reqs[g]
	if r == nil || s.post[g] || !s.rel[g] {
		return
	}
	s.post[g] = true
	r.openGate()
	if !verifC23WaitCond(s.e.deadline, func() bool { return r.timing("cache-load-chunks") }) {
		s.note("loader of request %d did not finish its post-load", g)
	}
}

func (s *verifC23Sched) getEnd(g int) {
	r := s.reqs[g]
	if r == nil {
		return
	}
	verifC23WaitCond(20*time.Millisecond, func() bool {
		select {
		case <-r.done:
			return true
		default:
			return false
		}
	})
}

// invBegin starts an invalidate call and parks it at the bucket of key `at` (default: the first
// dummy bucket), i.e. after it has read its clock and while shard.invalidateIter points to the
// bucket behind that one
func (s *verifC23Sched) invBegin(i int, positions []int, at string) {
	if s.gateB == nil || s.bucket("~gate1") != s.gateB {
		s.makeGateBuckets()
	}
	hold := s.gateB
	if at != "" {
		if b := s.bucket(at); b != nil {
			hold = b
		}
	}
	var times []int64
	for _, p := range positions {
		times = append(times, s.base+int64(p-1)*s.cs*verifC23Step+int64(i%int(s.cs*verifC23Step)))
	}
	hold.mu.Lock()
	s.invHold = hold
	s.gateL = true
	done := make(chan struct{})
	s.inv[i] = done
	go func() {
		defer close(done)
		s.e.invalidate(times, verifC23Step)
	}()
	// parked at the held bucket <=> the shard's invalidate cursor points to its successor
	if !verifC23WaitCond(s.e.deadline, func() bool {
		s.shard.mu.Lock()
		defer s.shard.mu.Unlock()
		want := s.shard.bucketL.next(hold)
		if want == nil {
			return verifC23Parked("cache2Bucket).invalidate")
		}
		return s.shard.invalidateIter == want
	}) {
		s.note("invalidate %d did not reach the bucket it should park at", i)
	}
}

func (s *verifC23Sched) invApply(i int) {
	done := s.inv[i]
	if done == nil {
		return
	}
	if s.gateL {
		s.gateL = false
		s.invHold.mu.Unlock()
	}
	select {
	case <-done:
	case <-time.After(s.e.deadline):
		s.note("invalidate %d did not return", i)
	}
	delete(s.inv, i)
}

// trim: the chunks at the given positions of the bucket look unused for a day, then what
// trimAged does for one bucket runs on it (the cache's own trim goroutine sleeps: no limits)
func (s *verifC23Sched) trim(key string, positions []int) {
	b := s.bucket(key)
	if b == nil {
		return
	}
	want := map[int64]bool{}
	for _, p := range positions {
		want[(s.base+int64(p-1)*s.cs*verifC23Step)*int64(time.Second)] = true
	}
	b.mu.Lock()
	for _, c := range b.chunks {
		if want[c.start] {
			c.mu.Lock()
			c.lastAccessTime = 1
			c.mu.Unlock()
		}
	}
	b.mu.Unlock()
	s.e.tr.Emit("Note", "what", "trimAged", "positions", positions)
	timeNow := time.Now()
	infoM := make(cache2UpdateInfoM)
	info := &cache2UpdateInfo{minChunkAccessTime: timeNow.UnixNano()}
	b.removeChunksNotUsedAfter(timeNow.Add(-time.Hour).UnixNano(), info)
	infoM.add(s.shard.stepS, b.fau, info)
	s.e.c.updateRuntimeInfoM(infoM)
}

// parked reports whether some goroutine is blocked in Lock called from the named function
func verifC23Parked(fn string) bool {
	for _, g := range strings.Split(verifC23AllStacks(), "\n\n") {
		if strings.Contains(g, fn) && (strings.Contains(g, "sync.(*Mutex).Lock") || strings.Contains(g, "sync.(*Mutex).lockSlow")) {
			return true
		}
	}
	return false
}

func (s *verifC23Sched) step(st verifkit.Step) {
	ints := func(k string) []int {
		var out []int
		if l, ok := st[k].([]any); ok {
			for _, x := range l {
				out = append(out, int(x.(float64)))
			}
		}
		return out
	}
	key := st.Str("key")
	if key == "" {
		key = s.key
	}
	switch st.Act() {
	case "Start":
		s.start(st.Int("g"), key, st.Int("lo"), st.Int("hi"), st.Int("play"), st.Bool("force"), st.Bool("announce"), st.Bool("nowait"))
		// informational: did the code decide to load what the model says?
		if own, ok := st["own"].([]any); ok && !st.Bool("nowait") {
			r := s.reqs[st.Int("g")]
			entered := s.loadBeginQuick(r, len(own) != 0)
			s.compared++
			if entered == (len(own) != 0) {
				s.agree++
			}
		}
	case "LoadBegin":
		s.loadBegin(st.Int("g"))
	case "LoadEnd":
		s.loadEnd(st.Int("g"), st.Bool("ok"))
	case "Post":
		s.postLoad(st.Int("g"))
	case "GetEnd":
		s.getEnd(st.Int("g"))
	case "InvBegin":
		s.invBegin(st.Int("i"), ints("T"), st.Str("at"))
	case "InvApply":
		s.invApply(st.Int("i"))
	case "Trim":
		s.trim(key, ints("T"))
	case "RemoveBucket": // what reduceMemoryUsage / trimAged do to a bucket they decided to drop
		if b := s.bucket(key); b != nil {
			s.e.tr.Emit("Note", "what", "removeBucket", "key", key)
			info := cache2UpdateInfo{}
			s.shard.removeBucket(b, &info)
			s.e.c.updateRuntimeInfo(s.shard.stepS, b.fau, &info)
		}
	case "Reset":
		s.e.tr.Emit("Note", "what", "reset")
		s.e.c.reset()
	case "SetLimits":
		unit := int(unsafe.Sizeof(tsSelectRow{}))
		v := cache2Limits{maxSize: st.Int("hard") * unit, maxSizeSoft: st.Int("soft") * unit}
		s.e.tr.Emit("Note", "what", "setLimits", "maxSize", v.maxSize, "soft", v.maxSizeSoft)
		s.e.c.setLimits(v)
	case "Announce": // the load of request g announces rows received from the storage (may block)
		r := s.reqs[st.Int("g")]
		if r != nil && r.announce != nil {
			b := int64(st.Int("rows")) * int64(unsafe.Sizeof(tsSelectRow{}))
			select {
			case r.announce <- b:
			case <-time.After(s.e.deadline):
				s.note("load of request %d does not take announcements", st.Int("g"))
			}
			// wait until the call returned or sleeps on a condition variable
			verifC23WaitCond(s.e.deadline, func() bool {
				return r.inCache.Load() == 0 || strings.Contains(verifC23AllStacks(), "tryNotExceedMemory")
			})
		}
	case "SetLimitsRel": // limits relative to what is cached now: soft = size - under bytes, hard = size + room rows
		unit := int(unsafe.Sizeof(tsSelectRow{}))
		info := s.e.c.runtimeInfo()
		v := cache2Limits{maxSize: info.size() + st.Int("room")*unit, maxSizeSoft: info.size() - st.Int("under")}
		s.e.tr.Emit("Note", "what", "setLimits", "maxSize", v.maxSize, "soft", v.maxSizeSoft)
		s.e.c.setLimits(v)
	case "HoldBucket": // park whoever needs this bucket's mutex (a trim pass removing it)
		if b := s.bucket(key); b != nil {
			b.mu.Lock()
			s.heldB = b
		}
	case "ReleaseBucket":
		if s.heldB != nil {
			s.heldB.mu.Unlock()
			s.heldB = nil
		}
	case "WaitParked": // some goroutine is blocked on a mutex below the named function
		if !verifC23WaitCond(s.e.deadline, func() bool { return verifC23Parked(st.Str("fn")) }) {
			s.note("nobody parked in %s", st.Str("fn"))
		}
	case "HoldTrim": // park the cache's trim pass between collecting the buckets and removing them
		s.e.c.debugLogMu.Lock()
		s.trimH = true
	case "WaitTrimParked":
		if !verifC23WaitCond(s.e.deadline, func() bool { return verifC23Parked("reduceMemoryUsage") }) {
			s.note("trim pass did not reach the debug log")
		}
	case "ReleaseTrim":
		if s.trimH {
			s.trimH = false
			s.e.c.debugLogMu.Unlock()
		}
	case "TrimPass": // one reduceMemoryUsage pass on a goroutine of the driver (so a panic can be observed)
		ch := make(chan any, 1)
		s.trimG = ch
		go func() {
			defer func() { ch <- recover() }()
			t := cache2Trim{s.e.c, newCache2TrimBucketHeap()}
			t.reduceMemoryUsage()
		}()
	case "WaitTrimPass":
		if s.trimG != nil {
			select {
			case p := <-s.trimG:
				if p != nil {
					s.e.panics.Add(1)
					s.e.res.Mismatch(verifkit.Mismatch{Sig: "panic", Got: fmt.Sprint(p), Note: "reduceMemoryUsage racing with reset"})
					s.e.tr.Emit("Note", "what", "panic in trim pass", "p", fmt.Sprint(p))
				}
			case <-time.After(s.e.deadline):
				s.note("trim pass did not return")
			}
			s.trimG = nil
		}
	case "Yield":
		for i := 0; i < 50; i++ {
			runtime.Gosched()
		}
	}
}

func (s *verifC23Sched) loadBeginQuick(r *verifC23Req, expected bool) bool {
	ok := false
	d := 20 * time.Millisecond
	if expected {
		d = 3 * time.Second
	}
	verifC23WaitCond(d, func() bool {
		select {
		case <-r.entered:
			ok = true
			return true
		case <-r.done:
			return true
		default:
			return false
		}
	})
	return ok
}

// run one schedule on a fresh cache; returns the events of the run
func verifC23RunSchedule(res *verifkit.Result, run int, cs int, steps []verifkit.Step, kind string) []map[string]any {
	tr := verifkit.NewTrace()
	tr.Emit("Reset", "run", run, "cfg", map[string]any{"kind": kind, "cs": cs, "steps": len(steps)})
	e := verifC23NewEnv(tr, res, cs, 0, []string{"k", "~gate1", "~gate2", "j", "m"})
	e.inflight = false
	s := &verifC23Sched{e: e, cs: int64(cs), key: "k", reqs: map[int]*verifC23Req{}, rel: map[int]bool{}, post: map[int]bool{}, inv: map[int]chan struct{}{}}
	s.shard = e.c.shards[verifC23Step*time.Second]
	d := s.cs * verifC23Step
	s.base = ((time.Now().Unix() - 40*86400) / (d * 1000)) * (d * 1000) // old chunks, aligned to the chunk grid
	s.makeGateBuckets()
	usedLimits := false
	for _, st := range steps {
		if st.Act() == "SetLimits" || st.Act() == "SetLimitsRel" {
			usedLimits = true
		}
		s.step(st)
	}
	// the environment finishes everything it started
	for i := range s.inv {
		s.invApply(i)
	}
	if s.heldB != nil {
		s.heldB.mu.Unlock()
		s.heldB = nil
	}
	if s.trimH {
		s.trimH = false
		e.c.debugLogMu.Unlock()
	}
	for g, r := range s.reqs {
		select {
		case <-r.entered:
			if !s.rel[g] {
				s.rel[g] = true
				r.loadGate <- verifC23Outcome{ok: true}
			}
		default:
			r.loadGate <- verifC23Outcome{ok: true} // buffered: taken if the load starts later
			s.rel[g] = true
		}
	}
	if s.trimG != nil {
		s.step(verifkit.Step{"a": "WaitTrimPass"})
	}
	judge := e.quiesce()
	if judge {
		if !usedLimits {
			e.c.reset()
			e.emptied("reset")
		}
		e.c.shutdown().Wait()
		e.c.reset()
		e.emptied("shutdown+reset")
	}
	events := tr.Events()
	if !judge {
		e.c.shutdown()
	}
	for _, n := range s.infra {
		res.Note("run %d (%s): %s", run, kind, n)
		res.Count("infra", 1)
	}
	res.Count("l2_compared", s.compared)
	res.Count("l2_agree", s.agree)
	for _, r := range s.reqs {
		select {
		case <-r.done:
			res.Seen(e.class(r))
		default:
		}
	}
	res.Replayed++
	res.Steps += len(steps)
	return events
}

func TestVerifC23Sched(t *testing.T) {
	verifkit.Gate(t)
	res := verifkit.NewResult()
	defer res.Write(t)
	behs := verifkit.LoadBehaviours(t)
	cs := verifkit.EnvInt("VERIF_C23_CS", 2)
	lanes := verifkit.EnvInt("VERIF_C23_LANES", 4)
	dir := verifkit.TmpDir(t, "c23s-")
	var mu sync.Mutex
	var wg sync.WaitGroup
	for lane := 0; lane < lanes; lane++ {
		wg.Add(1)
		go func() {
			defer wg.Done()
			var events []map[string]any
			lres := verifkit.NewResult()
			for i := lane; i < len(behs); i += lanes {
				b := behs[i]
				kind := "tlc"
				c := cs
				if len(b) > 0 && b[0].Act() == "Scenario" {
					kind = b[0].Str("name")
					if b[0].Int("cs") != 0 {
						c = b[0].Int("cs")
					}
					b = b[1:]
				}
				events = append(events, verifC23RunSchedule(lres, i, c, b, kind)...)
			}
			p := filepath.Join(dir, fmt.Sprintf("sched_%d.ndjson", lane))
			if err := verifkit.WriteNDJSON(p, events); err != nil {
				panic(err)
			}
			mu.Lock()
			defer mu.Unlock()
			res.Files = append(res.Files, p)
			res.Replayed += lres.Replayed
			res.Steps += lres.Steps
			for k, v := range lres.Distinct {
				res.Distinct[k] += v
			}
			for k, v := range lres.Counters {
				res.Counters[k] += v
			}
			res.Mismatches = append(res.Mismatches, lres.Mismatches...)
			res.Notes = append(res.Notes, lres.Notes...)
		}()
	}
	wg.Wait()
}
