package api

// C26 harness, part 1: the string-literal lexer of the storage dialect (ClickHouse) and the
// binding of specs/SqlLiteral.tla to the repository's escaper.
//
// TRUSTED BASE (kept small on purpose): verifC26Split / verifC26Dec implement Lex / Dec of
// SqlLiteral.tla on real bytes (token boundaries as ClickHouse Lexer.cpp quotedString, decoding as
// readQuotedStringWithSQLStyle / parseComplexEscapeSequence).  Their agreement with the
// specification is itself checked: TLC exports Lex of every UNESCAPED class string and
// TestVerifC26Literal compares (counter lexer_conformance_failures, must stay 0).

import (
	"bytes"
	"fmt"
	"strings"
	"testing"

	"github.com/VKCOM/statshouse/internal/verifkit"
)

// one segment of a query text: a string literal (val = decoded value) or one byte outside literals
type verifC26Seg struct {
	lit bool
	val string // decoded literal value, or the single outside byte
	raw string // literal body as written
}

// verifC26Split is Lex of SqlLiteral.tla: outside a literal every byte is its own token; a quote
// opens a literal; inside, a backslash skips the next byte, '' continues, a single ' closes.
func verifC26Split(q string) (segs []verifC26Seg, ok bool) {
	i := 0
	for i < len(q) {
		if q[i] != '\'' {
			segs = append(segs, verifC26Seg{val: q[i : i+1]})
			i++
			continue
		}
		j := i + 1
		closed := false
		for j < len(q) {
			switch q[j] {
			case '\\':
				if j+1 >= len(q) {
					return segs, false
				}
				j += 2
			case '\'':
				if j+1 < len(q) && q[j+1] == '\'' {
					j += 2
				} else {
					closed = true
				}
			default:
				j++
			}
			if closed {
				break
			}
		}
		if !closed {
			return segs, false
		}
		raw := q[i+1 : j]
		segs = append(segs, verifC26Seg{lit: true, raw: raw, val: verifC26Dec(raw)})
		i = j + 1
	}
	return segs, true
}

func verifC26Unhex(c byte) byte {
	switch {
	case c >= '0' && c <= '9':
		return c - '0'
	case c >= 'a' && c <= 'f':
		return c - 'a' + 10
	case c >= 'A' && c <= 'F':
		return c - 'A' + 10
	}
	return 0xff
}

// verifC26Dec is Dec of SqlLiteral.tla: the value of a literal body.
func verifC26Dec(raw string) string {
	var out []byte
	for i := 0; i < len(raw); {
		c := raw[i]
		if c == '\'' { // only doubled inside a body
			out = append(out, '\'')
			i += 2
			continue
		}
		if c != '\\' {
			out = append(out, c)
			i++
			continue
		}
		if i+1 >= len(raw) {
			out = append(out, '?')
			break
		}
		e := raw[i+1]
		i += 2
		switch e {
		case 'x':
			if i+2 > len(raw) {
				out = append(out, '?')
				i = len(raw)
				continue
			}
			out = append(out, verifC26Unhex(raw[i])*16+verifC26Unhex(raw[i+1]))
			i += 2
		case 'N':
		case 'a':
			out = append(out, 7)
		case 'b':
			out = append(out, 8)
		case 'e':
			out = append(out, 0x1b)
		case 'f':
			out = append(out, 0x0c)
		case 'n':
			out = append(out, '\n')
		case 'r':
			out = append(out, '\r')
		case 't':
			out = append(out, '\t')
		case 'v':
			out = append(out, 0x0b)
		case '0':
			out = append(out, 0)
		case '\\', '\'', '"', '`', '/', '=':
			out = append(out, e)
		default:
			if e > 31 { // the backslash stays in front of anything that is not a control character
				out = append(out, '\\')
			}
			out = append(out, e)
		}
	}
	return string(out)
}

// ---- classes of SqlLiteral.tla and their real characters

var verifC26Canon = map[string]string{"q": "'", "b": "\\", "n": "n", "0": "0", "x": "x", "N": "N", "d": "\"", "k": ",",
	"w": "w", "Z": "\x00", "L": "\n", "C": "\x01", "M": "\xe9"}

var verifC26Reps = map[string][]string{
	"q": {"'"}, "b": {"\\"}, "n": {"n", "t", "r", "a", "b", "e", "f", "v"}, "0": {"0"}, "x": {"x"}, "N": {"N"},
	"d": {"\"", "`", "/", "="}, "k": {","},
	"w": {"w", " ", "(", ")", "%", "A", "_", "-", ";", "*", "#", "1", "X", "|", "$", "^", "."},
	"Z": {"\x00"}, "L": {"\n", "\t", "\r"}, "C": {"\x01", "\x1b", "\x1f", "\x7f", "\x08"},
	"M": {"\xc3\xa9", "\xe6\xbc\xa2", "\xf0\x9f\x98\x80", "\xff", "\x80", "\xc3"},
}

var verifC26ClassNames = []string{"q", "b", "n", "0", "x", "N", "d", "k", "w", "Z", "L", "C", "M"}

func verifC26Concrete(classes []string, pick func(reps []string) string) string {
	var sb strings.Builder
	for _, c := range classes {
		if pick == nil {
			sb.WriteString(verifC26Canon[c])
		} else {
			sb.WriteString(pick(verifC26Reps[c]))
		}
	}
	return sb.String()
}

func verifC26StrList(v any) []string {
	l, _ := v.([]any)
	out := make([]string, 0, len(l))
	for _, x := range l {
		s, _ := x.(string)
		out = append(out, s)
	}
	return out
}

// the property for one string: written between quotes after the real escaper it is exactly one
// literal holding the string, also next to a second literal
func verifC26LiteralHolds(s, other string) (string, bool) {
	out := escapeReplacer.Replace(s)
	segs, ok := verifC26Split("'" + out + "'")
	if !ok {
		return fmt.Sprintf("literal not closed: %q", "'"+out+"'"), false
	}
	if len(segs) != 1 || !segs[0].lit {
		return fmt.Sprintf("%d tokens instead of one literal: %q", len(segs), "'"+out+"'"), false
	}
	if segs[0].val != s {
		return fmt.Sprintf("literal %q decodes to %q", "'"+out+"'", segs[0].val), false
	}
	text := "('" + out + "','" + escapeReplacer.Replace(other) + "')"
	segs, ok = verifC26Split(text)
	if !ok || len(segs) != 5 || segs[0].val != "(" || !segs[1].lit || segs[1].val != s || segs[2].val != "," ||
		!segs[3].lit || segs[3].val != other || segs[4].val != ")" {
		return fmt.Sprintf("list %q is not ( literal , literal )", text), false
	}
	return "", true
}

func TestVerifC26Literal(t *testing.T) {
	verifkit.Gate(t)
	res := verifkit.NewResult()
	defer res.Write(t)
	rnd := verifkit.Rand(26)
	pick := func(reps []string) string { return reps[rnd.Intn(len(reps))] }
	nconc := verifkit.EnvInt("VERIF_NCONC", 3)
	check := func(beh any, classes []string, s string) {
		res.Steps++
		other := verifC26Concrete([]string{"w", verifC26ClassNames[rnd.Intn(len(verifC26ClassNames))], "q"}, pick)
		if msg, ok := verifC26LiteralHolds(s, other); !ok {
			res.Mismatch(verifkit.Mismatch{Beh: beh, Want: "one literal decoding to " + fmt.Sprintf("%q", s), Got: msg,
				Sig: "literal-roundtrip", Note: fmt.Sprintf("classes %v escaped %q", classes, escapeReplacer.Replace(s))})
		}
	}
	// 1. class strings exported by TLC
	for _, b := range verifkit.LoadBehaviours(t) {
		if len(b) == 0 {
			continue
		}
		st := b[len(b)-1]
		classes := verifC26StrList(st["s"])
		res.Replayed++
		res.Seen(strings.Join(classes, ""))
		// 1a. the harness lexer against the specification's Lex/Dec on the unescaped string
		if rawView, ok := st["raw"].(map[string]any); ok {
			canon := verifC26Concrete(classes, nil)
			segs, lok := verifC26Split("'" + canon + "'")
			wantOK, _ := rawView["ok"].(bool)
			wantToks, _ := rawView["toks"].([]any)
			good := lok == wantOK && len(segs) == len(wantToks)
			for i := 0; good && i < len(segs); i++ {
				wt, _ := wantToks[i].(map[string]any)
				isLit := wt["t"] == "lit"
				wv := verifC26StrList(wt["v"])
				if isLit != segs[i].lit {
					good = false
					break
				}
				got := []byte(segs[i].val)
				if len(got) != len(wv) {
					good = false
					break
				}
				for j, c := range wv {
					if c == "?" { // a byte made by a hex escape: anything but NUL
						good = good && got[j] != 0
					} else {
						good = good && string(got[j:j+1]) == verifC26Canon[c]
					}
				}
			}
			if !good {
				res.Count("lexer_conformance_failures", 1)
				res.Note("harness lexer disagrees with SqlLiteral!Lex on %q: ok=%v segs=%q want %v", "'"+canon+"'", lok, segs, rawView)
			} else {
				res.Count("lexer_conformance_checked", 1)
			}
		}
		// 1b. the real escaper: transcription (informational) and property
		canon := verifC26Concrete(classes, nil)
		if want := verifC26Concrete(verifC26StrList(st["esc"]), nil); escapeReplacer.Replace(canon) != want {
			res.Count("differs_from_transcription", 1)
		}
		check(b, classes, canon)
		for k := 0; k < nconc; k++ {
			check(b, classes, verifC26Concrete(classes, pick))
		}
	}
	// 2. every class string up to VERIF_ENUMLEN over the classes the dialect distinguishes most
	enumLen := verifkit.EnvInt("VERIF_ENUMLEN", 5)
	small := []string{"q", "b", "n", "x", "w", "L", "M"}
	var rec func(prefix []string)
	rec = func(prefix []string) {
		if len(prefix) > 0 {
			check(prefix, prefix, verifC26Concrete(prefix, nil))
			check(prefix, prefix, verifC26Concrete(prefix, pick))
			res.Count("enumerated", 1)
		}
		if len(prefix) == enumLen {
			return
		}
		for _, c := range small {
			rec(append(append([]string{}, prefix...), c))
		}
	}
	rec(nil)
	// 3. seeded random long strings over all classes, biased to quotes and backslashes
	nrand := verifkit.EnvInt("VERIF_NRANDOM", 20000)
	for n := 0; n < nrand; n++ {
		l := 1 + rnd.Intn(40)
		classes := make([]string, l)
		for i := range classes {
			switch rnd.Intn(4) {
			case 0:
				classes[i] = "q"
			case 1:
				classes[i] = "b"
			default:
				classes[i] = verifC26ClassNames[rnd.Intn(len(verifC26ClassNames))]
			}
		}
		check(classes, classes, verifC26Concrete(classes, pick))
		res.Count("random", 1)
	}
	// 4. fixed hostile strings
	for _, s := range verifC26Hostile {
		check(s, nil, s)
	}
	if !bytes.Equal([]byte(verifC26Dec(`a\\b\'c''d\n\x41\N\w`)), []byte("a\\b'c'd\nA\\w")) {
		res.Count("lexer_conformance_failures", 1)
		res.Note("verifC26Dec self-check failed: %q", verifC26Dec(`a\\b\'c''d\n\x41\N\w`))
	}
}

var verifC26Hostile = []string{
	`'`, `\`, `\'`, `'\`, `''`, `\\`, `\\'`, `' OR 1=1 --`, `') OR ('1'='1`, `\') OR 1=1 --`, `x'); DROP TABLE t; --`,
	"a\x00'b", "\\\x00", "'\n'", `\n`, `\x27`, `\x27 OR 1=1`, `\N`, "\xbf'", "\xbf\\'", `'','`, `','`, `\','`, "`", `"`, `/*`, `--`,
	`\0`, `\\\`, `'''`, `\'\'`, "é'", "漢\\", "😀'\\",
}
