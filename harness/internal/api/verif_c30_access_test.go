package api

// C30 conformance driver (injected by /verif/tools via -overlay; see /verif/DESIGN.md).
//
// S->I (TestVerifC30Replay): behaviours exported by TLC from specs/Access.tla
// ([Parse session, View name | Edit old new]) are executed on the real code: a REAL token is
// minted for the session (ed25519 keys generated here, header/payload/signature assembled by
// hand so that every malformed variant can be produced), parsed by the real parseAccessToken
// through a real vkuth.JWTHelper with an injected clock, and the resulting accessInfo is asked
// CanViewMetric / CanEditMetric.  The specification's verdict travels with the behaviour
// (post.deny = violated clauses of the property, post.must = token that must be accepted).
//
// I->S (TestVerifC30Random): seeded random sessions over real strings are executed the same
// way and every decision of the code is recorded as an ndjson trace for specs/AccessTrace.tla.

import (
	"crypto/ed25519"
	"crypto/hmac"
	"crypto/sha256"
	"encoding/base64"
	"encoding/json"
	"fmt"
	"math/rand"
	"os"
	"path/filepath"
	"sort"
	"strings"
	"testing"
	"time"

	"github.com/VKCOM/statshouse/internal/format"
	"github.com/VKCOM/statshouse/internal/verifkit"
	"github.com/VKCOM/statshouse/internal/vkgo/vkuth"
)

const (
	verifC30App    = "statshouse"
	verifC30NoTime = 99999999
	verifC30T0     = int64(1790000000) // whole second the model's time 0 stands for
)

// the remote-config metric names as of the pinned commit (the property names them through
// format.RemoteConfigMetric; the specification fixes the list)
var verifC30RemoteConfig = []string{
	"statshouse_api_remote_config", "statshouse_agent_remote_config",
	"statshouse_aggregator_remote_config", "statshouse_journal_dump",
}

type verifC30Bit struct {
	App  string   `json:"app"`
	Kind string   `json:"kind"`
	Arg  []string `json:"arg"`
}

type verifC30Tok struct {
	Alg     string        `json:"alg"`
	Kind    string        `json:"kind"`
	Kid     string        `json:"kid"`
	Signer  string        `json:"signer"`
	Tamper  string        `json:"tamper"`
	Iss     string        `json:"iss"`
	User    string        `json:"user"`
	Service bool          `json:"service"`
	Nbf     int64         `json:"nbf"`
	Iat     int64         `json:"iat"`
	Exp     int64         `json:"exp"`
	Bits    []verifC30Bit `json:"bits"`
}

type verifC30Metric struct {
	Name      []string `json:"name"`
	Weight    int      `json:"weight"`
	PreFrom   uint32   `json:"preFrom"`
	PreTag    string   `json:"preTag"`
	PreOnly   bool     `json:"preOnly"`
	SkipMax   bool     `json:"skipMax"`
	SkipMin   bool     `json:"skipMin"`
	SkipSum   bool     `json:"skipSum"`
	Strategy  string   `json:"strategy"`
	ShardNum  uint32   `json:"shardNum"`
	FixedKey  uint32   `json:"fixedKey"`
	FixedKey2 uint32   `json:"fixedKey2"`
	Fk2ts     uint32   `json:"fk2ts"`
	Raw       []string `json:"raw"`
	Descr     string   `json:"descr"`
}

type verifC30AI struct {
	Admin       bool       `json:"admin"`
	Developer   bool       `json:"developer"`
	ViewDefault bool       `json:"viewDefault"`
	EditDefault bool       `json:"editDefault"`
	ViewPrefix  [][]string `json:"viewPrefix"`
	EditPrefix  [][]string `json:"editPrefix"`
	ViewMetric  [][]string `json:"viewMetric"`
	EditMetric  [][]string `json:"editMetric"`
}

type verifC30Step struct {
	A      string          `json:"a"`
	Mode   string          `json:"mode"`
	Tok    *verifC30Tok    `json:"tok"`
	Prot   [][]string      `json:"prot"`
	Now    int64           `json:"now"`
	Ep     string          `json:"ep"`
	Name   []string        `json:"name"`
	Create bool            `json:"create"`
	Old    *verifC30Metric `json:"old"`
	New    *verifC30Metric `json:"new"`
	Post   struct {
		Impl    any         `json:"impl"` // Parse: "ok" | "rejected" | "healthcheck"; View/Edit: bool
		Must    bool        `json:"must"`
		Deny    []string    `json:"deny"`
		Carried *verifC30AI `json:"carried"`
	} `json:"post"`
}

type verifC30Keys struct {
	priv map[string]ed25519.PrivateKey // model key name -> private key
	kid  map[string]string             // model key name -> fingerprint as computed by vkuth
	conf map[string][]byte             // what the server is configured with (k1, k2)
}

func verifC30NewKeys(t testing.TB, rnd *rand.Rand) *verifC30Keys {
	ks := &verifC30Keys{priv: map[string]ed25519.PrivateKey{}, kid: map[string]string{}}
	var confEnc []string
	for _, name := range []string{"k1", "k2", "kx"} {
		seed := make([]byte, ed25519.SeedSize)
		rnd.Read(seed)
		priv := ed25519.NewKeyFromSeed(seed)
		ks.priv[name] = priv
		enc := base64.RawURLEncoding.EncodeToString(priv.Public().(ed25519.PublicKey))
		one, err := vkuth.ParseVkuthKeys([]string{enc})
		if err != nil || len(one) != 1 {
			t.Fatalf("ParseVkuthKeys: %v", err)
		}
		for id := range one {
			ks.kid[name] = id
		}
		if name != "kx" {
			confEnc = append(confEnc, enc)
		}
	}
	conf, err := vkuth.ParseVkuthKeys(confEnc)
	if err != nil || len(conf) != 2 {
		t.Fatalf("ParseVkuthKeys: %v %d", err, len(conf))
	}
	ks.conf = conf
	return ks
}

var verifC30ArgKinds = map[string]bool{"view_prefix": true, "edit_prefix": true, "view_metric": true,
	"edit_metric": true, "view_namespace": true, "edit_namespace": true}

func verifC30RenderBit(b verifC30Bit) string {
	rest := b.Kind + strings.Join(b.Arg, "")
	if verifC30ArgKinds[b.Kind] {
		rest = b.Kind + "." + strings.Join(b.Arg, "")
	}
	if b.App == "-" {
		return rest
	}
	return b.App + ":" + rest
}

func verifC30B64(b []byte) string { return base64.RawURLEncoding.EncodeToString(b) }

// verifC30Mint builds the token the model record describes.
func verifC30Mint(ks *verifC30Keys, tk *verifC30Tok) string {
	hdr := map[string]any{"typ": "JWT", "alg": tk.Alg}
	switch tk.Kind {
	case "":
	case "other":
		hdr["kind"] = "cookie"
	default:
		hdr["kind"] = tk.Kind
	}
	switch tk.Kid {
	case "":
	case "#":
		hdr["kid"] = 12345
	default:
		hdr["kid"] = ks.kid[tk.Kid]
	}
	payload := func(user string, bits []string) []byte {
		p := map[string]any{}
		if tk.Nbf != verifC30NoTime {
			p["nbf"] = verifC30T0 + tk.Nbf/1000
		}
		if tk.Iat != verifC30NoTime {
			p["iat"] = verifC30T0 + tk.Iat/1000
		}
		if tk.Exp != verifC30NoTime {
			p["exp"] = verifC30T0 + tk.Exp/1000
		}
		if tk.Iss != "" {
			p["iss"] = tk.Iss
		}
		p["vkuth_data"] = map[string]any{"bits": bits, "user": user, "is_service": tk.Service}
		b, _ := json.Marshal(p)
		return b
	}
	bits := make([]string, 0, len(tk.Bits))
	for _, b := range tk.Bits {
		bits = append(bits, verifC30RenderBit(b))
	}
	hb, _ := json.Marshal(hdr)
	presented := verifC30B64(hb) + "." + verifC30B64(payload(tk.User, bits))
	signed := presented
	if tk.Tamper == "payload" { // signature made for another payload (what the attacker had)
		signed = verifC30B64(hb) + "." + verifC30B64(payload("mallory", nil))
	}
	var sig []byte
	switch tk.Alg {
	case "EdDSA":
		sig = ed25519.Sign(ks.priv[tk.Signer], []byte(signed))
	case "HS256": // algorithm confusion: HMAC keyed with the public key the server would look up
		name := tk.Kid
		if _, ok := ks.priv[name]; !ok {
			name = tk.Signer
		}
		m := hmac.New(sha256.New, ks.priv[name].Public().(ed25519.PublicKey))
		m.Write([]byte(signed))
		sig = m.Sum(nil)
	default: // "none"
		sig = nil
	}
	if tk.Tamper == "sig" && len(sig) > 0 {
		sig[len(sig)/2] ^= 0x40
	}
	return presented + "." + verifC30B64(sig)
}

func verifC30Join(xs [][]string) []string {
	res := make([]string, 0, len(xs))
	for _, x := range xs {
		res = append(res, strings.Join(x, ""))
	}
	return res
}

// verifC30Parse runs the real requestHandler.init (parseAccessToken + the healthcheck fallback)
// and returns the outcome "ok" | "rejected" | "healthcheck"; a panic counts as a rejection (noted).
func verifC30Parse(ks *verifC30Keys, mode string, tk *verifC30Tok, prot []string, nowMs int64, ep string) (ai accessInfo, out string, note string) {
	helper := vkuth.NewJWTHelper(ks.conf, verifC30App)
	now := time.Unix(verifC30T0, 0).Add(time.Duration(nowMs) * time.Millisecond)
	helper.SetNow(func() time.Time { return now })
	token := ""
	if mode != "empty" && tk != nil {
		token = verifC30Mint(ks, tk)
	}
	defer func() {
		if r := recover(); r != nil {
			ai, out = accessInfo{}, "rejected"
			note = fmt.Sprintf("panic: %v", r)
		}
	}()
	h := &requestHandler{Handler: &Handler{jwtHelper: helper}}
	h.insecureMode, h.LocalMode, h.protectedMetricPrefixes = mode == "insecure", mode == "local", prot
	h.endpointStat.endpoint = EndpointQuery
	if ep == "healthcheck" {
		h.endpointStat.endpoint = EndpointHealthcheck
	}
	if err := h.init(token, "verif"); err != nil {
		return accessInfo{}, "rejected", err.Error()
	}
	// the fallback identity of healthcheckAccessInfo (no token of the driver names this user)
	if h.accessInfo.user == "@healthcheck" {
		return h.accessInfo, "healthcheck", ""
	}
	return h.accessInfo, "ok", ""
}

func verifC30Meta(m *verifC30Metric) format.MetricMetaValue {
	v := format.MetricMetaValue{
		Name: strings.Join(m.Name, ""), Description: m.Descr, Weight: float64(m.Weight),
		PreKeyFrom: m.PreFrom, PreKeyTagID: m.PreTag, PreKeyOnly: m.PreOnly,
		SkipMaxHost: m.SkipMax, SkipMinHost: m.SkipMin, SkipSumSquare: m.SkipSum,
		ShardStrategy: m.Strategy, ShardNum: m.ShardNum, ShardFixedKey: m.FixedKey,
		ShardFixedKey2: m.FixedKey2, ShardFixedKey2Timestamp: m.Fk2ts,
	}
	for _, r := range m.Raw {
		v.Tags = append(v.Tags, format.MetricMetaTag{RawKind: r})
	}
	return v
}

func verifC30View(ai *accessInfo, name string) bool {
	a := ai.CanViewMetricName(name)
	b := ai.CanViewMetric(format.MetricMetaValue{Name: name})
	return a || b
}

func verifC30Edit(ai *accessInfo, create bool, o, n *verifC30Metric) bool {
	return ai.CanEditMetric(create, verifC30Meta(o), verifC30Meta(n)) == nil
}

func verifC30Keys2(m map[string]bool) []string {
	var res []string
	for k, v := range m {
		if v {
			res = append(res, k)
		}
	}
	sort.Strings(res)
	return res
}

// verifC30NotCarried lists what the accessInfo grants beyond `carried` (strings joined).
func verifC30NotCarried(ai *accessInfo, c *verifC30AI) []string {
	var bad []string
	flag := func(name string, got, allowed bool) {
		if got && !allowed {
			bad = append(bad, name)
		}
	}
	flag("admin", ai.bitAdmin, c.Admin)
	flag("developer", ai.bitDeveloper, c.Developer)
	flag("view_default", ai.bitViewDefault, c.ViewDefault)
	flag("edit_default", ai.bitEditDefault, c.EditDefault)
	sub := func(name string, got map[string]bool, allowed [][]string) {
		al := map[string]bool{}
		for _, a := range verifC30Join(allowed) {
			al[a] = true
		}
		for _, g := range verifC30Keys2(got) {
			if !al[g] {
				bad = append(bad, name+"="+g)
			}
		}
	}
	sub("view_prefix", ai.bitViewPrefix, c.ViewPrefix)
	sub("edit_prefix", ai.bitEditPrefix, c.EditPrefix)
	sub("view_metric", ai.bitViewMetric, c.ViewMetric)
	sub("edit_metric", ai.bitEditMetric, c.EditMetric)
	return bad
}

func verifC30Consts(res *verifkit.Result) {
	res.Consts["JWTTimeWindowMs"] = int64(vkuth.JWTTimeWindow / time.Millisecond)
	res.Consts["TokenIssuer"] = vkuth.TokenIssuer
	res.Consts["KindHeaderTokenValue"] = vkuth.KindHeaderTokenValue
	res.Consts["RemoteConfig"] = verifC30RemoteConfig
	n := 0
	for _, rc := range verifC30RemoteConfig {
		if format.RemoteConfigMetric(rc) {
			n++
		}
	}
	res.Consts["RemoteConfigKnownToCode"] = n
}

func TestVerifC30Replay(t *testing.T) {
	verifkit.Gate(t)
	res := verifkit.NewResult()
	defer res.Write(t)
	verifC30Consts(res)
	ks := verifC30NewKeys(t, verifkit.Rand(30))
	verifkit.ForEachLine(t, os.Getenv("VERIF_IN"), func(line []byte) {
		var beh []verifC30Step
		if err := json.Unmarshal(line, &beh); err != nil {
			t.Fatalf("bad behaviour: %v", err)
		}
		if len(beh) == 0 || beh[0].A != "Parse" {
			return
		}
		res.Replayed++
		p := &beh[0]
		ai, out, note := verifC30Parse(ks, p.Mode, p.Tok, verifC30Join(p.Prot), p.Now, p.Ep)
		acc := out == "ok"
		res.Steps++
		if strings.HasPrefix(note, "panic") {
			res.Count("parse_panics", 1)
			res.Note("parse panicked (counted as rejection): %s; token %+v", note, *p.Tok)
		}
		tokenMode := p.Mode == "token" || p.Mode == "empty"
		res.Seen(fmt.Sprintf("parse out=%v deny=%v must=%v mode=%s", out, p.Post.Deny, p.Post.Must, p.Mode))
		if out != p.Post.Impl {
			res.Count("differs_from_transcription", 1)
		}
		if tokenMode {
			if acc && (len(p.Post.Deny) > 0 || p.Mode == "empty") {
				sig := "AcceptOnlyToken"
				if len(p.Post.Deny) > 0 {
					sig = p.Post.Deny[0]
				}
				res.Mismatch(verifkit.Mismatch{Beh: beh[:1], Step: 0, Want: "rejected: " + strings.Join(p.Post.Deny, ","), Got: "accepted", Sig: sig,
					Note: "token " + verifC30Mint(ks, p.Tok)})
				return
			}
			if !acc && p.Post.Must && p.Mode == "token" {
				res.Mismatch(verifkit.Mismatch{Beh: beh[:1], Step: 0, Want: "accepted", Got: "rejected: " + note, Sig: "AcceptValid"})
				return
			}
			if acc {
				if bad := verifC30NotCarried(&ai, p.Post.Carried); len(bad) > 0 {
					res.Mismatch(verifkit.Mismatch{Beh: beh[:1], Step: 0, Want: p.Post.Carried, Got: bad, Sig: "OnlyCarriedBits"})
					return
				}
				if ai.user != p.Tok.User || ai.service != p.Tok.Service {
					res.Mismatch(verifkit.Mismatch{Beh: beh[:1], Step: 0, Want: p.Tok.User, Got: ai.user, Sig: "IdentityCarried"})
					return
				}
			}
		}
		if out == "healthcheck" {
			if p.Ep != "healthcheck" || len(verifC30NotCarried(&ai, &verifC30AI{ViewMetric: [][]string{{healthcheckMetric}}})) > 0 {
				res.Mismatch(verifkit.Mismatch{Beh: beh[:1], Step: 0, Want: "no rights without an accepted token", Got: fmt.Sprintf("%+v", verifC30AIOf(&ai)), Sig: "HealthcheckFallback"})
				return
			}
		}
		if out == "rejected" {
			return
		}
		if p.Mode == "token" && acc {
			res.Sample(map[string]any{"token": verifC30Mint(ks, p.Tok), "now_ms": p.Now, "accepted": acc, "admin": ai.bitAdmin,
				"view_prefix": verifC30Keys2(ai.bitViewPrefix), "edit_metric": verifC30Keys2(ai.bitEditMetric)})
		}
		for i := 1; i < len(beh); i++ {
			s := &beh[i]
			res.Steps++
			var granted bool
			switch s.A {
			case "View":
				granted = verifC30View(&ai, strings.Join(s.Name, ""))
			case "Edit":
				granted = verifC30Edit(&ai, s.Create, s.Old, s.New)
			default:
				t.Fatalf("unknown step %q", s.A)
			}
			res.Seen(fmt.Sprintf("%s granted=%v deny=%v", s.A, granted, s.Post.Deny))
			if granted != s.Post.Impl {
				res.Count("differs_from_transcription", 1)
			}
			if granted && len(s.Post.Deny) > 0 {
				res.Mismatch(verifkit.Mismatch{Beh: beh, Step: i, Want: "denied: " + strings.Join(s.Post.Deny, ","), Got: "granted", Sig: s.Post.Deny[0]})
				return
			}
		}
	})
}

// ---------------------------------------------------------------------------------------------
// I->S: seeded random sessions, recorded for AccessTrace.tla

func verifC30Chars(s string) []string {
	res := make([]string, 0, len(s))
	for i := 0; i < len(s); i++ {
		res = append(res, s[i:i+1])
	}
	return res
}

func verifC30CharsAll(xs []string) [][]string {
	res := make([][]string, 0, len(xs))
	for _, x := range xs {
		res = append(res, verifC30Chars(x))
	}
	return res
}

type verifC30Gen struct {
	rnd   *rand.Rand
	names []string // pool of this session
}

func (g *verifC30Gen) pick(xs ...string) string { return xs[g.rnd.Intn(len(xs))] }

func (g *verifC30Gen) word() string {
	const alpha = "ab_p:@n"
	n := 1 + g.rnd.Intn(5)
	b := make([]byte, n)
	for i := range b {
		b[i] = alpha[g.rnd.Intn(len(alpha))]
	}
	return string(b)
}

func (g *verifC30Gen) name() string {
	switch g.rnd.Intn(10) {
	case 0:
		return g.pick(verifC30RemoteConfig...)
	case 1:
		rc := g.pick(verifC30RemoteConfig...)
		if g.rnd.Intn(2) == 0 {
			return rc + g.pick("a", "_", ":")
		}
		return rc[:len(rc)-1-g.rnd.Intn(3)]
	case 2, 3:
		return g.pick("p_", "n:", "n:p_", "ab") + g.word()
	case 4, 5, 6:
		if len(g.names) > 0 {
			return g.names[g.rnd.Intn(len(g.names))]
		}
	}
	return g.word()
}

// prefixOf returns a (possibly empty or full) prefix of a pool name, or a fresh word.
func (g *verifC30Gen) prefix() string {
	if g.rnd.Intn(4) == 0 {
		return g.word()
	}
	n := g.name()
	return n[:g.rnd.Intn(len(n)+1)]
}

func (g *verifC30Gen) bitArg(s string) string { // ':' travels as '@'
	if g.rnd.Intn(5) != 0 {
		s = strings.Replace(s, ":", "@", 1)
	}
	return s
}

func (g *verifC30Gen) bit() verifC30Bit {
	b := verifC30Bit{App: verifC30App}
	if g.rnd.Intn(4) == 0 {
		b.App = g.pick("other", "statshouse2", "", "-", "Statshouse", "statshous")
	}
	switch g.rnd.Intn(16) {
	case 0:
		b.Kind = "admin"
		if g.rnd.Intn(3) > 0 { // real admins are rare: most sessions must exercise the policy
			b.App = g.pick("other", "-", "statshouse2")
		}
	case 1:
		b.Kind = "developer"
	case 2, 3:
		b.Kind = "view_default"
	case 4, 5:
		b.Kind = "edit_default"
	case 6:
		b.Kind, b.Arg = "view_prefix", verifC30Chars(g.bitArg(g.prefix()))
	case 7, 8:
		b.Kind, b.Arg = "edit_prefix", verifC30Chars(g.bitArg(g.prefix()))
	case 9:
		b.Kind, b.Arg = "view_metric", verifC30Chars(g.bitArg(g.name()))
	case 10, 11:
		b.Kind, b.Arg = "edit_metric", verifC30Chars(g.bitArg(g.name()))
	case 12:
		b.Kind, b.Arg = "view_namespace", verifC30Chars(g.pick("n", "n:p", "ab", g.word()))
	case 13:
		b.Kind, b.Arg = "edit_namespace", verifC30Chars(g.pick("n", "n:p", "ab", g.word()))
	default: // junk: near misses of the real bit names
		b.Kind = g.pick("admin.", "Admin", "view_prefix_", "edit_default.", "x", "", "view_metric")
		if b.Kind == "view_metric" { // an argument kind must keep its dot: make it junk explicitly
			b.Kind = "view_metrics"
		}
		b.Arg = verifC30Chars(g.word())
	}
	if b.Arg == nil {
		b.Arg = []string{}
	}
	return b
}

func (g *verifC30Gen) token() *verifC30Tok {
	r := g.rnd
	tk := &verifC30Tok{Alg: "EdDSA", Kind: "token", Kid: "k1", Signer: "k1", Tamper: "none", Iss: "vkuth", User: "alice",
		Nbf: -1000, Iat: -1000, Exp: 60000}
	if r.Intn(2) == 0 {
		tk.Kid, tk.Signer = "k2", "k2"
	}
	dev := func() bool { return r.Intn(12) == 0 }
	if dev() {
		tk.Alg = g.pick("HS256", "none")
	}
	if dev() {
		tk.Kind = g.pick("other", "")
	}
	if dev() {
		tk.Kid = g.pick("k1", "k2", "kx", "", "#")
	}
	if dev() {
		tk.Signer = g.pick("k1", "k2", "kx")
	}
	if dev() {
		tk.Tamper = g.pick("payload", "sig")
	}
	if dev() {
		tk.Iss = g.pick("other", "", "Vkuth", "vkuth2")
	}
	switch r.Intn(12) {
	case 0:
		tk.User = ""
	case 1, 2:
		tk.User, tk.Service = "svc", true
	}
	tm := func(def int64, vals ...int64) int64 {
		if r.Intn(3) == 0 {
			return vals[r.Intn(len(vals))]
		}
		return def
	}
	tk.Nbf = tm(-1000, verifC30NoTime, 0, 1000, 4000, 5000, 6000, -3600000, 7000)
	tk.Iat = tm(-1000, verifC30NoTime, 0, 1000, 4000, 5000, 6000, 7000, -3600000)
	tk.Exp = tm(60000, verifC30NoTime, -7000, -6000, -5000, -4000, -1000, 0, 1000, 3600000)
	nb := r.Intn(6)
	seen := map[string]bool{}
	for i := 0; i < nb; i++ {
		b := g.bit()
		if k := verifC30RenderBit(b); !seen[k] {
			seen[k] = true
			tk.Bits = append(tk.Bits, b)
		}
	}
	if tk.Bits == nil {
		tk.Bits = []verifC30Bit{}
	}
	return tk
}

func (g *verifC30Gen) metric() *verifC30Metric {
	r := g.rnd
	m := &verifC30Metric{Name: verifC30Chars(g.name()), Weight: r.Intn(3), Descr: "x", Raw: []string{}}
	if r.Intn(2) == 0 {
		m.PreFrom, m.PreTag, m.PreOnly = uint32(1+r.Intn(3)), g.pick("1", "2", "3"), r.Intn(2) == 0
	} else if r.Intn(3) == 0 {
		m.PreTag = g.pick("1", "2")
	}
	m.SkipMax, m.SkipMin, m.SkipSum = r.Intn(3) == 0, r.Intn(3) == 0, r.Intn(3) == 0
	if r.Intn(2) == 0 {
		m.Strategy, m.ShardNum = g.pick("fixed_shard", "tags_hash", "metric_id"), uint32(r.Intn(3))
	}
	if r.Intn(4) == 0 {
		m.FixedKey, m.FixedKey2, m.Fk2ts = uint32(r.Intn(3)), uint32(r.Intn(2)), uint32(r.Intn(2)*5)
	}
	for i, n := 0, r.Intn(4); i < n; i++ {
		m.Raw = append(m.Raw, g.pick("", "", "uint", "hex", "int64"))
	}
	return m
}

func (g *verifC30Gen) change(o *verifC30Metric) *verifC30Metric {
	r := g.rnd
	n := *o
	n.Raw = append([]string{}, o.Raw...)
	for i, k := 0, r.Intn(3); i < k; i++ {
		switch r.Intn(16) {
		case 0, 1:
			n.Name = verifC30Chars(g.name())
		case 2:
			n.Weight = r.Intn(3)
		case 3:
			n.PreFrom = uint32(r.Intn(3))
		case 4:
			n.PreTag = g.pick("", "1", "2", "3")
		case 5:
			n.PreOnly = !n.PreOnly
		case 6:
			n.SkipMax = !n.SkipMax
		case 7:
			n.SkipMin = !n.SkipMin
		case 8:
			n.SkipSum = !n.SkipSum
		case 9:
			n.Strategy = g.pick("", "fixed_shard", "tags_hash")
		case 10:
			n.ShardNum = uint32(r.Intn(3))
		case 11:
			switch r.Intn(3) {
			case 0:
				n.FixedKey = uint32(r.Intn(3))
			case 1:
				n.FixedKey2 = uint32(r.Intn(3))
			default:
				n.Fk2ts = uint32(r.Intn(3))
			}
		case 12, 13:
			switch {
			case len(n.Raw) > 0 && r.Intn(3) == 0:
				n.Raw = n.Raw[:len(n.Raw)-1]
			case len(n.Raw) > 0 && r.Intn(2) == 0:
				n.Raw[r.Intn(len(n.Raw))] = g.pick("", "uint", "hex")
			default:
				n.Raw = append(n.Raw, g.pick("", "uint"))
			}
		default:
			n.Descr = g.pick("x", "y")
		}
	}
	return &n
}

func verifC30AIOf(ai *accessInfo) verifC30AI {
	return verifC30AI{Admin: ai.bitAdmin, Developer: ai.bitDeveloper, ViewDefault: ai.bitViewDefault, EditDefault: ai.bitEditDefault,
		ViewPrefix: verifC30CharsAll(verifC30Keys2(ai.bitViewPrefix)), EditPrefix: verifC30CharsAll(verifC30Keys2(ai.bitEditPrefix)),
		ViewMetric: verifC30CharsAll(verifC30Keys2(ai.bitViewMetric)), EditMetric: verifC30CharsAll(verifC30Keys2(ai.bitEditMetric))}
}

func TestVerifC30Random(t *testing.T) {
	verifkit.Gate(t)
	res := verifkit.NewResult()
	defer res.Write(t)
	verifC30Consts(res)
	rnd := verifkit.Rand(3030)
	ks := verifC30NewKeys(t, rnd)
	tr := verifkit.NewTrace()
	tr.Emit("Config", "rc", verifC30CharsAll(verifC30RemoteConfig), "app", verifC30App, "health", verifC30Chars(healthcheckMetric))
	n := verifkit.EnvInt("VERIF_NSESSIONS", 1000)
	for i := 0; i < n; i++ {
		g := &verifC30Gen{rnd: rnd}
		for j, k := 0, 2+rnd.Intn(4); j < k; j++ {
			g.names = append(g.names, g.name())
		}
		var prot []string
		for j, k := 0, rnd.Intn(3); j < k; j++ {
			prot = append(prot, g.pick("p_", "n:", "n:p_", "ab", g.prefix()))
		}
		if rnd.Intn(60) == 0 {
			prot = append(prot, "") // "a,,b" in the flag gives an empty prefix: everything protected
		}
		mode := "token"
		switch rnd.Intn(40) {
		case 0:
			mode = "empty"
		case 1:
			mode = "insecure"
		case 2:
			mode = "local"
		}
		tk := g.token()
		nowMs := int64(rnd.Intn(2) * rnd.Intn(1000))
		ep := "query"
		if rnd.Intn(12) == 0 {
			ep = "healthcheck"
		}
		ai, out, note := verifC30Parse(ks, mode, tk, prot, nowMs, ep)
		acc := out == "ok"
		if strings.HasPrefix(note, "panic") {
			res.Count("parse_panics", 1)
			res.Note("parse panicked (counted as rejection): %s", note)
		}
		protC := verifC30CharsAll(prot)
		if protC == nil {
			protC = [][]string{}
		}
		tr.Emit("Parse", "mode", mode, "tok", tk, "prot", protC, "now", nowMs, "ep", ep, "out", out, "ai", verifC30AIOf(&ai),
			"user", ai.user, "service", ai.service)
		res.Replayed++
		res.Steps++
		res.Seen(fmt.Sprintf("parse %s %s", mode, out))
		if acc {
			res.Count("accepted", 1)
		}
		if out == "rejected" {
			continue
		}
		for j, k := 0, 1+rnd.Intn(6); j < k; j++ {
			res.Steps++
			if rnd.Intn(2) == 0 {
				name := g.name()
				if out == "healthcheck" && rnd.Intn(2) == 0 {
					name = healthcheckMetric
				}
				granted := verifC30View(&ai, name)
				tr.Emit("View", "name", verifC30Chars(name), "granted", granted)
				res.Seen(fmt.Sprintf("view %v", granted))
				if granted && !ai.bitAdmin {
					res.Count("view_granted_nonadmin", 1)
				}
			} else {
				o := g.metric()
				nw := g.change(o)
				create := rnd.Intn(8) == 0
				if create {
					nw = o
				}
				granted := verifC30Edit(&ai, create, o, nw)
				tr.Emit("Edit", "create", create, "old", o, "new", nw, "granted", granted)
				res.Seen(fmt.Sprintf("edit %v", granted))
				if granted && !ai.bitAdmin {
					res.Count("edit_granted_nonadmin", 1)
				}
			}
		}
	}
	p := filepath.Join(verifkit.TmpDir(t, "c30"), "access_trace.ndjson")
	if err := tr.WriteFile(p); err != nil {
		t.Fatal(err)
	}
	res.Files = append(res.Files, p)
}
