package api

// C04 conformance driver for the API row merge (S->I + I->S).  The behaviours exported by TLC
// from specs/RowMerge.tla (a multiset of contributions, one order and one tree of merges) are
// replayed on the real tsValues.merge.  The numeric aggregates must equal the specification's,
// the reported min / max hosts (both the int32 and the string argMin/argMax states) must be
// hosts that contributed the minimum / maximum.  Each contribution also carries a real unique
// sketch (a few of them above the sketch limit); after every merge the resulting sketch is
// logged with the counts of its input hashes for specs/UniqueTrace.tla.

import (
	"encoding/binary"
	"encoding/json"
	"fmt"
	"math"
	"path/filepath"
	"testing"

	"github.com/VKCOM/statshouse/internal/data_model"
	"github.com/VKCOM/statshouse/internal/verifkit"
)

type verifC04Shape struct {
	ID   int      `json:"id"`
	Kind string   `json:"kind"`
	Cnt  int      `json:"cnt"`
	Vals []int    `json:"vals"`
	Hist [][2]int `json:"hist"`
	Host int      `json:"host"`
}

type verifC04Ts struct {
	Cnt  int `json:"cnt"`
	Min  int `json:"min"`
	Max  int `json:"max"`
	Sum  int `json:"sum"`
	Sq   int `json:"sq"`
	MinH int `json:"minH"`
	MaxH int `json:"maxH"`
}

type verifC04Post struct {
	AMin []int `json:"aMin"`
	AMax []int `json:"aMax"`
}

const verifC04MaxK = 12

type verifC04Elem struct {
	v      tsValues
	hashes map[uint32]bool // everything that reached v.unique
}

func verifC04Conv(v any, out any) {
	b, _ := json.Marshal(v)
	_ = json.Unmarshal(b, out)
}

// the leaf as the storage would return it for one row: aggregates of the event and the
// argMin/argMax states (host, value); host ids as in the data_model driver
func verifC04Leaf(e *verifC04Shape, den int, hashOf func(uint64) uint32, big int, salt uint64) (*verifC04Elem, bool) {
	if e.Kind == "C" {
		return nil, false
	}
	type pair struct{ v, c float64 }
	var ps []pair
	for _, v := range e.Vals {
		ps = append(ps, pair{float64(v), 1})
	}
	for _, h := range e.Hist {
		ps = append(ps, pair{float64(h[0]), float64(h[1])})
	}
	total := 0.0
	for _, p := range ps {
		total += p.c
	}
	count := float64(e.Cnt)
	if count == 0 {
		count = total
	}
	el := &verifC04Elem{hashes: map[uint32]bool{}}
	t := &el.v
	t.min, t.max = math.Inf(1), math.Inf(-1)
	for _, p := range ps {
		t.sum += p.v * p.c
		t.sumsquare += p.v * p.v * p.c
		t.min = math.Min(t.min, p.v)
		t.max = math.Max(t.max, p.v)
	}
	t.sum = t.sum * count / total
	t.sumsquare = t.sumsquare * count / total
	t.count = count
	host := int32(100 + e.Host)
	t.minHost.Arg, t.minHost.Val = host, float32(t.min)
	t.maxHost.Arg, t.maxHost.Val = host, float32(t.max)
	t.minHostStr.AsString, t.minHostStr.Val = fmt.Sprintf("h%d", e.Host), float32(t.min)
	t.maxHostStr.AsInt32, t.maxHostStr.Val = host, float32(t.max)
	// a unique sketch: the event's own hashes (kind U) plus `big` further values
	if e.Kind == "U" {
		for _, v := range e.Vals {
			t.unique.Insert(uint64(int64(v)))
			el.hashes[hashOf(uint64(int64(v)))] = true
		}
	}
	for i := 0; i < big; i++ {
		v := uint64(i*7+e.ID) ^ salt
		t.unique.Insert(v)
		el.hashes[hashOf(v)] = true
	}
	return el, true
}

func verifC04SketchState(u *data_model.ChUnique) (skip int, items []uint32) {
	b := u.MarshallAppend(nil)
	skip = int(b[0])
	n, k := binary.Uvarint(b[1:])
	b = b[1+k:]
	for i := 0; i < int(n); i++ {
		items = append(items, binary.LittleEndian.Uint32(b[4*i:]))
	}
	return
}

func TestVerifC04TsValues(t *testing.T) {
	verifkit.Gate(t)
	res := verifkit.NewResult()
	defer res.Write(t)
	den := verifkit.EnvInt("VERIF_DEN", 6)
	behs := verifkit.LoadBehaviours(t)
	if len(behs) == 0 || behs[0][0].Act() != "Tables" {
		t.Fatalf("first input line must be the tables")
	}
	var list []verifC04Shape
	verifC04Conv(behs[0][0]["shapes"], &list)
	shapes := map[int]*verifC04Shape{}
	for i := range list {
		shapes[list[i].ID] = &list[i]
	}
	// uintHash32 is unexported: learn the hash of a value from a one-element sketch
	hashOf := func(v uint64) uint32 {
		var u data_model.ChUnique
		u.Insert(v)
		_, items := verifC04SketchState(&u)
		return items[0]
	}
	rnd := verifkit.Rand(405)
	salt := uint64(rnd.Int63())
	bigEvery := verifkit.EnvInt("VERIF_BIGEVERY", 400)
	tr := verifkit.NewTrace()
	closeTo := func(got float64, want int) bool {
		w := float64(want) / float64(den)
		return math.Abs(got-w) <= 1e-9*math.Max(1, math.Abs(w))
	}
	in := func(x int, set []int) bool {
		for _, y := range set {
			if x == y {
				return true
			}
		}
		return false
	}
	for bi, b := range behs[1:] {
		var pool []*verifC04Elem
		usable := true
		var leaves []int
		var merges [][2]int
		merged := 0
		big := 0
		if bi%bigEvery == 0 { // sketches above the limit: 3 x 40000 > 65536
			big = 40000
		}
		for si, st := range b[1:] {
			if !usable {
				break
			}
			switch st.Act() {
			case "Leaf":
				e := shapes[st.Int("s")]
				leaves = append(leaves, e.ID)
				el, ok := verifC04Leaf(e, den, hashOf, big, salt+uint64(len(leaves)*1000003))
				if !ok || e.Host == 0 {
					el = nil // rows without values / without host are not merged this way (RowMerge!NoTs)
				}
				pool = append(pool, el)
			case "Merge":
				i, j := st.Int("i")-1, st.Int("j")-1
				merges = append(merges, [2]int{i + 1, j + 1})
				ts, isObj := st["ts"].(map[string]any)
				a, o := pool[i], pool[j]
				if isObj != (a != nil && o != nil) {
					t.Fatalf("driver and specification disagree on which elements are API rows")
				}
				if !isObj {
					pool[i] = nil
					pool = append(pool[:j:j], pool[j+1:]...)
					continue
				}
				merged++
				var want verifC04Ts
				var post verifC04Post
				verifC04Conv(ts, &want)
				verifC04Conv(st["post"], &post)
				a.v.merge(o.v)
				for h := range o.hashes {
					a.hashes[h] = true
				}
				res.Steps++
				got := map[string]any{"count": a.v.count, "min": a.v.min, "max": a.v.max, "sum": a.v.sum, "sumsquare": a.v.sumsquare,
					"minHost": a.v.minHost.Arg - 100, "maxHost": a.v.maxHost.Arg - 100,
					"minHostStr": a.v.minHostStr.AsString, "maxHostStr": a.v.maxHostStr.AsInt32 - 100}
				cs := map[string]any{"leaves": leaves, "merges": merges}
				var bad []string
				if a.v.count != float64(want.Cnt) {
					bad = append(bad, "count")
				}
				if a.v.min != float64(want.Min) {
					bad = append(bad, "min")
				}
				if a.v.max != float64(want.Max) {
					bad = append(bad, "max")
				}
				if !closeTo(a.v.sum, want.Sum) {
					bad = append(bad, "sum")
				}
				if !closeTo(a.v.sumsquare, want.Sq) {
					bad = append(bad, "sumsquare")
				}
				if len(bad) != 0 {
					res.Mismatch(verifkit.Mismatch{Beh: cs, Step: si + 1, Want: want, Got: got, Sig: "tsvalues-merge-" + bad[0], Note: fmt.Sprint(bad)})
					usable = false
					break
				}
				var minStr int
				fmt.Sscanf(a.v.minHostStr.AsString, "h%d", &minStr)
				if !in(int(a.v.minHost.Arg-100), post.AMin) || !in(minStr, post.AMin) ||
					!in(int(a.v.maxHost.Arg-100), post.AMax) || !in(int(a.v.maxHostStr.AsInt32-100), post.AMax) {
					res.Mismatch(verifkit.Mismatch{Beh: cs, Step: si + 1, Want: post, Got: got, Sig: "tsvalues-merge-host-not-a-contributor"})
					usable = false
					break
				}
				// the merged sketch against the counts of its input
				n := make([]int, verifC04MaxK+1)
				for h := range a.hashes {
					for k := 0; k <= verifC04MaxK; k++ {
						if h&((1<<uint(k))-1) != 0 {
							break
						}
						n[k]++
					}
				}
				skip, items := verifC04SketchState(&a.v.unique)
				badItems := 0
				for _, x := range items {
					if !a.hashes[x] || x&((1<<uint(skip))-1) != 0 {
						badItems++
					}
				}
				if len(items) != a.v.unique.ItemsCount() {
					badItems++
				}
				tr.Emit("Sk", "cnts", n, "skip", skip, "items", a.v.unique.ItemsCount(), "bad", badItems, "est", a.v.unique.Size(true),
					"op", "tsValues.merge", "beh", bi, "step", si+1)
				pool = append(pool[:j:j], pool[j+1:]...)
			}
		}
		if usable && merged > 0 {
			res.Replayed++
			res.Seen(fmt.Sprintf("l%d/m%d/big%v", len(leaves), len(merges), big > 0))
		} else if usable {
			res.Count("skipped_not_api_rows", 1)
		}
	}
	out := filepath.Join(verifkit.TmpDir(t, "c04t-"), "trace.ndjson")
	if err := tr.WriteFile(out); err != nil {
		t.Fatal(err)
	}
	res.Files = append(res.Files, out)
	res.Consts["traceEvents"] = tr.Len()
}
