package api

// C26 harness, part 3: filter configurations exported by TLC from specs/SqlFilter.tla (operation
// sequences Add / SetRe on filterIn / filterNotIn, with the set of rows the specification's
// Matches selects) are built on the real queryBuilder with hostile concrete strings, the real
// series / tag-values query text is produced by buildSeriesQuery / buildTagValuesQuery, and
//   1. the text is tokenised with the dialect's literal rules and compared token by token with the
//      text produced for the same configuration with harmless strings: same structure, and every
//      literal decodes to the string that was supplied;
//   2. the where-clause is parsed and evaluated on every row of the universe (plus near-miss
//      rows: escaped forms, quote-doubled forms, high/low halves of 64-bit raw values) and must
//      select exactly the rows of Matches.

import (
	"fmt"
	"math/rand"
	"regexp"
	"sort"
	"strings"
	"testing"

	"github.com/VKCOM/statshouse/internal/data_model"
	"github.com/VKCOM/statshouse/internal/format"
	"github.com/VKCOM/statshouse/internal/verifkit"
)

const (
	verifC26Metric = 1000
	verifC26From   = 6000
	verifC26To     = 12000
)

type verifC26Conc struct {
	mode   int // 0 series, 1 tag values, 2 tag value ids
	tagX   []int
	raw    []bool
	raw64  []bool
	ints   [][][]int64          // per tag: abstract integer -> concrete variants (first is the one used in filters)
	strs   map[string][]string  // abstract string -> concrete variants
	res    map[string]string    // regex id -> pattern
	by     []int
	valTag int
}

var verifC26StrIDs = []string{"", "a", "b", "c"}

func verifC26Nasty(rnd *rand.Rand, utf8Only bool) string {
	l := 1 + rnd.Intn(6)
	var sb strings.Builder
	for i := 0; i < l; i++ {
		var c string
		switch rnd.Intn(5) {
		case 0:
			c = "q"
		case 1:
			c = "b"
		default:
			c = verifC26ClassNames[rnd.Intn(len(verifC26ClassNames))]
		}
		reps := verifC26Reps[c]
		if utf8Only && c == "M" {
			reps = reps[:3]
		}
		sb.WriteString(reps[rnd.Intn(len(reps))])
	}
	return sb.String()
}

// verifC26NewConc draws one concretisation.  benign=true keeps every choice but the strings.
func verifC26NewConc(rnd *rand.Rand, kinds []string, hasRe bool, resets map[string][]string) *verifC26Conc {
	n := len(kinds)
	cz := &verifC26Conc{mode: rnd.Intn(3), tagX: make([]int, n), raw: make([]bool, n), raw64: make([]bool, n),
		strs: map[string][]string{}, res: map[string]string{}}
	used := map[int]bool{}
	for g := 0; g < n; g++ {
		cz.raw[g] = kinds[g] == "raw"
		cz.raw64[g] = cz.raw[g] && rnd.Intn(2) == 0
		for {
			x := rnd.Intn(format.MaxTags)
			if rnd.Intn(4) == 0 {
				x = []int{0, 1, 15, 16, 46, 47}[rnd.Intn(6)]
			}
			if cz.raw[g] && x == 0 { // RestoreCachedInfo clears the raw kind of tag 0
				continue
			}
			if cz.raw64[g] && x >= format.MaxTags-2 {
				continue
			}
			if used[x] || (cz.raw64[g] && used[x+1]) {
				continue
			}
			used[x] = true
			if cz.raw64[g] {
				used[x+1] = true // high half column
			}
			cz.tagX[g] = x
			break
		}
	}
	// integers
	pool32 := []int64{1, 2, 3, 5, 7, -1, -2, 255, 256, 65535, 65536, 1000000, 2147483647, -2147483648, -2147483647, 16777216}
	for g := 0; g < n; g++ {
		vs := make([][]int64, 4)
		vs[0] = []int64{0}
		if cz.raw64[g] {
			seen := map[int64]bool{0: true}
			draw := func() int64 {
				for {
					var v int64
					switch rnd.Intn(4) {
					case 0:
						v = pool32[rnd.Intn(len(pool32))]
					case 1:
						v = int64(rnd.Uint32()) << 32 // low half zero
					case 2:
						v = int64(rnd.Uint32()) // high half zero, may exceed int32
					default:
						v = int64(rnd.Uint64())
					}
					if !seen[v] {
						seen[v] = true
						return v
					}
				}
			}
			for i := 1; i <= 3; i++ {
				vs[i] = []int64{draw()}
			}
			// near misses of the first filter value: same low half / same high half
			for _, m := range []int64{vs[1][0] ^ (1 << 40), vs[1][0] ^ 1, int64(int32(vs[1][0])), int64(uint32(vs[1][0]))} {
				if !seen[m] {
					seen[m] = true
					vs[3] = append(vs[3], m)
				}
			}
		} else {
			p := rnd.Perm(len(pool32))
			for i := 1; i <= 3; i++ {
				vs[i] = []int64{pool32[p[i]]}
			}
		}
		cz.ints = append(cz.ints, vs)
	}
	// strings
	seen := map[string]bool{"": true}
	cz.strs[""] = []string{""}
	for _, id := range []string{"a", "b", "c"} {
		for {
			s := verifC26Nasty(rnd, hasRe)
			if !seen[s] {
				seen[s] = true
				cz.strs[id] = []string{s}
				break
			}
		}
	}
	a := cz.strs["a"][0]
	for _, m := range []string{escapeReplacer.Replace(a), strings.ReplaceAll(a, "'", "''"), a + "'", "'" + a, a + "\\", strings.ReplaceAll(a, "\\", ""),
		strings.ReplaceAll(a, "'", ""), "'" + a + "'", a + "','" + cz.strs["b"][0], "\\" + a, a + " "} {
		if !seen[m] {
			seen[m] = true
			cz.strs["c"] = append(cz.strs["c"], m)
		}
	}
	cz.fillRes(resets)
	// group by / tag of the tag-values query
	// (the tag-values builders of handler.go / promql.go never set `by`)
	for g := 0; g < n; g++ {
		if rnd.Intn(2) == 0 && cz.mode == 0 {
			cz.by = append(cz.by, cz.tagX[g])
		}
	}
	if rnd.Intn(3) == 0 && cz.mode == 0 {
		cz.by = append(cz.by, format.ShardTagIndex)
	}
	cz.valTag = cz.tagX[rnd.Intn(n)]
	if rnd.Intn(3) == 0 {
		for x := 2; x < format.MaxTags; x++ {
			if !used[x] {
				cz.valTag = x
				break
			}
		}
	}
	return cz
}

func (cz *verifC26Conc) fillRes(resets map[string][]string) {
	for id, set := range resets {
		alts := make([]string, 0, len(set))
		ids := append([]string{}, set...)
		sort.Strings(ids)
		for _, sid := range ids {
			alts = append(alts, regexp.QuoteMeta(cz.strs[sid][0]))
		}
		cz.res[id] = "^(?:" + strings.Join(alts, "|") + ")$"
	}
}

// benign twin: identical but for harmless strings
func (cz *verifC26Conc) benign(resets map[string][]string) *verifC26Conc {
	b := *cz
	b.strs = map[string][]string{"": {""}, "a": {"va"}, "b": {"vb"}, "c": {"vc"}}
	b.res = map[string]string{}
	b.fillRes(resets)
	return &b
}

func (cz *verifC26Conc) metric() *format.MetricMetaValue {
	m := &format.MetricMetaValue{MetricID: verifC26Metric, Name: "verif_c26", Tags: make([]format.MetricMetaTag, format.MaxTags)}
	for i := range m.Tags {
		m.Tags[i].Index = int32(i)
	}
	for g, x := range cz.tagX {
		if cz.raw64[g] {
			m.Tags[x].RawKind = "int64"
		} else if cz.raw[g] {
			m.Tags[x].RawKind = "uint"
		}
	}
	_ = m.RestoreCachedInfo()
	return m
}

// verifC26Build runs the operations on a real queryBuilder and returns the query text.
func verifC26Build(ops []verifkit.Step, cz *verifC26Conc) (sql string, err error) {
	defer func() {
		if r := recover(); r != nil {
			err = fmt.Errorf("panic: %v", r)
		}
	}()
	m := cz.metric()
	for g, x := range cz.tagX {
		if m.Tags[x].Raw() != cz.raw[g] || m.Tags[x].Raw64() != cz.raw64[g] {
			return "", fmt.Errorf("harness: tag %d kind not as intended", x)
		}
	}
	qb := &queryBuilder{
		metric:    m,
		user:      "verif",
		what:      tsWhat{data_model.DigestSelector{What: data_model.DigestCount}, data_model.DigestSelector{What: data_model.DigestMax}},
		by:        cz.by,
		utcOffset: 0,
	}
	for _, st := range ops {
		g := st.Int("tag")
		x := cz.tagX[g]
		f := &qb.filterNotIn
		if st.Bool("in") {
			f = &qb.filterIn
		}
		switch st.Act() {
		case "Add":
			n := cz.ints[g][st.Int("n")][0]
			s := cz.strs[st.Str("s")][0]
			switch st.Str("k") {
			case "M":
				f.AppendMapped(x, n)
			case "S":
				f.AppendValue(x, s)
			case "B":
				f.Append(x, data_model.NewTagValue(s, n))
			case "E":
				f.Append(x, data_model.NewTagValue("", 0))
			default:
				return "", fmt.Errorf("harness: value kind %q", st.Str("k"))
			}
		case "SetRe":
			f.Tags[x].Re2 = cz.res[st.Str("re")]
		}
	}
	lod := data_model.LOD{FromSec: verifC26From, ToSec: verifC26To, StepSec: 60, Version: data_model.Version6, Metric: m}
	switch cz.mode {
	case 0:
		q, err := qb.buildSeriesQuery(lod, " SETTINGS optimize_aggregation_in_order=1")
		if err != nil {
			return "", err
		}
		return q.body, nil
	case 1:
		qb.tag = m.Tags[cz.valTag]
		qb.numResults = 5
		return qb.buildTagValuesQuery(lod, " SETTINGS max_threads=1").body, nil
	default:
		qb.tag = m.Tags[cz.valTag]
		qb.numResults = 5
		return qb.buildTagValueIDsQuery(lod, "").body, nil
	}
}

type verifC26Want struct {
	kinds  []string
	want   map[int]bool
	radix  [][2]int
	resets map[string][]string
	hasRe  bool
}

func verifC26ParseCheck(b []verifkit.Step) (ops []verifkit.Step, w *verifC26Want, err error) {
	if len(b) == 0 || b[len(b)-1].Act() != "Check" {
		return nil, nil, fmt.Errorf("behaviour without Check step")
	}
	ck := b[len(b)-1]
	ops = b[:len(b)-1]
	w = &verifC26Want{want: map[int]bool{}, resets: map[string][]string{}}
	w.kinds = verifC26StrList(ck["kind"])
	if l, ok := ck["want"].([]any); ok {
		for _, x := range l {
			w.want[int(x.(float64))] = true
		}
	}
	if l, ok := ck["radix"].([]any); ok {
		for _, x := range l {
			p := x.([]any)
			w.radix = append(w.radix, [2]int{int(p[0].(float64)), int(p[1].(float64))})
		}
	}
	if m, ok := ck["res"].(map[string]any); ok {
		for k, v := range m {
			w.resets[k] = verifC26StrList(v)
		}
	}
	for _, st := range ops {
		if st.Act() == "SetRe" {
			w.hasRe = true
		}
	}
	if len(w.kinds) == 0 || len(w.radix) != len(w.kinds) {
		return nil, nil, fmt.Errorf("bad Check step")
	}
	return ops, w, nil
}

type verifC26Failure struct {
	sig, msg string
}

// verifC26CheckOne builds the behaviour with one concretisation and checks both halves of the
// property.  nrows returns the number of rows evaluated.
func verifC26CheckOne(ops []verifkit.Step, w *verifC26Want, cz *verifC26Conc) (sql string, nrows int, fail *verifC26Failure) {
	sql, err := verifC26Build(ops, cz)
	if err != nil {
		return sql, 0, &verifC26Failure{"build-error", err.Error()}
	}
	bz := cz.benign(w.resets)
	bsql, err := verifC26Build(ops, bz)
	if err != nil {
		return sql, 0, &verifC26Failure{"build-error", "benign twin: " + err.Error()}
	}
	q, err := verifC26Parse(sql)
	if err != nil {
		return sql, 0, &verifC26Failure{"malformed", err.Error()}
	}
	bq, err := verifC26Parse(bsql)
	if err != nil {
		return bsql, 0, &verifC26Failure{"malformed", "with harmless strings: " + err.Error()}
	}
	// 1. same structure; literals hold what was supplied
	b2n := map[string]string{}
	for _, id := range verifC26StrIDs {
		b2n[bz.strs[id][0]] = cz.strs[id][0]
	}
	for id := range w.resets {
		b2n[bz.res[id]] = cz.res[id]
	}
	if len(q.toks) != len(bq.toks) {
		return sql, 0, &verifC26Failure{"structure", fmt.Sprintf("%d tokens, %d with harmless strings (%s)", len(q.toks), len(bq.toks), bsql)}
	}
	for i := range q.toks {
		t, bt := q.toks[i], bq.toks[i]
		if t.kind != bt.kind {
			return sql, 0, &verifC26Failure{"structure", fmt.Sprintf("token %d is %c %q, with harmless strings %c %q", i, t.kind, t.text, bt.kind, bt.text)}
		}
		if t.kind != 'S' {
			if t.text != bt.text {
				return sql, 0, &verifC26Failure{"structure", fmt.Sprintf("token %d is %q, with harmless strings %q", i, t.text, bt.text)}
			}
			continue
		}
		want, ok := b2n[bt.text]
		if !ok {
			want = bt.text
		}
		if t.text != want {
			return sql, 0, &verifC26Failure{"literal-decode", fmt.Sprintf("literal %d decodes to %q, supplied %q", i, t.text, want)}
		}
	}
	// 2. the where-clause selects exactly Matches
	row := verifC26Row{}
	for x := 0; x < format.MaxTags; x++ {
		row["tag"+fmt.Sprint(x)] = verifC26Val{k: 'i'}
		row["stag"+fmt.Sprint(x)] = verifC26Val{k: 's'}
	}
	setBase := func(dev int) {
		row["time"] = verifC26Val{k: 'i', i: verifC26From}
		row["metric"] = verifC26Val{k: 'i', i: verifC26Metric}
		row["index_type"] = verifC26Val{k: 'i'}
		row["pre_tag"] = verifC26Val{k: 'i'}
		row["pre_stag"] = verifC26Val{k: 's'}
		row["_shard_num"] = verifC26Val{k: 'i', i: 1}
		switch dev {
		case 1:
			row["time"] = verifC26Val{k: 'i', i: verifC26To - 1}
		case 2:
			row["metric"] = verifC26Val{k: 'i', i: verifC26Metric + 1}
		case 3:
			row["time"] = verifC26Val{k: 'i', i: verifC26From - 1}
		case 4:
			row["time"] = verifC26Val{k: 'i', i: verifC26To}
		case 5:
			row["index_type"] = verifC26Val{k: 'i', i: 1}
		case 6:
			row["pre_tag"] = verifC26Val{k: 'i', i: 1}
		case 7:
			row["pre_stag"] = verifC26Val{k: 's', s: "x"}
		}
	}
	setTag := func(g int, v int64, s string) {
		x := cz.tagX[g]
		if cz.raw64[g] {
			row["tag"+fmt.Sprint(x)] = verifC26Val{k: 'i', i: int64(int32(uint32(v)))}
			row["tag"+fmt.Sprint(x+1)] = verifC26Val{k: 'i', i: int64(int32(uint32(uint64(v) >> 32)))}
		} else {
			row["tag"+fmt.Sprint(x)] = verifC26Val{k: 'i', i: v}
		}
		row["stag"+fmt.Sprint(x)] = verifC26Val{k: 's', s: s}
	}
	ntag := len(w.kinds)
	var walk func(g int, idx int, dev int, canonOnly bool) *verifC26Failure
	walk = func(g int, idx int, dev int, canonOnly bool) *verifC26Failure {
		if g == ntag {
			nrows++
			v, err := verifC26Eval(q.where, row)
			if err != nil || v.k != 'b' {
				return &verifC26Failure{"malformed", fmt.Sprintf("where-clause does not evaluate: %v", err)}
			}
			want := dev <= 1 && w.want[idx]
			if v.b != want {
				var desc []string
				for gg := 0; gg < ntag; gg++ {
					x := cz.tagX[gg]
					desc = append(desc, fmt.Sprintf("tag%d=%d stag%d=%q", x, row["tag"+fmt.Sprint(x)].i, x, row["stag"+fmt.Sprint(x)].s))
					if cz.raw64[gg] {
						desc = append(desc, fmt.Sprintf("tag%d=%d", x+1, row["tag"+fmt.Sprint(x+1)].i))
					}
				}
				return &verifC26Failure{"where-selects", fmt.Sprintf("row {%s base-deviation=%d} selected=%v, Matches=%v", strings.Join(desc, " "), dev, v.b, want)}
			}
			return nil
		}
		for i := 0; i < w.radix[g][0]; i++ {
			for si := 0; si < w.radix[g][1]; si++ {
				if cz.raw[g] && si != 0 {
					continue // SqlFilter!RowOK: no row has a string in the column of a raw tag
				}
				iv := cz.ints[g][i]
				sv := cz.strs[verifC26StrIDs[si]]
				if canonOnly {
					iv, sv = iv[:1], sv[:1]
				}
				for _, v := range iv {
					for _, s := range sv {
						setTag(g, v, s)
						if f := walk(g+1, (idx*w.radix[g][0]+i)*w.radix[g][1]+si, dev, canonOnly); f != nil {
							return f
						}
					}
				}
			}
		}
		return nil
	}
	for dev := 0; dev <= 7; dev++ {
		setBase(dev)
		if f := walk(0, 1, dev, dev != 0); f != nil {
			return sql, nrows, f
		}
	}
	return sql, nrows, nil
}

func TestVerifC26Where(t *testing.T) {
	verifkit.Gate(t)
	res := verifkit.NewResult()
	defer res.Write(t)
	rnd := verifkit.Rand(2601)
	nconc := verifkit.EnvInt("VERIF_NCONC", 2)
	for _, b := range verifkit.LoadBehaviours(t) {
		ops, w, err := verifC26ParseCheck(b)
		if err != nil {
			t.Fatalf("verif: %v", err)
		}
		res.Replayed++
		for k := 0; k < nconc; k++ {
			cz := verifC26NewConc(rnd, w.kinds, w.hasRe, w.resets)
			sql, nrows, fail := verifC26CheckOne(ops, w, cz)
			res.Steps += nrows
			res.Count(fmt.Sprintf("mode%d", cz.mode), 1)
			if len(w.want) > 0 {
				res.Count("selecting_configs", 1)
			}
			if fail != nil {
				if fail.sig == "build-error" && strings.HasPrefix(fail.msg, "harness:") {
					t.Fatalf("verif: %s", fail.msg)
				}
				res.Mismatch(verifkit.Mismatch{Beh: b, Step: len(ops), Want: "well-formed query selecting exactly Matches", Got: fail.msg, Sig: fail.sig,
					Note: fmt.Sprintf("sql=%q strings=%q regexes=%q tags=%v raw64=%v", sql, cz.strs, cz.res, cz.tagX, cz.raw64)})
				continue
			}
			if len(res.Samples) < 3 && len(ops) >= 2 && w.hasRe && len(w.want) > 0 && w.kinds[0] == "plain" && cz.mode == 0 {
				res.Sample(map[string]any{"ops": ops, "sql": sql, "rows_evaluated": nrows, "rows_selected_abstract": len(w.want)})
			}
		}
		res.Seen(verifkit.Canon(ops) + strings.Join(w.kinds, ","))
	}
}
