package api

// C24 conformance driver (injected by /verif/tools via -overlay; see /verif/DESIGN.md).
// Executes operation sequences (specification behaviours exported by TLC, plus seeded random
// ones) on the real pointsCache with an injected clock and a loader stub and records what the
// cache did as an ndjson trace that specs/PointsCacheTrace.tla validates.

import (
	"context"
	"fmt"
	"os"
	"path/filepath"
	"sort"
	"testing"
	"time"

	"github.com/VKCOM/statshouse/internal/data_model"
	"github.com/VKCOM/statshouse/internal/verifkit"
)

type verifC24Op struct {
	a    string
	d    int64
	secs []int64
	k    string
	f, t int64
}

func verifC24Ops(b []verifkit.Step) []verifC24Op {
	var ops []verifC24Op
	for _, s := range b {
		op := verifC24Op{a: s.Act(), d: int64(s.Int("d")), k: s.Str("k"), f: int64(s.Int("f")), t: int64(s.Int("t"))}
		if l, ok := s["secs"].([]any); ok {
			for _, x := range l {
				op.secs = append(op.secs, int64(x.(float64)))
			}
		}
		ops = append(ops, op)
	}
	return ops
}

// verifC24Run executes one sequence on a fresh cache and appends events to tr.
func verifC24Run(tr *verifkit.Trace, ops []verifC24Op, now0 int64, maxSize int, nrows int) {
	now := time.Unix(now0, 0)
	nowF := func() time.Time { return now }
	gen := 0
	var inner []verifC24Op // ops to run while the loader is "loading"
	var c *pointsCache
	var cur verifC24Op
	var curPresent bool
	exec := func(op verifC24Op) {
		switch op.a {
		case "Tick":
			now = now.Add(time.Duration(op.d) * time.Second)
			tr.Emit("Tick", "d", op.d, "now", now.Unix())
		case "Inval":
			c.invalidate(op.secs)
			tr.Emit("Inval", "secs", op.secs, "now", now.Unix())
		}
	}
	loader := func(_ context.Context, _ *requestHandler, _ *queryBuilder, _ data_model.LOD) ([]pSelectRow, error) {
		gen++
		tr.Emit("Get", "k", cur.k, "f", cur.f, "t", cur.t, "hit", false, "gen", gen, "present", curPresent, "now", now.Unix())
		for _, op := range inner {
			exec(op)
		}
		rows := make([]pSelectRow, nrows)
		for i := range rows {
			rows[i].count = float64(gen)
		}
		return rows, nil
	}
	c = newPointsCache(maxSize, 0, loader, nowF)
	h := &requestHandler{Handler: &Handler{}}
	tr.Emit("Reset", "now", now0, "maxSize", maxSize, "nrows", nrows)
	for i := 0; i < len(ops); i++ {
		op := ops[i]
		switch op.a {
		case "Tick", "Inval":
			exec(op)
		case "Store":
			// consumed together with its Get
		case "Get":
			// ops up to the next Store belong to the load, if the cache decides to load
			inner = nil
			j := i + 1
			for j < len(ops) && ops[j].a != "Store" && ops[j].a != "Get" {
				j++
			}
			hasStore := j < len(ops) && ops[j].a == "Store"
			if hasStore {
				inner = ops[i+1 : j]
			}
			cur = op
			q := &queryBuilder{cacheKey: op.k}
			before := map[string]*cacheEntry{}
			for k, e := range c.cache {
				before[k] = e
			}
			curPresent = false
			if e, ok := c.cache[op.k]; ok {
				_, curPresent = e.rows[timeRange{from: op.f, to: op.t}]
			}
			g0 := gen
			rows, err := c.get(context.Background(), h, q, data_model.LOD{FromSec: op.f, ToSec: op.t}, false)
			if err != nil {
				panic(err)
			}
			rowGen := -1
			if len(rows) > 0 {
				rowGen = int(rows[0].count)
			}
			if gen == g0 { // served from cache
				tr.Emit("Get", "k", op.k, "f", op.f, "t", op.t, "hit", true, "gen", rowGen, "present", curPresent, "now", now.Unix())
			} else {
				var evicted []string
				for k, old := range before {
					if e, ok := c.cache[k]; !ok || e != old { // gone, or evicted and created again
						evicted = append(evicted, k)
					}
				}
				sort.Strings(evicted)
				if evicted == nil {
					evicted = []string{}
				}
				actual := len(c.cache)
				for _, e := range c.cache {
					for _, cr := range e.rows {
						actual += 1 + len(cr.rows)
					}
				}
				tr.Emit("Store", "evicted", evicted, "size", c.size, "nkeys", len(c.cache), "actual", actual, "gen", rowGen)
				if hasStore {
					i = j // inner ops and the Store are done
				}
			}
		}
	}
}

func TestVerifC24(t *testing.T) {
	verifkit.Gate(t)
	res := verifkit.NewResult()
	defer res.Write(t)
	now0 := int64(verifkit.EnvInt("VERIF_NOW0", 1080172797))
	maxSize := verifkit.EnvInt("VERIF_MAXSIZE", 6)
	nrows := verifkit.EnvInt("VERIF_NROWS", 1)
	tr := verifkit.NewTrace()
	for _, b := range verifkit.LoadBehaviours(t) {
		ops := verifC24Ops(b)
		verifC24Run(tr, ops, now0, maxSize, nrows)
		res.Replayed++
		res.Steps += len(ops)
	}
	// seeded random sequences over the same alphabet family, longer than the model's bound
	nrand := verifkit.EnvInt("VERIF_NRANDOM", 0)
	rnd := verifkit.Rand(24)
	H := (now0 + 3 - 172800)
	secs := []int64{H - 2, H - 1, H, H + 1, H + 59, H + 60, H + 61, H + 3599, H + 3600, H + 3601, H + 7200}
	for n := 0; n < nrand; n++ {
		var ops []verifC24Op
		l := 4 + rnd.Intn(12)
		for i := 0; i < l; i++ {
			switch rnd.Intn(4) {
			case 0:
				ops = append(ops, verifC24Op{a: "Tick", d: []int64{1, 2, 14, 15, 16, 60, 3600}[rnd.Intn(7)]})
			case 1:
				ops = append(ops, verifC24Op{a: "Inval", secs: []int64{secs[rnd.Intn(len(secs))]}})
			default:
				f := secs[rnd.Intn(len(secs))] - int64(rnd.Intn(2))*3600
				t2 := f + []int64{1, 2, 60, 61, 3600, 3601, 7200}[rnd.Intn(7)]
				key := []string{"a", "b", "c"}[rnd.Intn(3)]
				ops = append(ops, verifC24Op{a: "Get", k: key, f: f, t: t2})
				if rnd.Intn(2) == 0 { // things happen during the load: invalidations, clock steps around the linger
					for n := rnd.Intn(3) + 1; n > 0; n-- {
						if rnd.Intn(2) == 0 {
							ops = append(ops, verifC24Op{a: "Inval", secs: []int64{f + int64(rnd.Intn(int(t2-f)))}})
						} else {
							ops = append(ops, verifC24Op{a: "Tick", d: []int64{1, 14, 15, 16, 60}[rnd.Intn(5)]})
						}
					}
					ops = append(ops, verifC24Op{a: "Store"})
					if rnd.Intn(2) == 0 { // and the same range is asked again
						ops = append(ops, verifC24Op{a: "Get", k: key, f: f, t: t2})
					}
				}
			}
		}
		verifC24Run(tr, ops, now0, maxSize, nrows)
		res.Replayed++
		res.Steps += len(ops)
	}
	out := filepath.Join(verifkit.TmpDir(t, "c24-"), "trace.ndjson")
	if err := tr.WriteFile(out); err != nil {
		t.Fatal(err)
	}
	res.Files = append(res.Files, out)
	res.Consts["invalidateFrom"] = int64(invalidateFrom / time.Second)
	res.Consts["invalidateLinger"] = int64(invalidateLinger / time.Second)
	res.Consts["steps"] = fmt.Sprint(steps)
	res.Consts["maxEvictionSampleSize"] = maxEvictionSampleSize
	evs := tr.Events()
	for i := 0; i < len(evs) && i < 12; i++ {
		res.Sample(evs[i])
	}
	_ = os.Stdout
}
