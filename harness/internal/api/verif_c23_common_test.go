package api

// C23 conformance harness, shared part (injected by /verif/tools via -overlay; see
// /verif/DESIGN.md and /verif/design_notes/C23.md).
//
// The real cache2 is driven through its real entry points (Get, invalidate, setLimits, reset,
// shutdown).  The storage is a loader stub whose rows say what they are: the query key, the
// slot (step and time) and the id of the load (one call of the loader) that produced them, so
// every row a request returns can be traced back.  All boundary events go through one global
// emitter: Begin is emitted before the call, End after it returned, LoadBegin on entry of the
// stub and LoadEnd - the instant the stub "reads the storage" - immediately before it
// returns.  specs/SeriesCacheAbsTrace.tla validates the event log.
//
// Schedules are steered without any change of the code under test, only by taking mutexes
// that the code takes anyway (white box):
//   * h.endpointStat.timings.mutex of one request: loadChunks reports a timing between the
//     return of the loader and the post-load critical sections, so holding it keeps that
//     loader exactly in the window "loaded, not yet published";
//   * the stub itself (a load lasts as long as the driver wants);
//   * the mutex of a dummy first bucket: invalidate reads its clock and then walks the
//     buckets in list order, so it can be parked between the clock read and the real bucket.
// Delays are legal at any point of a concurrent program, so every execution produced this way
// is an execution of the real code.  No verdict depends on timing: waits are on conditions,
// deadlines only turn into "undecided" (or, for the rule "no request waits forever", into a
// witness after the environment has demonstrably nothing left to do).

import (
	"context"
	"errors"
	"fmt"
	"runtime"
	"sort"
	"strings"
	"sync"
	"sync/atomic"
	"time"

	"github.com/VKCOM/statshouse/internal/data_model"
	"github.com/VKCOM/statshouse/internal/verifkit"
)

var errVerifC23Load = errors.New("verif: storage failure")

type verifC23Outcome struct {
	ok bool
}

// one request (one call of cache2.Get)
type verifC23Req struct {
	g     int
	h     *requestHandler
	q     *queryBuilder
	lod   data_model.LOD
	key   string
	play  int
	force bool
	slots []int

	// set by the stub
	loads    atomic.Int32 // number of loader calls made for this request
	loadID   atomic.Int64 // id of its (single) load
	inCache  atomic.Int32 // 1 while the stub is inside a cache2 inflight call
	entered  chan struct{}
	loadGate chan verifC23Outcome // nil: the stub decides by itself (random driver)
	loaded   chan struct{}        // closed after LoadEnd was emitted
	announce chan int64           // schedule driver: bytes to announce while the load is in progress
	yields   int                  // random driver: scheduler yields inside the load
	fail     bool                 // random driver: the load fails
	bytes    int64                // inflight bytes to announce (0: none)

	gateHeld atomic.Bool // timing gate currently held by the driver

	done chan struct{}
	data cache2Data
	err  error
}

type verifC23Env struct {
	tr       *verifkit.Trace
	res      *verifkit.Result
	H        *Handler
	c        *cache2
	keys     []string
	inflight bool
	deadline time.Duration

	invMu    sync.Mutex // invalidate calls do not overlap (the product has one invalidation goroutine)
	mu       sync.Mutex
	sids     map[[2]int64]int
	nextG    int
	nextInv  int
	reqs     map[*requestHandler]*verifC23Req
	all      []*verifC23Req
	nextLoad atomic.Int64
	panics   atomic.Int32
}

func verifC23NewEnv(tr *verifkit.Trace, res *verifkit.Result, chunkSize int, utcOffset int64, keys []string) *verifC23Env {
	e := &verifC23Env{tr: tr, res: res, keys: keys, sids: map[[2]int64]int{}, reqs: map[*requestHandler]*verifC23Req{},
		deadline: time.Duration(verifkit.EnvInt("VERIF_C23_DEADLINE_S", 120)) * time.Second}
	e.H = &Handler{HandlerOptions: HandlerOptions{location: time.UTC, utcOffset: utcOffset}}
	e.c = newCache2(e.H, chunkSize, e.load)
	return e
}

func (e *verifC23Env) sid(step, t int64) int {
	e.mu.Lock()
	defer e.mu.Unlock()
	k := [2]int64{step, t}
	if v, ok := e.sids[k]; ok {
		return v
	}
	v := len(e.sids) + 1
	e.sids[k] = v
	return v
}

func (e *verifC23Env) sidIfKnown(step, t int64) int {
	e.mu.Lock()
	defer e.mu.Unlock()
	if v, ok := e.sids[[2]int64{step, t}]; ok {
		return v
	}
	return -1
}

// number of rows the storage holds for a slot of a query: a fixed function, so that every
// load of the slot produces the same number (the rows still differ by their load id)
func verifC23Cnt(key string, step, t int64) int {
	h := uint64(1469598103934665603)
	for i := 0; i < len(key); i++ {
		h = (h ^ uint64(key[i])) * 1099511628211
	}
	h = (h ^ uint64(step)) * 1099511628211
	h = (h ^ uint64(t)) * 1099511628211
	h ^= h >> 29
	switch m := h % 20; {
	case m < 3:
		return 0
	case m < 8:
		return 2
	}
	return 1
}

func (e *verifC23Env) keyIndex(key string) int64 {
	for i, k := range e.keys {
		if k == key {
			return int64(i)
		}
	}
	return -1
}

// the storage stub
func (e *verifC23Env) load(ctx context.Context, h *requestHandler, pq *queryBuilder, lod data_model.LOD, ret [][]tsSelectRow, retStartIx int) (int, error) {
	e.mu.Lock()
	r := e.reqs[h]
	e.mu.Unlock()
	if r == nil {
		panic("verif C23: loader called for an unknown request")
	}
	r.loads.Add(1)
	lid := e.nextLoad.Add(1)
	r.loadID.Store(lid)
	key := pq.getOrBuildCacheKey()
	n := int((lod.ToSec - lod.FromSec) / lod.StepSec)
	slots := make([]int, 0, n)
	for i := 0; i < n; i++ {
		slots = append(slots, e.sid(lod.StepSec, lod.FromSec+int64(i)*lod.StepSec))
	}
	e.tr.Emit("LoadBegin", "l", lid, "k", key, "slots", slots, "g", r.g, "buf", len(ret)-retStartIx)
	if r.loads.Load() == 1 {
		close(r.entered)
	}
	cancelled := false
	if e.inflight && r.bytes > 0 {
		// what loadPoints does around the storage query
		cctx, cancel := context.WithCancel(ctx)
		defer cancel()
		if cc := cache2FromInflightCtx(cctx); cc != nil {
			id := cc.NewInflightReq(cancel)
			r.inCache.Store(1)
			cc.updateInflightApprox(id, 0)
			r.inCache.Store(0)
			defer cc.afterInflightLoadFinished(id)
			for k := 0; k < 2 && !cancelled; k++ {
				r.inCache.Store(1)
				cc.updateInflightApprox(id, r.bytes/2)
				r.inCache.Store(0)
				select {
				case <-cctx.Done():
					cancelled = true
				default:
				}
			}
		}
	}
	ok := !r.fail
	if r.loadGate != nil {
		var cc *cache2
		var id uint32
		if r.announce != nil {
			cctx, cancel := context.WithCancel(ctx)
			defer cancel()
			if cc = cache2FromInflightCtx(cctx); cc != nil {
				id = cc.NewInflightReq(cancel)
				r.inCache.Store(1)
				cc.updateInflightApprox(id, 0)
				r.inCache.Store(0)
				defer cc.afterInflightLoadFinished(id)
			}
			ctx = cctx
		}
	wait:
		for {
			select {
			case o := <-r.loadGate:
				ok = o.ok
				break wait
			case b := <-r.announce:
				r.inCache.Store(1)
				cc.updateInflightApprox(id, b)
				r.inCache.Store(0)
			}
		}
		select {
		case <-ctx.Done():
			cancelled = true
		default:
		}
	} else {
		for i := 0; i < r.yields; i++ {
			runtime.Gosched()
		}
	}
	if cancelled {
		ok = false
	}
	// rows are written in both cases: a failed load must never be served
	cnt := make([]int, n)
	rows := 0
	for i := 0; i < n && retStartIx+i < len(ret); i++ {
		t := lod.FromSec + int64(i)*lod.StepSec
		c := verifC23Cnt(key, lod.StepSec, t)
		cnt[i] = c
		for x := 0; x < c; x++ {
			row := tsSelectRow{time: t}
			row.tag[0] = e.keyIndex(key)
			row.tag[1] = lid
			row.tag[2] = int64(x)
			row.tag[3] = lod.StepSec
			row.count = float64(lid)
			ret[retStartIx+i] = append(ret[retStartIx+i], row)
			rows++
		}
	}
	if !ok {
		e.tr.Emit("LoadEnd", "l", lid, "ok", false, "cnt", []int{})
		if r.loads.Load() == 1 {
			close(r.loaded)
		}
		return 0, errVerifC23Load
	}
	e.tr.Emit("LoadEnd", "l", lid, "ok", true, "cnt", cnt) // the storage is read here
	if r.loads.Load() == 1 {
		close(r.loaded)
	}
	return rows, nil
}

func (e *verifC23Env) newReq(key string, play int, force bool, step, from, to int64) *verifC23Req {
	r := &verifC23Req{key: key, play: play, force: force, entered: make(chan struct{}), loaded: make(chan struct{}), done: make(chan struct{})}
	r.h = &requestHandler{Handler: e.H, accessInfo: accessInfo{user: "u" + key}}
	r.h.endpointStat.timings.Timings = map[string][]time.Duration{}
	r.q = &queryBuilder{cacheKey: key, play: play}
	r.lod = data_model.LOD{Version: Version6, StepSec: step, FromSec: from, ToSec: to, Location: time.UTC}
	for t := from; t < to; t += step {
		r.slots = append(r.slots, e.sid(step, t))
	}
	e.mu.Lock()
	e.nextG++
	r.g = e.nextG
	e.reqs[r.h] = r
	e.all = append(e.all, r)
	e.mu.Unlock()
	return r
}

// holdGate / openGate: keep the request's loader between "loaded" and "published"
func (r *verifC23Req) holdGate() {
	r.h.endpointStat.timings.mutex.Lock()
	r.gateHeld.Store(true)
}

func (r *verifC23Req) openGate() {
	if r.gateHeld.CompareAndSwap(true, false) {
		r.h.endpointStat.timings.mutex.Unlock()
	}
}

// timing reports whether the request's goroutines passed the named report point
func (r *verifC23Req) timing(name string) bool {
	m := &r.h.endpointStat.timings
	if r.gateHeld.Load() {
		return false // we hold the mutex: nobody can have passed since
	}
	m.mutex.Lock()
	defer m.mutex.Unlock()
	return len(m.Timings[name]) != 0
}

// decode the rows of one returned slot into <<key, slot, load, x>> tuples
func (e *verifC23Env) decode(data cache2Data) [][]any {
	out := make([][]any, len(data))
	for i, col := range data {
		out[i] = []any{}
		for _, row := range col {
			k := "?"
			if ix := row.tag[0]; ix >= 0 && int(ix) < len(e.keys) {
				k = e.keys[ix]
			}
			out[i] = append(out[i], []any{k, e.sidIfKnown(row.tag[3], row.time), row.tag[1], row.tag[2]})
		}
	}
	return out
}

// run the request to completion on the calling goroutine, emitting the boundary events
func (e *verifC23Env) get(r *verifC23Req) {
	defer close(r.done)
	defer func() {
		if p := recover(); p != nil {
			e.panics.Add(1)
			e.res.Mismatch(verifkit.Mismatch{Sig: "panic", Got: fmt.Sprint(p), Note: verifC23Stack()})
			r.err = fmt.Errorf("panic: %v", p)
			e.tr.Emit("Note", "what", "panic in Get", "g", r.g)
		}
	}()
	e.tr.Emit("GetBegin", "g", r.g, "k", r.key, "play", r.play, "slots", r.slots, "force", r.force,
		"step", r.lod.StepSec, "from", r.lod.FromSec)
	data, err := e.c.Get(context.Background(), r.h, r.q, r.lod, r.force)
	r.data, r.err = data, err
	if err != nil {
		e.tr.Emit("GetEnd", "g", r.g, "ok", false, "rows", []any{}, "err", err.Error())
		return
	}
	e.tr.Emit("GetEnd", "g", r.g, "ok", true, "rows", e.decode(data))
	e.checkRows(r)
}

// direct check of placement on the returned rows (secondary to the trace validation)
func (e *verifC23Env) checkRows(r *verifC23Req) {
	if r.play != 0 {
		return
	}
	bad := func(i int, what string) {
		e.res.Mismatch(verifkit.Mismatch{Sig: "go-placement", Step: r.g, Want: what,
			Got: map[string]any{"slot": i, "key": r.key, "step": r.lod.StepSec, "from": r.lod.FromSec, "to": r.lod.ToSec, "rows": e.decode(r.data)}})
	}
	if len(r.data) != len(r.slots) {
		bad(-1, fmt.Sprintf("%d slots", len(r.slots)))
		return
	}
	for i, col := range r.data {
		t := r.lod.FromSec + int64(i)*r.lod.StepSec
		if len(col) != verifC23Cnt(r.key, r.lod.StepSec, t) {
			bad(i, fmt.Sprintf("%d rows", verifC23Cnt(r.key, r.lod.StepSec, t)))
			return
		}
		for x, row := range col {
			if row.time != t || row.tag[0] != e.keyIndex(r.key) || row.tag[3] != r.lod.StepSec || row.tag[1] != col[0].tag[1] {
				bad(i, fmt.Sprintf("row %d of key %s time %d from one load", x, r.key, t))
				return
			}
		}
	}
}

// class of a returned request for the distinct-cases count: per chunk-sized group of slots,
// whether the rows came from the request's own load (O), another load (X) or are empty (E)
func (e *verifC23Env) class(r *verifC23Req) string {
	var sb strings.Builder
	fmt.Fprintf(&sb, "step%d n%d p%d f%v ", r.lod.StepSec, len(r.slots), r.play, r.force)
	if r.err != nil {
		sb.WriteString("err")
		return sb.String()
	}
	own := r.loadID.Load()
	last := byte(0)
	for _, col := range r.data {
		c := byte('E')
		if len(col) != 0 {
			c = 'X'
			if col[0].tag[1] == own && r.loads.Load() != 0 {
				c = 'O'
			}
		}
		if c != last {
			sb.WriteByte(c)
			last = c
		}
	}
	return sb.String()
}

func (e *verifC23Env) invalidate(times []int64, step int64) {
	e.invMu.Lock()
	defer e.invMu.Unlock()
	e.invalidateLocked(times, step)
}

// invalidateLocked: the caller holds invMu
func (e *verifC23Env) invalidateLocked(times []int64, step int64) {
	sort.Slice(times, func(i, j int) bool { return times[i] < times[j] })
	seen := map[int]bool{}
	slots := []int{}
	for _, t := range times {
		s := e.sid(step, (t/step)*step)
		if !seen[s] {
			seen[s] = true
			slots = append(slots, s)
		}
	}
	e.mu.Lock()
	e.nextInv++
	i := e.nextInv
	e.mu.Unlock()
	e.tr.Emit("InvBegin", "i", i, "slots", slots, "step", step, "times", times)
	e.c.invalidate(times, step)
	e.tr.Emit("InvEnd", "i", i)
}

func verifC23Stack() string {
	buf := make([]byte, 1<<16)
	return string(buf[:runtime.Stack(buf, false)])
}

func verifC23AllStacks() string {
	buf := make([]byte, 8<<20)
	return string(buf[:runtime.Stack(buf, true)])
}

// waitCond polls a condition (no verdict depends on how long it takes)
func verifC23WaitCond(d time.Duration, f func() bool) bool {
	t0 := time.Now()
	for i := 0; ; i++ {
		if f() {
			return true
		}
		if time.Since(t0) > d {
			return false
		}
		if i < 200 {
			runtime.Gosched()
		} else {
			time.Sleep(200 * time.Microsecond)
		}
	}
}

// waitQuiet waits until f() holds; gives up only when nothing at all has happened (no event
// emitted) for the whole deadline, so a slow machine extends the wait instead of ending it
func (e *verifC23Env) waitQuiet(f func() bool) bool {
	last, t0 := e.tr.Len(), time.Now()
	for i := 0; ; i++ {
		if f() {
			return true
		}
		if n := e.tr.Len(); n != last {
			last, t0 = n, time.Now()
		} else if time.Since(t0) > e.deadline {
			return false
		}
		if i < 200 {
			runtime.Gosched()
		} else {
			time.Sleep(500 * time.Microsecond)
		}
	}
}

// quiesce: everything the environment can do has been done (all stubs released, all gates
// open).  Waits for every request; a request that still has not returned when nothing has
// happened for the whole deadline, while nothing of the environment is left to act, waits
// forever.  Returns false when the accounting cannot be judged.
func (e *verifC23Env) quiesce() bool {
	e.mu.Lock()
	all := append([]*verifC23Req(nil), e.all...)
	e.mu.Unlock()
	for _, r := range all {
		r.openGate()
	}
	pending := func() []int {
		var p []int
		for _, r := range all {
			select {
			case <-r.done:
			default:
				p = append(p, r.g)
			}
		}
		return p
	}
	ok := e.waitQuiet(func() bool { return len(pending()) == 0 })
	p := pending()
	if !ok {
		stacks := verifC23AllStacks()
		e.res.Note("run with pending requests %v, nothing happened for %v; goroutines:\n%s", p, e.deadline, verifC23CacheFrames(stacks))
	}
	if p == nil {
		p = []int{}
	}
	if len(p) != 0 {
		// the witness says where everybody is: the driver's view of each pending request and the
		// stacks of all goroutines inside the cache or the driver
		var stuck []map[string]any
		for _, r := range all {
			select {
			case <-r.done:
				continue
			default:
			}
			closed := func(c chan struct{}) bool {
				select {
				case <-c:
					return true
				default:
					return false
				}
			}
			stuck = append(stuck, map[string]any{"g": r.g, "key": r.key, "loaderEntered": closed(r.entered), "loaderReturned": closed(r.loaded),
				"loaderHeldByDriver": r.loadGate != nil && closed(r.entered) && !closed(r.loaded), "gateHeldByDriver": r.gateHeld.Load(),
				"insideInflightCall": r.inCache.Load() != 0})
		}
		e.tr.Emit("Quiesce", "pending", p, "stuck", stuck, "stacks", verifC23HarnessFrames(verifC23AllStacks(), 200000))
		return false // a witness: the trace is rejected by Termination
	}
	e.tr.Emit("Quiesce", "pending", p)
	if len(p) != 0 {
		return false // a witness: the trace is rejected by Termination
	}
	// loader goroutines continue after their request returned (post-load): wait for them
	ok = verifC23WaitCond(e.deadline, func() bool {
		for _, r := range all {
			if r.loads.Load() != 0 && !r.timing("cache-load-chunks") {
				return false
			}
		}
		return true
	})
	if !ok {
		e.res.Note("loader goroutines did not finish within %v:\n%s", e.deadline, verifC23CacheFrames(verifC23AllStacks()))
		e.res.Count("infra", 1)
		return false
	}
	return true
}

// the goroutines inside the cache code or the driver, up to max characters
func verifC23HarnessFrames(stacks string, max int) string {
	var sb strings.Builder
	for _, g := range strings.Split(stacks, "\n\n") {
		if strings.Contains(g, "tscache2") || strings.Contains(g, "verif_c23") {
			sb.WriteString(g)
			sb.WriteString("\n\n")
		}
	}
	s := sb.String()
	if len(s) > max {
		s = s[:max]
	}
	return s
}

// only the goroutines that are inside the cache code
func verifC23CacheFrames(stacks string) string {
	var sb strings.Builder
	for _, g := range strings.Split(stacks, "\n\n") {
		if strings.Contains(g, "tscache2") {
			lines := strings.Split(g, "\n")
			if len(lines) > 14 {
				lines = lines[:14]
			}
			sb.WriteString(strings.Join(lines, "\n"))
			sb.WriteString("\n\n")
		}
	}
	s := sb.String()
	if len(s) > 6000 {
		s = s[:6000]
	}
	return s
}

// emptied: the cache's own accounting after it has been emptied
func (e *verifC23Env) emptied(how string) {
	info := e.c.runtimeInfo()
	e.tr.Emit("Emptied", "how", how, "size", info.sizeS[0]+info.sizeS[1], "chunks", info.chunkCountS[0]+info.chunkCountS[1],
		"len", info.chunkSizeS[0]+info.chunkSizeS[1], "buckets", info.bucketCountS[0]+info.bucketCountS[1])
}
