package fsbinlog

// C18 conformance driver (injected by /verif/tools via -overlay; see /verif/DESIGN.md).
//
// Executes write histories (specification behaviours exported by TLC from FsBinlog.tla, plus
// seeded random longer ones) on the real fsbinlog over gofs in-memory file systems and real
// temporary directories, with a recording binlog.Engine.  After the history the file set is
// parsed by an independent parser (layout), reopened with ReadAll from every possible commit
// position with and without its snapshot meta, truncated around every record boundary and
// bit-flipped in every field of every record.  Everything observed is written as an ndjson
// trace; specs/FsBinlogTrace.tla decides (I->S) whether it is what FsBinlog.tla allows.

import (
	"bytes"
	"encoding/binary"
	"errors"
	"fmt"
	"hash/crc32"
	"math/rand"
	"os"
	"path/filepath"
	"sort"
	"strings"
	"sync"
	"testing"
	"time"

	"github.com/myxo/gofs"

	"github.com/VKCOM/statshouse/internal/verifkit"
	"github.com/VKCOM/statshouse/internal/vkgo/binlog"
	"github.com/VKCOM/statshouse/internal/vkgo/binlog/fsbinlog/internal/gen/constants"
)

const (
	verifC18Magic  = uint32(0x0c18e7e1) // the recording engine's event magic
	verifC18Schema = uint32(0x00001c18) // Options.Magic (LevStart.SchemaId)
)

// ---------------------------------------------------------------------------- events

// payload: magic, body length, id, filler.  raw >= 12.
func verifC18Payload(id uint32, raw int) []byte {
	b := make([]byte, raw)
	binary.LittleEndian.PutUint32(b, verifC18Magic)
	binary.LittleEndian.PutUint32(b[4:], uint32(raw-8))
	binary.LittleEndian.PutUint32(b[8:], id)
	for j := 12; j < raw; j++ {
		b[j] = byte(int(id)*131 + j*7 + 1)
	}
	return b
}

type verifC18Call struct {
	kind byte // 'A' Apply (accepted event), 'S' Skip
	off  int64
	n    int64 // bytes consumed (padded)
	id   uint32
	raw  int
	sum  uint32
}

type verifC18Commit struct {
	pos  int64
	meta []byte
	src  string
}

// verifC18Engine records every callback.  It keeps its own offset, as a real engine does.
type verifC18Engine struct {
	mu        sync.Mutex
	cond      *sync.Cond
	off       int64
	calls     []verifC18Call
	commits   []verifC18Commit
	commitPos int64
	roles     []binlog.ChangeRoleInfo
	master    bool
	ready     chan struct{}
	unpadded  bool // return the unpadded offset from Apply (the reader pads for the engine)
	reverts   int
	other     []string
	onCommit  func(pos int64, meta []byte, safe int64, src string)
}

func verifC18NewEngine(off int64, unpadded bool) *verifC18Engine {
	e := &verifC18Engine{off: off, ready: make(chan struct{}), unpadded: unpadded, commitPos: -1}
	e.cond = sync.NewCond(&e.mu)
	return e
}

func (e *verifC18Engine) Apply(payload []byte) (int64, error) {
	e.mu.Lock()
	defer e.mu.Unlock()
	if len(payload) < 8 {
		return e.off, binlog.ErrorNotEnoughData
	}
	if binary.LittleEndian.Uint32(payload) != verifC18Magic {
		return e.off, binlog.ErrorUnknownMagic
	}
	n := int(binary.LittleEndian.Uint32(payload[4:]))
	if n < 4 || n > 1<<28 {
		return e.off, fmt.Errorf("verif engine: bad event length %d", n)
	}
	total := 8 + n
	if len(payload) < total {
		return e.off, binlog.ErrorNotEnoughData
	}
	padded := AddPadding(total)
	e.calls = append(e.calls, verifC18Call{kind: 'A', off: e.off, n: int64(padded), raw: total,
		id: binary.LittleEndian.Uint32(payload[8:]), sum: crc32.ChecksumIEEE(payload[:total])})
	ret := e.off + int64(total)
	e.off += int64(padded)
	if !e.unpadded {
		ret = e.off
	}
	return ret, nil
}

func (e *verifC18Engine) Skip(skipLen int64) (int64, error) {
	e.mu.Lock()
	defer e.mu.Unlock()
	e.calls = append(e.calls, verifC18Call{kind: 'S', off: e.off, n: skipLen})
	e.off += skipLen
	return e.off, nil
}

func (e *verifC18Engine) Commit(toOffset int64, snapshotMeta []byte, safeSnapshotOffset int64) error {
	e.mu.Lock()
	src := "r"
	if e.master {
		src = "w"
	}
	meta := append([]byte(nil), snapshotMeta...)
	e.commits = append(e.commits, verifC18Commit{pos: toOffset, meta: meta, src: src})
	cb := e.onCommit
	e.mu.Unlock()
	if cb != nil {
		cb(toOffset, meta, safeSnapshotOffset, src)
	}
	e.mu.Lock()
	if toOffset > e.commitPos {
		e.commitPos = toOffset
	}
	e.cond.Broadcast()
	e.mu.Unlock()
	return nil
}

func (e *verifC18Engine) waitCommit(pos int64) {
	e.mu.Lock()
	for e.commitPos < pos {
		e.cond.Wait()
	}
	e.mu.Unlock()
}

func (e *verifC18Engine) Revert(toOffset int64) (bool, error) {
	e.mu.Lock()
	e.reverts++
	e.mu.Unlock()
	return false, nil
}

func (e *verifC18Engine) ChangeRole(info binlog.ChangeRoleInfo) error {
	e.mu.Lock()
	e.roles = append(e.roles, info)
	first := info.IsReadyMaster() && !e.master
	if first {
		e.master = true
	}
	e.mu.Unlock()
	if first {
		close(e.ready)
	}
	return nil
}

func (e *verifC18Engine) StartReindex(operator binlog.ReindexOperator) {}
func (e *verifC18Engine) Split(offset int64, toShardID string) bool  { return false }
func (e *verifC18Engine) Shutdown()                                  {}

func (e *verifC18Engine) snapshotCalls() []verifC18Call {
	e.mu.Lock()
	defer e.mu.Unlock()
	return append([]verifC18Call(nil), e.calls...)
}

// ---------------------------------------------------------------------------- files, layout

type verifC18File struct {
	name string
	pos  int64 // stream position of the first byte (from the file's header)
	data []byte
}

type verifC18Rec struct {
	K   string `json:"k"`
	Pos int64  `json:"pos"`
	Len int64  `json:"len"`
	ID  int64  `json:"id"`
	F   int    `json:"f"`
}

func verifC18HeaderPos(data []byte) int64 {
	if len(data) < 4 {
		return -1
	}
	switch binary.LittleEndian.Uint32(data) {
	case constants.FsbinlogLevStart:
		return 0
	case magicLevRotateFrom:
		if len(data) < 16 {
			return -1
		}
		return int64(binary.LittleEndian.Uint64(data[8:]))
	}
	return -1
}

// verifC18ReadFiles reads the binlog files of prefix (dir/base) ordered by header position.
func verifC18ReadFiles(fs gofs.FS, dir, base string) ([]verifC18File, error) {
	ents, err := fs.ReadDir(dir)
	if err != nil {
		return nil, err
	}
	var files []verifC18File
	for _, e := range ents {
		if !strings.HasPrefix(e.Name(), base) || !strings.HasSuffix(e.Name(), ".bin") {
			continue
		}
		data, err := fs.ReadFile(filepath.Join(dir, e.Name()))
		if err != nil {
			return nil, err
		}
		files = append(files, verifC18File{name: e.Name(), pos: verifC18HeaderPos(data), data: data})
	}
	sort.Slice(files, func(i, j int) bool { return files[i].pos < files[j].pos })
	return files, nil
}

func verifC18Stream(files []verifC18File) []byte {
	var s []byte
	for _, f := range files {
		if f.pos != int64(len(s)) {
			return nil
		}
		s = append(s, f.data...)
	}
	return s
}

// verifC18Parse is the harness's own parser of the on-disk format (independent of reader.go).
func verifC18Parse(files []verifC18File) ([]verifC18Rec, error) {
	var recs []verifC18Rec
	next := int64(0)
	for fi, f := range files {
		if f.pos != next {
			return recs, fmt.Errorf("file %s starts at %d, previous file ended at %d", f.name, f.pos, next)
		}
		o := 0
		for o < len(f.data) {
			d := f.data[o:]
			last := fi == len(files)-1
			if len(d) < 4 {
				if last {
					break // torn tail
				}
				return recs, fmt.Errorf("file %s: %d stray bytes at %d", f.name, len(d), o)
			}
			r := verifC18Rec{Pos: f.pos + int64(o), F: fi + 1}
			switch binary.LittleEndian.Uint32(d) {
			case constants.FsbinlogLevStart:
				r.K, r.Len = "start", 24
			case magicLevTag:
				r.K, r.Len = "tag", 20
			case magicLevCrc32:
				r.K, r.Len = "crc", levCrcSize
				if len(d) >= 16 && int64(binary.LittleEndian.Uint64(d[8:])) != r.Pos {
					r.K = "crc!pos"
				}
			case magicLevRotateTo:
				r.K, r.Len = "rotTo", levRotateSize
				if len(d) >= 16 && int64(binary.LittleEndian.Uint64(d[8:])) != r.Pos+levRotateSize {
					r.K = "rotTo!pos"
				}
			case magicLevRotateFrom:
				r.K, r.Len = "rotFrom", levRotateSize
			case verifC18Magic:
				if len(d) < 12 {
					if last {
						o = len(f.data)
						continue // torn tail
					}
					return recs, fmt.Errorf("file %s: short event at %d", f.name, o)
				}
				n := int(binary.LittleEndian.Uint32(d[4:]))
				raw := 8 + n
				r.K, r.Len, r.ID = "ev", int64(AddPadding(raw)), int64(binary.LittleEndian.Uint32(d[8:]))
				if len(d) < int(r.Len) {
					if last {
						o = len(f.data)
						continue // torn tail
					}
					return recs, fmt.Errorf("file %s: event at %d longer than file", f.name, o)
				}
				want := append(verifC18Payload(uint32(r.ID), raw), make([]byte, int(r.Len)-raw)...)
				if !bytes.Equal(d[:r.Len], want) {
					r.K = "ev!content"
				}
			default:
				return recs, fmt.Errorf("file %s: unknown magic %08x at %d", f.name, binary.LittleEndian.Uint32(d), o)
			}
			if len(d) < int(r.Len) {
				if last {
					break // torn tail
				}
				return recs, fmt.Errorf("file %s: record %s at %d longer than file", f.name, r.K, o)
			}
			recs = append(recs, r)
			o += int(r.Len)
		}
		next = f.pos + int64(len(f.data))
	}
	return recs, nil
}

// ---------------------------------------------------------------------------- world

type verifC18World struct {
	t      testing.TB
	tr     *verifkit.Trace
	res    *verifkit.Result
	rnd    *rand.Rand
	prnd   *rand.Rand // fsync probe only (used from the binlog's goroutines)
	mem    *gofs.InMemoryFS // nil: real directory
	fs     gofs.FS
	dir    string
	base   string
	opts   Options
	bl     BinlogReadWrite
	eng    *verifC18Engine
	done   chan error
	off    int64 // offset for the next Append
	nextID uint32
	bounds map[int64]bool // possible commit positions: run starts and Append results
	rcomm  map[int64]bool // positions committed by the reader during replays
	metas  map[int64][]byte
	broken string
}

func verifC18NewWorld(t testing.TB, tr *verifkit.Trace, res *verifkit.Result, rnd *rand.Rand, useOS bool, chunk uint32, hardLimit int) *verifC18World {
	w := &verifC18World{t: t, tr: tr, res: res, rnd: rnd, prnd: rand.New(rand.NewSource(rnd.Int63())), base: "bl", nextID: 1,
		bounds: map[int64]bool{}, rcomm: map[int64]bool{}, metas: map[int64][]byte{}}
	if useOS {
		w.fs = gofs.OsFs()
		w.dir = verifkit.TmpDir(t, "c18w")
	} else {
		w.mem = gofs.NewThreadSafeMemoryFs()
		w.mem.TrackDirtyPages()
		w.fs = w.mem
		w.dir = "/c18"
		if err := w.mem.MkdirAll(w.dir, 0o777); err != nil {
			t.Fatal(err)
		}
	}
	zero := time.Duration(0)
	w.opts = Options{PrefixPath: w.dir + "/" + w.base, Magic: verifC18Schema, MaxChunkSize: chunk, Fs: w.fs,
		WriteCallDelay: &zero, HardMemLimit: hardLimit}
	return w
}

func (w *verifC18World) close() {
	if w.mem != nil {
		w.mem.Release()
	} else {
		_ = os.RemoveAll(w.dir)
	}
}

func (w *verifC18World) snapshot() []verifC18File {
	files, err := verifC18ReadFiles(w.fs, w.dir, w.base)
	if err != nil {
		w.t.Fatalf("verif c18: cannot read files: %v", err)
	}
	return files
}

// probeDirty finds the smallest stream position that was written but not fsynced (in-memory
// file system only): gofs corrupts one byte of every dirty interval; the changed bytes are
// located by comparison and restored.
func (w *verifC18World) probeDirty(before []verifC18File) int64 {
	if w.mem == nil {
		return -1
	}
	w.mem.CorruptDirtyPages(w.prnd)
	after := w.snapshot()
	min := int64(-1)
	for i := range before {
		if i >= len(after) || after[i].name != before[i].name || bytes.Equal(before[i].data, after[i].data) {
			continue
		}
		path := filepath.Join(w.dir, before[i].name)
		for o := range before[i].data {
			if before[i].data[o] != after[i].data[o] {
				if p := before[i].pos + int64(o); min < 0 || p < min {
					min = p
				}
				for j := 0; j < 255; j++ { // buff[o]++ 255 more times restores the byte
					_ = w.mem.CorruptFile(path, int64(o))
				}
			}
		}
	}
	return min
}

func (w *verifC18World) onCommit(pos int64, meta []byte, safe int64, src string) {
	files := w.snapshot()
	stream := verifC18Stream(files)
	metaok := false
	if stream != nil && pos >= 0 && pos <= int64(len(stream)) {
		var si seekInfo
		if _, err := si.ReadTL1Boxed(meta); err == nil {
			metaok = si.CommitPosition == pos && si.CommitCrc == crc32.ChecksumIEEE(stream[:pos])
		}
	}
	dirty := w.probeDirty(files)
	if src == "r" {
		w.rcomm[pos] = true
	}
	if metaok {
		w.metas[pos] = meta
	}
	w.tr.Emit("Commit", "pos", pos, "src", src, "dirty", dirty, "metaok", metaok, "safe", safe, "size", len(stream))
}

// start runs Run(from, meta) in a goroutine and waits until the replay is over and the
// engine became the writing master.
func (w *verifC18World) start(from int64, meta []byte) bool {
	w.eng = verifC18NewEngine(from, w.rnd.Intn(2) == 0)
	w.eng.onCommit = w.onCommit
	bl, err := NewFsBinlog(nil, w.opts)
	if err != nil {
		w.t.Fatal(err)
	}
	w.bl = bl
	w.done = make(chan error, 1)
	eng := w.eng
	go func() {
		defer func() {
			if r := recover(); r != nil { // a panic inside Run is a failed Run, not a dead driver
				w.done <- fmt.Errorf("panic in Run: %v", r)
			}
		}()
		w.done <- bl.Run(from, meta, nil, eng)
	}()
	select {
	case <-w.eng.ready:
		return true
	case err := <-w.done:
		w.broken = fmt.Sprintf("Run(%d) ended before becoming master: %v", from, err)
		w.done <- err
		return false
	}
}

func (w *verifC18World) stop() {
	w.bl.RequestShutdown()
	err := <-w.done
	es := ""
	if err != nil {
		es = err.Error()
	}
	if w.eng.reverts > 0 {
		es += fmt.Sprintf(" [%d reverts]", w.eng.reverts)
	}
	w.tr.Emit("Stop", "err", es)
}

type verifC18Op struct {
	a    string
	n    int
	asap bool
	from int64 // Restart: resume position, -1: pick a random possible commit position
	at   int64 // Tear: stream position of the cut, -1: random
	meta bool
	wait bool // Sync even if the last append was not ASAP (waits for the flush timer)
}

func (w *verifC18World) metaFor(stream []byte, p int64) []byte {
	real := w.rnd.Intn(2) == 0
	if m, ok := w.metas[p]; ok && real {
		return m // the one the binlog really handed out
	}
	return prepareSnapMeta(p, crc32.ChecksumIEEE(stream[:p]), 0)
}

func (w *verifC18World) resumePoints() []int64 {
	var ps []int64
	seen := map[int64]bool{0: true}
	ps = append(ps, 0)
	for _, m := range []map[int64]bool{w.bounds, w.rcomm} {
		for p := range m {
			if !seen[p] {
				seen[p] = true
				ps = append(ps, p)
			}
		}
	}
	sort.Slice(ps, func(i, j int) bool { return ps[i] < ps[j] })
	return ps
}

// run executes one history.  Returns false if the real code refused to go on (reported as
// an observation the specification rejects).
func (w *verifC18World) run(ops []verifC18Op) {
	running := false
	var files []verifC18File
	var recs []verifC18Rec
	layout := func() bool {
		files = w.snapshot()
		var err error
		recs, err = verifC18Parse(files)
		if err != nil {
			// the files are not a sequence of records: show first what a replay of them delivers
			c := w.newCopy(files, false)
			w.readCopy(c, recs, verifC18Dmg{t: "none"}, 0, false)
			c.close()
			recs = append(recs, verifC18Rec{K: "unparsable: " + err.Error()})
		}
		w.tr.Emit("Layout", "recs", recs)
		return err == nil
	}
	for _, op := range ops {
		switch op.a {
		case "Open":
			if _, err := CreateEmptyFsBinlog(w.opts); err != nil {
				w.t.Fatalf("verif c18: CreateEmptyFsBinlog: %v", err)
			}
			w.tr.Emit("Open", "chunk", int64(w.opts.MaxChunkSize), "os", w.mem == nil)
			if !w.start(0, nil) {
				w.tr.Emit("Stop", "err", w.broken)
				return
			}
			running = true
			w.off = w.eng.off
			w.bounds[w.off] = true
		case "Append":
			if !running {
				continue
			}
			p := verifC18Payload(w.nextID, op.n)
			w.nextID++
			w.tr.Emit("AppendCall", "len", op.n, "asap", op.asap)
			var ret int64
			var err error
			if op.asap {
				ret, err = w.bl.AppendASAP(w.off, p)
			} else {
				ret, err = w.bl.Append(w.off, p)
			}
			if err != nil {
				ret = -1
				w.res.Note("Append failed: %v", err)
			}
			w.tr.Emit("AppendRet", "ret", ret)
			w.off = ret
			w.bounds[ret] = true
		case "Sync":
			if running {
				w.eng.waitCommit(w.off)
			}
		case "Stop":
			if running {
				w.stop()
				running = false
				if !layout() {
					return
				}
			}
		case "Restart":
			if running {
				w.stop()
				running = false
				if !layout() {
					return
				}
			}
			from := op.from
			if from < 0 {
				ps := w.resumePoints()
				from = ps[w.rnd.Intn(len(ps))]
			}
			stream := verifC18Stream(files)
			var meta []byte
			if op.meta {
				meta = w.metaFor(stream, from)
			}
			w.tr.Emit("Restart", "from", from, "meta", op.meta)
			ok := w.start(from, meta)
			if !ok {
				// Run() failed: legitimate only on a torn tail (the writer refuses to start)
				<-w.done
				w.tr.Emit("Refused", "msg", w.broken)
				continue
			}
			// a writer that came up on a torn tail must have cut it off
			w.tr.Emit("Started", "cut", int64(len(verifC18Stream(w.snapshot()))) == w.eng.off)
			// what the replay of this run delivered
			w.emitRead(recs, stream, verifC18Dmg{t: "none"}, from, op.meta, w.eng.snapshotCalls(), nil, w.eng.off, false, "")
			running = true
			w.off = w.eng.off
			w.bounds[w.off] = true
		case "Tear":
			// a crash inside a write: cut the last file inside (or at the start of) one of its records
			if running || len(recs) == 0 || len(files) == 0 {
				continue
			}
			lf := files[len(files)-1]
			first := sort.Search(len(recs), func(i int) bool { return recs[i].F >= len(files) }) + 1 // after the file header
			if lf.pos == 0 {
				first++ // LevStart and tag
			}
			if first >= len(recs) {
				continue
			}
			k := op.at
			if k < 0 {
				r := recs[first+w.rnd.Intn(len(recs)-first)]
				k = r.Pos + []int64{0, 1, 12, r.Len - 1, w.rnd.Int63n(r.Len)}[w.rnd.Intn(5)]%r.Len
			}
			j := sort.Search(len(recs), func(i int) bool { return recs[i].Pos+recs[i].Len > k })
			if j < first || j >= len(recs) || k < recs[j].Pos {
				continue
			}
			if err := w.fs.Truncate(filepath.Join(w.dir, lf.name), k-lf.pos); err != nil {
				w.t.Fatalf("verif c18: %v", err)
			}
			end := recs[j].Pos
			for _, m := range []map[int64]bool{w.bounds, w.rcomm} {
				for p := range m {
					if p > end {
						delete(m, p)
					}
				}
			}
			for p := range w.metas {
				if p > end {
					delete(w.metas, p)
				}
			}
			w.bounds[end] = true
			w.tr.Emit("Tear", "at", k)
			if !layout() {
				return
			}
		}
	}
	if running {
		w.stop()
		if !layout() {
			return
		}
	}
	w.audit(files, recs)
}

// emitRead maps the recorded callbacks to the layout and emits the observation.
// flipAt < 0: no flipped byte.  stream is the (damaged) stream the reader saw.
func (w *verifC18World) emitRead(recs []verifC18Rec, stream []byte, d verifC18Dmg, from int64, meta bool, calls []verifC18Call, err error, end int64, failed bool, rc string) {
	flipAt := int64(-1)
	if d.t == "flip" {
		flipAt = d.at
	}
	errc := "none"
	if err != nil || failed {
		errc = "other"
		if err != nil && strings.Contains(strings.ToLower(err.Error()), "crc") {
			errc = "crc"
		}
	}
	shape := "ok"
	if rc != "" {
		shape = rc
	}
	lo := 0
	if len(calls) > 0 && shape == "ok" {
		lo = sort.Search(len(recs), func(i int) bool { return recs[i].Pos >= calls[0].off })
		if lo >= len(recs) || recs[lo].Pos != calls[0].off {
			shape = "not at a record"
		}
	}
	dmgd := 0
	if shape == "ok" {
		for j, c := range calls {
			if lo+j >= len(recs) {
				shape = "beyond the layout"
				break
			}
			r := recs[lo+j]
			isEv := r.K == "ev"
			if c.off != r.Pos || c.n != r.Len || (c.kind == 'A') != isEv {
				shape = fmt.Sprintf("call %d (%c off=%d n=%d) is not record %s pos=%d len=%d", j, c.kind, c.off, c.n, r.K, r.Pos, r.Len)
				break
			}
			if isEv {
				if int64(c.id) != r.ID && !(flipAt >= r.Pos+8 && flipAt < r.Pos+12) {
					shape = fmt.Sprintf("event at %d delivered with id %d, written %d", r.Pos, c.id, r.ID)
					break
				}
				if c.off+int64(c.raw) > int64(len(stream)) || crc32.ChecksumIEEE(stream[c.off:c.off+int64(c.raw)]) != c.sum {
					shape = fmt.Sprintf("event at %d delivered with bytes that are not on disk", r.Pos)
					break
				}
				if flipAt >= r.Pos && flipAt < r.Pos+r.Len {
					dmgd = lo + j + 1
				}
			}
		}
	}
	ck := []int{}
	for j, c := range calls {
		// a checksum record was passed if the reader skipped it and went on; a Skip directly
		// followed by an error is the reader rejecting the engine's answer (its own position
		// differs from the engine's), whatever record it believed to be skipping
		if c.kind != 'S' || (j == len(calls)-1 && errc != "none") {
			continue
		}
		i := sort.Search(len(recs), func(i int) bool { return recs[i].Pos >= c.off })
		if i < len(recs) && recs[i].Pos == c.off && recs[i].Len == c.n && (recs[i].K == "crc" || recs[i].K == "rotTo") {
			ck = append(ck, i+1)
		}
	}
	es := ""
	if err != nil {
		es = err.Error()
	}
	w.tr.Emit("Read", "dt", d.t, "at", d.at, "from", from, "meta", meta, "err", errc, "lo", lo+1, "cnt", len(calls), "end", end,
		"shape", shape, "dmgd", dmgd, "ck", ck, "msg", es)
	w.res.Seen(fmt.Sprintf("read/%s/%s", errc, shape == "ok"))
}

var verifC18AllWorlds int // worlds audited at every offset so far

type verifC18Dmg struct {
	t    string // none, trunc, flip
	at   int64
	mask byte
}

// readCopy runs ReadAll(from, meta) on a damaged copy of the files and emits Dmg + Read.
// verifC18Copy is a pristine copy of the audited file set in a file system of its own; damage
// is applied in place and undone after the read.
type verifC18Copy struct {
	fs     gofs.FS
	mem    *gofs.InMemoryFS
	dir    string
	files  []verifC18File
	stream []byte
}

func (w *verifC18World) newCopy(files []verifC18File, useOS bool) *verifC18Copy {
	c := &verifC18Copy{files: files, stream: verifC18Stream(files), dir: "/a"}
	if useOS {
		c.fs = gofs.OsFs()
		c.dir = verifkit.TmpDir(w.t, "c18a")
	} else {
		c.mem = gofs.NewMemoryFs()
		c.fs = c.mem
		_ = c.mem.MkdirAll(c.dir, 0o777)
	}
	for _, f := range files {
		c.put(w.t, f, f.data)
	}
	return c
}

func (c *verifC18Copy) put(t testing.TB, f verifC18File, data []byte) {
	if err := c.fs.WriteFile(filepath.Join(c.dir, f.name), data, 0o640); err != nil {
		t.Fatalf("verif c18: %v", err)
	}
}

func (c *verifC18Copy) poke(t testing.TB, at int64, b byte) {
	for _, f := range c.files {
		if at >= f.pos && at < f.pos+int64(len(f.data)) {
			fp, err := c.fs.OpenFile(filepath.Join(c.dir, f.name), os.O_WRONLY, 0o640)
			if err == nil {
				_, err = fp.WriteAt([]byte{b}, at-f.pos)
				_ = fp.Close()
			}
			if err != nil {
				t.Fatalf("verif c18: %v", err)
			}
		}
	}
}

func (c *verifC18Copy) close() {
	if c.mem != nil {
		c.mem.Release()
	} else {
		_ = os.RemoveAll(c.dir)
	}
}

// readCopy runs ReadAll(from, meta) on the copy damaged by d and emits the observation.
func (w *verifC18World) readCopy(c *verifC18Copy, recs []verifC18Rec, d verifC18Dmg, from int64, meta bool) {
	orig := c.stream
	stream := orig
	fs, dir := c.fs, c.dir
	switch d.t {
	case "flip":
		old := orig[d.at]
		c.poke(w.t, d.at, old^d.mask)
		orig[d.at] = old ^ d.mask
		defer func() {
			orig[d.at] = old
			c.poke(w.t, d.at, old)
		}()
	case "trunc":
		stream = orig[:d.at]
		for _, f := range c.files {
			f := f
			if f.pos >= d.at {
				if err := fs.Remove(filepath.Join(dir, f.name)); err != nil {
					w.t.Fatalf("verif c18: %v", err)
				}
				defer c.put(w.t, f, f.data)
			} else if f.pos+int64(len(f.data)) > d.at {
				c.put(w.t, f, f.data[:d.at-f.pos])
				defer c.put(w.t, f, f.data)
			}
		}
	}
	var mb []byte
	if meta {
		if from <= int64(len(orig)) {
			crc := crc32.ChecksumIEEE(orig[:from])
			if d.t == "flip" && d.at < from { // the meta was taken when the byte was still intact
				orig[d.at] ^= d.mask
				crc = crc32.ChecksumIEEE(orig[:from])
				orig[d.at] ^= d.mask
			}
			mb = prepareSnapMeta(from, crc, 0)
		} else {
			mb = prepareSnapMeta(from, 0, 0)
		}
		real := w.rnd.Intn(2) == 0
		if m, ok := w.metas[from]; ok && real {
			mb = m
		}
	}
	eng := verifC18NewEngine(from, w.rnd.Intn(2) == 0)
	bl, err := NewFsBinlog(nil, Options{PrefixPath: dir + "/" + w.base, Magic: verifC18Schema, ReadAndExit: true, Fs: fs})
	if err != nil {
		w.t.Fatal(err)
	}
	var pi PositionInfo
	var rerr error
	func() {
		defer func() {
			if r := recover(); r != nil {
				rerr = fmt.Errorf("panic: %v", r)
			}
		}()
		pi, rerr = bl.ReadAll(from, mb, eng)
	}()
	// commits issued by the reader: monotone, never beyond the bytes that exist
	rc := ""
	last := int64(-1)
	for _, c := range eng.commits {
		if c.pos < last || c.pos > int64(len(stream)) {
			rc = fmt.Sprintf("reader commit %d after %d with %d bytes on disk", c.pos, last, len(stream))
		}
		last = c.pos
	}
	w.emitRead(recs, stream, d, from, meta, eng.calls, rerr, pi.Offset, false, rc)
	w.res.Steps++
}

func (w *verifC18World) audit(files []verifC18File, recs []verifC18Rec) {
	stream := verifC18Stream(files)
	if stream == nil || len(recs) == 0 {
		return
	}
	total := recs[len(recs)-1].Pos + recs[len(recs)-1].Len // a torn tail may follow
	rp := w.resumePoints()
	nT := verifkit.EnvInt("VERIF_C18_TRUNC", 30)
	nF := verifkit.EnvInt("VERIF_C18_FLIP", 50)
	nR := verifkit.EnvInt("VERIF_C18_READ", 10)
	smallAll := verifkit.EnvInt("VERIF_C18_ALLBELOW", 0) // every offset of logs up to this size
	osEvery := 0
	if w.mem == nil {
		osEvery = 1
	}
	pickP := func(k int64) (int64, bool) {
		switch w.rnd.Intn(4) {
		case 0:
			return 0, false
		case 1: // a resume point at or before k, if any
			i := sort.Search(len(rp), func(i int) bool { return rp[i] > k })
			return rp[w.rnd.Intn(i)], w.rnd.Intn(2) == 0
		}
		return rp[w.rnd.Intn(len(rp))], w.rnd.Intn(2) == 0
	}
	cm := w.newCopy(files, false)
	defer cm.close()
	cpy := func(os bool) *verifC18Copy { return cm }
	if w.mem == nil {
		co := w.newCopy(files, true)
		defer co.close()
		cpy = func(os bool) *verifC18Copy {
			if os {
				return co
			}
			return cm
		}
	}
	// 1. undamaged: every resume point (sampled when there are many), with and without meta
	idx := w.rnd.Perm(len(rp))
	if len(idx) > nR {
		idx = append(idx[:nR-2], 0, len(rp)-1)
	}
	for _, i := range idx {
		for _, m := range []bool{false, true} {
			w.readCopy(cpy(osEvery > 0), recs, verifC18Dmg{t: "none"}, rp[i], m)
		}
	}
	all := total <= int64(smallAll) && verifC18AllWorlds < verifkit.EnvInt("VERIF_C18_ALLWORLDS", 0)
	if all {
		verifC18AllWorlds++
	}
	// 2. truncation
	var ks []int64
	if all {
		for k := int64(0); k <= total; k++ {
			ks = append(ks, k)
		}
	} else {
		set := map[int64]bool{}
		for _, r := range recs {
			for d := int64(-3); d <= 3; d++ {
				if k := r.Pos + d; k >= 0 && k <= total {
					set[k] = true
				}
			}
			if r.Len > 8 {
				set[r.Pos+1+w.rnd.Int63n(r.Len-1)] = true
			}
		}
		for d := int64(0); d <= 3; d++ {
			set[total-d] = true
		}
		for k := range set {
			ks = append(ks, k)
		}
		sort.Slice(ks, func(i, j int) bool { return ks[i] < ks[j] })
		w.rnd.Shuffle(len(ks), func(i, j int) { ks[i], ks[j] = ks[j], ks[i] })
		if len(ks) > nT {
			ks = ks[:nT]
		}
	}
	for i, k := range ks {
		p, m := int64(0), false
		if i%2 == 1 {
			p, m = pickP(k)
		}
		w.readCopy(cpy(osEvery > 0 && i%4 == 0), recs, verifC18Dmg{t: "trunc", at: k}, p, m)
	}
	// 3. bit flips: every field of every record
	ks = ks[:0]
	if all {
		for k := int64(0); k < total; k++ {
			ks = append(ks, k)
		}
	} else {
		set := map[int64]bool{}
		for _, r := range recs {
			for _, b := range []int64{0, 3, 4, 7, 8, 11, 12, 15, 16, 19, 20, 27, 28, 35, r.Len - 1, w.rnd.Int63n(r.Len), w.rnd.Int63n(r.Len)} {
				if b >= 0 && b < r.Len {
					set[r.Pos+b] = true
				}
			}
		}
		for k := range set {
			ks = append(ks, k)
		}
		sort.Slice(ks, func(i, j int) bool { return ks[i] < ks[j] })
		w.rnd.Shuffle(len(ks), func(i, j int) { ks[i], ks[j] = ks[j], ks[i] })
		if len(ks) > nF {
			ks = ks[:nF]
		}
	}
	for i, k := range ks {
		mask := byte(1) << uint(w.rnd.Intn(8))
		if w.rnd.Intn(4) == 0 {
			mask = byte(1 + w.rnd.Intn(255))
		}
		p, m := int64(0), false
		if i%2 == 1 || all && w.rnd.Intn(2) == 0 {
			p, m = pickP(k)
		}
		w.readCopy(cpy(osEvery > 0 && i%4 == 0), recs, verifC18Dmg{t: "flip", at: k, mask: mask}, p, m)
	}
}

// ---------------------------------------------------------------------------- histories

func verifC18OpsOf(b []verifkit.Step) []verifC18Op {
	var ops []verifC18Op
	for _, s := range b {
		ops = append(ops, verifC18Op{a: s.Act(), n: s.Int("n"), asap: s.Bool("asap"), from: int64(s.Int("from")), meta: s.Bool("meta"), at: int64(s.Int("at"))})
	}
	return ops
}

func verifC18RandomOps(rnd *rand.Rand, long bool) (uint32, int, []verifC18Op) {
	chunks := []uint32{64, 100, 150, 256, 1000, 5000, 40000, 70000, 200000, 1 << 30}
	chunk := chunks[rnd.Intn(len(chunks))]
	hard := 0
	if rnd.Intn(4) == 0 {
		hard = 1 + rnd.Intn(5000) // back pressure: Append blocks until the writer took the buffer
	}
	n := 4 + rnd.Intn(20)
	if long {
		n = 20 + rnd.Intn(60)
	}
	big := rnd.Intn(3) == 0 // histories that cross the crc32 interval
	ops := []verifC18Op{{a: "Open"}}
	waits := 0
	for i := 0; i < n; i++ {
		l := 12 + rnd.Intn(60)
		switch {
		case big && rnd.Intn(3) == 0:
			l = 20000 + rnd.Intn(50000)
		case rnd.Intn(12) == 0:
			l = 500 + rnd.Intn(4000)
		}
		ops = append(ops, verifC18Op{a: "Append", n: l, asap: rnd.Intn(3) == 0})
		switch r := rnd.Intn(20); {
		case r < 3:
			if ops[len(ops)-1].asap {
				ops = append(ops, verifC18Op{a: "Sync"})
			} else if waits == 0 && rnd.Intn(4) == 0 {
				waits++
				ops = append(ops, verifC18Op{a: "Sync", wait: true}) // the 500 ms flush timer path
			}
		case r < 5:
			ops = append(ops, verifC18Op{a: "Restart", from: -1, meta: rnd.Intn(2) == 0})
		case r < 7:
			ops = append(ops, verifC18Op{a: "Stop"}, verifC18Op{a: "Tear", at: -1},
				verifC18Op{a: "Restart", from: -1, meta: rnd.Intn(2) == 0})
		}
	}
	ops = append(ops, verifC18Op{a: "Stop"})
	return chunk, hard, ops
}

func TestVerifC18(t *testing.T) {
	verifkit.Gate(t)
	res := verifkit.NewResult()
	defer res.Write(t)
	tr := verifkit.NewTrace()
	rnd := verifkit.Rand(18)
	osEvery := verifkit.EnvInt("VERIF_C18_OSEVERY", 10)
	canOS := !strings.Contains(os.Getenv("VERIF_TMP"), ".")
	nworld := 0
	runWorld := func(chunk uint32, hard int, ops []verifC18Op) {
		nworld++
		useOS := canOS && osEvery > 0 && nworld%osEvery == 0
		w := verifC18NewWorld(t, tr, res, rnd, useOS, chunk, hard)
		defer w.close()
		w.run(ops)
		res.Replayed++
		res.Steps += len(ops)
	}
	if os.Getenv("VERIF_IN") != "" {
		for _, b := range verifkit.LoadBehaviours(t) {
			if len(b) == 0 || b[0].Act() != "Open" {
				t.Fatalf("verif c18: behaviour does not start with Open: %v", b)
			}
			runWorld(uint32(b[0].Int("chunk")), 0, verifC18OpsOf(b))
		}
	}
	res.Counters["from_tlc"] = res.Replayed
	nrand := verifkit.EnvInt("VERIF_NRANDOM", 0)
	for i := 0; i < nrand; i++ {
		chunk, hard, ops := verifC18RandomOps(rnd, i%5 == 4)
		runWorld(chunk, hard, ops)
	}
	out := filepath.Join(verifkit.TmpDir(t, "c18-"), "trace.ndjson")
	if err := tr.WriteFile(out); err != nil {
		t.Fatal(err)
	}
	res.Files = append(res.Files, out)
	res.Consts["writeCrcEveryBytes"] = writeCrcEveryBytes
	res.Consts["levCrcSize"] = levCrcSize
	res.Consts["levRotateSize"] = levRotateSize
	res.Consts["flushIntervalMs"] = int64(flushInterval / time.Millisecond)
	evs := tr.Events()
	res.Counters["events"] = len(evs)
	for _, e := range evs {
		res.Counters["ev_"+fmt.Sprint(e["ev"])]++
	}
	for i := 0; i < len(evs) && i < 8; i++ {
		res.Sample(evs[i])
	}
	_ = errors.New
}
