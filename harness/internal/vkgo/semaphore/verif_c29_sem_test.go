package semaphore

// C29 conformance driver for the weighted semaphore (injected by /verif/tools via -overlay).
// Same scheme as internal/util/queue/verif_c29_queue_test.go: hooks under s.mu produce ndjson
// events (decisions + white-box snapshot) validated by specs/WSemTrace.tla against the
// abstract layer of specs/WSem.tla.
//
//   S->I: behaviours exported by TLC from WSem are executed step by step (one model action =
//         one real call / goroutine transition, the cancellation race made deterministic by
//         holding the goroutine in the "ctxdone" hook); size, cur, the queue and the admitted
//         waiters are compared with the model after every step.
//   I->S: seeded random concurrent runs; only the trace is judged.

import (
	"container/list"
	"context"
	"fmt"
	"math/rand"
	"path/filepath"
	"runtime"
	"sort"
	"sync"
	"sync/atomic"
	"testing"
	"time"

	"github.com/VKCOM/statshouse/internal/verifkit"
)

type verifC29Call struct {
	id       int
	n        int64
	elem     *list.Element
	acq      chan verifC29Acq
	reached  chan struct{}
	gate     chan struct{}
	ret      chan error
	cancel   context.CancelFunc
	parked   atomic.Bool
	admitted atomic.Bool // notifyWaiters closed its ready channel
	gateMu   sync.Once
	taken    bool
}

func (c *verifC29Call) wait(what string) error {
	err := verifC29Wait(c.ret, what)
	c.taken = true
	return err
}

func (c *verifC29Call) openGate() {
	if c.gate != nil {
		c.gateMu.Do(func() { close(c.gate) })
	}
}

type verifC29Acq struct {
	kind string
	gs   []int
}

type verifC29Key struct{}

type verifC29Rec struct {
	tr      *verifkit.Trace
	s       *Weighted
	ids     map[*list.Element]*verifC29Call
	pending []int
	lastGs  []int
	tryMu   sync.Mutex
	tryID   int
	lastTry bool
	off     atomic.Bool
}

var verifC29Cur atomic.Pointer[verifC29Rec]

func verifC29Install() {
	verifEmit = func(ev string, a ...any) {
		r := verifC29Cur.Load()
		if r == nil || len(a) == 0 || a[0] != any(r.s) {
			return
		}
		r.hook(ev, a[1:])
	}
}

func verifC29CallOf(ctx context.Context) *verifC29Call {
	c, _ := ctx.Value(verifC29Key{}).(*verifC29Call)
	return c
}

// snapshot; the caller holds s.mu.
func (r *verifC29Rec) snap() (int64, int64, []int) {
	w := []int{}
	for e := r.s.waiters.Front(); e != nil; e = e.Next() {
		if c := r.ids[e]; c != nil {
			w = append(w, c.id)
		} else {
			w = append(w, -1)
		}
	}
	return r.s.size, r.s.cur, w
}

func (r *verifC29Rec) takeGs() []int {
	gs := r.pending
	if gs == nil {
		gs = []int{}
	}
	r.pending = nil
	r.lastGs = gs
	return gs
}

func (r *verifC29Rec) emit(ev string, kv ...any) {
	if r.off.Load() {
		return
	}
	size, cur, w := r.snap()
	kv = append(kv, "size", size, "cur", cur, "waiting", w)
	r.tr.Emit(ev, kv...)
}

// hook: all events but "ctxdone" arrive with s.mu held.
func (r *verifC29Rec) hook(ev string, a []any) {
	switch ev {
	case "ctxdone":
		c := verifC29CallOf(a[0].(context.Context))
		if c == nil {
			return
		}
		close(c.reached)
		if c.gate != nil {
			<-c.gate
		}
	case "notify":
		e, _ := a[0].(*list.Element)
		if c := r.ids[e]; c != nil {
			c.admitted.Store(true)
			r.pending = append(r.pending, c.id)
		} else {
			r.pending = append(r.pending, -1)
		}
	case "acquire":
		c := verifC29CallOf(a[0].(context.Context))
		if c == nil {
			return
		}
		kind := a[3].(string)
		if kind == "wait" {
			c.elem = a[2].(*list.Element)
			r.ids[c.elem] = c
			c.parked.Store(true)
		}
		gs := r.takeGs()
		r.emit("Acq", "id", c.id, "wt", a[1], "kind", kind, "gs", gs)
		c.acq <- verifC29Acq{kind: kind, gs: gs}
	case "cancel":
		c := verifC29CallOf(a[0].(context.Context))
		if c == nil {
			return
		}
		gs := r.takeGs()
		r.emit("Cancel", "id", c.id, "closed", a[2].(bool), "gs", gs)
	case "try":
		r.takeGs()
		r.lastTry = a[1].(bool)
		r.emit("Try", "id", r.tryID, "wt", a[0], "ok", a[1].(bool))
	case "release":
		gs := r.takeGs()
		r.emit("Release", "wt", a[0], "gs", gs)
	case "setsize":
		gs := r.takeGs()
		r.emit("SetSize", "v", a[0], "gs", gs)
	case "force":
		r.takeGs()
		r.emit("Force", "wt", a[0])
	}
}

func verifC29NewRec(tr *verifkit.Trace, size int64) *verifC29Rec {
	r := &verifC29Rec{tr: tr, s: NewWeighted(size), ids: map[*list.Element]*verifC29Call{}}
	tr.Emit("Reset", "size", size)
	verifC29Cur.Store(r)
	return r
}

func (r *verifC29Rec) barrier() {
	r.s.mu.Lock()
	r.s.mu.Unlock() //nolint
}

func (r *verifC29Rec) start(parent context.Context, id int, n int64, gated bool) *verifC29Call {
	c := &verifC29Call{id: id, n: n, acq: make(chan verifC29Acq, 1), reached: make(chan struct{}), ret: make(chan error, 1)}
	if gated {
		c.gate = make(chan struct{})
	}
	ctx, cancel := context.WithCancel(context.WithValue(parent, verifC29Key{}, c))
	c.cancel = cancel
	go func() {
		err := r.s.Acquire(ctx, n)
		r.barrier() // the critical section that admitted this waiter has recorded its event
		if !r.off.Load() {
			r.tr.Emit("Ret", "id", id, "isnil", err == nil)
		}
		c.ret <- err
	}()
	return c
}

func (r *verifC29Rec) try(id int, n int64) bool {
	r.tryMu.Lock()
	defer r.tryMu.Unlock()
	r.s.mu.Lock()
	r.tryID = id
	r.s.mu.Unlock()
	return r.s.TryAcquire(n)
}

const verifC29Patience = 120 * time.Second

type verifC29Stuck struct{ what string }

func verifC29Wait[T any](ch <-chan T, what string) T {
	select {
	case v := <-ch:
		return v
	case <-time.After(verifC29Patience):
		panic(verifC29Stuck{what})
	}
}

func verifC29Ints(v any) []int {
	out := []int{}
	l, _ := v.([]any)
	for _, x := range l {
		if f, ok := x.(float64); ok {
			out = append(out, int(f))
		}
	}
	return out
}

func verifC29Sorted(a []int) []int {
	b := append([]int{}, a...)
	sort.Ints(b)
	return b
}

// verifC29Replay executes one behaviour of WSem on a fresh semaphore.
func verifC29Replay(tr *verifkit.Trace, b []verifkit.Step, res *verifkit.Result) (mm *verifkit.Mismatch, steps int) {
	if len(b) == 0 || b[0].Act() != "Init" {
		return nil, 0
	}
	r := verifC29NewRec(tr, int64(b[0].Int("size")))
	calls := map[int]*verifC29Call{}
	bg := context.Background()
	defer func() {
		r.off.Store(true)
		for _, c := range calls {
			c.cancel()
			c.openGate()
		}
		for _, c := range calls {
			if !c.taken {
				c.wait("cleanup")
			}
		}
		verifC29Cur.Store(nil)
	}()
	bad := func(i int, want, got any, note string) *verifkit.Mismatch {
		return &verifkit.Mismatch{Beh: b, Step: i, Want: want, Got: got, Sig: "sem-s2i", Note: note}
	}
	lastGs := func() []int {
		r.s.mu.Lock()
		defer r.s.mu.Unlock()
		return r.lastGs
	}
	for idx := 1; idx < len(b); idx++ {
		st := b[idx]
		steps++
		var gotGs []int
		haveGs := false
		id := st.Int("id")
		switch st.Act() {
		case "Acq":
			c := r.start(bg, id, int64(st.Int("n")), true)
			calls[id] = c
			info := verifC29Wait(c.acq, "acquire hook")
			if info.kind != st.Str("kind") {
				return bad(idx, st.Str("kind"), info.kind, "fast / doomed / queued decision"), steps
			}
			if info.kind == "fast" {
				if err := c.wait("fast return"); err != nil {
					return bad(idx, "nil", err.Error(), "fast path returned an error"), steps
				}
			}
		case "Try":
			ok := r.try(id, int64(st.Int("n")))
			if ok != st.Bool("ok") {
				return bad(idx, st.Bool("ok"), ok, "TryAcquire result"), steps
			}
		case "Wake":
			c := calls[id]
			if !c.admitted.Load() {
				return bad(idx, "admitted", "not notified", "model: waiter was admitted"), steps
			}
			if err := c.wait("wake return"); err != nil {
				return bad(idx, "nil", err.Error(), "admitted waiter returned an error"), steps
			}
		case "CancelWake":
			c := calls[id]
			switch st.Str("was") {
			case "wait":
				if !c.parked.Load() || c.admitted.Load() {
					return bad(idx, "queued", "admitted or not queued", "model: waiter waits"), steps
				}
				c.cancel()
				verifC29Wait(c.reached, "ctx.Done branch")
			case "doomed":
				c.cancel()
				if err := c.wait("doomed return"); err == nil {
					return bad(idx, "error", "nil", "a request larger than the size was admitted"), steps
				}
			default:
				c.cancel()
			}
		case "CancelCS":
			c := calls[id]
			c.openGate()
			err := c.wait("cancel return")
			if (err == nil) != st.Bool("isnil") {
				return bad(idx, map[string]any{"isnil": st.Bool("isnil")}, map[string]any{"isnil": err == nil}, "outcome of a cancelled Acquire"), steps
			}
			gotGs, haveGs = lastGs(), true
		case "Release":
			tr.Emit("RelIntent", "id", id)
			r.s.Release(int64(st.Int("n")))
			gotGs, haveGs = lastGs(), true
		case "Unforce":
			tr.Emit("UnforceIntent", "wt", st.Int("n"))
			r.s.Release(int64(st.Int("n")))
			gotGs, haveGs = lastGs(), true
		case "SetSize":
			r.s.SetSize(int64(st.Int("n")))
			gotGs, haveGs = lastGs(), true
		case "Force":
			r.s.ForceAcquire(int64(st.Int("n")))
		default:
			panic("unknown action " + st.Act())
		}
		post := st.Post()
		ocur, osize := r.s.Observe()
		r.s.mu.Lock()
		size, cur, w := r.snap()
		r.s.mu.Unlock()
		got := map[string]any{"size": size, "cur": cur, "observe": []int64{ocur, osize}, "waiting": verifC29Sorted(w)}
		wsz, wcur := int64(post["size"].(float64)), int64(post["cur"].(float64))
		wwl := verifC29Ints(post["wl"])
		want := map[string]any{"size": wsz, "cur": wcur, "observe": []int64{wcur, wsz}, "waiting": verifC29Sorted(wwl)}
		if haveGs && !(st.Act() == "CancelCS" && st.Bool("isnil")) {
			got["admitted"] = gotGs
			want["admitted"] = verifC29Ints(st["gs"])
		}
		if verifkit.Canon(got) != verifkit.Canon(want) {
			return bad(idx, want, got, "state after "+st.Act()), steps
		}
		if verifkit.Canon(w) != verifkit.Canon(wwl) {
			res.Count("sem_queue_order_differs_from_mechanism", 1)
		}
	}
	return nil, steps
}

// verifC29Random: free goroutines against one semaphore; only the trace is judged.
func verifC29Random(tr *verifkit.Trace, rnd *rand.Rand, res *verifkit.Result) (timedOut bool) {
	size0 := int64(1 + rnd.Intn(5))
	workers := 2 + rnd.Intn(7)
	per := 1 + rnd.Intn(4)
	nset := rnd.Intn(4)
	nforce := rnd.Intn(3)
	maxw := 1 + rnd.Intn(4)
	r := verifC29NewRec(tr, size0)
	defer verifC29Cur.Store(nil)
	parent, stop := context.WithTimeout(context.Background(), 20*time.Second)
	defer stop()
	var nextID atomic.Int64
	var mu sync.Mutex
	var cancellable []*verifC29Call
	var wg sync.WaitGroup
	done := make(chan struct{})
	for w := 0; w < workers; w++ {
		wr := rand.New(rand.NewSource(rnd.Int63()))
		wg.Add(1)
		go func() {
			defer wg.Done()
			for k := 0; k < per; k++ {
				id := int(nextID.Add(1))
				n := int64(1 + wr.Intn(maxw))
				hold := func() {
					for g := wr.Intn(4); g > 0; g-- {
						runtime.Gosched()
					}
					tr.Emit("RelIntent", "id", id)
					r.s.Release(n)
				}
				if wr.Intn(5) == 0 {
					if r.try(id, n) {
						hold()
					}
					continue
				}
				mode := wr.Intn(5)
				c := r.start(parent, id, n, false)
				switch mode {
				case 0:
					c.cancel()
				case 1, 2, 3: // oversize requests only end through their context
					mu.Lock()
					cancellable = append(cancellable, c)
					mu.Unlock()
				default:
					mu.Lock()
					cancellable = append(cancellable, c)
					mu.Unlock()
				}
				if err := <-c.ret; err == nil {
					hold()
				}
				c.cancel()
			}
		}()
	}
	cr := rand.New(rand.NewSource(rnd.Int63()))
	var wg2 sync.WaitGroup
	wg2.Add(2)
	var workersDone atomic.Bool
	go func() { // canceller: random cancellations while the workers run; afterwards nothing
		defer wg2.Done()
		for {
			select {
			case <-done:
				return
			default:
			}
			mu.Lock()
			if n := len(cancellable); n > 0 {
				k := cr.Intn(n)
				c := cancellable[k]
				if cr.Intn(8) == 0 || (c.parked.Load() && cr.Intn(3) == 0) {
					cancellable[k] = cancellable[n-1]
					cancellable = cancellable[:n-1]
					c.cancel()
				}
			}
			mu.Unlock()
			for n := cr.Intn(20); n >= 0; n-- {
				runtime.Gosched()
			}
		}
	}()
	ar := rand.New(rand.NewSource(rnd.Int63()))
	go func() { // size changes and forced acquisitions; the run ends with room for everybody
		defer wg2.Done()
		forced := int64(0)
		for k := 0; k < nset+nforce; k++ {
			for n := ar.Intn(200); n >= 0; n-- {
				runtime.Gosched()
			}
			if k < nset {
				r.s.SetSize(int64(ar.Intn(6)))
			} else {
				n := int64(1 + ar.Intn(3))
				r.s.ForceAcquire(n)
				forced += n
			}
		}
		for n := ar.Intn(50); n >= 0; n-- {
			runtime.Gosched()
		}
		if forced > 0 {
			tr.Emit("UnforceIntent", "wt", forced)
			r.s.Release(forced)
		}
		r.s.SetSize(int64(maxw + ar.Intn(3)))
		// requests that were doomed when they arrived, or cancelled ones, end through their context
		for !workersDone.Load() {
			mu.Lock()
			for _, c := range cancellable {
				if !c.parked.Load() {
					c.cancel()
				}
			}
			mu.Unlock()
			runtime.Gosched()
		}
	}()
	wg.Wait()
	workersDone.Store(true)
	close(done)
	wg2.Wait()
	timedOut = parent.Err() != nil
	res.Seen(fmt.Sprintf("rand size=%d workers=%d per=%d set=%d force=%d maxw=%d", size0, workers, per, nset, nforce, maxw))
	return timedOut
}

func TestVerifC29Sem(t *testing.T) {
	verifkit.Gate(t)
	res := verifkit.NewResult()
	defer res.Write(t)
	defer func() {
		if p := recover(); p != nil {
			if s, ok := p.(verifC29Stuck); ok {
				res.Count("stuck", 1)
				res.Note("driver stuck waiting for: %s", s.what)
				t.Errorf("stuck: %s", s.what)
				return
			}
			panic(p)
		}
	}()
	verifC29Install()
	tr := verifkit.NewTrace()
	for _, b := range verifkit.LoadBehaviours(t) {
		mm, steps := verifC29Replay(tr, b, res)
		res.Steps += steps
		if mm != nil {
			res.Mismatch(*mm)
			continue
		}
		res.Replayed++
	}
	res.Counters["s2i_behaviours"] = res.Replayed
	nrand := verifkit.EnvInt("VERIF_NRANDOM", 0)
	rnd := verifkit.Rand(2902)
	stalls := 0
	for n := 0; n < nrand && stalls < 3; n++ {
		if verifC29Random(tr, rnd, res) {
			stalls++
			res.Count("random_runs_cut_by_timeout", 1)
		}
		res.Count("random_runs", 1)
	}
	res.Steps = tr.Len()
	out := filepath.Join(verifkit.TmpDir(t, "c29s-"), "trace.ndjson")
	if err := tr.WriteFile(out); err != nil {
		t.Fatal(err)
	}
	res.Files = append(res.Files, out)
	evs := tr.Events()
	for i := 0; i < len(evs) && i < 4; i++ {
		res.Sample(evs[i])
	}
}
