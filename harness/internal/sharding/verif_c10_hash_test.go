package sharding

// C10 harness (white box): the tags-hash strategy's bucket function shardByMappedTags on the
// hash values of the Routing.tla grid (both sides of every bucket edge) and on seeded random
// hashes.  Every evaluation is written as one "hash" line for RoutingTrace.tla.

import (
	"path/filepath"
	"testing"

	"github.com/VKCOM/statshouse/internal/verifkit"
)

type verifC10HashLine struct {
	A   string `json:"a"`
	N   int    `json:"n"`
	Hi  int    `json:"hi"`
	Lo  int    `json:"lo"`
	Out int    `json:"out"`
}

func TestVerifC10Hash(t *testing.T) {
	verifkit.Gate(t)
	res := verifkit.NewResult()
	defer res.Write(t)
	rnd := verifkit.Rand(1010)
	var lines []verifC10HashLine
	eval := func(n, hi, lo int) {
		// the result must not depend on the low word of the hash
		h := uint64(hi)<<48 | uint64(lo)<<32 | uint64(rnd.Uint32())
		out := shardByMappedTags(h, uint32(n))
		lines = append(lines, verifC10HashLine{"hash", n, hi, lo, int(out)})
		res.Steps++
	}
	for _, b := range verifkit.LoadBehaviours(t) {
		for _, s := range b {
			if s.Act() != "hash" {
				continue
			}
			eval(s.Int("n"), s.Int("hi"), s.Int("lo"))
			res.Replayed++
		}
	}
	nrand := verifkit.EnvInt("VERIF_NRANDOM", 1000)
	for i := 0; i < nrand; i++ {
		n := 1 + rnd.Intn(16)
		if i%4 == 0 {
			n = 1 + rnd.Intn(1024)
		}
		hi, lo := rnd.Intn(65536), rnd.Intn(65536)
		if i%3 == 0 { // near a bucket edge k * 2^32 / n
			k := uint64(1 + rnd.Intn(n))
			edge := (k<<32)/uint64(n) + uint64(rnd.Intn(3)) - 1
			if edge > 0xFFFFFFFF {
				edge = 0xFFFFFFFF
			}
			hi, lo = int(edge>>16), int(edge&0xFFFF)
		}
		eval(n, hi, lo)
		res.Count("random", 1)
	}
	p := filepath.Join(verifkit.TmpDir(t, "c10-hash-"), "hash.ndjson")
	if err := verifkit.WriteNDJSON(p, lines); err != nil {
		t.Fatal(err)
	}
	res.Files = append(res.Files, p)
	if len(lines) > 0 {
		res.Sample(lines[len(lines)-1])
	}
}
