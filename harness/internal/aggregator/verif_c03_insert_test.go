package aggregator

// C03 conformance driver.  Contributions (behaviours exported by TLC from specs/InsertRows.tla
// and seeded random ones) are encoded as real statshouse.multiItem TL values, read back as the
// aggregator reads them and merged into real aggregatorBucket shards exactly the way the item loop
// of handleSendSourceBucket does (KeyFromStatshouseMultiItem, Key.XXHash, lockShard,
// GetOrCreateMultiItem, MergeWithTLMultiItem).  The insert body is produced by the real
// rowDataMarshalAppendPositions with a budget that cannot bind (asserted from the sampler
// statistics and every item's SF) and decoded by the small RowBinary reader below, which walks
// getTableDesc()'s column list and uses THE REPOSITORY'S OWN COLUMN DECODERS
// (chutil.ColTDigest / ColUnique / ColArgMinStringFloat32 / ColArgMaxStringFloat32 - the readers
// of the API).  What was contributed and what the decoded body holds is logged for
// specs/InsertRowsTrace.tla, which evaluates the property.  Directly in Go only what the
// specification cannot see is compared: the decoded unique state, centroids and host arguments
// against the values the encoder was given (the aggregator's items after the insert).
//
// Trusted harness code: the item loop copied from handleSendSourceBucket (no string is known to
// the mapping cache), the RowBinary reader (scalars only; every aggregate state goes through the
// repository's decoder), the id <-> tag tables, the parser of a marshalled ChUnique.

import (
	"bytes"
	"encoding/binary"
	"encoding/json"
	"errors"
	"fmt"
	"io"
	"math"
	"os"
	"path/filepath"
	"sort"
	"strconv"
	"strings"
	"testing"

	"github.com/ClickHouse/ch-go/proto"
	"pgregory.net/rand"

	"github.com/VKCOM/statshouse/internal/chutil"
	"github.com/VKCOM/statshouse/internal/data_model"
	"github.com/VKCOM/statshouse/internal/data_model/gen2/tlstatshouse"
	"github.com/VKCOM/statshouse/internal/format"
	"github.com/VKCOM/statshouse/internal/metajournal"
	"github.com/VKCOM/statshouse/internal/verifkit"
)

// ---- abstract values (specs/InsertRows.tla) -----------------------------------------------------

type verifC03Part struct {
	Top  int      `json:"top"`
	Cnt  int      `json:"cnt"`
	Set  bool     `json:"set"`
	Min  int      `json:"min"`
	Max  int      `json:"max"`
	Sum  int      `json:"sum"`
	Sq   int      `json:"sq"`
	MinH int      `json:"minH"`
	MaxH int      `json:"maxH"`
	CntH int      `json:"cntH"`
	Uniq []int    `json:"uniq"`
	Cent [][2]int `json:"cent"`

	bigUniq []uint64 // values of a sketch too large to log (random driver only)
}

type verifC03Item struct {
	A     string         `json:"a"`
	Agent int            `json:"agent"`
	B     int            `json:"b"`
	M     int            `json:"m"`
	Tag   int            `json:"tag"`
	T     int            `json:"t"`
	Parts []verifC03Part `json:"parts"`
}

type verifC03Row struct {
	Kid    int      `json:"kid"`
	T      int      `json:"t"`
	Top    int      `json:"top"`
	Cnt    int      `json:"cnt"`
	MaxCnt int      `json:"maxcnt"`
	Min    int      `json:"min"`
	Max    int      `json:"max"`
	Sum    int      `json:"sum"`
	Sq     int      `json:"sq"`
	Cent   [][2]int `json:"cent"`
	USkip  int      `json:"uskip"`
	UItems []int    `json:"uitems"`
	UCnt   int      `json:"ucnt"`  // number of hashes the decoded state carries
	USize  int      `json:"usize"` // ChUnique.Size() of the decoded state
	MinH   int      `json:"minH"`
	MaxH   int      `json:"maxH"`
	CntH   int      `json:"cntH"`
}

// hosts: 0 none, 1 and 2 mapped, 3 a string, 90+a the host of agent a (odd a: mapped, even a: string)
func verifC03Host(id int) data_model.TagUnion {
	switch {
	case id == 0:
		return data_model.TagUnion{}
	case id == 3:
		return data_model.TagUnion{S: "h3"}
	case id > 90 && id%2 == 0:
		return data_model.TagUnion{S: fmt.Sprintf("agent%d", id-90)}
	case id > 90:
		return data_model.TagUnion{I: int32(9000 + id - 90)}
	}
	return data_model.TagUnion{I: int32(100 + id)}
}

func verifC03HostID(s string, i int32) int {
	for _, id := range []int{0, 1, 2, 3} {
		if h := verifC03Host(id); h.S == s && h.I == i {
			return id
		}
	}
	for a := 1; a < 64; a++ {
		if h := verifC03Host(90 + a); h.S == s && h.I == i {
			return 90 + a
		}
	}
	return -1
}

// string-top values: odd ids strings, even ids mapped
func verifC03Top(id int) data_model.TagUnion {
	switch {
	case id == 0:
		return data_model.TagUnion{}
	case id%2 == 1:
		return data_model.TagUnion{S: fmt.Sprintf("top%d", id)}
	}
	return data_model.TagUnion{I: int32(7000 + id)}
}

func verifC03TopID(s string, i int32) int {
	for id := 0; id < 64; id++ {
		if t := verifC03Top(id); t.S == s && t.I == i {
			return id
		}
	}
	return -1
}

// key identity kid = m*100 + tag -> a real key (without time).  Four consecutive ids share metric
// and Tags[1] and differ only in the presence or the value of one late string tag / one high int
// tag, so a key
// comparison that ignores part of the key merges rows that must stay apart.
func verifC03Key(kid int) data_model.Key {
	base := kid / 4
	k := data_model.Key{Metric: int32(1000 + base%3)}
	k.Tags[1] = int32(base)
	if base%5 == 0 {
		k.Tags[17] = -7
		k.STags[30] = "shared-string-tag"
	}
	switch kid % 4 {
	case 1:
		k.STags[45] = "y"
	case 2:
		k.Tags[46] = 5
		k.STags[2] = "s"
	case 3:
		k.STags[45] = "z"
	}
	return k
}

// the id of a decoded / in-memory key among the ids used in this run (-1: no such key was contributed)
func verifC03KeyID(kids map[int]bool, k data_model.Key) int {
	k.Timestamp = 0
	for kid := range kids {
		if verifC03Key(kid) == k {
			return kid
		}
	}
	return -1
}

// value inserted into the sketch for abstract hash id h (ids are small positive integers)
func verifC03UniqValue(h int) uint64 { return uint64(h)*7919 + 13 }

// the abstract id of the 32-bit hash 0, which ChUnique keeps outside its table (hasZeroItem)
const verifC03ZeroHashID = 999

// marshalled ChUnique -> (skip degree, sorted 32-bit hashes)
func verifC03ParseUnique(b []byte) (skip int, hashes []uint32, err error) {
	if len(b) < 2 {
		return 0, nil, fmt.Errorf("short unique state")
	}
	skip = int(b[0])
	n, w := binary.Uvarint(b[1:])
	if w <= 0 || len(b) != 1+w+4*int(n) {
		return 0, nil, fmt.Errorf("unique state: %d items do not fit %d bytes", n, len(b))
	}
	for i := 0; i < int(n); i++ {
		hashes = append(hashes, binary.LittleEndian.Uint32(b[1+w+4*i:]))
	}
	sort.Slice(hashes, func(i, j int) bool { return hashes[i] < hashes[j] })
	return skip, hashes, nil
}

// the 32-bit hash of a value, read from the marshalled state of a sketch that holds only it
var verifC03MarshalBroken string

func verifC03Hash32(v uint64) uint32 {
	var u data_model.ChUnique
	u.Insert(v)
	_, hs, err := verifC03ParseUnique(u.MarshallAppend(nil))
	if len(hs) != 1 || err != nil {
		if verifC03MarshalBroken == "" {
			verifC03MarshalBroken = fmt.Sprintf("a sketch holding the single value %d marshals to %d hashes (%v)", v, len(hs), err)
		}
		return 0
	}
	return hs[0]
}

// ---- encoding a contribution the way an agent's bucket carries it --------------------------------

func verifC03SetHosts(mv *tlstatshouse.MultiValue, fm *uint32, p *verifC03Part) {
	// transfer.go MultiValueToTL: max host if any; the other two only when they differ from it,
	// then explicitly (an explicitly empty one means "the sender")
	maxH, minH, cntH := verifC03Host(p.MaxH), verifC03Host(p.MinH), verifC03Host(p.CntH)
	if maxH.I != 0 {
		mv.SetMaxHostTag(maxH.I, fm)
	} else if maxH.S != "" {
		mv.SetMaxHostStag(maxH.S, fm)
	}
	if minH != maxH {
		if minH.I != 0 {
			mv.SetMinHostTag(minH.I, fm)
		} else {
			mv.SetMinHostStag(minH.S, fm)
		}
	}
	if cntH != maxH {
		if cntH.I != 0 {
			mv.SetMaxCounterHostTag(cntH.I, fm)
		} else {
			mv.SetMaxCounterHostStag(cntH.S, fm)
		}
	}
}

func verifC03Encode(rnd *rand.Rand, mv *tlstatshouse.MultiValue, fm *uint32, p *verifC03Part) {
	if p.Cnt == 1 && rnd.Intn(2) == 0 {
		mv.SetCounterEq1(true, fm)
	} else if p.Cnt != 0 || rnd.Intn(2) == 0 {
		mv.SetCounter(float64(p.Cnt), fm)
	}
	verifC03SetHosts(mv, fm, p)
	if len(p.Uniq) != 0 || len(p.bigUniq) != 0 {
		var u data_model.ChUnique
		zero := false
		for _, h := range p.Uniq {
			if h == verifC03ZeroHashID {
				zero = true
				continue
			}
			u.Insert(verifC03UniqValue(h))
		}
		for _, v := range p.bigUniq {
			u.Insert(v)
		}
		state := u.MarshallAppend(nil)
		if skip, hs, err := verifC03ParseUnique(state); zero && err == nil {
			// no value is known to hash to 0, so that hash is put into the marshalled state by hand
			// (first item, as MarshallAppend writes it)
			state = binary.AppendUvarint([]byte{byte(skip)}, uint64(len(hs)+1))
			state = binary.LittleEndian.AppendUint32(state, 0)
			for _, h := range hs {
				state = binary.LittleEndian.AppendUint32(state, h)
			}
		}
		mv.SetUniques(string(state), fm)
	}
	if !p.Set {
		return
	}
	mv.SetValueSet(true, fm)
	if p.Min != 0 {
		mv.SetValueMin(float64(p.Min), fm)
	}
	single := p.Min == p.Max && p.Sum == p.Min*p.Cnt && p.Sq == p.Sum*p.Min
	if !single || rnd.Intn(2) == 0 {
		mv.SetValueMax(float64(p.Max), fm)
		mv.SetValueSum(float64(p.Sum), fm)
		mv.SetValueSumSquare(float64(p.Sq), fm)
	}
	if len(p.Cent) == 1 && p.Cent[0][0] == p.Min && p.Cent[0][1] == p.Cnt && rnd.Intn(2) == 0 {
		mv.SetImplicitCentroid(true, fm)
	} else if len(p.Cent) != 0 {
		var cc []tlstatshouse.CentroidFloat
		for _, c := range p.Cent {
			cc = append(cc, tlstatshouse.CentroidFloat{Value: float32(c[0]), Count: float32(c[1])})
		}
		mv.SetCentroids(cc, fm)
	}
}

func verifC03Wire(rnd *rand.Rand, it *verifC03Item, bucketTime uint32) []byte {
	k := verifC03Key(it.M*100 + it.Tag)
	k.Timestamp = uint32(it.T)
	item := k.TLMultiItemFromKey(bucketTime)
	var tops []tlstatshouse.TopElement
	for i := range it.Parts {
		p := &it.Parts[i]
		if p.Top == 0 {
			verifC03Encode(rnd, &item.Tail, &item.FieldsMask, p)
			continue
		}
		tag := verifC03Top(p.Top)
		el := tlstatshouse.TopElement{Stag: tag.S}
		if tag.I != 0 {
			el.SetTag(tag.I)
		}
		verifC03Encode(rnd, &el.Value, &el.FieldsMask, p)
		tops = append(tops, el)
	}
	if len(tops) != 0 {
		item.SetTop(tops)
	}
	return item.WriteTL1(nil)
}

// the item loop of handleSendSourceBucket for one item (no string known to the mapping cache)
func verifC03Merge(rng *rand.Rand, aggBucket *aggregatorBucket, wire []byte, bucketTime uint32, hostTag data_model.TagUnion) error {
	var item tlstatshouse.MultiItemBytes
	if _, err := item.ReadTL1(wire); err != nil {
		return err
	}
	k, _ := data_model.KeyFromStatshouseMultiItem(&item, bucketTime)
	for i, str := range item.Skeys {
		if i >= format.MaxTags {
			break
		}
		k.STags[i] = string(str)
	}
	lockedShard, measurementLocks := -1, 0
	var stackBuf [1024]byte
	keyBytes, hash := k.XXHash(stackBuf[:0])
	sID := int(hash % data_model.AggregationShardsPerSecond)
	s := aggBucket.lockShard(&lockedShard, sID, &measurementLocks)
	mi, _ := s.GetOrCreateMultiItem(&k, nil, keyBytes)
	is := mi.MergeWithTLMultiItem(rng, data_model.AggregatorStringTopCapacity, &item, hostTag)
	aggBucket.lockShard(&lockedShard, -1, &measurementLocks)
	if is != 0 {
		return fmt.Errorf("ingestion status %d", is)
	}
	return nil
}

// ---- the RowBinary reader --------------------------------------------------------------------------

type verifC03Decoded struct {
	metric int32
	time   uint32
	tags   [format.MaxTags]int32
	stags  [format.MaxTags]string
	f      map[string]float64
	dig    [][2]float32 // centroids as the API's ColTDigest holds them
	uniq   data_model.ChUnique
	minH   data_model.ArgMinStringFloat32
	maxH   data_model.ArgMaxStringFloat32
	cntH   data_model.ArgMaxStringFloat32
}

// verifC03Body hands the insert body to the decoders and stops one that keeps asking for bytes
// long after the end (a decoder loop that ignores read errors can otherwise spin for minutes on a
// garbage length): decided by counting reads past the end, not by the clock.
type verifC03Body struct {
	r    *bytes.Reader
	past int
}

type verifC03Runaway struct{}

func (b *verifC03Body) Read(p []byte) (int, error) {
	n, err := b.r.Read(p)
	if err == io.EOF {
		if b.past++; b.past > 1<<16 {
			panic(verifC03Runaway{})
		}
	}
	return n, err
}

func verifC03ReadBody(body []byte) (rows []*verifC03Decoded, err error) {
	desc := getTableDesc()
	cols := strings.Split(desc[strings.Index(desc, "(")+1:strings.LastIndex(desc, ")")], ",")
	defer func() {
		if p := recover(); p != nil {
			if _, ok := p.(verifC03Runaway); !ok {
				panic(p)
			}
			err = fmt.Errorf("row %d: a column decoder kept reading 65536 times past the end of the body", len(rows))
		}
	}()
	r := proto.NewReader(&verifC03Body{r: bytes.NewReader(body)})
	for {
		first, e := r.ReadByte()
		if errors.Is(e, io.EOF) {
			return rows, nil
		}
		if e != nil {
			return rows, e
		}
		row := &verifC03Decoded{f: map[string]float64{}}
		for ci, c := range cols {
			c = strings.TrimSpace(c)
			switch {
			case c == "index_type":
				if ci != 0 {
					_, e = r.ReadByte()
				} else if first != 0 {
					e = fmt.Errorf("index_type %d", first)
				}
			case c == "metric":
				row.metric, e = r.Int32()
			case c == "time":
				row.time, e = r.UInt32()
			case strings.HasPrefix(c, "stag"):
				var n int
				if n, e = strconv.Atoi(c[4:]); e == nil {
					row.stags[n], e = r.Str()
				}
			case strings.HasPrefix(c, "tag"):
				var n int
				if n, e = strconv.Atoi(c[3:]); e == nil {
					row.tags[n], e = r.Int32()
				}
			case c == "count" || c == "max_count" || c == "min" || c == "max" || c == "sum" || c == "sumsquare":
				row.f[c], e = r.Float64()
			case c == "percentiles":
				var col chutil.ColTDigest
				if e = col.DecodeColumn(r, 1); e == nil {
					for _, cc := range col[0].Centroids() {
						row.dig = append(row.dig, [2]float32{float32(cc.Mean), float32(cc.Weight)})
					}
				}
			case c == "uniq_state":
				var col chutil.ColUnique
				if e = col.DecodeColumn(r, 1); e == nil {
					row.uniq = col[0]
				}
			case c == "min_host":
				var col chutil.ColArgMinStringFloat32
				if e = col.DecodeColumn(r, 1); e == nil {
					row.minH = col[0]
				}
			case c == "max_host":
				var col chutil.ColArgMaxStringFloat32
				if e = col.DecodeColumn(r, 1); e == nil {
					row.maxH = col[0]
				}
			case c == "max_count_host":
				var col chutil.ColArgMaxStringFloat32
				if e = col.DecodeColumn(r, 1); e == nil {
					row.cntH = col[0]
				}
			default:
				e = fmt.Errorf("column %q of getTableDesc() is unknown to the harness reader", c)
			}
			if e != nil {
				return rows, fmt.Errorf("row %d column %s: %w", len(rows), c, e)
			}
		}
		rows = append(rows, row)
	}
}

// ---- one run ---------------------------------------------------------------------------------------

type verifC03Run struct {
	bts   []uint32
	items []verifC03Item
	big   bool // carries a sketch too large to log
}

func verifC03Int(f float64, bad *string, what string) int {
	if f != math.Trunc(f) || math.Abs(f) > 2e9 || math.IsNaN(f) {
		if *bad == "" {
			*bad = fmt.Sprintf("%s = %v is not an integer the contributions could have produced", what, f)
		}
		return 0
	}
	return int(f)
}

func verifC03NewAggregator() *Aggregator {
	a := &Aggregator{
		aggregatorHostTag: data_model.TagUnion{I: 7001},
		shardKey:          1,
		replicaKey:        1,
		metricStorage:     metajournal.MakeMetricsStorage(nil),
	}
	a.configR = DefaultConfigAggregator().RemoteInitial
	a.configR.MinInsertBudget = 1 << 40 // the budget must not bind
	a.tagsMapper3 = NewTagsMapper3(a, nil, a.metricStorage, nil)
	return a
}

type verifC03Written struct {
	uskip  int
	uhash  []uint32
	cent   [][2]float32
	minH   data_model.TagUnion
	maxH   data_model.TagUnion
	cntH   data_model.TagUnion
	usize  uint64
	exists bool
}

func verifC03WrittenOf(mv *data_model.MultiValue) verifC03Written {
	w := verifC03Written{exists: true}
	w.uskip, w.uhash, _ = verifC03ParseUnique(mv.HLL.MarshallAppend(nil))
	if mv.ValueTDigest != nil {
		for _, c := range mv.ValueTDigest.Centroids() {
			w.cent = append(w.cent, [2]float32{float32(c.Mean), float32(c.Weight)})
		}
	}
	if mv.Value.ValueSet {
		w.minH, w.maxH = mv.Value.MinHostTag, mv.Value.MaxHostTag
	}
	w.cntH = mv.Value.MaxCounterHostTag
	return w
}

func verifC03SameCent(a, b [][2]float32) bool {
	if len(a) != len(b) {
		return false
	}
	for i := range a {
		if a[i] != b[i] {
			return false
		}
	}
	return true
}

func verifC03SameHashes(a, b []uint32) bool {
	if len(a) != len(b) {
		return false
	}
	for i := range a {
		if a[i] != b[i] {
			return false
		}
	}
	return true
}

type verifC03KT struct {
	kid, t, top int
}

func (run *verifC03Run) execute(res *verifkit.Result, ri int, events *[]map[string]any) {
	rng := rand.New(uint64(verifkit.Seed())*104729 + uint64(ri))
	a := verifC03NewAggregator()
	var buckets []*aggregatorBucket
	for _, bt := range run.bts {
		buckets = append(buckets, newAggregatorBucket(bt))
	}
	mism := func(step int, sig, want, got string) {
		res.Mismatch(verifkit.Mismatch{Beh: run.items, Step: step, Want: want, Got: got, Sig: sig, Note: fmt.Sprintf("run %d bucket times %v", ri, run.bts)})
	}
	bts := make([]int, len(run.bts))
	for i, bt := range run.bts {
		bts[i] = int(bt)
	}
	*events = append(*events, map[string]any{"ev": "Reset", "bts": bts, "run": ri})
	kids := map[int]bool{}
	hashID := map[uint32]int{}
	bigHashes := map[verifC03KT]map[uint32]bool{}
	for i := range run.items {
		it := &run.items[i]
		if it.A != "Merge" {
			continue
		}
		kid := it.M*100 + it.Tag
		kids[kid] = true
		for pi := range it.Parts {
			p := &it.Parts[pi]
			for _, h := range p.Uniq {
				if h == verifC03ZeroHashID {
					hashID[0] = h
					continue
				}
				hashID[verifC03Hash32(verifC03UniqValue(h))] = h
			}
			if p.Uniq == nil {
				p.Uniq = []int{}
			}
			if p.Cent == nil {
				p.Cent = [][2]int{}
			}
		}
		bt := run.bts[it.B-1]
		wire := verifC03Wire(rng, it, bt)
		host := verifC03Host(90 + it.Agent)
		buckets[it.B-1].contributorsMetric[0][0].AddCounterHost(rng, 1, host)
		if err := verifC03Merge(rng, buckets[it.B-1], wire, bt, host); err != nil {
			res.Note("run %d: contribution %d refused by the real merge: %v", ri, i, err)
			res.Count("refused", 1)
		}
		if run.big { // remember the hashes contributed per row (from the values, not from the sketch)
			t := int(bt)
			if it.T != 0 && uint32(it.T) <= bt && int64(it.T) >= int64(bt)-data_model.BelieveTimestampWindow {
				t = it.T
			}
			for pi := range it.Parts {
				p := &it.Parts[pi]
				if len(p.bigUniq) == 0 || p.Cnt == 0 {
					continue
				}
				kt := verifC03KT{kid, t, p.Top}
				if bigHashes[kt] == nil {
					bigHashes[kt] = map[uint32]bool{}
				}
				var u data_model.ChUnique
				for _, v := range p.bigUniq {
					u.Insert(v)
				}
				_, hs, _ := verifC03ParseUnique(u.MarshallAppend(nil))
				if len(hs) > 65000 {
					panic("verif: a contributed sketch must stay in exact mode")
				}
				for _, h := range hs {
					bigHashes[kt][h] = true
				}
			}
		}
		*events = append(*events, map[string]any{"ev": "Contrib", "agent": it.Agent, "b": it.B, "kid": kid, "t": it.T, "parts": it.Parts})
		res.Steps++
	}
	body, _, stats, _ := a.rowDataMarshalAppendPositions(buckets, data_model.SamplerBuffers{}, rng, nil)
	// the budget must not have bound
	for sk, ss := range stats.sampling {
		if ss.sampligSizeDiscardBytes.Count() != 0 {
			res.Note("run %d: sampler discarded rows of group %+v although the budget is 2^40", ri, sk)
			res.Count("sampling_bound", 1)
			return
		}
	}
	written := map[verifC03KT]verifC03Written{}
	for _, b := range buckets {
		for si := range b.shards {
			for _, item := range b.shards[si].MultiItems {
				if item.SF != 1 {
					res.Note("run %d: item kept with SF %v", ri, item.SF)
					res.Count("sampling_bound", 1)
					return
				}
				kid := verifC03KeyID(kids, item.Key)
				written[verifC03KT{kid, int(item.Key.Timestamp), 0}] = verifC03WrittenOf(&item.Tail)
				for tk, tv := range item.Top {
					written[verifC03KT{kid, int(item.Key.Timestamp), verifC03TopID(tk.S, tk.I)}] = verifC03WrittenOf(tv)
				}
			}
		}
	}
	rows, err := verifC03ReadBody(body)
	if err != nil {
		mism(len(run.items), "body-undecodable", "a body that getTableDesc()'s columns and the API's column decoders can read", err.Error())
		return
	}
	var out []verifC03Row
	other := 0
	for _, d := range rows {
		if d.metric < 0 {
			other++ // rows the aggregator adds itself (contributors log, badges)
			continue
		}
		bad := ""
		got := data_model.Key{Metric: d.metric, Tags: d.tags, STags: d.stags}
		topS, topI := got.STags[format.StringTopTagIndexV3], got.Tags[format.StringTopTagIndexV3]
		got.STags[format.StringTopTagIndexV3], got.Tags[format.StringTopTagIndexV3] = "", 0
		kid := verifC03KeyID(kids, got)
		r := verifC03Row{Kid: kid, T: int(d.time), Top: verifC03TopID(topS, topI),
			Cnt: verifC03Int(d.f["count"], &bad, "count"), MaxCnt: verifC03Int(d.f["max_count"], &bad, "max_count"),
			Min: verifC03Int(d.f["min"], &bad, "min"), Max: verifC03Int(d.f["max"], &bad, "max"),
			Sum: verifC03Int(d.f["sum"], &bad, "sum"), Sq: verifC03Int(d.f["sumsquare"], &bad, "sumsquare"),
			Cent: [][2]int{}, UItems: []int{},
			MinH: verifC03HostID(d.minH.AsString, d.minH.AsInt32), MaxH: verifC03HostID(d.maxH.AsString, d.maxH.AsInt32),
			CntH: verifC03HostID(d.cntH.AsString, d.cntH.AsInt32)}
		kt := verifC03KT{kid, r.T, r.Top}
		dskip, dhash, perr := verifC03ParseUnique(d.uniq.MarshallAppend(nil))
		if perr != nil {
			bad = perr.Error()
		}
		if w, ok := written[kt]; ok { // round trip: what the encoder was given against what the API decodes
			if w.uskip != dskip || !verifC03SameHashes(w.uhash, dhash) {
				mism(len(run.items), "roundtrip-unique", fmt.Sprintf("skip %d, %d hashes", w.uskip, len(w.uhash)), fmt.Sprintf("skip %d, %d hashes %v", dskip, len(dhash), verifC03Head(dhash)))
			}
			if !verifC03SameCent(w.cent, d.dig) {
				mism(len(run.items), "roundtrip-centroids", fmt.Sprint(w.cent), fmt.Sprint(d.dig))
			}
			for _, h := range []struct {
				what string
				w    data_model.TagUnion
				s    string
				i    int32
			}{{"min_host", w.minH, d.minH.AsString, d.minH.AsInt32}, {"max_host", w.maxH, d.maxH.AsString, d.maxH.AsInt32}, {"max_count_host", w.cntH, d.cntH.AsString, d.cntH.AsInt32}} {
				if h.w.S != h.s || h.w.I != h.i {
					mism(len(run.items), "roundtrip-"+h.what, fmt.Sprintf("%+v", h.w), fmt.Sprintf("{S:%q I:%d}", h.s, h.i))
				}
			}
		}
		if hs, ok := bigHashes[kt]; ok {
			div := make([]int, 12)
			for h := range hs {
				for k := 0; k < len(div) && h%(1<<uint(k)) == 0; k++ {
					div[k]++
				}
			}
			same := false
			if w, ok := written[kt]; ok {
				same = w.uskip == dskip && verifC03SameHashes(w.uhash, dhash)
			}
			*events = append(*events, map[string]any{"ev": "BigUniq", "n": len(hs), "div": div, "skip": dskip, "count": len(dhash),
				"size": int(d.uniq.Size(false)), "limit": 1 << 16, "same": same, "kid": kid, "top": r.Top})
			res.Count("big_sketches", 1)
			if len(hs) >= 1<<16 {
				res.Count("big_sketches_thinned", 1)
			}
		} else {
			r.USkip, r.UCnt, r.USize = dskip, len(dhash), int(d.uniq.Size(true))
			for _, h := range dhash {
				id, ok := hashID[h]
				if !ok {
					id = -1
				}
				r.UItems = append(r.UItems, id)
			}
			if int(d.uniq.Size(false)) != len(dhash) && dskip == 0 {
				bad = fmt.Sprintf("Size() = %d for %d items in exact mode", d.uniq.Size(false), len(dhash))
			}
		}
		for _, c := range d.dig {
			r.Cent = append(r.Cent, [2]int{verifC03Int(float64(c[0]), &bad, "centroid mean"), verifC03Int(float64(c[1]), &bad, "centroid weight")})
		}
		if bad != "" {
			mism(len(run.items), "row-garbage", "integer aggregates", bad)
			return
		}
		out = append(out, r)
	}
	if out == nil {
		out = []verifC03Row{}
	}
	*events = append(*events, map[string]any{"ev": "Insert", "rows": out, "other": other})
	res.Replayed++
	res.Count("rows", len(out))
	res.Count("other_rows", other)
	res.Seen(fmt.Sprintf("rows%d/buckets%d", len(out), len(run.bts)))
}

func verifC03Decode(v any, out any) error {
	b, err := json.Marshal(v)
	if err != nil {
		return err
	}
	return json.Unmarshal(b, out)
}

func verifC03Head(h []uint32) []uint32 {
	if len(h) > 8 {
		return h[:8]
	}
	return h
}

// ---- random contributions ----------------------------------------------------------------------------

const verifC03T0 = 1700000000

func verifC03RandomPart(rnd *rand.Rand, top int) verifC03Part {
	p := verifC03Part{Top: top, Cnt: 1 + rnd.Intn(5), MinH: rnd.Intn(4), MaxH: rnd.Intn(4), CntH: rnd.Intn(4)}
	if rnd.Intn(3) == 0 {
		p.MinH, p.MaxH, p.CntH = 0, 0, 0 // the common case: no host tag at all
	}
	kind := rnd.Intn(8)
	if kind == 0 && rnd.Intn(3) == 0 {
		p.Cnt = 0 // an empty value next to others
	}
	if kind <= 1 {
		return p // counter
	}
	// a value row built from n events of weight 1 (so every aggregate is an integer)
	n := p.Cnt
	vals := make([]int, n)
	for i := range vals {
		vals[i] = rnd.Intn(41) - 10
		if i > 0 && rnd.Intn(3) == 0 {
			vals[i] = vals[0]
		}
	}
	if kind == 7 {
		for i := range vals {
			vals[i] = 1 + rnd.Intn(30)
		}
	}
	p.Set, p.Min, p.Max = true, vals[0], vals[0]
	bag := map[int]int{}
	for _, v := range vals {
		p.Sum += v
		p.Sq += v * v
		p.Min, p.Max = min(p.Min, v), max(p.Max, v)
		bag[v]++
	}
	if rnd.Intn(4) == 0 { // a counter larger than the number of values (sums scaled accordingly)
		k := 2 + rnd.Intn(2)
		p.Cnt, p.Sum, p.Sq = p.Cnt*k, p.Sum*k, p.Sq*k
		for v := range bag {
			bag[v] *= k
		}
	}
	switch {
	case kind == 7: // unique: the values are the hash ids
		for v := range bag {
			p.Uniq = append(p.Uniq, v)
		}
		sort.Ints(p.Uniq)
		if rnd.Intn(5) == 0 {
			p.Uniq = append(p.Uniq, verifC03ZeroHashID)
		}
	case kind >= 5: // percentile
		for v, w := range bag {
			p.Cent = append(p.Cent, [2]int{v, w})
		}
		sort.Slice(p.Cent, func(i, j int) bool { return p.Cent[i][0] < p.Cent[j][0] })
	}
	return p
}

func verifC03Random(rnd *rand.Rand) verifC03Run {
	run := verifC03Run{bts: []uint32{verifC03T0}}
	if rnd.Intn(3) == 0 {
		run.bts = append(run.bts, verifC03T0-10)
	}
	if rnd.Intn(10) == 0 {
		run.bts = append(run.bts, verifC03T0-20)
	}
	nKeys, nAgents, nTops := 1+rnd.Intn(8), 1+rnd.Intn(4), 1+rnd.Intn(5)
	n := 1 + rnd.Intn(24)
	digestWeight := map[[3]int]int{}
	for j := 0; j < n; j++ {
		it := verifC03Item{A: "Merge", Agent: 1 + rnd.Intn(nAgents), B: 1 + rnd.Intn(len(run.bts)), M: 1 + rnd.Intn(2), Tag: rnd.Intn(nKeys)}
		bt := int(run.bts[it.B-1])
		switch rnd.Intn(12) {
		case 0:
			it.T = bt - 1 - rnd.Intn(2) // believed: a key of its own
		case 1:
			it.T = bt + 5 // future: clamped to the bucket
		case 2:
			it.T = bt - data_model.BelieveTimestampWindow - 7 // too old: clamped to the bucket
		case 3:
			it.T = bt // explicit but equal
		}
		used := map[int]bool{}
		for k := 1 + rnd.Intn(3); k > 0; k-- {
			top := 0
			if rnd.Intn(2) == 0 {
				top = 1 + rnd.Intn(nTops)
			}
			if !used[top] {
				used[top] = true
				p := verifC03RandomPart(rnd, top)
				// keep the digest of one row below ~100 units of weight: beyond that the real t-digest
				// (compression 80) starts merging neighbouring centroids and the bag of centroids is
				// no longer the union the specification demands (C02 makes the same assumption)
				if wk := [3]int{it.M, it.Tag, top}; len(p.Cent) != 0 && digestWeight[wk]+p.Cnt > 60 {
					p.Cent = nil
				} else if len(p.Cent) != 0 {
					digestWeight[wk] += p.Cnt
				}
				it.Parts = append(it.Parts, p)
			}
		}
		run.items = append(run.items, it)
	}
	return run
}

// a row whose unique sketch holds `target` distinct hashes, contributed by several agents in
// overlapping pieces each of which stays in exact mode
func verifC03BigUniq(rnd *rand.Rand, target int) verifC03Run {
	run := verifC03Run{bts: []uint32{verifC03T0}, big: true}
	seen := map[uint32]bool{}
	var vals []uint64
	for len(seen) < target && verifC03MarshalBroken == "" {
		v := rnd.Uint64()
		if h := verifC03Hash32(v); !seen[h] {
			seen[h] = true
			vals = append(vals, v)
		}
	}
	pieces := 2 + (target+29999)/30000
	top := rnd.Intn(3)
	for a := 0; a < pieces; a++ {
		lo := a * len(vals) / pieces
		hi := min(len(vals), (a+1)*len(vals)/pieces+len(vals)/(4*pieces))
		p := verifC03Part{Top: top, Cnt: hi - lo, Set: true, Min: 1, Max: 1, Sum: hi - lo, Sq: hi - lo, bigUniq: vals[lo:hi]}
		run.items = append(run.items, verifC03Item{A: "Merge", Agent: 1 + a%3, B: 1, M: 1, Tag: 7, Parts: []verifC03Part{p}})
	}
	// another row of the same key keeps a small sketch
	run.items = append(run.items, verifC03Item{A: "Merge", Agent: 1, B: 1, M: 1, Tag: 7, Parts: []verifC03Part{verifC03RandomPart(rnd, 4)}})
	return run
}

// ---- unique sketches across the resize thresholds of ChUnique's table ---------------------------------
//
// ChUnique is an open-addressing table of 2^degree slots (home slot = (hash >> 15) & mask, linear
// probing, grown when more than half full, pre-sized by MergeRead for a large contribution).  The
// directed family builds, from values whose hashes are chosen for their home slots, the situation a
// resize has to repair: y sits in the last slot of the table, x has the same home slot and wrapped
// around to slot 0; the table then grows so that y moves to the upper half while x's home stays in the
// lower half; finally x is contributed to the same row once more.  If the resize left x out of reach
// of its home slot it is stored twice.  The oracle is the specification's (set union, every hash once,
// exact count).

var verifC03Pool map[int][]int // (hash >> 15) & 255 -> abstract hash ids

func verifC03HomePool() map[int][]int {
	if verifC03Pool == nil {
		verifC03Pool = map[int][]int{}
		for id := 1; id <= 12000 && verifC03MarshalBroken == ""; id++ {
			h := verifC03Hash32(verifC03UniqValue(id))
			verifC03Pool[int(h>>15)&255] = append(verifC03Pool[int(h>>15)&255], id)
		}
	}
	return verifC03Pool
}

// an unused id whose home slot in a table of 2^bits slots is `home`
func verifC03PickHome(rnd *rand.Rand, used map[int]bool, bits int, home int) int {
	pool := verifC03HomePool()
	var classes []int
	for c := 0; c < 256; c++ {
		if c&(1<<bits-1) == home {
			classes = append(classes, c)
		}
	}
	for try := 0; try < 1000; try++ {
		ids := pool[classes[rnd.Intn(len(classes))]]
		if len(ids) == 0 {
			continue
		}
		if id := ids[rnd.Intn(len(ids))]; !used[id] {
			used[id] = true
			return id
		}
	}
	return 0
}

func verifC03UniqPart(top int, ids []int) verifC03Part {
	return verifC03Part{Top: top, Cnt: len(ids), Uniq: ids}
}

// d: degree of the table in which x wraps (16, 32, 64 slots); variant 0: the table doubles while
// single values arrive; 1: MergeRead pre-sizes it by two degrees for one large contribution; 2: the
// whole story happens inside one agent's sketch (Insert path) and reaches the aggregator marshalled
func verifC03Wrapped(rnd *rand.Rand, d int, variant int) verifC03Run {
	run := verifC03Run{bts: []uint32{verifC03T0}}
	used := map[int]bool{}
	grow := d + 1
	if variant == 1 {
		grow = d + 2
	}
	last := 1<<d - 1
	x := verifC03PickHome(rnd, used, grow, last)                                // home stays in the lower half
	y := verifC03PickHome(rnd, used, grow, last+(1+rnd.Intn(1<<(grow-d)-1))<<d) // same home now, moves up
	filler := func(n int, bits int) []int {                                     // n values with distinct home slots away from both ends of the table
		var ids []int
		homes := rnd.Perm(1<<bits - 4)
		for i := 0; len(ids) < n && i < len(homes); i++ {
			h := homes[i] + 2
			if bits > d && (h&last == last || h&last <= 1) {
				continue
			}
			if id := verifC03PickHome(rnd, used, bits, h); id != 0 {
				ids = append(ids, id)
			}
		}
		return ids
	}
	top := rnd.Intn(3)
	item := func(agent int, ids ...int) {
		run.items = append(run.items, verifC03Item{A: "Merge", Agent: agent, B: 1, M: 1, Tag: 4 + d%4, Parts: []verifC03Part{verifC03UniqPart(top, ids)}})
	}
	all := filler(1<<(d-1)-1, d) // with x and y: one more than half of the slots, so the table doubles at the last one
	nFirst := 1 << (d - 2)       // UmMarshall sizes the table for that many items at degree d (16 slots at least)
	switch variant {
	case 0:
		item(1, all[:nFirst]...)
		item(2, y)
		item(1, x)
		for rest := all[nFirst:]; len(rest) > 0; {
			k := 1 + rnd.Intn(len(rest))
			item(1+rnd.Intn(3), rest[:k]...)
			rest = rest[k:]
		}
		item(3, x)
	case 1:
		item(1, all[:nFirst]...)
		item(2, y)
		item(1, x)
		item(3, filler(1<<d+1+rnd.Intn(4), grow)...) // more values than slots: MergeRead resizes to degree d+2 at once
		item(2, x, y)
	case 2:
		var ids []int
		if d > 4 {
			ids = append(ids, all[:nFirst+1]...) // the agent's table grows by doubling: reach degree d first
			all = all[nFirst+1:]
		}
		ids = append(ids, y, x)
		ids = append(ids, all...)
		ids = append(ids, x) // the same value seen again in the same second
		item(1, ids...)
		item(2, x)
	}
	return run
}

// many rows with overlapping unique sets of 1..40 hashes contributed in several rounds by several agents
func verifC03Overlap(rnd *rand.Rand, rows int) verifC03Run {
	run := verifC03Run{bts: []uint32{verifC03T0}}
	for r := 0; r < rows; r++ {
		m, tag, top := 1+r%2, (r/2)%8, (r/16)%6
		universe := make([]int, 1+rnd.Intn(40))
		for i := range universe {
			universe[i] = 1 + rnd.Intn(12000)
		}
		for round := 2 + rnd.Intn(5); round > 0; round-- {
			var ids []int
			for _, id := range universe {
				if rnd.Intn(3) != 0 {
					ids = append(ids, id)
				}
			}
			if len(ids) == 0 {
				ids = universe[:1]
			}
			rnd.Shuffle(len(ids), func(i, j int) { ids[i], ids[j] = ids[j], ids[i] })
			run.items = append(run.items, verifC03Item{A: "Merge", Agent: 1 + rnd.Intn(4), B: 1, M: m, Tag: tag, Parts: []verifC03Part{verifC03UniqPart(top, ids)}})
		}
	}
	rnd.Shuffle(len(run.items), func(i, j int) { run.items[i], run.items[j] = run.items[j], run.items[i] })
	return run
}

func TestVerifC03(t *testing.T) {
	verifkit.Gate(t)
	res := verifkit.NewResult()
	defer res.Write(t)
	res.Consts["BelieveTimestampWindow"] = data_model.BelieveTimestampWindow
	res.Consts["AggregationShardsPerSecond"] = data_model.AggregationShardsPerSecond
	res.Consts["AggregatorStringTopCapacity"] = data_model.AggregatorStringTopCapacity
	res.Consts["StringTopCountInsert"] = DefaultConfigAggregator().RemoteInitial.StringTopCountInsert
	res.Consts["tableDesc"] = getTableDesc()

	var runs []verifC03Run
	for _, b := range verifkit.LoadBehaviours(t) {
		run := verifC03Run{bts: []uint32{verifC03T0, verifC03T0 - 3}}
		for _, s := range b {
			var it verifC03Item
			if err := verifC03Decode(s, &it); err != nil {
				t.Fatalf("bad behaviour step: %v", err)
			}
			// the model's bucket times are 1000 / 997: shift the explicit timestamps
			if it.T != 0 && it.T < 900 { // "too old" in the model (its window is 100 seconds)
				it.T = verifC03T0 - data_model.BelieveTimestampWindow - 7
			} else if it.T != 0 {
				it.T += verifC03T0 - 1000
			}
			run.items = append(run.items, it)
		}
		runs = append(runs, run)
	}
	nTLC := len(runs)
	rnd := rand.New(uint64(verifkit.Seed())*31 + 5)
	for i := 0; i < verifkit.EnvInt("VERIF_NRANDOM", 300); i++ {
		runs = append(runs, verifC03Random(rnd))
	}
	for rep := 0; rep < verifkit.EnvInt("VERIF_NWRAPPED", 4); rep++ {
		for d := 4; d <= 6; d++ {
			for variant := 0; variant < 3; variant++ {
				runs = append(runs, verifC03Wrapped(rnd, d, variant))
			}
		}
	}
	for i := 0; i < verifkit.EnvInt("VERIF_NOVERLAP", 6); i++ {
		runs = append(runs, verifC03Overlap(rnd, 80))
	}
	bigs := os.Getenv("VERIF_BIGUNIQ")
	if bigs == "" {
		bigs = "3000"
	}
	for _, target := range strings.Split(bigs, ",") {
		if n, err := strconv.Atoi(target); err == nil && n > 0 {
			runs = append(runs, verifC03BigUniq(rnd, n))
		}
	}
	var events []map[string]any
	for ri := range runs {
		runs[ri].execute(res, ri, &events)
		if verifC03MarshalBroken != "" {
			res.Mismatch(verifkit.Mismatch{Beh: runs[ri].items, Want: "the unique state written is the state held", Got: verifC03MarshalBroken, Sig: "roundtrip-unique"})
			break
		}
		if res.Counters["mismatches_total"] >= 20 { // enough witnesses; a broken decoder can make every run slow
			res.Note("stopped after run %d of %d: 20 mismatches recorded", ri, len(runs))
			break
		}
	}
	res.Count("tlc_behaviours", nTLC)
	res.Count("random_runs", len(runs)-nTLC)
	p := filepath.Join(verifkit.TmpDir(t, "c03-"), "trace.ndjson")
	if err := verifkit.WriteNDJSON(p, events); err != nil {
		t.Fatal(err)
	}
	res.Files = append(res.Files, p)
	for _, e := range events {
		if e["ev"] == "Insert" {
			res.Sample(e)
			break
		}
	}
}
