package aggregator

// C10 harness (I->S): three real in-process aggregators (replica keys 1..3, configured the
// production way from a cluster description served by a fake ClickHouse, which also accepts
// every insert; real RPC server, handler and ticker) receive real
// statshouse.sendSourceBucket3 requests for seconds all around their recent window, recent and
// historic, and far back at the historic window's edge.  The hooks of the C01 work (GFile /
// GReject in handleSendSourceBucket, GTick in goTicker; build tag verif) report, under a.mu,
// the window the handler saw and the bucket it chose.  Every decision becomes one "file" line,
// every hand-off of goTicker one "tick" line, every aggregator's by-metric count one "config"
// line, every probe with a right or wrong header.ShardReplica one "addr" line for
// specs/RoutingTrace.tla.
//
// Lines are written through to the file as they happen: goTicker panics when it finds data in
// a bucket of a foreign second, and the decisions that led there must survive that.

import (
	"context"
	"encoding/json"
	"fmt"
	"io"
	"net"
	"net/http"
	"os"
	"path/filepath"
	"strings"
	"sync"
	"testing"
	"time"

	"github.com/VKCOM/tl/pkg/rpc"

	"github.com/VKCOM/statshouse/internal/compress"
	"github.com/VKCOM/statshouse/internal/data_model"
	"github.com/VKCOM/statshouse/internal/data_model/gen2/tlstatshouse"
	"github.com/VKCOM/statshouse/internal/format"
	"github.com/VKCOM/statshouse/internal/metajournal"
	"github.com/VKCOM/statshouse/internal/pcache"
	"github.com/VKCOM/statshouse/internal/verifkit"
)

type verifC10Sink struct {
	mu      sync.Mutex
	f       *os.File
	n       int
	kinds   map[string]int
	waiters map[string]chan struct{}
	repOf   map[string]int // instance name -> replica key
	probe   map[string]int // host of an addressing probe -> header.ShardReplica it carried
	samples []any
}

func (s *verifC10Sink) line(v map[string]any, class string) {
	b, _ := json.Marshal(v)
	s.f.Write(append(b, '\n'))
	s.n++
	s.kinds[class]++
	if len(s.samples) < 3 || (class == "file/historic" && s.kinds[class] == 1) {
		s.samples = append(s.samples, v)
	}
}

func verifC10Int(v any) int {
	switch x := v.(type) {
	case uint32:
		return int(x)
	case int32:
		return int(x)
	case int:
		return x
	case int64:
		return int(x)
	case uint64:
		return int(x)
	}
	return -1
}

// the hook: called under a.mu at the point of decision
func (s *verifC10Sink) emit(ev string, kv ...any) {
	m := map[string]any{}
	for i := 0; i+1 < len(kv); i += 2 {
		if k, ok := kv[i].(string); ok {
			m[k] = kv[i+1]
		}
	}
	inst, _ := m["inst"].(string)
	s.mu.Lock()
	defer s.mu.Unlock()
	r, known := s.repOf[inst]
	if !known {
		return
	}
	switch ev {
	case "GTick":
		s.line(map[string]any{"a": "tick", "r": r, "T": verifC10Int(m["bucket"]), "handoff": true}, "tick")
		return
	case "GFile", "GReject", "GHijack":
	default:
		return
	}
	host, _ := m["host"].(string)
	if !strings.HasPrefix(host, "c10-") { // the aggregators' own agents also send buckets
		return
	}
	if sr, ok := s.probe[host]; ok && ev != "GHijack" {
		// past checkShardConfiguration unless rejected as "wrong-shard"
		s.line(map[string]any{"a": "addr", "sk": 1, "r": r, "sr": sr, "accepted": !(ev == "GReject" && m["why"] == "wrong-shard")}, "addr")
		delete(s.probe, host)
	}
	if _, ok := m["oldest"]; ok {
		ln := map[string]any{"a": "file", "r": r, "s": verifC10Int(m["sec"]), "hist": m["historic"],
			"oldest": verifC10Int(m["oldest"]), "newest": verifC10Int(m["newest"]), "hw": verifC10Int(m["hw"])}
		if ev == "GFile" {
			ln["out"] = map[string]any{"kind": "file", "q": m["queue"], "T": verifC10Int(m["bucket"])}
			s.line(ln, fmt.Sprintf("file/%v", m["queue"]))
		} else if ev == "GReject" {
			ln["out"] = map[string]any{"kind": "reject", "why": m["why"], "discard": m["discard"]}
			s.line(ln, fmt.Sprintf("reject/%v", m["why"]))
		}
	} else {
		s.kinds["other/"+ev]++
	}
	if ch := s.waiters[host]; ch != nil {
		close(ch)
		delete(s.waiters, host)
	}
}

func verifC10FreeAddr() string {
	ln, err := net.Listen("tcp4", "127.0.0.1:0")
	if err != nil {
		panic(err)
	}
	defer ln.Close()
	return ln.Addr().String()
}

func verifC10MakeAggregator(t *testing.T, dir string, chAddr string, inst string, listenAddr string, replica, byMetric int) (*Aggregator, error) {
	_ = os.MkdirAll(dir, 0o755)
	open := func(name string) *os.File {
		f, err := os.OpenFile(filepath.Join(dir, name), os.O_CREATE|os.O_RDWR, 0o666)
		if err != nil {
			t.Fatal(err)
		}
		return f
	}
	mappingsCache, _ := pcache.LoadMappingsCacheFile(open("mappings.cache"), 1<<20, 86400)
	// the aggregator maps its own host name at start; there is no metadata service here
	mappingsCache.AddValues(uint32(time.Now().Unix()), []pcache.MappingPair{{Str: "verif-" + inst, Value: int32(7000 + replica)}})
	mappingsStorage, _ := metajournal.LoadMappingsFiles(context.Background(), []*os.File{open("mappings-v2.cache")}, data_model.JournalDDOSProtectionTimeout, false)
	cfg := DefaultConfigAggregator()
	cfg.Cluster = "verif"
	cfg.KHAddr = chAddr
	cfg.KHUser = inst
	cfg.ShardByMetricShards = byMetric
	cfg.RecentInserters = 2
	cfg.HistoricInserters = 1
	cfg.InsertHistoricWhen = 2
	cfg.DisableRemoteConfig = true
	cfg.AutoCreate = false
	cfg.MetadataAddr = "127.0.0.1:1" // nothing listens: journal loads fail and are retried, irrelevant here
	cfg.RemoteInitial.DenyOldAgents = false
	cfg.RemoteInitial.ReceiveBudgetWarming = 0
	return MakeAggregator(open("journal.cache"), open("journal-compact.cache"), mappingsCache, mappingsStorage, nil, dir,
		listenAddr, "", [][]string{{"127.0.0.0/8"}}, cfg, "verif-"+inst, false)
}

func TestVerifC10Filing(t *testing.T) {
	verifkit.Gate(t)
	res := verifkit.NewResult()
	defer res.Write(t)
	rnd := verifkit.Rand(1001)
	dir := verifkit.TmpDir(t, "c10-filing-")
	p := filepath.Join(dir, "filing.ndjson")
	f, err := os.Create(p)
	if err != nil {
		t.Fatal(err)
	}
	res.Files = append(res.Files, p)
	res.Write(t) // a result exists from now on, whatever happens to the process
	sink := &verifC10Sink{f: f, kinds: map[string]int{}, waiters: map[string]chan struct{}{}, repOf: map[string]int{}, probe: map[string]int{}}
	verifEmitFunc = sink.emit

	// fake ClickHouse: describes the cluster to each aggregator (the production way of finding the own
	// shard and replica: system.clusters, is_local), every insert succeeds.  Replica r of shard sh is
	// host 127.0.0.((sh-1)*3+r), all on one port; hosts of shard 2 do not exist.
	type clusterT struct{ n, replica int }
	var clMu sync.Mutex
	clusterOf := map[string]clusterT{}
	chLn, err := net.Listen("tcp4", "127.0.0.1:0")
	if err != nil {
		t.Fatal(err)
	}
	go func() {
		_ = (&http.Server{Handler: http.HandlerFunc(func(w http.ResponseWriter, r *http.Request) {
			_, _ = io.Copy(io.Discard, r.Body)
			if strings.Contains(r.URL.Query().Get("query"), "system.clusters") {
				clMu.Lock()
				c, ok := clusterOf[r.Header.Get("X-ClickHouse-User")]
				clMu.Unlock()
				if !ok {
					w.WriteHeader(500)
					return
				}
				for sh := 1; sh <= c.n; sh++ {
					for rep := 1; rep <= 3; rep++ {
						local := 0
						if sh == 1 && rep == c.replica {
							local = 1
						}
						fmt.Fprintf(w, "%d\t%d\t%d\t127.0.0.%d\n", sh, rep, local, (sh-1)*3+rep)
					}
				}
				return
			}
			w.WriteHeader(200)
		})}).Serve(chLn)
	}()
	_, port, _ := net.SplitHostPort(verifC10FreeAddr())

	// replica 1 sees one shard, by-metric flag 0; replicas 2 and 3 see a second (absent) shard, with
	// the flag at 1 and at 0: three different (N, S) for the "config" lines
	own := []string{"127.0.0.1:" + port, "127.0.0.2:" + port, "127.0.0.3:" + port}
	type cfgT struct{ n, s int }
	cfgs := []cfgT{{1, 0}, {2, 1}, {2, 0}}
	aggs := make([]*Aggregator, 3)
	for r := 0; r < 3; r++ {
		inst := fmt.Sprintf("r%d", r+1)
		sink.mu.Lock()
		sink.repOf[inst] = r + 1
		sink.mu.Unlock()
		clMu.Lock()
		clusterOf[inst] = clusterT{cfgs[r].n, r + 1}
		clMu.Unlock()
		a, err := verifC10MakeAggregator(t, filepath.Join(dir, inst), chLn.Addr().String(), inst, own[r], r+1, cfgs[r].s)
		if err != nil {
			t.Fatalf("MakeAggregator %s: %v", inst, err)
		}
		if a.withoutCluster || int(a.replicaKey) != r+1 || a.shardKey != 1 {
			t.Fatalf("aggregator %s did not configure itself from the cluster description: %v %d:%d", inst, a.withoutCluster, a.shardKey, a.replicaKey)
		}
		aggs[r] = a
		a.configMu.RLock()
		cc := a.getConfigResult3Locked()
		a.configMu.RUnlock()
		sink.mu.Lock()
		sink.line(map[string]any{"a": "config", "N": len(cc.Addresses) / 3, "S": cfgs[r].s, "eff": int(cc.ShardByMetricCount)}, "config")
		sink.mu.Unlock()
	}
	// more by-metric shards than shards must be refused (Routing.tla: S ranges over 0..N)
	for _, c := range []cfgT{{1, 2}, {2, 3}} {
		inst := fmt.Sprintf("bad%d", c.n)
		clMu.Lock()
		clusterOf[inst] = clusterT{c.n, 1}
		clMu.Unlock()
		a, err := verifC10MakeAggregator(t, filepath.Join(dir, inst), chLn.Addr().String(), inst, "127.0.0.9:"+port, 1, c.s)
		if err == nil {
			a.configMu.RLock()
			cc := a.getConfigResult3Locked()
			a.configMu.RUnlock()
			sink.mu.Lock()
			sink.line(map[string]any{"a": "config", "N": c.n, "S": c.s, "eff": int(cc.ShardByMetricCount)}, "config-accepted-too-many")
			sink.mu.Unlock()
		} else {
			res.Count("config_refused", 1)
		}
	}

	clients := make([]tlstatshouse.Client, 3)
	for r := 0; r < 3; r++ {
		clients[r] = tlstatshouse.Client{
			Client: rpc.NewClient(rpc.ClientWithProtocolVersion(rpc.LatestProtocolVersion), rpc.ClientWithCryptoKey(""),
				rpc.ClientWithTrustedSubnetGroups([][]string{{"127.0.0.0/8"}}), rpc.ClientWithLogf(func(string, ...any) {})),
			Network: "tcp4", Address: own[r]}
	}
	var empty tlstatshouse.SourceBucket3
	originalSize, compressed, err := compress.DeFrame(compress.CompressAndFrame(empty.WriteTL1Boxed(nil)))
	if err != nil {
		t.Fatal(err)
	}
	ctx, cancel := context.WithCancel(context.Background())
	defer cancel()
	nreq := 0
	send := func(r int, sec uint32, historic, spare bool, sr int) {
		nreq++
		host := fmt.Sprintf("c10-%d", nreq)
		done := make(chan struct{})
		sink.mu.Lock()
		sink.waiters[host] = done
		if sr >= 0 {
			sink.probe[host] = sr
		} else {
			sr = r
		}
		sink.mu.Unlock()
		args := tlstatshouse.SendSourceBucket3{Time: sec, BuildCommit: "", BuildCommitTs: format.LeastAllowedAgentCommitTs + 1,
			OriginalSize: originalSize, CompressedData: string(compressed)}
		args.Header = tlstatshouse.CommonProxyHeader{ShardReplica: int32(sr), ShardReplicaTotal: 3, AgentIp: [4]int32{0, 0, 0, 0x7f000001},
			HostName: host, ComponentTag: format.TagValueIDComponentAgent}
		args.SetHistoric(historic)
		args.SetSpare(spare)
		go func() { // accepted requests are answered only after the insert: nobody waits for that
			var resp tlstatshouse.SendSourceBucket3Response
			rctx, rcancel := context.WithTimeout(ctx, 60*time.Second)
			defer rcancel()
			_ = clients[r].SendSourceBucket3(rctx, args, &rpc.InvokeReqExtra{}, &resp)
		}()
		select {
		case <-done:
		case <-time.After(60 * time.Second):
			t.Fatalf("request %s (replica %d sec %d historic %v) was never seen by the handler", host, r+1, sec, historic)
		}
		res.Steps++
	}
	window := func(r int) (oldest, newest uint32) {
		a := aggs[r]
		a.mu.Lock()
		defer a.mu.Unlock()
		return a.recentBuckets[0].time, a.recentBuckets[len(a.recentBuckets)-1].time
	}
	rounds := verifkit.EnvInt("VERIF_C10_ROUNDS", 3)
	seenResidue := map[uint32]bool{}
	last := uint32(0)
	for round := 0; round < rounds || len(seenResidue) < 3; round++ {
		if round > rounds+8 {
			t.Fatalf("window edge residues seen: %v", seenResidue)
		}
		for { // a new second for every round, so that the window edge takes all three residues
			o0, _ := window(0)
			if o0 != last {
				last = o0
				break
			}
			time.Sleep(50 * time.Millisecond)
		}
		seenResidue[last%3] = true
		for r := 0; r < 3; r++ {
			oldest, newest := window(r)
			hw := aggs[r].sh2.HistoricWindow()
			var secs []uint32
			for s := oldest - 5; s <= newest+4; s++ {
				secs = append(secs, s)
			}
			for d := uint32(0); d < 7; d++ { // the far edge of the historic window
				secs = append(secs, oldest-hw-4+d)
			}
			secs = append(secs, oldest-uint32(rnd.Intn(int(hw))), oldest-uint32(rnd.Intn(3600)))
			rnd.Shuffle(len(secs), func(i, j int) { secs[i], secs[j] = secs[j], secs[i] })
			for _, s := range secs {
				send(r, s, false, rnd.Intn(2) == 0, -1)
				send(r, s, true, rnd.Intn(2) == 0, -1)
			}
			for sr := 0; sr < 7; sr++ { // addressing probes: every shard replica index of two shards and one beyond
				send(r, oldest+uint32(rnd.Intn(4)), rnd.Intn(2) == 0, rnd.Intn(2) == 0, sr)
			}
		}
	}
	res.Replayed = nreq
	for i := 0; i < 400; i++ { // at least one hand-off by goTicker (one of the three has an own second every second)
		sink.mu.Lock()
		n := sink.kinds["tick"]
		sink.mu.Unlock()
		if n > 0 {
			break
		}
		time.Sleep(50 * time.Millisecond)
	}
	sink.mu.Lock()
	for k, v := range sink.kinds {
		res.Counters[k] = v
	}
	for _, s := range sink.samples {
		res.Sample(s)
	}
	res.Counters["lines"] = sink.n
	verifEmitFunc = nil
	sink.f.Close()
	sink.mu.Unlock()
	for _, k := range []string{"file/recent", "file/historic", "reject/future", "reject/late", "reject/beyond-window", "tick", "config", "addr"} {
		if res.Counters[k] == 0 {
			t.Fatalf("no %s decision observed: %v", k, res.Counters)
		}
	}
}
