package aggregator

// C01 conformance driver: an in-process cluster built from the real code — three Aggregator
// values (real RPC server, handler, ticker, inserters), one real agent with a disk cache, a fake
// ClickHouse HTTP endpoint that can fail / stall inserts and scans every successful RowBinary
// body for marker rows, and a TCP fault proxy between agent and aggregators.  Hooks in
// internal/agent and internal/aggregator (build tag verif) record the conveyor's decisions;
// specs/ConveyorTrace.tla validates the recorded run.

import (
	"bytes"
	"context"
	"encoding/binary"
	"fmt"
	"io"
	"log"
	"net"
	"net/http"
	"os"
	"path/filepath"
	"strings"
	"sync"
	"sync/atomic"
	"testing"
	"time"

	"github.com/VKCOM/statshouse/internal/agent"
	"github.com/VKCOM/statshouse/internal/data_model"
	"github.com/VKCOM/statshouse/internal/data_model/gen2/tlstatshouse"
	"github.com/VKCOM/statshouse/internal/format"
	"github.com/VKCOM/statshouse/internal/metajournal"
	"github.com/VKCOM/statshouse/internal/pcache"
	"github.com/VKCOM/statshouse/internal/verifkit"
)

const verifC01MarkerMetric = 1000123 // user metric id that exists nowhere else

// ---------------------------------------------------------------- fake ClickHouse
type verifC01CH struct {
	mu      sync.Mutex
	ln      net.Listener
	srv     *http.Server
	mode    map[string]string // per aggregator instance ("r1#0"): ok | fail | stall | dead
	bodies  int
	markers map[int32]int // marker row id -> number of successful inserts containing it
	tr      *verifkit.Trace
	tagHost uint32
	release chan struct{}
	failSeq atomic.Int64
}

// verifC01MarkerIDs finds the marker rows in a RowBinary body.  Row layout (appendKeys):
// index_type(1)=0, metric(4), time(4), then per tag int32 + empty string (1 byte 0):
// tag0 = 0, tag1 = tagHost, tag2 = marker id.
func verifC01MarkerIDs(body []byte, tagHost uint32) []int32 {
	var ids []int32
	prefix := append([]byte{0}, binary.LittleEndian.AppendUint32(nil, uint32(verifC01MarkerMetric))...)
	for off := 0; ; {
		i := bytes.Index(body[off:], prefix)
		if i < 0 {
			break
		}
		p := off + i
		if p+24 <= len(body) {
			q := body[p+9:] // after index_type, metric, time
			if binary.LittleEndian.Uint32(q) == 0 && q[4] == 0 && binary.LittleEndian.Uint32(q[5:]) == tagHost && q[9] == 0 && q[14] == 0 {
				ids = append(ids, int32(binary.LittleEndian.Uint32(q[10:])))
			}
		}
		off = p + 1
	}
	return ids
}

func (c *verifC01CH) handler(w http.ResponseWriter, r *http.Request) {
	inst := r.Header.Get("X-ClickHouse-User") // instance name is passed as the user
	body, _ := io.ReadAll(r.Body)
	if !strings.Contains(r.URL.Query().Get("query"), "statshouse_v3_incoming") {
		w.WriteHeader(200) // internal log etc.: not a metrics insert
		return
	}
	c.mu.Lock()
	mode := c.mode[inst]
	rel := c.release
	c.mu.Unlock()
	if mode == "stall" {
		<-rel
		c.mu.Lock()
		mode = c.mode[inst]
		c.mu.Unlock()
	}
	if mode == "fail" || mode == "dead" || mode == "stall" {
		// insert failures come in several flavours: a ClickHouse exception (500 + exception
		// header), and failures that never reached ClickHouse's exception path (a proxy's 502/503/504,
		// a plain 500 while the server restarts) which carry no exception header
		switch c.failSeq.Add(1) % 4 {
		case 0:
			w.Header().Set("X-ClickHouse-Exception-Code", "241")
			w.WriteHeader(500)
		case 1:
			w.WriteHeader(503)
		case 2:
			w.WriteHeader(502)
		default:
			w.WriteHeader(500)
		}
		_, _ = w.Write([]byte("simulated insert failure"))
		return
	}
	// successful insert: find marker rows
	ids := verifC01MarkerIDs(body, c.tagHost)
	c.mu.Lock()
	c.bodies++
	for _, s := range ids {
		c.markers[s]++
	}
	// the event is emitted under c.mu *before* the HTTP response is written, i.e. before the
	// inserter can acknowledge anything: file order is a valid linearization
	c.tr.Emit("Stored", "inst", inst, "ids", verifC01I32s(ids))
	c.mu.Unlock()
	w.WriteHeader(200)
}

func verifC01U32s(x []uint32) []uint32 {
	if x == nil {
		return []uint32{}
	}
	return x
}

func verifC01I32s(x []int32) []int32 {
	if x == nil {
		return []int32{}
	}
	return x
}

// ---------------------------------------------------------------- TCP fault proxy
type verifC01Proxy struct {
	ln     net.Listener
	target string
	mu     sync.Mutex
	mode   string // pass | blackhole (accept, forward nothing) | refuse
	conns  map[net.Conn]struct{}
	dropResp atomic.Bool // forward requests but swallow responses
	delayReq atomic.Int64 // nanoseconds to hold back every request chunk (late arrival at the aggregator)
}

func verifC01NewProxy(target string) *verifC01Proxy {
	ln, err := net.Listen("tcp4", "127.0.0.1:0")
	if err != nil {
		panic(err)
	}
	p := &verifC01Proxy{ln: ln, target: target, mode: "pass", conns: map[net.Conn]struct{}{}}
	go p.run()
	return p
}

func (p *verifC01Proxy) addr() string { return p.ln.Addr().String() }

func (p *verifC01Proxy) run() {
	for {
		c, err := p.ln.Accept()
		if err != nil {
			return
		}
		p.mu.Lock()
		mode := p.mode
		p.mu.Unlock()
		if mode == "refuse" {
			_ = c.Close()
			continue
		}
		u, err := net.Dial("tcp4", p.target)
		if err != nil {
			_ = c.Close()
			continue
		}
		p.mu.Lock()
		p.conns[c] = struct{}{}
		p.conns[u] = struct{}{}
		p.mu.Unlock()
		go p.pipe(c, u, false)
		go p.pipe(u, c, true)
	}
}

func (p *verifC01Proxy) pipe(src, dst net.Conn, isResp bool) {
	buf := make([]byte, 64<<10)
	for {
		n, err := src.Read(buf)
		if n > 0 {
			if isResp && p.dropResp.Load() {
				// swallow the response and kill the connection: the request was processed,
				// the agent never learns the outcome
				break
			}
			if d := p.delayReq.Load(); !isResp && d > 0 {
				time.Sleep(time.Duration(d))
			}
			if _, werr := dst.Write(buf[:n]); werr != nil {
				break
			}
		}
		if err != nil {
			break
		}
	}
	_ = src.Close()
	_ = dst.Close()
	p.mu.Lock()
	delete(p.conns, src)
	delete(p.conns, dst)
	p.mu.Unlock()
}

func (p *verifC01Proxy) setMode(m string) {
	p.mu.Lock()
	p.mode = m
	p.mu.Unlock()
}

func (p *verifC01Proxy) resetAll() {
	p.mu.Lock()
	for c := range p.conns {
		_ = c.Close()
	}
	p.mu.Unlock()
}

// ---------------------------------------------------------------- cluster
type verifC01Cluster struct {
	t        *testing.T
	dir      string
	ch       *verifC01CH
	addrs    [3]string
	aggs     [3]*Aggregator
	gen      [3]int
	proxies  [3]*verifC01Proxy
	tr       *verifkit.Trace
	agent    *agent.Agent
	hostTag  int32
	marker   *format.MetricMetaValue
	mu       sync.Mutex
	produced map[int32]bool // marker ids the agent reported in a flushed bucket (hook APrep)
	marking  atomic.Bool
	nextID   atomic.Int32
	agentGen int
}

func verifC01FreeAddr() string {
	ln, err := net.Listen("tcp4", "127.0.0.1:0")
	if err != nil {
		panic(err)
	}
	defer ln.Close()
	return ln.Addr().String()
}

func (cl *verifC01Cluster) instName(r int) string { return fmt.Sprintf("r%d#%d", r+1, cl.gen[r]) }

func (cl *verifC01Cluster) startAggregator(r int) {
	dir := filepath.Join(cl.dir, fmt.Sprintf("agg%d-%d", r+1, cl.gen[r]))
	_ = os.MkdirAll(dir, 0o755)
	open := func(name string) *os.File {
		f, err := os.OpenFile(filepath.Join(dir, name), os.O_CREATE|os.O_RDWR, 0o666)
		if err != nil {
			cl.t.Fatal(err)
		}
		return f
	}
	mappingsCache, _ := pcache.LoadMappingsCacheFile(open("mappings.cache"), 1<<20, 86400)
	host := fmt.Sprintf("verif-agg-%d", r+1)
	now := uint32(time.Now().Unix())
	mappingsCache.AddValues(now, []pcache.MappingPair{{Str: host, Value: int32(7000 + r)}, {Str: "verif-agent", Value: cl.hostTag}})
	mappingsStorage, _ := metajournal.LoadMappingsFiles(context.Background(), []*os.File{open("mappings-v2.cache")}, data_model.JournalDDOSProtectionTimeout, false)
	cfg := DefaultConfigAggregator()
	cfg.Cluster = "verif"
	cfg.KHAddr = cl.ch.ln.Addr().String()
	cfg.KHUser = cl.instName(r)
	cfg.LocalReplica = r + 1
	cfg.LocalShard = 1
	cfg.RecentInserters = verifkit.EnvInt("VERIF_C01_INSERTERS", 2)
	cfg.HistoricInserters = 1
	cfg.InsertHistoricWhen = 2
	cfg.DisableRemoteConfig = true
	cfg.AutoCreate = false
	cfg.MetadataAddr = "127.0.0.1:1" // nothing listens: journal loads fail and are retried, irrelevant here
	cfg.RemoteInitial.DenyOldAgents = false
	cfg.RemoteInitial.ReceiveBudgetWarming = 0
	cl.ch.mu.Lock()
	cl.ch.mode[cl.instName(r)] = "ok"
	cl.ch.mu.Unlock()
	a, err := MakeAggregator(open("journal.cache"), open("journal-compact.cache"), mappingsCache, mappingsStorage, nil, dir,
		cl.addrs[0]+","+cl.addrs[1]+","+cl.addrs[2], "", [][]string{{"127.0.0.0/8"}}, cfg, host, false)
	if err != nil {
		cl.t.Fatalf("MakeAggregator replica %d: %v", r+1, err)
	}
	cl.aggs[r] = a
	cl.tr.Emit("AggStart", "inst", cl.instName(r), "rep", r+1)
}

// verifC01Install routes hook events of the agent under test (and of the aggregators, as far as
// they concern that agent) into the trace.  Events of the aggregators' built-in agents are dropped.
var verifC01CurHost atomic.Value // host name of the live agent instance under test

func verifC01Install(tr *verifkit.Trace, onPrep func(ids []int32)) {
	agent.VerifMarkerMetric = verifC01MarkerMetric
	verifC01CurHost.Store("verif-agent")
	emit := func(ev string, kv ...any) {
		for i := 0; i+1 < len(kv); i += 2 {
			if kv[i] == "host" {
				h, _ := kv[i+1].(string)
				if !strings.HasPrefix(h, "verif-agent") {
					return // built-in agents of the aggregators
				}
				if ev[0] == 'A' && h != verifC01CurHost.Load().(string) {
					return // leftovers of an agent instance that has "exited"
				}
			}
		}
		if ev == "APrep" && onPrep != nil {
			for i := 0; i+1 < len(kv); i += 2 {
				if kv[i] == "markers" {
					onPrep(kv[i+1].([]int32))
				}
			}
		}
		tr.Emit(ev, kv...)
	}
	agent.VerifEmit = emit
	verifEmitFunc = emit
}


func verifC01NewCluster(t *testing.T, tr *verifkit.Trace) *verifC01Cluster {
	cl := &verifC01Cluster{t: t, dir: verifkit.TmpDir(t, "c01-"), tr: tr, hostTag: 4242, produced: map[int32]bool{}}
	ln, err := net.Listen("tcp4", "127.0.0.1:0")
	if err != nil {
		t.Fatal(err)
	}
	cl.ch = &verifC01CH{ln: ln, mode: map[string]string{}, markers: map[int32]int{}, tr: tr, tagHost: 77, release: make(chan struct{})}
	cl.ch.srv = &http.Server{Handler: http.HandlerFunc(cl.ch.handler)}
	go func() { _ = cl.ch.srv.Serve(ln) }()
	for r := 0; r < 3; r++ {
		cl.addrs[r] = verifC01FreeAddr()
	}
	for r := 0; r < 3; r++ {
		cl.startAggregator(r)
		cl.proxies[r] = verifC01NewProxy(cl.addrs[r])
	}
	return cl
}

// graceful agent restart: the shutdown sequence of cmd/statshouse, "process exit", then a new
// agent instance on the same cache directory
func (cl *verifC01Cluster) restartAgent() {
	old := cl.agent
	cl.tr.Emit("Fault", "kind", "agent-restart-graceful", "inst", "")
	old.DisableNewSends()
	old.WaitRecentSenders(time.Second * data_model.InsertDelay)
	old.ShutdownFlusher()
	old.WaitFlusher()
	old.FlushAllData()
	old.WaitPreprocessor()
	cl.agentGen++
	verifC01CurHost.Store(fmt.Sprintf("verif-agent-%d", cl.agentGen)) // mutes the old instance's hooks
	old.VerifExit()
	cl.tr.Emit("AgentRestart")
	// a new agent starts flushing at now-2: wait so that it does not produce a second bucket for
	// seconds the old instance already flushed (the spec identifies a bucket by its second)
	time.Sleep(3200 * time.Millisecond)
	cl.startAgent(3600)
}

func (cl *verifC01Cluster) startAgent(historicWindow int) {
	agentDir := filepath.Join(cl.dir, "agent")
	_ = os.MkdirAll(agentDir, 0o755)
	acfg := agent.DefaultConfig()
	acfg.Cluster = "verif"
	acfg.HistoricWindow = uint(historicWindow)
	mc, _ := pcache.LoadMappingsCacheSlice(new([]byte), 1<<20)
	gcr := tlstatshouse.GetConfigResult3{Addresses: []string{cl.proxies[0].addr(), cl.proxies[1].addr(), cl.proxies[2].addr()}, ShardByMetricCount: 1}
	cl.marker = &format.MetricMetaValue{MetricID: verifC01MarkerMetric, Name: "verif_marker", EffectiveResolution: 1, Resolution: 1, EffectiveWeight: 1, Weight: 1}
	_ = cl.marker.RestoreCachedInfo()
	// The marker row of second T is added from the flusher's before-flush callback: it runs
	// before bucket T is flushed, so bucket T (and only it) carries a row with time = T.
	mark := func(a *agent.Agent, nowUnix uint32) {
		if !cl.marking.Load() {
			return
		}
		id := cl.nextID.Add(1)
		cl.tr.Emit("MarkTry", "sec", nowUnix, "id", id)
		a.AddCounter(nowUnix, cl.marker, []int32{0, 77, id}, 1)
	}
	ag, err := agent.MakeAgent("tcp4", agentDir, "", [][]string{{"127.0.0.0/8"}}, acfg, verifC01CurHost.Load().(string), format.TagValueIDComponentAgent,
		nil, mc, nil, nil, func(string, ...interface{}) {}, mark, &gcr, nil)
	if err != nil {
		cl.t.Fatal(err)
	}
	cl.agent = ag
	cl.marking.Store(true)
	ag.Run(0, 0, 0)
}

// graceful restart of replica r: the real shutdown sequence of cmd/statshouse-agg, then a new
// instance on the same address.
func (cl *verifC01Cluster) restartGraceful(r int) {
	old := cl.aggs[r]
	cl.tr.Emit("Fault", "kind", "restart-graceful", "inst", cl.instName(r))
	old.DisableNewInsert()
	old.WaitInsertsFinish(20 * time.Second)
	old.ShutdownRPCServer()
	old.WaitRPCServer(5 * time.Second)
	_ = old.server.Close()
	cl.tr.Emit("AggStop", "inst", cl.instName(r))
	cl.gen[r]++
	cl.startAggregator(r)
}

// crash-like restart: connections and in-memory buckets vanish, nothing more reaches storage
func (cl *verifC01Cluster) restartCrash(r int) {
	old := cl.aggs[r]
	cl.tr.Emit("Fault", "kind", "restart-crash", "inst", cl.instName(r))
	cl.ch.mu.Lock()
	cl.ch.mode[cl.instName(r)] = "dead"
	cl.ch.mu.Unlock()
	_ = old.server.Close()
	cl.tr.Emit("AggStop", "inst", cl.instName(r))
	cl.gen[r]++
	cl.startAggregator(r)
}

func (cl *verifC01Cluster) setCH(r int, mode string) {
	cl.tr.Emit("Fault", "kind", "storage-"+mode, "inst", cl.instName(r))
	cl.ch.mu.Lock()
	cl.ch.mode[cl.instName(r)] = mode
	cl.ch.mu.Unlock()
}

// storage stalls: every insert request hangs until released (inserters stay busy, the ticker finds
// the insert conveyor full and answers "keep" to the waiting long polls)
func (cl *verifC01Cluster) stallStorage(on bool) {
	cl.tr.Emit("Fault", "kind", map[bool]string{true: "storage-stall-on", false: "storage-stall-off"}[on], "inst", "")
	cl.ch.mu.Lock()
	for k := range cl.ch.mode {
		if on && cl.ch.mode[k] == "ok" {
			cl.ch.mode[k] = "stall"
		} else if !on && cl.ch.mode[k] == "stall" {
			cl.ch.mode[k] = "ok"
		}
	}
	if !on {
		close(cl.ch.release)
		cl.ch.release = make(chan struct{})
	}
	cl.ch.mu.Unlock()
}

func (cl *verifC01Cluster) missing() []int32 {
	cl.mu.Lock()
	defer cl.mu.Unlock()
	cl.ch.mu.Lock()
	defer cl.ch.mu.Unlock()
	var res []int32
	for s := range cl.produced {
		if cl.ch.markers[s] == 0 {
			res = append(res, s)
		}
	}
	return res
}

type verifC01Step struct {
	at   float64 // seconds from start
	what string
	r    int
}

// scenarios: fault schedules in terms of the property's fault list (insert failures, lost
// responses, aggregator restarts, replica failover), derived from the seed
func verifC01Scenario(name string, rnd interface{ Intn(int) int }, length int) []verifC01Step {
	var st []verifC01Step
	add := func(at float64, what string, r int) { st = append(st, verifC01Step{at, what, r}) }
	switch name {
	case "calm":
	case "conveyor-full": // storage hangs with a single inserter per aggregator: the insert conveyor fills up
		add(4, "stall-on", 0)
		add(16, "stall-off", 0)
	case "agent-restart": // long outage of every replica, graceful agent restart in the middle of it
		for q := 0; q < 3; q++ {
			add(3, "refuse-on", q)
			add(float64(length)-4, "refuse-off", q)
		}
		add(float64(length)-10, "agent-restart", 0)
	case "scripted": // one of each, fixed positions
		add(3, "storage-fail", 0)
		add(3, "storage-fail", 1)
		add(3, "storage-fail", 2)
		add(7, "storage-ok", 0)
		add(7, "storage-ok", 1)
		add(7, "storage-ok", 2)
		add(9, "dropresp-on", 1)
		add(12, "dropresp-off", 1)
		add(14, "restart-graceful", 2)
		add(17, "delay-on", 0)
		add(19, "delay-off", 0)
		add(20, "refuse-on", 2)
		add(27, "refuse-off", 2)
	default: // random
		t := 2.0
		for t < float64(length)-2 {
			r := rnd.Intn(3)
			d := float64(1 + rnd.Intn(5))
			switch rnd.Intn(8) {
			case 7:
				add(t, "delay-on", r)
				add(t+2, "delay-off", r)
			case 0:
				add(t, "storage-fail", r)
				add(t+d, "storage-ok", r)
			case 1:
				add(t, "dropresp-on", r)
				add(t+d, "dropresp-off", r)
			case 2:
				add(t, "reset", r)
			case 3:
				add(t, "refuse-on", r)
				add(t+d+3, "refuse-off", r)
			case 4:
				add(t, "restart-graceful", r)
			case 5:
				add(t, "restart-crash", r)
			case 6:
				for q := 0; q < 3; q++ {
					add(t, "storage-fail", q)
					add(t+d, "storage-ok", q)
				}
			}
			t += float64(1 + rnd.Intn(4))
		}
	}
	return st
}

func TestVerifC01(t *testing.T) {
	verifkit.Gate(t)
	log.SetOutput(io.Discard)
	res := verifkit.NewResult()
	defer res.Write(t)
	tr := verifkit.NewTrace()
	var cl *verifC01Cluster
	var early []int32
	var emu sync.Mutex
	verifC01Install(tr, func(ids []int32) {
		emu.Lock()
		defer emu.Unlock()
		if cl == nil {
			early = append(early, ids...)
			return
		}
		cl.mu.Lock()
		for _, id := range ids {
			cl.produced[id] = true
		}
		cl.mu.Unlock()
	})
	c0 := verifC01NewCluster(t, tr)
	emu.Lock()
	cl = c0
	emu.Unlock()
	scen := os.Getenv("VERIF_C01_SCENARIO")
	if scen == "" {
		scen = "scripted"
	}
	length := verifkit.EnvInt("VERIF_C01_SECONDS", 26)
	steps := verifC01Scenario(scen, verifkit.Rand(int64(verifkit.EnvInt("VERIF_C01_SALT", 0))), length)
	// stable order by time
	for i := 1; i < len(steps); i++ {
		for j := i; j > 0 && steps[j].at < steps[j-1].at; j-- {
			steps[j], steps[j-1] = steps[j-1], steps[j]
		}
	}
	cl.startAgent(3600)
	start := time.Now()
	for _, st := range steps {
		if d := time.Duration(st.at*float64(time.Second)) - time.Since(start); d > 0 {
			time.Sleep(d)
		}
		res.Seen(st.what)
		switch st.what {
		case "storage-fail":
			cl.setCH(st.r, "fail")
		case "storage-ok":
			cl.setCH(st.r, "ok")
		case "dropresp-on":
			tr.Emit("Fault", "kind", "drop-responses-on", "inst", cl.instName(st.r))
			cl.proxies[st.r].dropResp.Store(true)
		case "dropresp-off":
			tr.Emit("Fault", "kind", "drop-responses-off", "inst", cl.instName(st.r))
			cl.proxies[st.r].dropResp.Store(false)
		case "delay-on":
			tr.Emit("Fault", "kind", "delay-requests-on", "inst", cl.instName(st.r))
			cl.proxies[st.r].delayReq.Store(int64(7 * time.Second))
		case "delay-off":
			tr.Emit("Fault", "kind", "delay-requests-off", "inst", cl.instName(st.r))
			cl.proxies[st.r].delayReq.Store(0)
		case "reset":
			tr.Emit("Fault", "kind", "reset-connections", "inst", cl.instName(st.r))
			cl.proxies[st.r].resetAll()
		case "refuse-on":
			tr.Emit("Fault", "kind", "replica-unreachable-on", "inst", cl.instName(st.r))
			cl.proxies[st.r].setMode("refuse")
			cl.proxies[st.r].resetAll()
		case "refuse-off":
			tr.Emit("Fault", "kind", "replica-unreachable-off", "inst", cl.instName(st.r))
			cl.proxies[st.r].setMode("pass")
		case "stall-on":
			cl.stallStorage(true)
		case "stall-off":
			cl.stallStorage(false)
		case "agent-restart":
			cl.restartAgent()
		case "restart-graceful":
			cl.restartGraceful(st.r)
		case "restart-crash":
			cl.restartCrash(st.r)
		}
		res.Steps++
	}
	if d := time.Duration(length)*time.Second - time.Since(start); d > 0 {
		time.Sleep(d)
	}
	// heal everything, stop marking new seconds, let the conveyor drain
	cl.marking.Store(false)
	for r := 0; r < 3; r++ {
		cl.proxies[r].dropResp.Store(false)
		cl.proxies[r].delayReq.Store(0)
		cl.proxies[r].setMode("pass")
		cl.setCH(r, "ok")
	}
	cl.stallStorage(false)
	tr.Emit("Fault", "kind", "all-healed", "inst", "")
	deadline := time.Now().Add(time.Duration(verifkit.EnvInt("VERIF_C01_DRAIN", 120)) * time.Second)
	time.Sleep(3 * time.Second)
	for len(cl.missing()) != 0 && time.Now().Before(deadline) {
		time.Sleep(500 * time.Millisecond)
	}
	time.Sleep(time.Second)
	missing := cl.missing()
	tr.Emit("Quiesce", "missing", verifC01I32s(missing))
	cl.mu.Lock()
	res.Counters["produced"] = len(cl.produced)
	cl.mu.Unlock()
	cl.ch.mu.Lock()
	res.Counters["bodies"] = cl.ch.bodies
	res.Counters["markers_stored"] = len(cl.ch.markers)
	cl.ch.mu.Unlock()
	res.Counters["missing"] = len(missing)
	res.Counters["events"] = tr.Len()
	res.Replayed = 1
	p := filepath.Join(cl.dir, "trace.ndjson")
	if err := tr.WriteFile(p); err != nil {
		t.Fatal(err)
	}
	res.Files = append(res.Files, p)
	for _, st := range steps {
		res.Sample(fmt.Sprintf("%.0fs %s r%d", st.at, st.what, st.r+1))
	}
}
