package aggregator

// C06 at the aggregator call site: Aggregator.calcHostMetricBudgets (quota mode of the sampler).
// Budgets handed back to hosts must be the proportional share of what the host reported
// (floor(share*size/sumSize) inside a metric over its budget, the reported size for a metric
// within its share) and, before the "good metric" doubling applied by the call site, sum to
// at most the receive budget.

import (
	"fmt"
	"sort"
	"testing"
	"time"

	"pgregory.net/rand"

	"github.com/VKCOM/statshouse/internal/agent"
	"github.com/VKCOM/statshouse/internal/data_model"
	"github.com/VKCOM/statshouse/internal/data_model/gen2/tlmetadata"
	"github.com/VKCOM/statshouse/internal/data_model/gen2/tlstatshouse"
	"github.com/VKCOM/statshouse/internal/format"
	"github.com/VKCOM/statshouse/internal/metajournal"
	"github.com/VKCOM/statshouse/internal/pcache"
	"github.com/VKCOM/statshouse/internal/verifkit"
)

const verifC06SigAgg = "aggregator: host metric budgets not proportional or above the receive budget"

func TestVerifC06HostBudgets(t *testing.T) {
	verifkit.Gate(t)
	res := verifkit.NewResult()
	defer res.Write(t)
	rnd := rand.New(uint64(verifkit.Seed()) + 31)
	n := verifkit.EnvInt("VERIF_N", 300)
	fail := func(c any, format string, a ...any) {
		res.Mismatch(verifkit.Mismatch{Beh: c, Want: verifC06SigAgg, Got: fmt.Sprintf(format, a...), Sig: verifC06SigAgg})
	}
	// metric storage with a few weighted metrics (flat hierarchy: default namespace and group)
	ms := metajournal.MakeMetricsStorage(nil)
	weights := map[int32]int64{}
	var events []tlmetadata.Event
	for m := int32(1); m <= 4; m++ {
		w := int(m)
		events = append(events, tlmetadata.Event{Id: int64(m), Name: fmt.Sprintf("verif_c06_m%d", m), EventType: format.MetricEvent, Version: int64(m),
			Data: fmt.Sprintf(`{"name":"verif_c06_m%d","kind":"counter","weight":%d,"visible":true}`, m, w)})
	}
	ms.ApplyEvent(events)
	for m := int32(1); m <= 12; m++ {
		weights[m] = 1
		if mv := ms.GetMetaMetric(m); mv != nil {
			weights[m] = mv.EffectiveWeight
		}
	}
	res.Consts["weights"] = fmt.Sprint(weights)
	mc, _ := pcache.LoadMappingsCacheSlice(new([]byte), 1<<20)
	gcr := tlstatshouse.GetConfigResult3{Addresses: []string{"127.0.0.1:1", "127.0.0.1:2", "127.0.0.1:3"}, ShardByMetricCount: 1}
	acfg := agent.DefaultConfig()
	acfg.Cluster = "verif"
	sh2, err := agent.MakeAgent("tcp4", verifkit.TmpDir(t, "c06agent-"), "", [][]string{{"127.0.0.0/8"}}, acfg, "verif-c06", format.TagValueIDComponentAggregator,
		ms, mc, nil, nil, func(string, ...interface{}) {}, nil, &gcr, nil)
	if err != nil {
		t.Fatal(err)
	}
	for iter := 0; iter < n; iter++ {
		a := &Aggregator{sh2: sh2, metricStorage: ms, startTimestamp: 1,
			orgMetricSize: data_model.NewExpDecayMetrics(time.Hour)}
		b := &aggregatorBucket{time: uint32(time.Now().Unix()), originalMetricSize: map[int32]map[data_model.TagUnion]uint32{}}
		nMetrics := 1 + rnd.Intn(6)
		unit := []int{1, 7, 40}[rnd.Intn(3)]
		var total int64
		for k := 0; k < nMetrics; k++ {
			m := int32(1 + rnd.Intn(12))
			hosts := map[data_model.TagUnion]uint32{}
			for h, nh := 0, 1+rnd.Intn(5); h < nh; h++ {
				host := data_model.TagUnion{I: int32(100 + h)}
				if rnd.Intn(4) == 0 {
					host = data_model.TagUnion{S: fmt.Sprintf("host%d", h)}
				}
				hosts[host] = uint32(unit * (1 + rnd.Intn(20)))
			}
			if old, ok := b.originalMetricSize[m]; ok {
				for _, s := range old {
					total -= int64(s)
				}
			}
			b.originalMetricSize[m] = hosts
			for _, s := range hosts {
				total += int64(s)
			}
		}
		cfg := ConfigAggregatorRemote{SampleNamespaces: rnd.Intn(2) == 0, SampleGroups: rnd.Intn(2) == 0}
		switch rnd.Intn(4) {
		case 0:
			cfg.ReceiveSampleBudget = int(total + rnd.Int63n(total+1))
		case 1:
			cfg.ReceiveSampleBudget = int(rnd.Int63n(int64(unit) + 2))
		default:
			cfg.ReceiveSampleBudget = int(1 + rnd.Int63n(total))
		}
		B := int64(cfg.ReceiveSampleBudget)
		sizes := map[int32]map[data_model.TagUnion]uint32{}
		for m, hs := range b.originalMetricSize {
			sizes[m] = map[data_model.TagUnion]uint32{}
			for h, s := range hs {
				sizes[m][h] = s
			}
		}
		desc := map[string]any{"iter": iter, "budget": B, "sizes": fmt.Sprint(sizes), "ns": cfg.SampleNamespaces, "grp": cfg.SampleGroups}
		out := map[data_model.TagUnion][]tlstatshouse.MetricBudget{}
		func() {
			defer func() {
				if p := recover(); p != nil {
					fail(desc, "panic: %v", p)
				}
			}()
			a.calcHostMetricBudgets(cfg, b, out)
		}()
		// undo the call site's doubling of budgets that cover the reported size
		pre := map[int32]map[data_model.TagUnion]int64{}
		var sum int64
		for host, list := range out {
			for _, mb := range list {
				orig, ok := sizes[mb.MetricId][host]
				if !ok {
					fail(desc, "budget for metric %d host %v that reported nothing", mb.MetricId, host)
					continue
				}
				q := int64(mb.Budget)
				if q%2 == 0 && q/2 >= int64(orig) {
					q /= 2
				}
				if pre[mb.MetricId] == nil {
					pre[mb.MetricId] = map[data_model.TagUnion]int64{}
				}
				if _, dup := pre[mb.MetricId][host]; dup {
					fail(desc, "two budgets for metric %d host %v", mb.MetricId, host)
				}
				pre[mb.MetricId][host] = q
				sum += q
			}
		}
		// with namespace / group levels the call site rounds every level's share randomly (floor or
		// floor+1): each of the at most 2 namespaces + 2 groups here may add less than one byte
		slack := int64(0)
		if cfg.SampleNamespaces || cfg.SampleGroups {
			slack = 4
		}
		if sum > max(B, 0)+slack {
			fail(desc, "budgets handed back sum to %d, receive budget is %d", sum, B)
		}
		if total <= B {
			for m, hs := range sizes {
				for h, s := range hs {
					if pre[m][h] != int64(s) {
						fail(desc, "everything fits (%d <= %d) but metric %d host %v reported %d got %d", total, B, m, h, s, pre[m][h])
					}
				}
			}
		}
		ids := make([]int, 0, len(sizes))
		for m := range sizes {
			ids = append(ids, int(m))
		}
		sort.Ints(ids)
		var W int64
		for _, m := range ids {
			W += weights[int32(m)]
		}
		for _, mi := range ids {
			m := int32(mi)
			hs := sizes[m]
			var msize int64
			full := true
			for h, s := range hs {
				msize += int64(s)
				full = full && pre[m][h] == int64(s)
			}
			// a metric within its weight-proportional share of the whole budget gets what it reported
			// (flat hierarchy only: with namespaces / groups the share is the nested one the model defines)
			if !cfg.SampleNamespaces && !cfg.SampleGroups && msize*W <= B*weights[m] && !full {
				fail(desc, "metric %d (size %d weight %d of %d) is within its share of %d but got %v", m, msize, weights[m], W, B, pre[m])
			}
			if full {
				continue
			}
			// floor-proportional inside a metric over its share: q_i = floor(S*s_i/msize) for one S
			for h1, s1 := range hs {
				for h2, s2 := range hs {
					q1, q2 := pre[m][h1], pre[m][h2]
					if q1 > int64(s1) {
						fail(desc, "metric %d host %v reported %d got %d", m, h1, s1, q1)
					}
					if q1*int64(s2) >= (q2+1)*int64(s1) && s1 != s2 {
						fail(desc, "metric %d not proportional: host %v size %d quota %d, host %v size %d quota %d", m, h1, s1, q1, h2, s2, q2)
					}
				}
			}
		}
		res.Replayed++
		res.Steps += len(out)
		res.Seen(fmt.Sprint(len(ids), total <= B, cfg.SampleNamespaces, cfg.SampleGroups))
		res.Sample(desc)
	}
}
