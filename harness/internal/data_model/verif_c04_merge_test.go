package data_model

// C04 conformance driver for value aggregates (S->I).  Every behaviour exported by TLC from
// specs/RowMerge.tla - a multiset of contributions and a sequence of Merge(i, j) steps, i.e. one
// order and one binary tree - is replayed on the real MultiValue.Merge, ItemValue.Merge and
// ItemCounter.Merge / AddCounterHost.  After every merge the real result is compared with the
// specification's: count, min, max, sum, sum of squares and the unique set exactly, the reported
// hosts by membership in the sets of hosts that contributed (the max-count host is random in the
// code; its concrete value is then taken from the specification so that both continue from the
// same state).

import (
	"fmt"
	"testing"

	"pgregory.net/rand"

	"github.com/VKCOM/statshouse/internal/verifkit"
)

type verifC04Case struct {
	Perc   bool     `json:"perc"`
	Leaves []int    `json:"leaves"`
	Merges [][2]int `json:"merges"`
	Round  int      `json:"round"`
}

type verifC04Elem struct {
	mv   *MultiValue
	iv   ItemValue
	ic   ItemCounter
	leaf *verifCxShape // non-nil while the element is a single contribution
}

func verifC04Remove(s []*verifC04Elem, j int) []*verifC04Elem {
	return append(s[:j:j], s[j+1:]...)
}

func TestVerifC04Merge(t *testing.T) {
	verifkit.Gate(t)
	res := verifkit.NewResult()
	defer res.Write(t)
	den := verifkit.EnvInt("VERIF_DEN", 6)
	rounds := verifkit.EnvInt("VERIF_ROUNDS", 2)
	behs := verifkit.LoadBehaviours(t)
	if len(behs) == 0 || behs[0][0].Act() != "Tables" {
		t.Fatalf("first input line must be the tables")
	}
	shapes, err := verifCxShapes(behs[0][0])
	if err != nil {
		t.Fatal(err)
	}
	rng := rand.New(uint64(verifkit.Seed()) + 4)
	for bi, b := range behs[1:] {
		if b[0].Act() != "Init" {
			t.Fatalf("behaviour %d: unexpected shape", bi)
		}
		perc := b[0].Bool("perc")
		for round := 0; round < rounds; round++ {
			cs := verifC04Case{Perc: perc, Round: round}
			var pool []*verifC04Elem
			failed := false
			for si, st := range b[1:] {
				if failed {
					break
				}
				switch st.Act() {
				case "Leaf":
					e := shapes[st.Int("s")]
					cs.Leaves = append(cs.Leaves, e.ID)
					mv := &MultiValue{}
					verifCxApply(rng, mv, e, perc)
					pool = append(pool, &verifC04Elem{mv: mv, iv: mv.Value, ic: mv.Value.ItemCounter, leaf: e})
				case "Merge":
					i, j := st.Int("i")-1, st.Int("j")-1
					cs.Merges = append(cs.Merges, [2]int{i + 1, j + 1})
					var post verifCxMV
					if err := verifCxDecode(st["post"], &post); err != nil {
						t.Fatal(err)
					}
					a, o := pool[i], pool[j]
					// --- the three real merges
					a.mv.Merge(rng, o.mv)
					a.iv.Merge(rng, &o.iv)
					if o.leaf != nil { // a single contribution is added the way events are
						a.ic.AddCounterHost(rng, o.ic.Count(), o.ic.MaxCounterHostTag)
					} else {
						a.ic.Merge(rng, o.ic)
					}
					a.leaf = nil
					res.Steps++
					// --- compare
					g := verifCxProject(a.mv)
					giv := verifCxProject(&MultiValue{Value: a.iv})
					gic := verifCxProject(&MultiValue{Value: ItemValue{ItemCounter: a.ic}})
					report := func(what string, got any, fields []string, sig string) {
						res.Mismatch(verifkit.Mismatch{Beh: cs, Step: si + 1, Want: post, Got: got, Sig: sig,
							Note: fmt.Sprintf("%s after merge %d<-%d: %v", what, i+1, j+1, fields)})
						failed = true
					}
					if bad := verifCxCompare(&g, &post, den, "none", false); len(bad) != 0 {
						report("MultiValue.Merge", g, bad, "merge-"+bad[0])
					} else if bad := verifCxCompare(&g, &post, den, "adm", false); len(bad) != 0 {
						report("MultiValue.Merge", g, bad, "merge-host-not-a-contributor")
					}
					postIV := post
					postIV.Uniq = nil
					if bad := verifCxCompare(&giv, &postIV, den, "none", false); !failed && len(bad) != 0 {
						report("ItemValue.Merge", giv, bad, "merge-"+bad[0])
					} else if bad := verifCxCompare(&giv, &postIV, den, "adm", false); !failed && len(bad) != 0 {
						report("ItemValue.Merge", giv, bad, "merge-host-not-a-contributor")
					}
					if !failed && gic.Cnt != float64(post.Cnt) {
						report("ItemCounter.Merge", gic, []string{"count"}, "merge-count")
					} else if !failed && post.Cnt > 0 && !verifCxIn(gic.CntH, post.ACnt) {
						report("ItemCounter.Merge", gic, []string{"maxCountHost"}, "merge-host-not-a-contributor")
					}
					if g.CntH != post.CntH {
						res.Seen("random-host-differs-from-spec-choice")
					}
					// --- continue from the specification's concrete choice of hosts
					a.mv.Value.MaxCounterHostTag = verifCxHost(post.CntH, false)
					a.iv.MaxCounterHostTag = verifCxHost(post.CntH, false)
					a.ic.MaxCounterHostTag = verifCxHost(post.CntH, false)
					if post.Set {
						a.mv.Value.MinHostTag, a.mv.Value.MaxHostTag = verifCxHost(post.MinH, false), verifCxHost(post.MaxH, false)
						a.iv.MinHostTag, a.iv.MaxHostTag = verifCxHost(post.MinH, false), verifCxHost(post.MaxH, false)
					}
					pool = verifC04Remove(pool, j)
				}
			}
			res.Replayed++
			res.Seen(fmt.Sprintf("p%v/l%d/m%d", perc, len(cs.Leaves), len(cs.Merges)))
			if bi%1999 == 0 && round == 0 {
				res.Sample(cs)
			}
		}
	}
}
