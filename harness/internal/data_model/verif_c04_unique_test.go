package data_model

// C04 conformance driver for the unique sketch at its real scale (I->S).  The merge programs
// exported by TLC from specs/Unique.tla (all sequences of Merge / MergeRead steps over a pool of
// sketches) are executed on real ChUnique sketches whose sizes lie around 1x, 2x and 3x
// uniquesHashMaxSize.  After every step the sketch that was written is logged together with the
// number of distinct input hashes divisible by 2^k, computed from the input lists;
// specs/UniqueTrace.tla evaluates the specification's Canon on those numbers.

import (
	"bytes"
	"fmt"
	"path/filepath"
	"sort"
	"testing"

	"github.com/VKCOM/statshouse/internal/verifkit"
)

const verifC04MaxK = 12

type verifC04Universe struct {
	base   [][]uint32            // distinct hashes of every base sketch's input
	counts map[int][]int         // subset mask -> n[0..MaxK]
	sets   map[int]map[uint32]bool // subset mask -> union of hashes (built on demand)
}

func verifC04Counts(hashes map[uint32]bool) []int {
	n := make([]int, verifC04MaxK+1)
	for h := range hashes {
		for k := 0; k <= verifC04MaxK; k++ {
			if h&((1<<uint(k))-1) != 0 {
				break
			}
			n[k]++
		}
	}
	return n
}

func (u *verifC04Universe) set(mask int) map[uint32]bool {
	if s, ok := u.sets[mask]; ok {
		return s
	}
	s := map[uint32]bool{}
	for i, b := range u.base {
		if mask&(1<<uint(i)) != 0 {
			for _, h := range b {
				s[h] = true
			}
		}
	}
	u.sets[mask] = s
	u.counts[mask] = verifC04Counts(s)
	return s
}

type verifC04Sk struct {
	ch   ChUnique
	mask int
}

func verifC04Clone(src *ChUnique) ChUnique {
	c := *src
	if src.buf != nil {
		c.buf = append([]uint32(nil), src.buf...)
	}
	return c
}

// verifC04Log records the state of one real sketch next to the counts of its input.
func verifC04Log(tr *verifkit.Trace, u *verifC04Universe, sk *verifC04Sk, fullCheck bool, extra ...any) {
	all := u.set(sk.mask)
	bad := 0
	items := verifCxSketchItems(&sk.ch)
	if len(items) != sk.ch.ItemsCount() {
		bad += 1 + abs(len(items)-sk.ch.ItemsCount())
	}
	if fullCheck {
		for _, x := range items {
			if !all[x] || x&((1<<sk.ch.skipDegree)-1) != 0 {
				bad++
			}
		}
	}
	kv := []any{"cnts", u.counts[sk.mask], "skip", sk.ch.skipDegree, "items", sk.ch.ItemsCount(), "bad", bad, "est", sk.ch.Size(true)}
	tr.Emit("Sk", append(kv, extra...)...)
}

func abs(x int) int {
	if x < 0 {
		return -x
	}
	return x
}

func TestVerifC04Unique(t *testing.T) {
	verifkit.Gate(t)
	res := verifkit.NewResult()
	defer res.Write(t)
	res.Consts["uniquesHashMaxSize"] = uniquesHashMaxSize
	res.Consts["maxK"] = verifC04MaxK
	progs := verifkit.LoadBehaviours(t)
	nsk := verifkit.EnvInt("VERIF_NSK", 3)
	maxProgs := verifkit.EnvInt("VERIF_MAXPROGS", 200)
	rnd := verifkit.Rand(404)
	// keep programs of maximal length (every shorter one is a prefix) and sample
	maxLen := 0
	for _, p := range progs {
		if len(p) > maxLen {
			maxLen = len(p)
		}
	}
	var full [][]verifkit.Step
	for _, p := range progs {
		if len(p) == maxLen {
			full = append(full, p)
		}
	}
	rnd.Shuffle(len(full), func(i, j int) { full[i], full[j] = full[j], full[i] })
	if len(full) > maxProgs {
		full = full[:maxProgs]
	}
	L := uniquesHashMaxSize
	scenarios := [][]int{
		{3*L + L/20, 1000, L + L/15},
		{L - L/10, L - L/10, 2*L + L/10},
		{0, 2*L + L/7, 1000},
		{L + L/15, L + L/15, L + L/15},
		{3*L + L/20, 3*L + L/20, 50},
		{L / 2, L / 2, L / 2},
	}
	nsc := verifkit.EnvInt("VERIF_NSCEN", 2)
	first := int(verifkit.Seed()) % len(scenarios)
	tr := verifkit.NewTrace()
	var hasher ChUnique
	for sc := 0; sc < nsc && sc < len(scenarios); sc++ {
		sizes := scenarios[(first+sc)%len(scenarios)]
		universe := 2 * (sizes[0] + sizes[1] + sizes[2]) / 3 // sketches overlap
		for _, sz := range sizes {
			if universe < sz+sz/5 {
				universe = sz + sz/5
			}
		}
		if universe < 1000 {
			universe = 1000
		}
		u := &verifC04Universe{counts: map[int][]int{}, sets: map[int]map[uint32]bool{}}
		bases := make([]ChUnique, nsk)
		salt := uint64(rnd.Int63())
		for i := 0; i < nsk; i++ {
			seen := map[uint32]bool{}
			vals := rnd.Perm(universe)
			if sizes[i%len(sizes)] > len(vals) {
				t.Fatalf("scenario too large")
			}
			vals = vals[:sizes[i%len(sizes)]]
			order := rnd.Perm(len(vals)) // insertion order is arbitrary
			for _, oi := range order {
				v := uint64(vals[oi]) ^ salt
				bases[i].Insert(v)
				seen[hasher.uintHash32(v)] = true
			}
			var hs []uint32
			for h := range seen {
				hs = append(hs, h)
			}
			sort.Slice(hs, func(a, b int) bool { return hs[a] < hs[b] })
			u.base = append(u.base, hs)
		}
		u.set(0)
		for i := 0; i < nsk; i++ { // the contributions themselves (insert-only sketches)
			sk := &verifC04Sk{ch: verifC04Clone(&bases[i]), mask: 1 << uint(i)}
			verifC04Log(tr, u, sk, true, "op", "Insert*", "scenario", sc, "slot", i+1)
		}
		for pi, p := range full {
			pool := make([]*verifC04Sk, nsk)
			for i := range pool {
				pool[i] = &verifC04Sk{ch: verifC04Clone(&bases[i]), mask: 1 << uint(i)}
			}
			for si, st := range p {
				i, j := st.Int("i")-1, st.Int("j")-1
				if i >= nsk || j >= nsk {
					t.Fatalf("program addresses slot beyond %d", nsk)
				}
				switch st.Act() {
				case "Merge":
					pool[i].ch.Merge(pool[j].ch)
				case "MergeRead":
					b := pool[j].ch.MarshallAppend(nil)
					if err := pool[i].ch.MergeRead(bytes.NewBuffer(b)); err != nil {
						res.Mismatch(verifkit.Mismatch{Beh: p, Step: si, Want: "MergeRead succeeds", Got: err.Error(), Sig: "unique-mergeread-error"})
					}
				default:
					t.Fatalf("unexpected step %v", st)
				}
				pool[i].mask |= pool[j].mask
				verifC04Log(tr, u, pool[i], (pi+si)%4 == 0, "op", st.Act(), "scenario", sc, "prog", pi, "step", si+1, "i", i+1, "j", j+1)
				res.Steps++
			}
			res.Replayed++
			cls := fmt.Sprintf("sc%d/", sc)
			for _, st := range p {
				cls += fmt.Sprintf("%c%d%d", st.Act()[len(st.Act())-1], st.Int("i"), st.Int("j"))
			}
			res.Seen(cls)
		}
		res.Note("scenario %d sizes %v universe %d counts(all)=%v", sc, sizes, universe, u.counts[u.maskAll(nsk)])
	}
	out := filepath.Join(verifkit.TmpDir(t, "c04u-"), "trace.ndjson")
	if err := tr.WriteFile(out); err != nil {
		t.Fatal(err)
	}
	res.Files = append(res.Files, out)
	evs := tr.Events()
	for i := 0; i < len(evs) && i < 4; i++ {
		res.Sample(evs[len(evs)-1-i])
	}
}

func (u *verifC04Universe) maskAll(n int) int {
	m := (1 << uint(n)) - 1
	u.set(m)
	return m
}
