package data_model

// C02 conformance driver (S->I).  Every behaviour exported by TLC from specs/RowTransfer.tla is
// replayed on the real code: the events through the real MultiItem.MapStringTop and
// MultiValue.AddCounterHost / ApplyValues / ApplyUnique, then the real encode path of
// agent.Shard.sampleBucket's keepF (Key.TLMultiItemFromKey + MultiValue.MultiValueToTL +
// MultiItem.WriteTL1), the bytes read back as tlstatshouse.MultiItemBytes and merged into an
// empty aggregator item (KeyFromStatshouseMultiItem + the Skeys loop of handleSendSourceBucket +
// MultiItem.MergeWithTLMultiItem).  The projection of the aggregator item is compared with the
// `post` the specification demands (RowAlgebra!TransferSpec).

import (
	"fmt"
	"sort"
	"testing"

	"pgregory.net/rand"

	"github.com/VKCOM/statshouse/internal/data_model/gen2/tlstatshouse"
	"github.com/VKCOM/statshouse/internal/format"
	"github.com/VKCOM/statshouse/internal/verifkit"
)

type verifC02Key struct {
	ID     int     `json:"id"`
	Metric int32   `json:"metric"`
	Ts     uint32  `json:"ts"`
	Warn   string  `json:"warn"`
	Tags   [][]any `json:"tags"`
	STags  [][]any `json:"stags"`
}

func (k *verifC02Key) key() Key {
	key := Key{Metric: k.Metric, Timestamp: k.Ts}
	for _, p := range k.Tags {
		key.Tags[int(p[0].(float64))] = int32(p[1].(float64))
	}
	for _, p := range k.STags {
		key.STags[int(p[0].(float64))] = p[1].(string)
	}
	return key
}

// verifC02Encode is the body of keepF in agent_shard_send.go (sampleBucket) without the size
// statistics: the row's key and tail, then every string-top entry.
func verifC02Encode(v *MultiItem, bucketTime uint32, scratch []byte) (tlstatshouse.MultiItem, []byte) {
	item := v.Key.TLMultiItemFromKey(bucketTime)
	scratch = v.Tail.MultiValueToTL(v.MetricMeta, &item.Tail, v.SF, &item.FieldsMask, scratch)
	var top []tlstatshouse.TopElement
	for key, value := range v.Top {
		el := tlstatshouse.TopElement{Stag: key.S}
		if key.I != 0 {
			el.SetTag(key.I)
		}
		scratch = value.MultiValueToTL(v.MetricMeta, &el.Value, v.SF, &el.FieldsMask, scratch)
		top = append(top, el)
	}
	if len(top) != 0 {
		item.SetTop(top)
	}
	return item, scratch
}

// verifC02DecodeKey is what handleSendSourceBucket does with the key of one item when no string
// is known to the mapping cache.
func verifC02DecodeKey(item *tlstatshouse.MultiItemBytes, bucketTime uint32) (Key, int32) {
	k, warn := KeyFromStatshouseMultiItem(item, bucketTime)
	for i, str := range item.Skeys {
		if i >= format.MaxTags {
			break
		}
		k.STags[i] = string(str)
	}
	return k, warn
}

type verifC02Case struct {
	Key    int   `json:"key"`
	Perc   bool  `json:"perc"`
	Events []int `json:"events"`
	SF     int   `json:"sf"`
}

func verifC02Sig(field string, pre *verifCxMV) string {
	switch field {
	case "sum", "sumsquare":
		if pre != nil && pre.Set && pre.Min == pre.Max {
			return "transfer-sum-of-mixed-row"
		}
	case "minHost", "maxCountHost":
		if pre != nil && pre.MaxH != 0 && ((field == "minHost" && pre.MinH == 0) || (field == "maxCountHost" && pre.CntH == 0)) {
			return "transfer-empty-host-next-to-max-host"
		}
	}
	return "transfer-" + field
}

func TestVerifC02Transfer(t *testing.T) {
	verifkit.Gate(t)
	res := verifkit.NewResult()
	defer res.Write(t)
	den := verifkit.EnvInt("VERIF_DEN", 6)
	bucketTime := uint32(verifkit.EnvInt("VERIF_BUCKET", 1700000000))
	behs := verifkit.LoadBehaviours(t)
	if len(behs) == 0 || behs[0][0].Act() != "Tables" {
		t.Fatalf("first input line must be the tables")
	}
	shapes, err := verifCxShapes(behs[0][0])
	if err != nil {
		t.Fatal(err)
	}
	var keyList []verifC02Key
	if err := verifCxDecode(behs[0][0]["keys"], &keyList); err != nil {
		t.Fatal(err)
	}
	keys := map[int]*verifC02Key{}
	for i := range keyList {
		keys[keyList[i].ID] = &keyList[i]
	}
	res.Consts["BelieveTimestampWindow"] = BelieveTimestampWindow
	res.Consts["MaxTags"] = format.MaxTags
	res.Consts["AgentPercentileCompression"] = AgentPercentileCompression
	res.Consts["AggregatorPercentileCompression"] = AggregatorPercentileCompression
	res.Consts["DefaultStringTopCapacity"] = DefaultStringTopCapacity
	rng := rand.New(uint64(verifkit.Seed()) + 2)
	var scratch []byte
	drift := 0
	for bi, b := range behs[1:] {
		init := b[0]
		last := b[len(b)-1]
		if init.Act() != "Init" || last.Act() != "Transfer" {
			t.Fatalf("behaviour %d: unexpected shape", bi)
		}
		kd := keys[init.Int("key")]
		perc := init.Bool("perc")
		sf := last.Int("sf")
		cs := verifC02Case{Key: kd.ID, Perc: perc, SF: sf}
		agentString := bi%2 == 1
		agentHost := verifCxHost(verifCxAgentHost, agentString)
		// ---- agent side
		item := &MultiItem{Key: kd.key(), SF: 1, MetricMeta: &format.MetricMetaValue{MetricID: kd.Metric, HasPercentiles: perc}}
		for _, st := range b[1 : len(b)-1] {
			e := shapes[st.Int("s")]
			cs.Events = append(cs.Events, e.ID)
			mv := item.MapStringTop(rng, 0, verifCxTopKey(e.Top), verifCxEffCount(e))
			verifCxApply(rng, mv, e, perc)
			res.Steps++
		}
		var pre, post verifCxRow
		var kpost verifC02Key
		if err := verifCxDecode(last["pre"], &pre); err != nil {
			t.Fatal(err)
		}
		if err := verifCxDecode(last["post"], &post); err != nil {
			t.Fatal(err)
		}
		if err := verifCxDecode(last["kpost"], &kpost); err != nil {
			t.Fatal(err)
		}
		// the row the real Apply* built must be the specification's row: aggregates exactly,
		// hosts within the admissible sets (C04); the concrete random choice is then taken from
		// the specification so that the encoder sees exactly the specification's row
		cells := map[int]*MultiValue{0: &item.Tail}
		for k, v := range item.Top {
			cells[verifCxTopID(k)] = v
		}
		preCells := map[int]*verifCxMV{0: &pre.Tail}
		for i := range pre.Top {
			preCells[pre.Top[i].K] = &pre.Top[i].V
		}
		agentOK := len(cells) == len(preCells)
		for k, w := range preCells {
			mv, ok := cells[k]
			if !ok {
				agentOK = false
				continue
			}
			g := verifCxProject(mv)
			if bad := verifCxCompare(&g, w, den, "none", false); len(bad) != 0 {
				agentOK = false
				res.Note("agent row differs from the specification (model drift, not a transfer fault): case %+v cell %d fields %v got %+v want %+v", cs, k, bad, g, *w)
			}
			if bad := verifCxCompare(&g, w, den, "adm", false); agentOK && len(bad) != 0 {
				res.Mismatch(verifkit.Mismatch{Beh: cs, Step: len(cs.Events), Want: w, Got: g, Sig: "agent-host-not-a-contributor",
					Note: fmt.Sprintf("cell %d: %v not among the hosts that contributed", k, bad)})
				agentOK = false
			}
			mv.Value.MaxCounterHostTag = verifCxHost(w.CntH, false)
			if w.Set {
				mv.Value.MinHostTag = verifCxHost(w.MinH, false)
				mv.Value.MaxHostTag = verifCxHost(w.MaxH, false)
			}
		}
		if !agentOK {
			drift++
			continue
		}
		// ---- the wire
		item.SF = float64(sf)
		var tl tlstatshouse.MultiItem
		tl, scratch = verifC02Encode(item, bucketTime, scratch)
		wire := tl.WriteTL1(nil)
		// ---- aggregator side: once into an empty item, then the same bytes a second time
		agg := &MultiItem{}
		var gotKey Key
		var gotWarn int32
		failed := false
		for round := 1; round <= 2 && !failed; round++ {
			var rd tlstatshouse.MultiItemBytes
			if _, err := rd.ReadTL1(wire); err != nil {
				res.Mismatch(verifkit.Mismatch{Beh: cs, Step: len(cs.Events) + 1, Want: "decodable item", Got: err.Error(), Sig: "transfer-undecodable"})
				failed = true
				break
			}
			if round == 1 {
				gotKey, gotWarn = verifC02DecodeKey(&rd, bucketTime)
				agg.Key = gotKey
			}
			if is := agg.MergeWithTLMultiItem(rng, AggregatorStringTopCapacity, &rd, agentHost); is != 0 {
				res.Mismatch(verifkit.Mismatch{Beh: cs, Step: len(cs.Events) + 1, Want: "no ingestion error", Got: is, Sig: "transfer-ingestion-error"})
				failed = true
				break
			}
			gotCells := map[int]*MultiValue{0: &agg.Tail}
			for k, v := range agg.Top {
				gotCells[verifCxTopID(k)] = v
			}
			postCells := map[int]*verifCxMV{0: &post.Tail}
			for i := range post.Top {
				postCells[post.Top[i].K] = &post.Top[i].V
			}
			if len(gotCells) != len(postCells) {
				var ks []int
				for k := range gotCells {
					ks = append(ks, k)
				}
				sort.Ints(ks)
				res.Mismatch(verifkit.Mismatch{Beh: cs, Step: len(cs.Events) + round, Want: post, Got: ks, Sig: "transfer-top-keys"})
				failed = true
				break
			}
			for k, w0 := range postCells {
				w := *w0
				if w.CntH == verifCxAgentHost || w.MinH == verifCxAgentHost || w.MaxH == verifCxAgentHost {
					res.Seen("agent-host-substituted")
				}
				if round == 2 { // RowAlgebra!Twice
					w.Cnt *= 2
					w.Sum *= 2
					w.Sq *= 2
					w.Cent = append([][2]int(nil), w.Cent...)
					for i := range w.Cent {
						w.Cent[i][1] *= 2
					}
					if len(w.Imp) == 3 {
						w.Imp = []int{w.Imp[0], w.Imp[1], 2 * w.Imp[2]}
					}
				}
				mv, ok := gotCells[k]
				if !ok {
					res.Mismatch(verifkit.Mismatch{Beh: cs, Step: len(cs.Events) + round, Want: w, Got: "missing string-top entry", Sig: "transfer-top-keys"})
					failed = true
					break
				}
				g := verifCxProject(mv)
				// the host ids of the agent's own host depend on agentString only in representation
				if bad := verifCxCompare(&g, &w, den, "exact", true); len(bad) != 0 {
					sig := verifC02Sig(bad[0], preCells[k])
					if round == 2 {
						sig += "-second-merge"
					}
					res.Mismatch(verifkit.Mismatch{Beh: cs, Step: len(cs.Events) + round, Want: w, Got: g, Sig: sig,
						Note: fmt.Sprintf("cell %d (0 = tail) fields %v; agent row %+v; sf %d", k, bad, *preCells[k], sf)})
					failed = true
					break
				}
			}
		}
		// ---- the key
		wantKey := kpost.key()
		wantWarn := int32(0)
		switch kpost.Warn {
		case "future":
			wantWarn = format.TagValueIDSrcIngestionStatusWarnTimestampClampedFutureAgg
		case "past":
			wantWarn = format.TagValueIDSrcIngestionStatusWarnTimestampClampedPast
		}
		if !failed && (gotKey != wantKey || gotWarn != wantWarn) {
			res.Mismatch(verifkit.Mismatch{Beh: cs, Step: len(cs.Events) + 1, Want: fmt.Sprintf("%+v warn %d", wantKey, wantWarn),
				Got: fmt.Sprintf("%+v warn %d", gotKey, gotWarn), Sig: "transfer-key"})
		}
		res.Replayed++
		res.Seen(fmt.Sprintf("k%d/p%v/sf%d/n%d", kd.ID, perc, sf, len(cs.Events)))
		if bi%997 == 0 {
			res.Sample(map[string]any{"case": cs, "wire_bytes": len(wire), "post": post})
		}
	}
	res.Counters["drift"] = drift
}
