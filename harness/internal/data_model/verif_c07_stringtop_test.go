package data_model

// C07 conformance driver (I->S).  Event sequences (TLC-exported behaviours of specs/StringTop.tla
// and seeded random ones with the code's real capacities) are executed on the real MultiItem with
// several RNG seeds: MapStringTop / MapStringTopBytes followed by the caller's Add exactly as
// agent.Shard.ApplyCounter / AddValueCounterHost do, or MergeWithTLMultiItem as the aggregator
// does, then FinishStringTop.  After every call the driver records Top, Tail and
// sampleFactorLog2 (white-box); specs/StringTopTrace.tla validates the recorded steps.
//
// Trusted harness code: the projection of a MultiValue to integers and the diff of two
// projections (`upd` / `del`), which only shortens the trace; TLC rebuilds the full state.

import (
	"fmt"
	"math"
	"path/filepath"
	"sort"
	"testing"
	"time"

	"pgregory.net/rand"

	"github.com/VKCOM/statshouse/internal/data_model/gen2/tlstatshouse"
	"github.com/VKCOM/statshouse/internal/verifkit"
)

type verifC07Agg struct {
	V   int  `json:"v"`
	Cnt int  `json:"cnt"`
	Set bool `json:"set"`
	Sum int  `json:"sum"`
	Sq  int  `json:"sq"`
	Min int  `json:"min"`
	Max int  `json:"max"`
}

type verifC07Op struct {
	A    string // Reset | Map | Finish
	Cap  int
	V    int
	Kind string
	C    int
	X    int
}

// top value id -> tag: odd ids are strings, even ids are mapped values (both kinds of map key)
func verifC07Tag(v int) TagUnion {
	if v == 0 {
		return TagUnion{}
	}
	if v%2 == 1 {
		return TagUnion{S: fmt.Sprintf("s%d", v)}
	}
	return TagUnion{I: int32(100000 + v)}
}

func verifC07TagID(t TagUnion) int {
	var v int
	if t.I != 0 {
		v = int(t.I) - 100000
	} else if _, err := fmt.Sscanf(t.S, "s%d", &v); err != nil {
		return -1
	}
	if v <= 0 || verifC07Tag(v) != t {
		return -1
	}
	return v
}

func verifC07Int(f float64, bad *string, what string) int {
	if f != math.Trunc(f) || math.Abs(f) > 2e9 || math.IsNaN(f) {
		if *bad == "" {
			*bad = fmt.Sprintf("%s = %v is not an integer the events could have produced", what, f)
		}
		return 0
	}
	return int(f)
}

func verifC07Proj(v int, mv *MultiValue, bad *string) verifC07Agg {
	w := fmt.Sprintf("value %d", v)
	a := verifC07Agg{V: v, Cnt: verifC07Int(mv.Value.Count(), bad, w+" count"), Set: mv.Value.ValueSet}
	if a.Set {
		a.Sum = verifC07Int(mv.Value.ValueSum, bad, w+" sum")
		a.Sq = verifC07Int(mv.Value.ValueSumSquare, bad, w+" sumsquare")
		a.Min = verifC07Int(mv.Value.ValueMin, bad, w+" min")
		a.Max = verifC07Int(mv.Value.ValueMax, bad, w+" max")
	}
	return a
}

type verifC07Run struct {
	item    MultiItem
	rng     *rand.Rand
	variant int
	prev    map[int]verifC07Agg
	hosts   []TagUnion
}

// one event, the way the code's callers do it
func (r *verifC07Run) apply(cap int, op verifC07Op) {
	tag := verifC07Tag(op.V)
	host := r.hosts[r.rng.Intn(len(r.hosts))]
	count, x := float64(op.C), float64(op.X)
	switch r.variant {
	case 2: // aggregator: handleSendSourceBucket -> MergeWithTLMultiItem
		var tl tlstatshouse.MultiItemBytes
		fill := func(mv *tlstatshouse.MultiValueBytes, fm *uint32) {
			if op.C == 1 {
				mv.SetCounterEq1(true, fm)
			} else {
				mv.SetCounter(count, fm)
			}
			if op.Kind == "V" {
				mv.SetValueSet(true, fm)
				if x != 0 {
					mv.SetValueMin(x, fm)
				}
				if r.rng.Intn(2) == 0 { // both wire forms of "all values identical"
					mv.SetValueMax(x, fm)
					mv.SetValueSum(x*count, fm)
					mv.SetValueSumSquare(x*x*count, fm)
				}
			}
		}
		if op.V == 0 {
			fill(&tl.Tail, &tl.FieldsMask)
		} else {
			el := tlstatshouse.TopElementBytes{Stag: []byte(tag.S)}
			if tag.I != 0 {
				el.SetTag(tag.I)
			}
			fill(&el.Value, &el.FieldsMask)
			tl.SetTop([]tlstatshouse.TopElementBytes{el})
		}
		r.item.MergeWithTLMultiItem(r.rng, cap, &tl, host)
		return
	}
	var mv *MultiValue
	if r.variant == 1 {
		mv = r.item.MapStringTopBytes(r.rng, cap, TagUnionBytes{S: []byte(tag.S), I: tag.I}, count)
	} else {
		mv = r.item.MapStringTop(r.rng, cap, tag, count)
	}
	switch {
	case op.Kind == "C":
		mv.AddCounterHost(r.rng, count, host)
	case r.variant == 3: // percentile metric: the tail merge also carries digests
		mv.AddValueCounterHostPercentile(r.rng, x, count, host, AgentPercentileCompression)
	default:
		mv.AddValueCounterHost(r.rng, x, count, host)
	}
}

func (r *verifC07Run) observe(bad *string) (cur map[int]verifC07Agg, tail verifC07Agg) {
	cur = map[int]verifC07Agg{}
	for k, mv := range r.item.Top {
		v := verifC07TagID(k)
		if v < 0 {
			if *bad == "" {
				*bad = fmt.Sprintf("Top holds a key %+v that was never written", k)
			}
			continue
		}
		cur[v] = verifC07Proj(v, mv, bad)
	}
	return cur, verifC07Proj(0, &r.item.Tail, bad)
}

func (r *verifC07Run) diff(cur map[int]verifC07Agg) (upd []verifC07Agg, del []int) {
	upd, del = []verifC07Agg{}, []int{}
	for v, a := range cur {
		if p, ok := r.prev[v]; !ok || p != a {
			upd = append(upd, a)
		}
	}
	for v := range r.prev {
		if _, ok := cur[v]; !ok {
			del = append(del, v)
		}
	}
	sort.Slice(upd, func(i, j int) bool { return upd[i].V < upd[j].V })
	sort.Ints(del)
	r.prev = cur
	return
}

func verifC07Random(rnd interface{ Intn(int) int }, thorough bool, i int) []verifC07Op {
	caps := []int{1, 1, 2, 2, 3, 3, 4, 5, 8}
	cap := caps[rnd.Intn(len(caps))]
	nev := 8 + rnd.Intn(50)
	switch {
	case i%40 == 7:
		cap, nev = MinStringTopCapacity, 150+rnd.Intn(100)
	case i%200 == 11:
		cap, nev = 0, 500+rnd.Intn(200) // DefaultStringTopCapacity
	case thorough && i%1000 == 13:
		cap, nev = AggregatorStringTopCapacity, 3500
	}
	eff := cap
	if eff < 1 {
		eff = DefaultStringTopCapacity
	}
	nvals := eff + 1 + rnd.Intn(2*eff+2)
	ops := []verifC07Op{{A: "Reset", Cap: cap}}
	heavy := 1 + rnd.Intn(nvals) // one value that keeps coming back
	for j := 0; j < nev; j++ {
		op := verifC07Op{A: "Map", V: 1 + rnd.Intn(nvals), Kind: "V", C: []int{1, 1, 1, 2, 2, 5}[rnd.Intn(6)], X: rnd.Intn(61) - 20}
		switch rnd.Intn(12) {
		case 0:
			op.V = 0
		case 1, 2:
			op.V = heavy
		case 3:
			op.C = 10 + rnd.Intn(40)
		}
		if rnd.Intn(3) == 0 {
			op.Kind, op.X = "C", 0
		}
		ops = append(ops, op)
	}
	fin := []int{-1, 0, 1, 2, 3, MinStringTopSend, 20, eff, eff + 1}
	ops = append(ops, verifC07Op{A: "Finish", Cap: fin[rnd.Intn(len(fin))]})
	return ops
}

// Events whose counts reach 2^62: too large for TLC's integers, so this scenario is judged here.
// The specification's Map always completes (StringTop!NeverStuck); the real call is run in its own
// goroutine and the verdict is taken from the state, not from the clock: once sampleFactorLog2 is
// past the width of an int while Top is still full, `1 << sampleFactorLog2` is 0 and no later
// round of the loop can fold anything.
func verifC07Heavy(res *verifkit.Result, variant int, cap int) (stuck bool) {
	count := math.Ldexp(1, 62)
	item := &MultiItem{SF: 1}
	done := make(chan struct{})
	go func() {
		rng := rand.New(uint64(verifkit.Seed()) + uint64(variant))
		for v := 1; v <= cap+1; v++ {
			tag := verifC07Tag(v)
			var mv *MultiValue
			if variant == 1 {
				mv = item.MapStringTopBytes(rng, cap, TagUnionBytes{S: []byte(tag.S), I: tag.I}, count)
			} else {
				mv = item.MapStringTop(rng, cap, tag, count)
			}
			mv.AddCounterHost(rng, count, TagUnion{})
		}
		close(done)
	}()
	what := fmt.Sprintf("%d values with count 2^62 into capacity %d (variant %d)", cap+1, cap, variant)
	for i := 0; ; i++ {
		select {
		case <-done:
			total := item.Tail.Value.Count()
			for _, mv := range item.Top {
				total += mv.Value.Count()
			}
			if len(item.Top) > cap || total != float64(cap+1)*count {
				res.Mismatch(verifkit.Mismatch{Beh: what, Want: fmt.Sprintf("at most %d top values, total count %v", cap, float64(cap+1)*count),
					Got: fmt.Sprintf("%d top values, total count %v", len(item.Top), total), Sig: "stringtop-heavy-conservation"})
			}
			res.Count("heavy_runs", 1)
			return false
		case <-time.After(time.Millisecond):
		}
		if sfl := item.sampleFactorLog2; sfl > 4096 { // benign racy read of a counter that only grows
			res.Mismatch(verifkit.Mismatch{Beh: what, Want: "MapStringTop returns (StringTop!NeverStuck)",
				Got:  fmt.Sprintf("still in the resample loop with sampleFactorLog2 = %d and Top full: 1 << sampleFactorLog2 wrapped to 0, nothing can be folded any more", sfl),
				Sig:  "stringtop-resample-never-ends",
				Note: "the goroutine executing MapStringTop is left spinning"})
			return true
		}
		if i > 600000 { // ten minutes without returning and without the counter moving on: undecided
			res.Count("heavy_undecided", 1)
			return true
		}
	}
}

func TestVerifC07(t *testing.T) {
	verifkit.Gate(t)
	res := verifkit.NewResult()
	defer res.Write(t)
	res.Consts["DefaultStringTopCapacity"] = DefaultStringTopCapacity
	res.Consts["AggregatorStringTopCapacity"] = AggregatorStringTopCapacity
	res.Consts["MinStringTopCapacity"] = MinStringTopCapacity
	res.Consts["MinStringTopSend"] = MinStringTopSend

	var runs [][]verifC07Op
	for _, b := range verifkit.LoadBehaviours(t) {
		var ops []verifC07Op
		for _, s := range b {
			ops = append(ops, verifC07Op{A: s.Act(), Cap: s.Int("cap"), V: s.Int("v"), Kind: s.Str("kind"), C: s.Int("c"), X: s.Int("x")})
		}
		runs = append(runs, ops)
	}
	nTLC := len(runs)
	rnd := verifkit.Rand(7)
	for i := 0; i < verifkit.EnvInt("VERIF_NRANDOM", 300); i++ {
		runs = append(runs, verifC07Random(rnd, verifkit.Thorough(), i))
	}
	nSeeds := verifkit.EnvInt("VERIF_NSEEDS", 3)
	hosts := []TagUnion{{}, {I: 101}, {I: 102}, {S: "h3"}}

	var events []map[string]any
	for ri, ops := range runs {
		if res.Counters["mismatches_total"] >= 20 {
			break
		}
		seeds := nSeeds
		if ri >= nTLC {
			seeds = 1
		}
		for s := 0; s < seeds; s++ {
			r := &verifC07Run{rng: rand.New(uint64(verifkit.Seed())*7919 + uint64(ri)*31 + uint64(s)), variant: (ri + s) % 4, prev: map[int]verifC07Agg{}, hosts: hosts}
			r.item.SF = 1
			cap, evicting, bad := 0, false, ""
			for si, op := range ops {
				switch op.A {
				case "Reset":
					cap = op.Cap
					events = append(events, map[string]any{"ev": "Reset", "cap": cap, "run": ri, "seed": s, "variant": r.variant})
					continue
				case "Map":
					r.apply(cap, op)
				case "Finish":
				}
				var whale float64
				if op.A == "Finish" {
					whale = r.item.FinishStringTop(r.rng, op.Cap)
				}
				cur, tail := r.observe(&bad)
				upd, del := r.diff(cur)
				if len(del) > 0 && op.A == "Map" {
					evicting = true
				}
				if bad != "" {
					res.Mismatch(verifkit.Mismatch{Beh: ops[:si+1], Step: si, Want: "integer aggregates over the written values", Got: bad, Sig: "stringtop-garbage",
						Note: fmt.Sprintf("variant %d rng seed %d", r.variant, s)})
					break
				}
				ev := map[string]any{"ev": op.A, "upd": upd, "del": del, "tail": tail, "sfl": r.item.sampleFactorLog2}
				if op.A == "Map" {
					ev["v"], ev["kind"], ev["c"], ev["x"] = op.V, op.Kind, op.C, op.X
				} else {
					ev["cap"], ev["whale"] = op.Cap, verifC07Int(whale, &bad, "whale weight")
				}
				events = append(events, ev)
				res.Steps++
			}
			res.Replayed++
			if evicting {
				res.Count("runs_with_eviction", 1)
			}
			if r.item.sampleFactorLog2 > 0 {
				res.Count("runs_with_resample", 1)
			}
			res.Seen(fmt.Sprintf("cap%d/sfl%d/top%d/variant%d", cap, r.item.sampleFactorLog2, len(r.item.Top), r.variant))
		}
	}
	for _, hv := range [][2]int{{0, 1}, {1, 3}, {0, 3}, {1, 1}} {
		if verifC07Heavy(res, hv[0], hv[1]) {
			break
		}
	}
	res.Count("tlc_behaviours", nTLC)
	res.Count("random_runs", len(runs)-nTLC)
	p := filepath.Join(verifkit.TmpDir(t, "c07-"), "trace.ndjson")
	if err := verifkit.WriteNDJSON(p, events); err != nil {
		t.Fatal(err)
	}
	res.Files = append(res.Files, p)
	if len(events) > 3 {
		res.Sample(events[1])
	}
}
