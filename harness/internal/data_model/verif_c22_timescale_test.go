package data_model

// C22 conformance driver (injected by /verif/tools via -overlay; see /verif/DESIGN.md).
// I->S: a generator (boundary grid x seeded random) calls the real GetTimescale / GetLODs and
// records (args, result) pairs as ndjson; specs/TimescaleTrace.tla evaluates the contract of
// specs/Timescale.tla on every recorded pair.  The driver also evaluates the same contract in
// Go on *every* generated case (far more than TLC is given); a case the Go screen flags is
// always put into the trace, so the verdict is still TLC's.
// For monthly steps the driver supplies the table of month starts in the query's location
// (computed with time.Date only - Go's time package is trusted, nothing of timescale.go is used).

import (
	"errors"
	"fmt"
	"math/rand"
	"path/filepath"
	"sort"
	"strings"
	"testing"
	"time"

	"github.com/VKCOM/statshouse/internal/format"
	"github.com/VKCOM/statshouse/internal/verifkit"
)

type verifC22LOD struct {
	Step int64 `json:"step"`
	Len  int   `json:"len"`
}

type verifC22Range struct {
	From int64 `json:"from"`
	To   int64 `json:"to"`
	Step int64 `json:"step"`
}

// verifC22Args is one generated input.
type verifC22Args struct {
	Start, End, Step, Now, Width int64
	Mode                         QueryMode
	Extend                       bool
	Utc                          int64
	Loc                          *time.Location
	Res                          int     // resolution of the queried metric
	MOffs                        []int64 // offsets of other metrics of the query (QueryStat)
	MRes                         []int   // their resolutions
	Off                          int64   // offset of the queried metric
	Gen                          string  // generator class
}

// verifC22Rec is one (args, result) pair as written to the trace.
type verifC22Rec struct {
	Ev      string          `json:"ev"`
	ID      int             `json:"id"`
	Gen     string          `json:"gen"`
	Start   int64           `json:"start"`
	End     int64           `json:"end"`
	Step    int64           `json:"step"`
	Now     int64           `json:"now"`
	Width   int64           `json:"width"`
	Mode    int             `json:"mode"`
	Point   bool            `json:"point"`
	Extend  bool            `json:"extend"`
	Utc     int64           `json:"utc"`
	Loc     string          `json:"loc"`
	Res     int64           `json:"res"`
	Offs    []int64         `json:"offs"` // every metric offset of the query, the queried metric's last
	MaxOff  int64           `json:"maxoff"`
	Off     int64           `json:"off"`
	Err     string          `json:"err"`
	Time    []int64         `json:"time"`
	LODs    []verifC22LOD   `json:"lods"`
	StartX  int             `json:"startx"`
	VStartX int             `json:"vstartx"`
	VEndX   int             `json:"vendx"`
	RErr    string          `json:"rerr"`
	Ranges  []verifC22Range `json:"ranges"`
	Months  []int64         `json:"months"`
	DstGap  bool            `json:"dstgap"` // some month of the table begins inside a gap of the local clock
}

const (
	verifC22Month = 31 * 24 * 3600
	verifC22Limit = MaxSlice
	verifC22Week  = 7 * 24 * 3600
)

var verifC22Resolutions = map[int64]bool{}

func init() {
	for k := range LODTables[Version6] {
		verifC22Resolutions[k] = true
	}
}

func verifC22ErrClass(err error) string {
	switch {
	case err == nil:
		return "none"
	case errors.Is(err, errQueryOutOfRange):
		return "range"
	case strings.Contains(err.Error(), "is not multiple of step"):
		return "offset"
	default:
		return "other"
	}
}

// verifC22Months returns the month starts (in loc) from four months before lo to four after hi.
// gap reports whether some month of the table begins inside a gap of the local clock (00:00 of the
// 1st does not exist: daylight saving or a change of the zone's offset at that instant, e.g.
// America/Asuncion 2017-10-01, Europe/Moscow 1981-04-01, Asia/Kathmandu 1986-01-01): known finding.
func verifC22Months(lo, hi int64, loc *time.Location) (out []int64, gap bool) {
	t := time.Unix(lo, 0).In(loc)
	y, m := t.Year(), int(t.Month())-4
	out = []int64{}
	after := 0
	for i := 0; after < 4; i++ {
		d := time.Date(y, time.Month(m+i), 1, 0, 0, 0, 0, loc)
		if d.Day() != 1 || d.Hour() != 0 || d.Minute() != 0 || d.Second() != 0 {
			gap = true
		}
		ts := d.Unix()
		out = append(out, ts)
		if ts > hi {
			after++
		}
	}
	return out, gap
}

func verifC22Call(id int, a verifC22Args) verifC22Rec {
	mk := func() (QueryStat, *format.MetricMetaValue) {
		var qs QueryStat
		for i, o := range a.MOffs {
			qs.Add(&format.MetricMetaValue{Resolution: a.MRes[i]}, o)
		}
		return qs, &format.MetricMetaValue{Resolution: a.Res}
	}
	qs1, m1 := mk()
	args := GetTimescaleArgs{QueryStat: qs1, Start: a.Start, End: a.End, Step: a.Step, TimeNow: a.Now,
		ScreenWidth: a.Width, Mode: a.Mode, Extend: a.Extend, Metric: m1, Offset: a.Off, Location: a.Loc, UTCOffset: a.Utc}
	lods, rerr := GetLODs(args) // adds (Metric, Offset) to the query's statistics itself
	qs2, m2 := mk()
	qs2.Add(m2, a.Off)
	args.QueryStat, args.Metric = qs2, m2
	ts, err := GetTimescale(args)
	r := verifC22Rec{Ev: "Q", ID: id, Gen: a.Gen, Start: a.Start, End: a.End, Step: a.Step, Now: a.Now, Width: a.Width,
		Mode: int(a.Mode), Point: a.Mode == PointQuery, Extend: a.Extend, Utc: a.Utc, Loc: a.Loc.String(),
		Res: int64(a.Res), Off: a.Off, Err: verifC22ErrClass(err), RErr: verifC22ErrClass(rerr),
		Time: ts.Time, StartX: ts.StartX, VStartX: ts.ViewStartX, VEndX: ts.ViewEndX,
		Offs: append(append([]int64{}, a.MOffs...), a.Off), LODs: []verifC22LOD{}, Ranges: []verifC22Range{}, Months: []int64{}}
	if r.Time == nil {
		r.Time = []int64{}
	}
	for _, v := range a.MRes {
		if r.Res < int64(v) {
			r.Res = int64(v)
		}
	}
	for _, v := range r.Offs {
		if r.MaxOff < v {
			r.MaxOff = v
		}
	}
	for _, l := range ts.LODs {
		r.LODs = append(r.LODs, verifC22LOD{l.Step, l.Len})
	}
	for _, l := range lods {
		r.Ranges = append(r.Ranges, verifC22Range{l.FromSec, l.ToSec, l.StepSec})
	}
	if a.Step == verifC22Month {
		lo, hi := a.Start, a.End
		for _, t := range r.Time {
			lo, hi = min(lo, t), max(hi, t)
		}
		for _, g := range r.Ranges {
			lo, hi = min(lo, g.From), max(hi, g.To)
		}
		lo = min(lo, a.Start-r.MaxOff, a.Start-a.Off)
		hi = max(hi, a.End-a.Off)
		r.Months, r.DstGap = verifC22Months(lo, hi, a.Loc)
	}
	return r
}

// ---- the contract of specs/Timescale.tla, evaluated in Go as a screen (same clause names) ----

func verifC22MIdx(r *verifC22Rec, t int64) int {
	i := sort.Search(len(r.Months), func(i int) bool { return r.Months[i] >= t })
	if i < len(r.Months) && r.Months[i] == t {
		return i
	}
	return -1
}

func verifC22Fwd(r *verifC22Rec, t, step int64) (int64, bool) {
	if step != verifC22Month {
		return t + step, true
	}
	i := verifC22MIdx(r, t)
	if i < 0 || i+1 >= len(r.Months) {
		return 0, false
	}
	return r.Months[i+1], true
}

func verifC22Aligned(r *verifC22Rec, t, step int64) bool {
	if step == verifC22Month {
		return verifC22MIdx(r, t) >= 0
	}
	return (((t+r.Utc)%step)+step)%step == 0
}

// verifC22Check returns the name of the first violated clause or "".
func verifC22Check(r *verifC22Rec) string { return verifC22CheckUnit(r, verifC22Week) }

func verifC22CheckUnit(r *verifC22Rec, week int64) string {
	n := len(r.Time)
	if r.Err != r.RErr {
		return "ErrorsAgree"
	}
	if r.Err != "none" {
		if r.Err == "range" && r.Step != verifC22Month && (r.End-r.Start)/week >= verifC22Limit/2 {
			return ""
		}
		if r.Err != "offset" {
			return "NoUnexpectedError"
		}
		unit := week
		if r.Step == verifC22Month {
			unit = verifC22Month
		}
		for _, o := range r.Offs {
			if o%unit != 0 {
				return ""
			}
		}
		return "NoUnexpectedError"
	}
	if r.End <= r.Start || r.Step < 0 {
		return ""
	}
	future := r.Start-r.MaxOff > r.Now
	if n == 0 {
		if future {
			return ""
		}
		if r.Point {
			span := 2 * week
			if r.Step == verifC22Month {
				span = 2 * verifC22Month
			}
			if r.End-r.Start < span {
				return ""
			}
		}
		return "NonEmpty"
	}
	// LODs
	if len(r.LODs) == 0 {
		return "LODSteps"
	}
	sum := 0
	for k, l := range r.LODs {
		if !verifC22Resolutions[l.Step] || l.Len <= 0 {
			return "LODSteps"
		}
		if (l.Step == verifC22Month) != (r.Step == verifC22Month) {
			return "LODSteps"
		}
		if k > 0 && r.LODs[k-1].Step < l.Step {
			return "LODFiner"
		}
		sum += l.Len
	}
	if n > verifC22Limit {
		return "Limit"
	}
	for i := 1; i < n; i++ {
		if r.Time[i-1] >= r.Time[i] {
			return "Increasing"
		}
	}
	if r.Point {
		st := r.LODs[0].Step
		if n != 2 || len(r.LODs) != 1 {
			return "PointShape"
		}
		a, b := r.Time[0], r.Time[1]
		if !verifC22Aligned(r, a, st) || !verifC22Aligned(r, b, st) {
			return "Aligned"
		}
		if st != verifC22Month && (b-a)%st != 0 {
			return "Diffs"
		}
		if r.Extend {
			an, ok := verifC22Fwd(r, a, st)
			if !ok || !(a <= r.Start && r.Start < an) {
				return "CoverStart"
			}
			if b < r.End {
				return "CoverEnd"
			}
			// b is the first aligned point >= End
			if st != verifC22Month && b-st >= r.End {
				return "CoverEnd"
			}
			if st == verifC22Month {
				if i := verifC22MIdx(r, b); i < 1 || r.Months[i-1] >= r.End {
					return "CoverEnd"
				}
			}
		} else {
			if a < r.Start || b > r.End {
				return "CoverStart"
			}
			if st != verifC22Month && a-st >= r.Start {
				return "CoverStart"
			}
			if st == verifC22Month {
				if i := verifC22MIdx(r, a); i < 1 || r.Months[i-1] >= r.Start {
					return "CoverStart"
				}
			}
			bn, ok := verifC22Fwd(r, b, st)
			if !ok || bn <= r.End {
				return "CoverEnd"
			}
		}
		return ""
	}
	if sum != n {
		return "LenSum"
	}
	// diffs and alignment per LOD
	i := 0
	for _, l := range r.LODs {
		for j := 0; j < l.Len; j++ {
			if !verifC22Aligned(r, r.Time[i], l.Step) {
				return "Aligned"
			}
			if i+1 < n {
				nx, ok := verifC22Fwd(r, r.Time[i], l.Step)
				if !ok || nx != r.Time[i+1] {
					return "Diffs"
				}
			}
			i++
		}
	}
	// view = the points inside [Start, End)
	vs, ve := r.VStartX, r.VEndX
	if vs < 0 || ve < vs || ve > n {
		return "View"
	}
	for i := vs; i < ve; i++ {
		if r.Time[i] < r.Start || r.Time[i] >= r.End {
			return "View"
		}
	}
	if vs > 0 && vs <= n && r.Time[vs-1] >= r.Start {
		return "View"
	}
	if ve < n && r.Time[ve] < r.End {
		return "View"
	}
	// start index
	sx := r.StartX
	if sx < 0 || sx > n {
		return "CoverStart"
	}
	if r.Extend {
		if sx >= n || r.Time[sx] > r.Start {
			return "CoverStart"
		}
		if sx+1 < n && r.Time[sx+1] < r.Start {
			return "CoverStart"
		}
	} else {
		if sx < n && r.Time[sx] < r.Start {
			return "CoverStart"
		}
		if sx > 0 && r.Time[sx-1] >= r.Start {
			return "CoverStart"
		}
		if sx == 0 && r.Time[0] > r.Start { // the bucket containing Start would be missing
			return "CoverStart"
		}
	}
	// end of the range
	last := r.Time[n-1]
	lstep := r.LODs[len(r.LODs)-1].Step
	if r.Extend {
		if last < r.End || (n >= 2 && r.Time[n-2] >= r.End) {
			return "CoverEnd"
		}
	} else {
		nx, ok := verifC22Fwd(r, last, lstep)
		if !ok || nx < r.End {
			return "CoverEnd"
		}
	}
	// ranges handed to the storage layer
	if len(r.Ranges) != len(r.LODs) {
		return "Ranges"
	}
	var from int64
	if lstep == verifC22Month {
		// first of the month containing Time[0]-Off
		from = -1
		for i := len(r.Months) - 1; i >= 0; i-- {
			if r.Months[i] <= r.Time[0]-r.Off {
				from = r.Months[i]
				break
			}
		}
	} else {
		from = r.Time[0] - r.Off
	}
	for k, l := range r.LODs {
		g := r.Ranges[k]
		if g.Step != l.Step || g.From != from {
			return "Ranges"
		}
		to := from
		for j := 0; j < l.Len; j++ {
			var ok bool
			if to, ok = verifC22Fwd(r, to, l.Step); !ok {
				return "Ranges"
			}
		}
		if g.To != to {
			return "Ranges"
		}
		from = to
	}
	return ""
}

// ---- generator ----

var verifC22ZoneNames = []string{"UTC", "Europe/Moscow", "America/New_York", "Asia/Kolkata", "Asia/Kathmandu",
	"America/St_Johns", "Europe/London", "Australia/Lord_Howe", "Pacific/Auckland", "Asia/Tokyo",
	"Pacific/Kiritimati", "Pacific/Apia"}

// America/Asuncion and other zones where a month can begin inside a daylight-saving gap (clocks jump
// at 00:00 of the 1st) are exercised by TestVerifC22Known only: known finding.

func verifC22Zones(t testing.TB) []*time.Location {
	var out []*time.Location
	for _, n := range verifC22ZoneNames {
		l, err := time.LoadLocation(n)
		if err != nil {
			t.Fatalf("zone %s: %v", n, err)
		}
		out = append(out, l)
	}
	out = append(out, time.FixedZone("F+0530", 5*3600+1800), time.FixedZone("F-0930", -9*3600-1800),
		time.FixedZone("F+0300", 3*3600), time.FixedZone("F-1100", -11*3600), time.FixedZone("F+1245", 12*3600+2700))
	return out
}

// the offset the API derives from (location, week start): zone offset at the epoch plus whole days
// (lod.go calcUTCOffset; that function itself is exercised in harness/internal/api).
func verifC22UTCOffset(loc *time.Location, ws int) int64 {
	_, z := time.Unix(0, 0).In(loc).Zone()
	return int64(z) + int64(4-ws)*86400
}

var verifC22Steps = []int64{0, 0, 0, 1, 5, 15, 60, 300, 900, 3600, 4 * 3600, 86400, verifC22Week, verifC22Month, verifC22Month,
	2, 7, 10, 30, 90, 3601, 30 * 86400, 40 * 86400}
var verifC22Widths = []int64{0, 0, 1, 100, 100, 500, 1000, 2000, 4000, 7680, 7681, 10000}

func verifC22Pick[T any](rnd *rand.Rand, s []T) T { return s[rnd.Intn(len(s))] }

func verifC22Random(rnd *rand.Rand, zones []*time.Location, id int) verifC22Args {
	a := verifC22Args{Gen: "rand"}
	a.Now = 1500000000 + rnd.Int63n(400000000) // 2017 .. 2030
	if rnd.Intn(8) == 0 {
		a.Now = a.Now/86400*86400 + verifC22Pick(rnd, []int64{0, 1, -1, 3600, 1800})
	}
	a.Loc = verifC22Pick(rnd, zones)
	switch rnd.Intn(4) {
	case 0:
		a.Utc = rnd.Int63n(2*verifC22Week) - verifC22Week
	case 1:
		a.Utc = verifC22Pick(rnd, []int64{0, 1800, -1800, 3 * 3600, -5 * 3600, 5*3600 + 1800, -(3*3600 + 1800), 12*3600 + 2700, 1, -1, 59})
	default:
		a.Utc = verifC22UTCOffset(a.Loc, rnd.Intn(7))
	}
	a.Step = verifC22Pick(rnd, verifC22Steps)
	a.Width = verifC22Pick(rnd, verifC22Widths)
	a.Mode = QueryMode(verifC22Pick(rnd, []int{0, 0, 0, 1, 2, 2, 3}))
	a.Extend = rnd.Intn(3) == 0
	a.Res = verifC22Pick(rnd, []int{0, 1, 1, 1, 5, 15, 60})
	// age of the range start: around the table switches (52h-2s, 33d-2m), and everything else
	var age int64
	switch rnd.Intn(8) {
	case 0:
		age = rnd.Int63n(3 * 3600)
	case 1:
		age = 52*3600 - 2 + rnd.Int63n(41) - 20
	case 2:
		age = 33*86400 - 120 + rnd.Int63n(241) - 120
	case 3:
		age = rnd.Int63n(60 * 86400)
	case 4:
		age = rnd.Int63n(3 * 365 * 86400)
	case 5:
		age = rnd.Int63n(30 * 365 * 86400)
	case 6:
		age = -rnd.Int63n(3 * 86400) // starts in the future
	default:
		age = verifC22Pick(rnd, []int64{3600, 86400, 2 * 86400, 7 * 86400, 31 * 86400, 90 * 86400, 365 * 86400}) + rnd.Int63n(3) - 1
	}
	a.Start = a.Now - age
	var dur int64
	switch rnd.Intn(8) {
	case 0:
		dur = 1 + rnd.Int63n(120)
	case 1:
		dur = 1 + rnd.Int63n(4*3600)
	case 2:
		dur = 1 + rnd.Int63n(3*86400)
	case 3:
		dur = age + rnd.Int63n(7) - 3 // ends at now
	case 4:
		dur = age + rnd.Int63n(86400) // ends in the future
	case 5:
		// near the point limit for some step
		st := verifC22Pick(rnd, []int64{1, 5, 15, 60, 300, 900, 3600, 4 * 3600, 86400})
		dur = st*maxPoints + (rnd.Int63n(7)-3)*st + rnd.Int63n(3) - 1
	case 6:
		dur = 1 + rnd.Int63n(400*86400)
	default:
		dur = verifC22Pick(rnd, []int64{60, 3600, 86400, 2 * 86400, 7 * 86400, 31 * 86400, 365 * 86400}) + rnd.Int63n(3) - 1
	}
	if dur <= 0 && rnd.Intn(4) != 0 {
		dur = 1 + rnd.Int63n(3600)
	}
	a.End = a.Start + dur
	if a.Step == verifC22Month && rnd.Intn(2) == 0 {
		// month-aligned ranges in the location
		t := time.Unix(a.Start, 0).In(a.Loc)
		a.Start = time.Date(t.Year(), t.Month(), 1, 0, 0, 0, 0, a.Loc).Unix() + verifC22Pick(rnd, []int64{0, 0, 1, -1})
		a.End = time.Date(t.Year(), t.Month()+time.Month(1+rnd.Intn(40)), 1, 0, 0, 0, 0, a.Loc).Unix() + verifC22Pick(rnd, []int64{0, 0, 1, -1})
	}
	if rnd.Intn(3) == 0 {
		// step-aligned start / end under the offset
		st := verifC22Pick(rnd, []int64{1, 5, 15, 60, 300, 900, 3600, 4 * 3600, 86400, verifC22Week})
		a.Start = roundTimeVerifC22(a.Start, st, a.Utc)
		if rnd.Intn(2) == 0 {
			a.End = roundTimeVerifC22(a.End, st, a.Utc)
		}
	}
	if rnd.Intn(40) == 0 {
		// around the epoch (negative timestamps exercise the floor division)
		d := a.Start - (rnd.Int63n(400000) - 200000)
		a.Start, a.End, a.Now = a.Start-d, a.End-d, a.Now-d
	}
	if a.End > 2100000000 {
		a.End = 2100000000
	}
	if a.Start < -1000000 {
		a.Start = -1000000 + rnd.Int63n(2000000)
	}
	// offsets: mostly none; otherwise whole weeks (a multiple of every non-monthly step), whole "months"
	// of 31 days for the monthly step, and now and then something that is not a multiple
	unit := int64(verifC22Week)
	if a.Step == verifC22Month {
		unit = verifC22Month
	}
	switch rnd.Intn(6) {
	case 0:
		a.Off = unit * int64(1+rnd.Intn(4))
	case 1:
		a.Off = unit * int64(rnd.Intn(3))
		for i := rnd.Intn(3); i > 0; i-- {
			a.MOffs = append(a.MOffs, unit*int64(rnd.Intn(5)))
			a.MRes = append(a.MRes, verifC22Pick(rnd, []int{0, 1, 5, 60}))
		}
	case 2:
		if rnd.Intn(4) == 0 {
			a.Off = verifC22Pick(rnd, []int64{1, 7, 60, 3600, 86400, -3600, -verifC22Week})
		}
	}
	return a
}

func roundTimeVerifC22(t, step, utc int64) int64 {
	q := (t + utc) / step
	if (t+utc)%step < 0 {
		q--
	}
	return q*step - utc
}

// verifC22Grid enumerates a boundary grid around the table switches and the point limit.
func verifC22Grid(zones []*time.Location, emit func(verifC22Args)) {
	now := int64(1790000000 + 17)
	moscow := zones[1]
	for _, utc := range []int64{0, verifC22UTCOffset(moscow, 1), 5*3600 + 1800, -(3*3600 + 1800)} {
		for _, age := range []int64{10, 3599, 3600, 52*3600 - 3, 52*3600 - 2, 52*3600 - 1, 52*3600 + 60, 33*86400 - 121, 33*86400 - 120,
			33*86400 - 119, 34 * 86400, 100 * 86400, 400 * 86400} {
			for _, dur := range []int64{1, 59, 60, 61, 3600, 7679, 7680, 7681, 5*7680 + 1, 86400, 52 * 3600, 33 * 86400, 0} {
				for _, step := range []int64{0, 1, 60, 3600, 86400, verifC22Week, verifC22Month} {
					for _, ext := range []bool{false, true} {
						for _, mode := range []QueryMode{RangeQuery, PointQuery} {
							a := verifC22Args{Gen: "grid", Now: now, Start: now - age, Step: step, Extend: ext, Mode: mode, Utc: utc, Loc: moscow, Res: 1}
							if dur == 0 {
								a.End = now + 5
							} else {
								a.End = a.Start + dur
							}
							for _, w := range []int64{0, 100, 4000} {
								a.Width = w
								emit(a)
							}
						}
					}
				}
			}
		}
	}
}

func verifC22Class(r *verifC22Rec) string {
	n := len(r.Time)
	sz := "0"
	switch {
	case n > 7000:
		sz = "7k"
	case n > 1000:
		sz = "1k"
	case n > 100:
		sz = "100"
	case n > 10:
		sz = "10"
	case n > 0:
		sz = "1"
	}
	steps := ""
	for _, l := range r.LODs {
		steps += fmt.Sprintf("/%d", l.Step)
	}
	return fmt.Sprintf("%s p%v e%v off%v err%s n%s lods%s", r.Gen, r.Point, r.Extend, r.MaxOff != 0 || r.Off != 0, r.Err, sz, steps)
}

func TestVerifC22Timescale(t *testing.T) {
	verifkit.Gate(t)
	res := verifkit.NewResult()
	defer res.Write(t)
	nrand := verifkit.EnvInt("VERIF_NRANDOM", 20000)
	ntrace := verifkit.EnvInt("VERIF_NTRACE", 300)        // records handed to TLC
	budget := verifkit.EnvInt("VERIF_POINT_BUDGET", 200000) // total points handed to TLC
	perClass := verifkit.EnvInt("VERIF_PER_CLASS", 2)
	zones := verifC22Zones(t)
	rnd := verifkit.Rand(22)
	var flagged, sample, monthoff, dstgap []verifC22Rec
	maxBig := verifkit.EnvInt("VERIF_MAX_BIG", 6) // axes of more than 1000 points handed to TLC
	nbig := 0
	nmonthoff := verifkit.EnvInt("VERIF_NMONTHOFF", 100)
	classCount := map[string]int{}
	var pool []verifC22Rec // reservoir of further records
	id := 0
	points := 0
	handle := func(a verifC22Args) {
		id++
		r := verifC22Call(id, a)
		res.Replayed++
		res.Steps += len(r.Time)
		cl := verifC22Class(&r)
		res.Seen(cl)
		if r.DstGap {
			// a month of the range begins inside a gap of the local clock: known finding
			if bad := verifC22Check(&r); bad != "" {
				res.Count("dstgap_screen_"+bad, 1)
				if len(dstgap) < 5 {
					dstgap = append(dstgap, r)
				}
			}
			return
		}
		if r.Step == verifC22Month && (r.MaxOff != 0 || r.Off != 0) {
			// monthly step with a metric offset: known finding, validated apart (reduced contract)
			if bad := verifC22Check(&r); bad != "" {
				res.Count("monthoff_screen_"+bad, 1)
			}
			if len(monthoff) < nmonthoff {
				monthoff = append(monthoff, r)
			}
			return
		}
		if bad := verifC22Check(&r); bad != "" {
			res.Count("screen_"+bad, 1)
			if res.Counters["screen_"+bad] <= 8 && len(flagged) < 60 {
				flagged = append(flagged, r)
				res.Note("screen: %s id=%d start=%d end=%d step=%d now=%d width=%d mode=%d extend=%v utc=%d loc=%s res=%d offs=%v n=%d lods=%v startx=%d view=%d..%d",
					bad, r.ID, r.Start, r.End, r.Step, r.Now, r.Width, r.Mode, r.Extend, r.Utc, r.Loc, r.Res, r.Offs, len(r.Time), r.LODs, r.StartX, r.VStartX, r.VEndX)
			}
			return
		}
		if len(r.Time) > 1000 {
			if nbig >= maxBig {
				return
			}
			nbig++
		}
		if classCount[cl] < perClass && points+len(r.Time) <= budget {
			classCount[cl]++
			points += len(r.Time)
			sample = append(sample, r)
			return
		}
		if len(r.Time) <= 400 {
			if len(pool) < 4*ntrace {
				pool = append(pool, r)
			} else if j := rnd.Intn(id); j < len(pool) {
				pool[j] = r
			}
		}
	}
	stride := verifkit.EnvInt("VERIF_GRID_STRIDE", 1)
	gi := 0
	verifC22Grid(zones, func(a verifC22Args) {
		if gi++; gi%stride == 0 {
			handle(a)
		}
	})
	res.Count("grid", id)
	for i := 0; i < nrand; i++ {
		handle(verifC22Random(rnd, zones, i))
	}
	// the trace: every flagged record first, the known-finding scenarios, monthly-with-offset records,
	// the stratified sample, then random further ones
	out := append([]verifC22Rec{}, flagged...)
	for _, a := range verifC22Known(t) {
		id++
		r := verifC22Call(id, a)
		res.Note("%s: screen=%q time=%v lods=%v startx=%d view=%d..%d", a.Gen, verifC22Check(&r), r.Time, r.LODs, r.StartX, r.VStartX, r.VEndX)
		out = append(out, r)
	}
	out = append(out, dstgap...)
	nfirst := len(out) + len(monthoff)
	out = append(out, monthoff...)
	out = append(out, sample...)
	rnd.Shuffle(len(pool), func(i, j int) { pool[i], pool[j] = pool[j], pool[i] })
	for _, r := range pool {
		if len(out) >= ntrace+nfirst || points+len(r.Time) > budget {
			break
		}
		points += len(r.Time)
		out = append(out, r)
	}
	p := filepath.Join(verifkit.TmpDir(t, "c22-"), "trace.ndjson")
	if err := verifkit.WriteNDJSON(p, out); err != nil {
		t.Fatal(err)
	}
	res.Files = append(res.Files, p)
	res.Count("monthoff_records", len(monthoff))
	res.Count("trace_records", len(out))
	res.Count("trace_points", points)
	res.Count("flagged", len(flagged))
	res.Consts["maxPoints"] = maxPoints
	res.Consts["MaxSlice"] = MaxSlice
	res.Consts["month"] = _1M
	var rs []int64
	for k := range verifC22Resolutions {
		rs = append(rs, k)
	}
	sort.Slice(rs, func(i, j int) bool { return rs[i] < rs[j] })
	res.Consts["resolutions"] = fmt.Sprint(rs)
	for i := 0; i < len(out) && i < 3; i++ {
		r := out[len(out)-1-i]
		res.Sample(fmt.Sprintf("start=%d end=%d step=%d now=%d width=%d mode=%d extend=%v utc=%d loc=%s -> n=%d lods=%v startx=%d view=%d..%d ranges=%v",
			r.Start, r.End, r.Step, r.Now, r.Width, r.Mode, r.Extend, r.Utc, r.Loc, len(r.Time), r.LODs, r.StartX, r.VStartX, r.VEndX, r.Ranges))
	}
}

// verifC22Known reproduces the known findings on the real code (the check maps the rejection of
// exactly these records, by exactly the clauses the finding breaks, to the finding).
func verifC22Known(t testing.TB) []verifC22Args {
	msk, err := time.LoadLocation("Europe/Moscow")
	if err != nil {
		t.Fatal(err)
	}
	asu, err := time.LoadLocation("America/Asuncion")
	if err != nil {
		t.Fatal(err)
	}
	// 1. monthly step with a metric offset of one "month" (31 days): the number of points is
	// computed on the shifted range, the axis is generated from the unshifted start
	a1 := verifC22Args{Gen: "known-monthoff", Start: time.Date(2026, 3, 30, 0, 0, 0, 0, msk).Unix(),
		End: time.Date(2026, 5, 1, 0, 0, 1, 0, msk).Unix(), Step: verifC22Month, Now: time.Date(2026, 9, 1, 12, 0, 0, 0, msk).Unix(),
		Utc: verifC22UTCOffset(msk, 1), Loc: msk, Res: 1, Off: verifC22Month}
	// 2. monthly step in a zone where a month begins inside a daylight-saving gap
	// (America/Asuncion, 2017-10-01 00:00 does not exist): later points are no month starts
	a2 := verifC22Args{Gen: "known-dstgap", Start: time.Date(2017, 8, 15, 0, 0, 0, 0, asu).Unix(),
		End: time.Date(2018, 2, 1, 0, 0, 0, 0, asu).Unix(), Step: verifC22Month, Now: time.Date(2018, 3, 1, 12, 0, 0, 0, asu).Unix(),
		Utc: verifC22UTCOffset(asu, 1), Loc: asu, Res: 1}
	return []verifC22Args{a1, a2}
}

// TestVerifC22Small runs the real planner with the tiny table of specs/TimescaleMC.tla
// (lodLevels is a package variable; maxPoints stays the real constant) over the whole input
// grid of the model and more.  Every result is screened in Go; a seeded sample (and every flagged
// record) is written for TLC, which judges it by the contract and also compares it with the output
// of TimescaleModel for the same arguments (agreement is reported, not required by the property).
func TestVerifC22Small(t *testing.T) {
	verifkit.Gate(t)
	res := verifkit.NewResult()
	defer res.Write(t)
	saved := lodLevels[Version6]
	defer func() { lodLevels[Version6] = saved }()
	lodLevels[Version6] = []lodSwitch{
		{relSwitch: 35, levels: []int64{15}},
		{relSwitch: 13, levels: []int64{15, 5}},
		{relSwitch: 0, levels: []int64{15, 5, 1}},
	}
	ntrace := verifkit.EnvInt("VERIF_NTRACE", 1500)
	rnd := verifkit.Rand(2201)
	var flagged, pool []verifC22Rec
	id := 0
	stride := verifkit.EnvInt("VERIF_SMALL_STRIDE", 1)
	phase := int(verifkit.Seed()%int64(stride)+int64(stride)) % stride
	durs := []int64{}
	for d := int64(1); d <= 48; d++ {
		durs = append(durs, d)
	}
	durs = append(durs, 60, 75, 181, 200)
	for start := int64(18); start <= 80; start++ {
		for _, dur := range durs {
			for _, now := range []int64{70, 77} {
				for _, step := range []int64{0, 1, 5, 7, 15, 20} {
					for _, width := range []int64{0, 3, 8} {
						for _, utc := range []int64{0, 7, -4} {
							for _, mres := range []int{1, 5} {
								for _, off := range []int64{0, 15, 7} {
									for pe := 0; pe < 4; pe++ {
										a := verifC22Args{Gen: "small", Start: start, End: start + dur, Step: step, Now: now, Width: width,
											Utc: utc, Loc: time.UTC, Res: mres, Off: off, Extend: pe&1 != 0}
										if pe&2 != 0 {
											a.Mode = PointQuery
										}
										id++
										if id%stride != phase {
											continue
										}
										r := verifC22Call(id, a)
										res.Replayed++
										res.Steps += len(r.Time)
										if bad := verifC22CheckUnit(&r, 15); bad != "" {
											res.Count("screen_"+bad, 1)
											if len(flagged) < 30 {
												flagged = append(flagged, r)
												res.Note("screen(small): %s start=%d end=%d step=%d now=%d width=%d point=%v extend=%v utc=%d res=%d off=%d -> time=%v lods=%v startx=%d view=%d..%d err=%s",
													bad, r.Start, r.End, r.Step, r.Now, r.Width, r.Point, r.Extend, r.Utc, r.Res, r.Off, r.Time, r.LODs, r.StartX, r.VStartX, r.VEndX, r.Err)
											}
											continue
										}
										res.Seen(fmt.Sprintf("p%v e%v err%s lods%v", r.Point, r.Extend, r.Err, r.LODs))
										if len(pool) < ntrace {
											pool = append(pool, r)
										} else if j := rnd.Intn(res.Replayed); j < ntrace {
											pool[j] = r
										}
									}
								}
							}
						}
					}
				}
			}
		}
	}
	out := append(flagged, pool...)
	p := filepath.Join(verifkit.TmpDir(t, "c22s-"), "trace.ndjson")
	if err := verifkit.WriteNDJSON(p, out); err != nil {
		t.Fatal(err)
	}
	res.Files = append(res.Files, p)
	res.Count("trace_records", len(out))
	res.Count("flagged", len(flagged))
}
