package data_model

// Shared by the C02 (transfer) and C04 (merge order) conformance drivers; injected by
// /verif/tools via -overlay.  Maps the abstract values of specs/RowAlgebra.tla (hosts, string-top
// keys, event shapes, multi-values) to the real types and projects real multi-values back.

import (
	"encoding/json"
	"fmt"
	"math"
	"sort"

	"pgregory.net/rand"

	"github.com/VKCOM/statshouse/internal/verifkit"
)

// ---- abstract values of the specification ------------------------------------------------------

// verifCxMV is RowAlgebra!ProjA as exported by ToJson.  Sum, Sq and centroid weights are in units
// of 1/DEN.
type verifCxMV struct {
	Cnt  int      `json:"cnt"`
	CntH int      `json:"cntH"`
	Set  bool     `json:"set"`
	Min  int      `json:"min"`
	Max  int      `json:"max"`
	Sum  int      `json:"sum"`
	Sq   int      `json:"sq"`
	MinH int      `json:"minH"`
	MaxH int      `json:"maxH"`
	Dig  bool     `json:"dig"`
	Cent [][2]int `json:"cent"`
	Uniq []int    `json:"uniq"`
	ACnt []int    `json:"aCnt"`
	AMin []int    `json:"aMin"`
	AMax []int    `json:"aMax"`
	Imp  []int    `json:"imp"` // <<lo, hi, weight>> or empty
}

type verifCxTop struct {
	K int       `json:"k"`
	V verifCxMV `json:"v"`
}

type verifCxRow struct {
	Tail verifCxMV    `json:"tail"`
	Top  []verifCxTop `json:"top"`
}

type verifCxShape struct {
	ID   int      `json:"id"`
	Kind string   `json:"kind"`
	Cnt  int      `json:"cnt"`
	Vals []int    `json:"vals"`
	Hist [][2]int `json:"hist"`
	Host int      `json:"host"`
	Top  int      `json:"top"`
}

func verifCxDecode(v any, out any) error {
	b, err := json.Marshal(v)
	if err != nil {
		return err
	}
	return json.Unmarshal(b, out)
}

// hosts: 0 none, 1 and 2 mapped host tags, 3 an unmapped (string) host, agent = the sending agent
const verifCxAgentHost = 9

func verifCxHost(id int, agentString bool) TagUnion {
	switch id {
	case 0:
		return TagUnion{}
	case 1:
		return TagUnion{I: 101}
	case 2:
		return TagUnion{I: 102}
	case 3:
		return TagUnion{S: "h3"}
	case verifCxAgentHost:
		if agentString {
			return TagUnion{S: "agent-host"}
		}
		return TagUnion{I: 109}
	}
	return TagUnion{I: int32(1000 + id)}
}

func verifCxHostID(t TagUnion) int {
	switch t {
	case TagUnion{}:
		return 0
	case TagUnion{I: 101}:
		return 1
	case TagUnion{I: 102}:
		return 2
	case TagUnion{S: "h3"}:
		return 3
	case TagUnion{S: "agent-host"}, TagUnion{I: 109}:
		return verifCxAgentHost
	}
	if t.I >= 1000 && t.S == "" {
		return int(t.I - 1000)
	}
	return -1
}

// string-top keys: 1 a string, 2 a mapped value
func verifCxTopKey(id int) TagUnion {
	switch id {
	case 0:
		return TagUnion{}
	case 1:
		return TagUnion{S: "a"}
	case 2:
		return TagUnion{I: 77}
	}
	return TagUnion{S: fmt.Sprintf("top%d", id)}
}

func verifCxTopID(t TagUnion) int {
	switch t {
	case TagUnion{S: "a"}:
		return 1
	case TagUnion{I: 77}:
		return 2
	}
	return -1
}

// verifCxApply applies one event to the multi-value the way agent.Shard.ApplyCounter /
// ApplyValues / ApplyUnique do after MapStringTop (agent_shard.go): the derivation of count
// and totalCount is copied from there, the rest is the real MultiValue code.
func verifCxApply(rng *rand.Rand, mv *MultiValue, e *verifCxShape, hasPerc bool) {
	host := verifCxHost(e.Host, false)
	switch e.Kind {
	case "C":
		if e.Cnt <= 0 {
			return
		}
		mv.AddCounterHost(rng, float64(e.Cnt), host)
	case "V":
		values := make([]float64, len(e.Vals))
		for i, v := range e.Vals {
			values[i] = float64(v)
		}
		var histogram [][2]float64
		for _, h := range e.Hist {
			histogram = append(histogram, [2]float64{float64(h[0]), float64(h[1])})
		}
		totalCount := float64(len(values))
		for _, kv := range histogram {
			totalCount += kv[1]
		}
		count := float64(e.Cnt)
		if count == 0 {
			count = totalCount
		}
		if count <= 0 {
			return
		}
		mv.ApplyValues(rng, histogram, values, count, totalCount, host, AgentPercentileCompression, hasPerc)
	case "U":
		hashes := make([]int64, len(e.Vals))
		for i, v := range e.Vals {
			hashes[i] = int64(v)
		}
		count := float64(e.Cnt)
		if count == 0 {
			count = float64(len(hashes))
		}
		if count <= 0 {
			return
		}
		mv.ApplyUnique(rng, hashes, count, host)
	}
}

func verifCxEffCount(e *verifCxShape) float64 {
	if e.Kind == "C" || e.Cnt != 0 {
		return float64(e.Cnt)
	}
	total := float64(len(e.Vals))
	for _, h := range e.Hist {
		total += float64(h[1])
	}
	return total
}

// ---- projection of a real multi-value -----------------------------------------------------------

type verifCxGot struct {
	Cnt    float64             `json:"cnt"`
	CntH   int                 `json:"cntH"`
	Set    bool                `json:"set"`
	Min    float64             `json:"min"`
	Max    float64             `json:"max"`
	Sum    float64             `json:"sum"`
	Sq     float64             `json:"sq"`
	MinH   int                 `json:"minH"`
	MaxH   int                 `json:"maxH"`
	Dig    bool                `json:"dig"`
	Cent   map[string]float64  `json:"cent"` // value -> weight
	Uniq   []uint32            `json:"uniq"` // sorted hashes held by the sketch
	Skip   uint32              `json:"skip"`
	Hosts  map[string]TagUnion `json:"hosts,omitempty"`
	centKV map[float64]float64
}

func verifCxSketchItems(ch *ChUnique) []uint32 {
	var items []uint32
	if ch.hasZeroItem {
		items = append(items, 0)
	}
	for _, x := range ch.buf {
		if x != 0 {
			items = append(items, x)
		}
	}
	sort.Slice(items, func(i, j int) bool { return items[i] < items[j] })
	return items
}

func verifCxProject(mv *MultiValue) verifCxGot {
	g := verifCxGot{
		Cnt: mv.Value.Count(), CntH: verifCxHostID(mv.Value.MaxCounterHostTag), Set: mv.Value.ValueSet,
		Min: mv.Value.ValueMin, Max: mv.Value.ValueMax, Sum: mv.Value.ValueSum, Sq: mv.Value.ValueSumSquare,
		MinH: verifCxHostID(mv.Value.MinHostTag), MaxH: verifCxHostID(mv.Value.MaxHostTag),
		Dig: mv.ValueTDigest != nil, Cent: map[string]float64{}, centKV: map[float64]float64{},
		Uniq: verifCxSketchItems(&mv.HLL), Skip: mv.HLL.skipDegree,
	}
	if g.CntH < 0 || g.MinH < 0 || g.MaxH < 0 {
		g.Hosts = map[string]TagUnion{"cnt": mv.Value.MaxCounterHostTag, "min": mv.Value.MinHostTag, "max": mv.Value.MaxHostTag}
	}
	if mv.ValueTDigest != nil {
		for _, c := range mv.ValueTDigest.Centroids() {
			g.centKV[c.Mean] += c.Weight
		}
		for k, v := range g.centKV {
			g.Cent[fmt.Sprint(k)] = v
		}
	}
	return g
}

func verifCxClose(got float64, wantNum int, den int, tol float64) bool {
	want := float64(wantNum) / float64(den)
	return math.Abs(got-want) <= tol*math.Max(1, math.Abs(want))
}

func verifCxIn(x int, set []int) bool {
	for _, y := range set {
		if x == y {
			return true
		}
	}
	return false
}

// verifCxCompare compares the projection of a real multi-value with a specification multi-value.
// hostMode "exact": hosts must be equal; "adm": hosts must lie in the admissible sets;
// "none": hosts are not compared.  Returns the names of the fields that differ.
func verifCxCompare(g *verifCxGot, w *verifCxMV, den int, hostMode string, withCent bool) []string {
	var bad []string
	if g.Cnt != float64(w.Cnt) {
		bad = append(bad, "count")
	}
	if g.Set != w.Set {
		bad = append(bad, "valueSet")
	}
	if w.Set && g.Set {
		if g.Min != float64(w.Min) {
			bad = append(bad, "min")
		}
		if g.Max != float64(w.Max) {
			bad = append(bad, "max")
		}
		if !verifCxClose(g.Sum, w.Sum, den, 1e-9) {
			bad = append(bad, "sum")
		}
		if !verifCxClose(g.Sq, w.Sq, den, 1e-9) {
			bad = append(bad, "sumsquare")
		}
	}
	switch hostMode {
	case "exact":
		if w.Cnt > 0 && g.CntH != w.CntH {
			bad = append(bad, "maxCountHost")
		}
		if w.Set && g.MinH != w.MinH {
			bad = append(bad, "minHost")
		}
		if w.Set && g.MaxH != w.MaxH {
			bad = append(bad, "maxHost")
		}
	case "adm":
		if w.Cnt > 0 && !verifCxIn(g.CntH, w.ACnt) {
			bad = append(bad, "maxCountHost")
		}
		if w.Set && !verifCxIn(g.MinH, w.AMin) {
			bad = append(bad, "minHost")
		}
		if w.Set && !verifCxIn(g.MaxH, w.AMax) {
			bad = append(bad, "maxHost")
		}
	}
	// unique set: the sketch must hold exactly the hashes of the values (no thinning at this size)
	want := map[uint32]bool{}
	var ch ChUnique
	for _, v := range w.Uniq {
		want[ch.uintHash32(uint64(int64(v)))] = true
	}
	if len(want) != len(g.Uniq) || g.Skip != 0 {
		bad = append(bad, "uniques")
	} else {
		for _, x := range g.Uniq {
			if !want[x] {
				bad = append(bad, "uniques")
				break
			}
		}
	}
	if withCent {
		if len(w.Imp) == 3 {
			ok := len(g.centKV) == 1
			for v, wt := range g.centKV {
				if v < float64(w.Imp[0]) || v > float64(w.Imp[1]) || !verifCxClose(wt, w.Imp[2], den, 1e-6) {
					ok = false
				}
			}
			if !ok {
				bad = append(bad, "centroids")
			}
		} else {
			ok := len(g.centKV) == len(w.Cent)
			for _, c := range w.Cent {
				wt, has := g.centKV[float64(c[0])]
				if !has || !verifCxClose(wt, c[1], den, 1e-6) {
					ok = false
				}
			}
			if !ok {
				bad = append(bad, "centroids")
			}
		}
	}
	return bad
}

// verifCxLoadTables reads the first line of the input: [{"a":"Tables","shapes":[...],...}].
func verifCxShapes(step verifkit.Step) (map[int]*verifCxShape, error) {
	var list []verifCxShape
	if err := verifCxDecode(step["shapes"], &list); err != nil {
		return nil, err
	}
	m := map[int]*verifCxShape{}
	for i := range list {
		m[list[i].ID] = &list[i]
	}
	return m, nil
}
