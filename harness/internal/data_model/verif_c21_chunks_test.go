package data_model

// C21 conformance driver for ChunkedStorage2 (injected by /verif/tools via -overlay).
// S->I: replays behaviours of specs/PersistCacheChunks.tla (exported by TLC: exhaustive short
// ones and simulated long ones) on the real ChunkedStorage2, slice- or file-backed.  A model
// CELL is a byte range of the real file: magic 4, body size 4, hash 16, item part `unit`
// bytes (unit = ChunkSize/(2*Half) keeps the real flush threshold and hard limit; a small unit
// is used for behaviours that never reach the threshold, to sweep every byte and bit).
// Every abstract damage (cut inside cell k, corrupt cell i) is expanded into several concrete
// byte offsets / bit flips; the real reader must return exactly the items the model returns.

import (
	"bytes"
	"encoding/binary"
	"fmt"
	"os"
	"path/filepath"
	"testing"

	"github.com/VKCOM/statshouse/internal/verifkit"
)

const verifC21Magic = 0x83a28d18
const verifC21SmallUnit = 13 // bytes per item cell in small mode (odd on purpose)

type verifC21Backend interface {
	open() *ChunkedStorage2
	size() int
	truncate(n int)
	xor(off int, mask []byte)
	put(off int, b []byte)
	get(off, n int) []byte
	close()
}

type verifC21Slice struct{ fp []byte }

func (s *verifC21Slice) open() *ChunkedStorage2 { return NewChunkedStorage2Slice(&s.fp) }
func (s *verifC21Slice) size() int              { return len(s.fp) }
func (s *verifC21Slice) truncate(n int)         { s.fp = s.fp[:n] }
func (s *verifC21Slice) xor(off int, mask []byte) {
	for i, m := range mask {
		s.fp[off+i] ^= m
	}
}
func (s *verifC21Slice) put(off int, b []byte) { copy(s.fp[off:], b) }
func (s *verifC21Slice) get(off, n int) []byte { return append([]byte(nil), s.fp[off:off+n]...) }
func (s *verifC21Slice) close()                {}

type verifC21File struct{ f *os.File }

func (s *verifC21File) open() *ChunkedStorage2 { return NewChunkedStorage2File(s.f) }
func (s *verifC21File) size() int {
	st, err := s.f.Stat()
	if err != nil {
		panic(err)
	}
	return int(st.Size())
}
func (s *verifC21File) truncate(n int) {
	if err := s.f.Truncate(int64(n)); err != nil {
		panic(err)
	}
}
func (s *verifC21File) get(off, n int) []byte {
	b := make([]byte, n)
	if _, err := s.f.ReadAt(b, int64(off)); err != nil {
		panic(err)
	}
	return b
}
func (s *verifC21File) put(off int, b []byte) {
	if _, err := s.f.WriteAt(b, int64(off)); err != nil {
		panic(err)
	}
}
func (s *verifC21File) xor(off int, mask []byte) {
	b := s.get(off, len(mask))
	for i, m := range mask {
		b[i] ^= m
	}
	s.put(off, b)
}
func (s *verifC21File) close() { name := s.f.Name(); s.f.Close(); os.Remove(name) }

var verifC21ItemCache = map[[3]int][]byte{}

// item id of sz cells: [u32 total length][u32 id][pattern]; callers do not modify the result
func verifC21Item(id, sz, unit int) []byte {
	key := [3]int{id, sz, unit}
	if b, ok := verifC21ItemCache[key]; ok {
		return b
	}
	b := make([]byte, sz*unit)
	binary.LittleEndian.PutUint32(b, uint32(len(b)))
	binary.LittleEndian.PutUint32(b[4:], uint32(id))
	for i := 8; i < len(b); i++ {
		b[i] = byte(id*31 + i*7 + i>>8)
	}
	if len(verifC21ItemCache) < 256 {
		verifC21ItemCache[key] = b
	}
	return b
}

// ids of the items of a chunk body; a damaged or partial item is reported as -1
func verifC21Parse(body []byte, unit int) []int {
	ids := []int{}
	for len(body) > 0 {
		if len(body) < 8 {
			return append(ids, -1)
		}
		n := int(binary.LittleEndian.Uint32(body))
		id := int(binary.LittleEndian.Uint32(body[4:]))
		if n < unit || n%unit != 0 || n > len(body) || id <= 0 || id > 1<<20 || !bytes.Equal(body[:n], verifC21Item(id, n/unit, unit)) {
			return append(ids, -1)
		}
		for i := 0; i < n/unit; i++ { // the model lists the id once per cell
			ids = append(ids, id)
		}
		body = body[n:]
	}
	return ids
}

func verifC21CellLen(kind string, unit int) int {
	switch kind {
	case "magic", "size":
		return 4
	case "hash":
		return chunkHashSize
	case "item":
		return unit
	}
	panic("unknown cell kind " + kind)
}

// verifC21Layout mirrors the model's file (cell kinds) next to the real file's byte size.
// Cells have different byte widths, so after a rewrite that ends inside the old contents the
// surviving old cells and the surviving old bytes no longer correspond: from cell `gs` on
// (byte gsBytes) both sides hold garbage that no reader accepts (the chained hash cannot
// match); damage events aimed there are applied to the real garbage bytes.
type verifC21Layout struct {
	kinds    []string
	tail     int
	gs       int // first garbage cell, -1 = none
	gsBytes  int
	realSize int
	unit     int
}

func verifC21Cells(kind string, n int) []string {
	r := make([]string, n)
	for i := range r {
		r[i] = kind
	}
	return r
}

func (l *verifC21Layout) start(cell int) int { // byte offset of the 0-based cell (aligned region)
	off := 0
	for i := 0; i < cell; i++ {
		off += verifC21CellLen(l.kinds[i], l.unit)
	}
	return off
}

func (l *verifC21Layout) garbage() int {
	if l.gs < 0 {
		return 0
	}
	return l.realSize - l.gsBytes
}

// flush mirrors WriteAt(woff, chunk with n body cells)
func (l *verifC21Layout) flush(woff, n int) {
	cells := append(append([]string{"magic", "size"}, verifC21Cells("item", n)...), "hash")
	wb := l.start(woff)
	newEnd, newEndBytes := woff+len(cells), wb+chunkHeaderSize+n*l.unit+chunkHashSize
	oldLen := len(l.kinds)
	aligned := false
	if newEnd < oldLen && (l.gs < 0 || newEnd <= l.gs) {
		aligned = l.start(newEnd) == newEndBytes
	}
	if newEnd >= oldLen {
		l.kinds = append(l.kinds[:woff], cells...)
		if newEnd > oldLen {
			l.tail = 0
		}
	} else {
		copy(l.kinds[woff:], cells)
	}
	if newEndBytes > l.realSize {
		l.realSize = newEndBytes
	}
	switch {
	case aligned: // the old cells behind the chunk sit where the model has them
		if l.gs >= 0 && l.gs < newEnd {
			l.gs = -1
		}
	case newEnd < len(l.kinds) || l.realSize > newEndBytes:
		l.gs, l.gsBytes = newEnd, newEndBytes
	default:
		l.gs = -1
	}
}

type verifC21Outcome struct {
	itemsDiff  string // "" or description: the real reader returned other items than the model
	layoutDiff string // the real file is laid out differently from the model
	errDiff    int    // error/eof classification differs while the items agree
	steps      int
}

// verifC21Replay runs one behaviour; v selects the concrete bytes/bits of the damage events.
func verifC21Replay(b []verifkit.Step, be verifC21Backend, unit int, v int) (out verifC21Outcome) {
	var cs *ChunkedStorage2
	var chunk []byte
	cur := &verifC21Layout{gs: -1, unit: unit}
	woff := 0     // the object's write offset in cells (post.off of the previous step)
	bufCells := 0 // item cells buffered in the chunk being written
	masks := map[int][]byte{}
	ndamage := 0
	for _, s := range b {
		if a := s.Act(); a == "Trunc" || a == "Flip" {
			ndamage++
		}
	}
	fail := func(i int, f string, a ...any) verifC21Outcome {
		out.itemsDiff = fmt.Sprintf("step %d: ", i) + fmt.Sprintf(f, a...)
		return out
	}
	for i, s := range b {
		out.steps++
		post := s.Post()
		postLen, postTail, postOff := int(post["len"].(float64)), int(post["tail"].(float64)), int(post["off"].(float64))
		switch s.Act() {
		case "Open":
			cs = be.open()
		case "Close":
			cs, chunk = nil, nil
		case "Reset":
			cs.ResetToStartOfFile()
		case "Start":
			chunk = cs.StartWriteChunk(verifC21Magic, 0)
			bufCells = 0
		case "Item":
			chunk = append(chunk, verifC21Item(s.Int("id"), s.Int("sz"), unit)...)
			var err error
			chunk, err = cs.FinishItem(chunk)
			if want := s.Str("res") == "toobig"; want != (err != nil) {
				if err != nil {
					return fail(i, "FinishItem failed (%v), the model says %s", err, s.Str("res"))
				}
				out.layoutDiff = fmt.Sprintf("step %d: FinishItem accepted an item the model rejects (%s)", i, s.Str("res"))
				return out
			}
			bufCells += s.Int("sz")
			switch s.Str("res") {
			case "flush":
				cur.flush(woff, bufCells)
				bufCells = 0
				masks = map[int][]byte{}
			case "toobig":
				chunk = nil
				bufCells = 0
			}
		case "Finish":
			if err := cs.FinishWriteChunk(chunk); err != nil {
				return fail(i, "FinishWriteChunk: %v", err)
			}
			chunk = nil
			masks = map[int][]byte{}
			if bufCells > 0 {
				cur.flush(woff, bufCells)
				bufCells = 0
			}
			cur.kinds = cur.kinds[:postOff] // Truncate(c.offset)
			cur.tail, cur.gs = 0, -1
			cur.realSize = cur.start(postOff)
		case "Read":
			body, err := cs.ReadNext(verifC21Magic)
			got := verifC21Parse(body, unit)
			want := []int{}
			if l, ok := s["ids"].([]any); ok {
				for _, x := range l {
					want = append(want, int(x.(float64)))
				}
			}
			if fmt.Sprint(got) != fmt.Sprint(want) {
				return fail(i, "ReadNext returned items %v (err=%v), the model says %s %v", got, err, s.Str("r"), want)
			}
			if (s.Str("r") == "err") != (err != nil) {
				out.errDiff++
			}
		case "Trunc":
			k, t := s.Int("k"), s.Int("t")
			target := 0
			if cur.gs >= 0 && k >= cur.gs { // inside the garbage
				target = cur.gsBytes
				if g := cur.garbage(); g > 0 && (k > cur.gs || t == 1) {
					target += 1 + v%g
				}
				if k == cur.gs && t == 0 {
					cur.gs = -1
				}
			} else {
				target = cur.start(k)
				if t == 1 {
					L := verifC21CellLen(cur.kinds[k], unit)
					frag := 1 + v%(L-1)
					if v/(L-1)%2 == 1 { // also counted from the far end of the cell
						frag = L - frag
					}
					target += frag
				}
				cur.gs = -1
			}
			if target > cur.realSize {
				target = cur.realSize
			}
			be.truncate(target)
			cur.realSize = target
			cur.kinds, cur.tail = cur.kinds[:k], t
			masks = map[int][]byte{}
		case "Flip":
			ci := s.Int("i") - 1
			if cur.gs >= 0 && ci >= cur.gs {
				if g := cur.garbage(); g > 0 {
					be.xor(cur.gsBytes+v%g, []byte{1 << uint(v%8)})
				}
				break
			}
			off := cur.start(ci)
			L := verifC21CellLen(cur.kinds[ci], unit)
			if m, ok := masks[ci]; ok && s.Str("kind") != "size" { // flipping back
				be.xor(off, m)
				delete(masks, ci)
			} else if s.Str("kind") == "size" && (ndamage > 1 || v%4 == 0) {
				nb := make([]byte, 4)
				binary.LittleEndian.PutUint32(nb, uint32(s.Int("alt")*unit))
				be.put(off, nb)
			} else {
				m := make([]byte, L)
				bit := v % (8 * L)
				m[bit/8] = 1 << uint(bit%8)
				be.xor(off, m)
				masks[ci] = m
			}
		default:
			return fail(i, "unknown action %q", s.Act())
		}
		woff = postOff
		if len(cur.kinds) != postLen || cur.tail != postTail {
			out.layoutDiff = fmt.Sprintf("step %d (%s): harness layout %d+%d, model %d+%d (harness bug)", i, s.Act(), len(cur.kinds), cur.tail, postLen, postTail)
			return out
		}
		if sz := be.size(); sz != cur.realSize {
			if out.layoutDiff == "" {
				out.layoutDiff = fmt.Sprintf("step %d (%s): file has %d bytes, expected %d", i, s.Act(), sz, cur.realSize)
			}
			if sz < cur.realSize {
				return out
			}
			// the file kept bytes it should have lost: garbage as far as the model goes; go on,
			// what matters is whether a reader returns it
			if cur.gs < 0 {
				cur.gs, cur.gsBytes = len(cur.kinds), cur.realSize
			}
			cur.realSize = sz
		}
	}
	return out
}

func verifC21Kind(b []verifkit.Step) (flush bool, damage int, maxCell int) {
	for _, s := range b {
		switch s.Act() {
		case "Item":
			if s.Str("res") != "buf" {
				flush = true
			}
		case "Trunc", "Flip":
			damage++
		}
	}
	return
}

func TestVerifC21Chunks(t *testing.T) {
	verifkit.Gate(t)
	res := verifkit.NewResult()
	defer res.Write(t)
	half := verifkit.EnvInt("VERIF_HALF", 2)
	vReal := verifkit.EnvInt("VERIF_VARIANTS_REAL", 3)
	vSmall := verifkit.EnvInt("VERIF_VARIANTS_SMALL", 16)
	fileEvery := verifkit.EnvInt("VERIF_FILE_EVERY", 0) // every n-th behaviour runs on a real file
	res.Consts["ChunkSize"] = ChunkSize
	res.Consts["chunkHeaderSize"] = chunkHeaderSize
	res.Consts["chunkHashSize"] = chunkHashSize
	res.Consts["magic"] = ChunkedMagicMappings
	rnd := verifkit.Rand(2121)
	dir := verifkit.TmpDir(t, "c21-")
	mk := func(n int) verifC21Backend {
		if fileEvery > 0 && n%fileEvery == 0 {
			f, err := os.OpenFile(filepath.Join(dir, fmt.Sprintf("f%d", n)), os.O_CREATE|os.O_RDWR|os.O_TRUNC, 0o666)
			if err != nil {
				t.Fatal(err)
			}
			return &verifC21File{f: f}
		}
		return &verifC21Slice{}
	}
	run := func(n int, b []verifkit.Step, unit, nv int, mode string) {
		_, damage, _ := verifC21Kind(b)
		if damage == 0 {
			nv = 1
		}
		for k := 0; k < nv; k++ {
			v := k // exhaustive over the bits of a cell when there are enough variants, else random
			if nv < 8*chunkHashSize || unit > chunkHashSize {
				v = rnd.Intn(1 << 30)
			}
			be := mk(n)
			var out verifC21Outcome
			func() {
				defer func() {
					if p := recover(); p != nil {
						out.itemsDiff = fmt.Sprintf("panic: %v", p)
					}
				}()
				out = verifC21Replay(b, be, unit, v)
			}()
			be.close()
			res.Steps += out.steps
			res.Count("runs_"+mode, 1)
			res.Count("err_flag_diff", out.errDiff)
			if out.itemsDiff != "" {
				res.Mismatch(verifkit.Mismatch{Beh: b, Step: k, Want: "the model's items", Got: out.itemsDiff,
					Sig: "chunks-items", Note: fmt.Sprintf("mode=%s unit=%d variant=%d layout=%q", mode, unit, v, out.layoutDiff)})
				return
			}
			if out.layoutDiff != "" {
				res.Count("layout_mismatch", 1)
				res.Note("%s unit=%d v=%d: %s", mode, unit, v, out.layoutDiff)
				return
			}
		}
	}
	// the writer's thresholds, probed: flush at exactly ChunkSize/2, error above ChunkSize
	{
		var fp []byte
		cs := NewChunkedStorage2Slice(&fp)
		u := ChunkSize / 2 / half
		chunk := cs.StartWriteChunk(verifC21Magic, 0)
		flushedAt := 0
		for i := 1; i <= 2*half && flushedAt == 0; i++ {
			chunk = append(chunk, verifC21Item(i, 1, u)...)
			chunk, _ = cs.FinishItem(chunk)
			if len(fp) > 0 {
				flushedAt = i
			}
		}
		res.Consts["flushAtCells"] = flushedAt
		chunk = append(cs.StartWriteChunk(verifC21Magic, 0), verifC21Item(1, half-1, u)...)
		chunk = append(chunk, verifC21Item(2, 2*half, u)...)
		_, err1 := cs.FinishItem(chunk)
		chunk = append(cs.StartWriteChunk(verifC21Magic, 0), verifC21Item(1, 2*half, u)...)
		_, err2 := cs.FinishItem(chunk)
		res.Consts["limitOK"] = err1 != nil && err2 == nil
	}
	mode := os.Getenv("VERIF_MODE") // "real": unit = ChunkSize/2/Half; "small": 13-byte unit, behaviours that never flush in FinishItem
	for n, b := range verifkit.LoadBehaviours(t) {
		flush, _, _ := verifC21Kind(b)
		if mode == "small" {
			if flush {
				res.Count("skipped_flush_in_small_mode", 1)
				continue
			}
			run(n, b, verifC21SmallUnit, vSmall, "small")
		} else {
			run(n, b, ChunkSize/2/half, vReal, "real")
		}
		res.Replayed++
		if n < 2 {
			res.Sample(b)
		}
	}
}
