package sqlite

// C17 I->S driver: runs chains of child processes (TestVerifC17Child) on one directory, each
// killed with SIGKILL at an enumerated point x occurrence (or at a random time) or closed
// cleanly, and after every death records what is on disk.  The per-run traces are validated
// by SqliteEngineTrace.tla.

import (
	"bytes"
	"encoding/json"
	"fmt"
	"math/rand"
	"os"
	osexec "os/exec"
	"path/filepath"
	"sort"
	"strings"
	"sync"
	"syscall"
	"testing"
	"time"

	"github.com/VKCOM/statshouse/internal/verifkit"
	"github.com/VKCOM/statshouse/internal/vkgo/binlog/fsbinlog"
)

// points that fire while the engine serves requests
var verifC17ServePoints = []string{
	"Exec", "DoOffsetUpdated", "AppendB", "AppendA", "DoQueued", "SavepointEnd", "Ret",
	"BlCommit", "CommitStored", "CommitNotified", "BlCommitDone",
	"TxBeforeCommit", "TxAfterCommit", "TxAfterBegin",
	"View", "Read", "ReadRet", "End",
}

// points that fire during the re-read after a restart
var verifC17ReplayPoints = []string{
	"BlRun", "RSkip", "SkipDone", "RApply", "ApplyQueued", "ApplyDone", "QueueApplied",
	"BlCommit", "CommitStored", "BlCommitDone", "TxBeforeCommit", "TxAfterCommit", "TxAfterBegin",
	"ChangeRole", "Up",
}

type verifC17Gen struct {
	Kill  string `json:"kill"` // "Point:occ" | "time:<us>" | "" (clean close)
	Nops  int    `json:"nops"`
	Clean bool   `json:"clean"`
	// CommitUS overrides the run's CommitEvery for this generation (0 = run default)
	CommitUS int `json:"commit_us,omitempty"`
}

type verifC17Run struct {
	N        int           `json:"run"`
	Mode     string        `json:"mode"`
	Gens     []verifC17Gen `json:"gens"`
	WSeed    int64         `json:"wseed"`
	Big      bool          `json:"big"`
	CommitUS int           `json:"commit_us"`
	Class    string        `json:"class"`
}

type verifC17Outcome struct {
	trace  string
	hits   []string // kill points actually hit
	hung   int
	errs   []string
	gens   int
	events int
	torn   int
}

func verifC17Append(path string, ev string, kv ...any) {
	tr, err := verifC17OpenTrace(path, "")
	if err != nil {
		return
	}
	tr.line(ev, kv)
	_ = tr.f.Close()
}

func verifC17RunOne(base string, run verifC17Run) (out verifC17Outcome) {
	dir := filepath.Join(base, fmt.Sprintf("run%05d", run.N))
	_ = os.MkdirAll(dir, 0o755)
	out.trace = filepath.Join(dir, "trace.ndjson")
	if _, err := fsbinlog.CreateEmptyFsBinlog(verifC17BinlogOptions(dir)); err != nil {
		out.errs = append(out.errs, "CreateEmptyFsBinlog: "+err.Error())
		return
	}
	verifC17Append(out.trace, "Reset", "run", run.N, "mode", run.Mode, "class", run.Class)
	disk := func(status string, gen int) bool {
		st, err := verifC17ReadDisk(dir)
		if err != nil {
			out.errs = append(out.errs, fmt.Sprintf("run %d gen %d: disk: %v", run.N, gen, err))
			verifC17Append(out.trace, "DiskErr", "err", err.Error())
			return false
		}
		if st.Tail != 0 {
			// the kill cut the last write(2) inside a record: fsbinlog's subject (C18), not judged here
			out.torn++
			verifC17Append(out.trace, "Torn", "tail", st.Tail, "gen", gen)
			return false
		}
		verifC17Append(out.trace, "Disk", "dboff", st.DbOff, "dbrows", st.DbRows, "recs", st.Recs,
			"tail", st.Tail, "status", status, "gen", gen)
		return true
	}
	if !disk("fresh", 0) {
		return
	}
	for gi, g := range run.Gens {
		gen := gi + 1
		cmd := osexec.Command(os.Args[0], "-test.run", "^TestVerifC17Child$", "-test.count=1", "-test.timeout", "300s")
		env := []string{}
		for _, kv := range os.Environ() {
			if strings.HasPrefix(kv, "VERIF_OUT=") || strings.HasPrefix(kv, "VERIF_IN=") {
				continue
			}
			env = append(env, kv)
		}
		clean := "0"
		if g.Clean {
			clean = "1"
		}
		commitUS := run.CommitUS
		if g.CommitUS != 0 {
			commitUS = g.CommitUS
		}
		big := "0"
		if run.Big {
			big = "1"
		}
		env = append(env, "VERIF_C17_CHILD=1", "VERIF_C17_DIR="+dir, "VERIF_C17_TRACE="+out.trace,
			"VERIF_C17_MODE="+run.Mode, fmt.Sprintf("VERIF_C17_GEN=%d", gen),
			fmt.Sprintf("VERIF_C17_FIRSTID=%d", gi*64+1), fmt.Sprintf("VERIF_C17_NOPS=%d", g.Nops),
			fmt.Sprintf("VERIF_C17_WSEED=%d", run.WSeed), "VERIF_C17_CLEAN="+clean, "VERIF_C17_BIG="+big,
			fmt.Sprintf("VERIF_C17_COMMIT_US=%d", commitUS), "VERIF_C17_KILL="+g.Kill)
		cmd.Env = env
		var buf bytes.Buffer
		cmd.Stdout, cmd.Stderr = &buf, &buf
		if err := cmd.Start(); err != nil {
			out.errs = append(out.errs, "start child: "+err.Error())
			return
		}
		done := make(chan error, 1)
		go func() { done <- cmd.Wait() }()
		var timeKill <-chan time.Time
		if strings.HasPrefix(g.Kill, "time:") {
			var us int
			fmt.Sscanf(g.Kill[5:], "%d", &us)
			timeKill = time.After(time.Duration(us) * time.Microsecond)
		}
		hang := time.After(200 * time.Second)
		var werr error
		hung := false
	wait:
		for {
			select {
			case werr = <-done:
				break wait
			case <-timeKill:
				_ = cmd.Process.Kill()
				timeKill = nil
			case <-hang:
				hung = true
				_ = cmd.Process.Kill()
				hang = nil
			}
		}
		out.gens++
		status := "exit0"
		if werr != nil {
			status = "error"
			if ee, ok := werr.(*osexec.ExitError); ok {
				if ws, ok := ee.Sys().(syscall.WaitStatus); ok && ws.Signaled() && ws.Signal() == syscall.SIGKILL {
					status = "killed"
				}
			}
		}
		if hung {
			out.hung++
			status = "hung"
			verifC17Append(out.trace, "Hung", "gen", gen)
		}
		if status == "error" {
			tail := buf.String()
			if len(tail) > 1500 {
				tail = tail[len(tail)-1500:]
			}
			verifC17Append(out.trace, "ChildExit", "gen", gen, "out", tail)
			out.errs = append(out.errs, fmt.Sprintf("run %d gen %d (%s): child failed: %s", run.N, gen, g.Kill, tail))
		}
		if !disk(status, gen) || status == "error" || status == "hung" {
			return
		}
	}
	return
}

func verifC17Plan(seed int64, nocc, nrand int, thorough bool) []verifC17Run {
	rng := rand.New(rand.NewSource(seed*7919 + 17))
	var runs []verifC17Run
	add := func(mode, class string, gens []verifC17Gen) {
		commit := []int{500, 2000, 8000}[rng.Intn(3)]
		runs = append(runs, verifC17Run{N: len(runs), Mode: mode, Gens: gens, WSeed: 1 + rng.Int63n(1<<30),
			Big: rng.Intn(4) == 0, CommitUS: commit, Class: class})
	}
	anyPoint := func(pts []string) string {
		return fmt.Sprintf("%s:%d", pts[rng.Intn(len(pts))], 1+rng.Intn(8))
	}
	nops := func() int { return 3 + rng.Intn(5) }
	tail := func() []verifC17Gen {
		// the last generation closes cleanly: afterwards the database must hold the whole binlog
		return []verifC17Gen{{Kill: "", Nops: 2, Clean: true}}
	}
	for _, mode := range []string{"wait", "nowait"} {
		for _, p := range verifC17ServePoints {
			for occ := 1; occ <= nocc; occ++ {
				o := occ
				if occ > 2 { // later occurrences: spread
					o = occ + rng.Intn(6)
				}
				gens := []verifC17Gen{{Kill: fmt.Sprintf("%s:%d", p, o), Nops: nops()},
					{Kill: anyPoint(verifC17ServePoints), Nops: nops()}}
				add(mode, "serve/"+p, append(gens, tail()...))
			}
		}
		for _, p := range verifC17ReplayPoints {
			for occ := 1; occ <= nocc; occ++ {
				// generation 1 leaves a binlog that is ahead of the database, generation 2 dies
				// while re-reading it, generation 3 re-reads again and dies while serving
				// (no timer commit in generation 1 of every other run, so that all of it is re-read)
				g1commit := 0
				if rng.Intn(2) == 0 {
					g1commit = 5000000
				}
				gens := []verifC17Gen{{Kill: anyPoint([]string{"Ret", "AppendA", "BlCommitDone", "View", "End"}), Nops: nops(), CommitUS: g1commit},
					{Kill: fmt.Sprintf("%s:%d", p, occ), Nops: nops()},
					{Kill: anyPoint(verifC17ServePoints), Nops: nops()}}
				add(mode, "replay/"+p, append(gens, tail()...))
			}
		}
		for i := 0; i < nrand; i++ {
			gens := []verifC17Gen{}
			for g := 0; g < 2+rng.Intn(2); g++ {
				gens = append(gens, verifC17Gen{Kill: fmt.Sprintf("time:%d", rng.Intn(40000)), Nops: nops()})
			}
			add(mode, "time", append(gens, tail()...))
		}
	}
	return runs
}

func TestVerifC17Crash(t *testing.T) {
	verifkit.Gate(t)
	res := verifkit.NewResult()
	defer res.Write(t)
	base := verifkit.TmpDir(t, "c17-crash-")
	nocc := verifkit.EnvInt("VERIF_C17_OCC", 2)
	nrand := verifkit.EnvInt("VERIF_C17_NRANDOM", 10)
	par := verifkit.EnvInt("VERIF_C17_PAR", 8)
	runs := verifC17Plan(verifkit.Seed(), nocc, nrand, verifkit.Thorough())
	if lim := verifkit.EnvInt("VERIF_C17_MAXRUNS", 0); lim > 0 && lim < len(runs) {
		runs = runs[:lim]
	}
	outs := make([]verifC17Outcome, len(runs))
	var wg sync.WaitGroup
	ch := make(chan int)
	for i := 0; i < par; i++ {
		wg.Add(1)
		go func() {
			defer wg.Done()
			for n := range ch {
				outs[n] = verifC17RunOne(base, runs[n])
			}
		}()
	}
	for n := range runs {
		ch <- n
	}
	close(ch)
	wg.Wait()

	files := map[string]*os.File{}
	for _, mode := range []string{"wait", "nowait"} {
		p := filepath.Join(base, "trace_"+mode+".ndjson")
		f, err := os.Create(p)
		if err != nil {
			t.Fatal(err)
		}
		files[mode] = f
		res.Files = append(res.Files, p)
	}
	hits := map[string]int{}
	for n, o := range outs {
		b, err := os.ReadFile(o.trace)
		if err != nil {
			res.Note("run %d: no trace: %v", n, err)
			continue
		}
		// keep well-formed lines only: a line cut by the kill belongs to a step that never happened
		for _, ln := range bytes.Split(b, []byte{'\n'}) {
			if len(ln) == 0 {
				continue
			}
			var m map[string]any
			if json.Unmarshal(ln, &m) != nil {
				res.Count("cut_lines", 1)
				continue
			}
			if m["ev"] == "ViewBusy" || m["ev"] == "EngineBusy" {
				res.Count("sqlite_busy", 1)
			}
			if m["ev"] == "Kill" {
				hits[fmt.Sprintf("%s/%v", runs[n].Mode, m["at"])]++
			}
			files[runs[n].Mode].Write(ln)
			files[runs[n].Mode].Write([]byte{'\n'})
			res.Steps++
		}
		res.Replayed++
		res.Count("generations", o.gens)
		res.Count("hung", o.hung)
		res.Count("torn_tail", o.torn)
		res.Count("child_errors", len(o.errs))
		for _, e := range o.errs {
			res.Note("%s", e)
		}
		res.Seen(runs[n].Mode + "/" + runs[n].Class)
	}
	for _, f := range files {
		_ = f.Close()
	}
	ks := make([]string, 0, len(hits))
	for k := range hits {
		ks = append(ks, k)
	}
	sort.Strings(ks)
	for _, k := range ks {
		res.Counters["kill@"+k] = hits[k]
	}
	res.Sample(map[string]any{"runs": len(runs), "first": runs[0]})
	res.Consts["points_serve"] = verifC17ServePoints
	res.Consts["points_replay"] = verifC17ReplayPoints
}
