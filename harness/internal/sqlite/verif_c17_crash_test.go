package sqlite

// C17 I->S driver: runs chains of child processes (TestVerifC17Child) on one directory, each
// killed with SIGKILL at an enumerated point x occurrence (or at a random time) or closed
// cleanly, and after every death records what is on disk.  The per-run traces are validated
// by SqliteEngineTrace.tla.

import (
	"bytes"
	"encoding/json"
	"fmt"
	"math/rand"
	"os"
	osexec "os/exec"
	"path/filepath"
	"sort"
	"strings"
	"sync"
	"syscall"
	"testing"
	"time"

	"github.com/VKCOM/statshouse/internal/verifkit"
	"github.com/VKCOM/statshouse/internal/vkgo/binlog/fsbinlog"
)

// points that fire while the engine serves requests
var verifC17ServePoints = []string{
	"Exec", "DoOffsetUpdated", "AppendB", "AppendA", "DoQueued", "SavepointEnd", "Ret",
	"BlCommit", "CommitStored", "CommitNotified", "BlCommitDone",
	"TxBeforeCommit", "TxAfterCommit", "TxAfterBegin",
	"View", "Read", "ReadRet", "End",
}

// points that fire during the re-read after a restart
var verifC17ReplayPoints = []string{
	"BlRun", "RSkip", "SkipDone", "RApply", "ApplyQueued", "ApplyDone", "QueueApplied",
	"BlCommit", "CommitStored", "BlCommitDone", "TxBeforeCommit", "TxAfterCommit", "TxAfterBegin",
	"ChangeRole", "Up",
}

type verifC17Gen struct {
	Kill  string `json:"kill"` // "Point:occ" | "time:<us>" | "" (clean close)
	Nops  int    `json:"nops"`
	Clean bool   `json:"clean"`
	// CommitUS overrides the run's CommitEvery for this generation (0 = run default)
	CommitUS int `json:"commit_us,omitempty"`
}

type verifC17Run struct {
	N        int           `json:"run"`
	Mode     string        `json:"mode"`
	Gens     []verifC17Gen `json:"gens"`
	WSeed    int64         `json:"wseed"`
	Big      bool          `json:"big"`
	CommitUS int           `json:"commit_us"`
	Class    string        `json:"class"`
	Torn     bool          `json:"torn,omitempty"` // followed by the torn-tail / ReadAndExit stage
}

type verifC17Outcome struct {
	trace  string
	hits   []string // kill points actually hit
	hung   int
	errs   []string
	gens   int
	events int
	torn   int
}

func verifC17Append(path string, ev string, kv ...any) {
	tr, err := verifC17OpenTrace(path, "")
	if err != nil {
		return
	}
	tr.line(ev, kv)
	_ = tr.f.Close()
}

// verifC17Spawn runs one child generation to its death and classifies how it ended.
func verifC17Spawn(dir, trace string, run verifC17Run, g verifC17Gen, gen int, out *verifC17Outcome, extra ...string) (status string) {
	cmd := osexec.Command(os.Args[0], "-test.run", "^TestVerifC17Child$", "-test.count=1", "-test.timeout", "300s")
	env := []string{}
	for _, kv := range os.Environ() {
		if strings.HasPrefix(kv, "VERIF_OUT=") || strings.HasPrefix(kv, "VERIF_IN=") {
			continue
		}
		env = append(env, kv)
	}
	clean := "0"
	if g.Clean {
		clean = "1"
	}
	commitUS := run.CommitUS
	if g.CommitUS != 0 {
		commitUS = g.CommitUS
	}
	big := "0"
	if run.Big {
		big = "1"
	}
	env = append(env, "VERIF_C17_CHILD=1", "VERIF_C17_DIR="+dir, "VERIF_C17_TRACE="+trace,
		"VERIF_C17_MODE="+run.Mode, fmt.Sprintf("VERIF_C17_GEN=%d", gen),
		fmt.Sprintf("VERIF_C17_FIRSTID=%d", (gen-1)*64+1), fmt.Sprintf("VERIF_C17_NOPS=%d", g.Nops),
		fmt.Sprintf("VERIF_C17_WSEED=%d", run.WSeed), "VERIF_C17_CLEAN="+clean, "VERIF_C17_BIG="+big,
		fmt.Sprintf("VERIF_C17_COMMIT_US=%d", commitUS), "VERIF_C17_KILL="+g.Kill)
	cmd.Env = append(env, extra...)
	var buf bytes.Buffer
	cmd.Stdout, cmd.Stderr = &buf, &buf
	if err := cmd.Start(); err != nil {
		out.errs = append(out.errs, "start child: "+err.Error())
		return "error"
	}
	done := make(chan error, 1)
	go func() { done <- cmd.Wait() }()
	var timeKill <-chan time.Time
	if strings.HasPrefix(g.Kill, "time:") {
		var us int
		fmt.Sscanf(g.Kill[5:], "%d", &us)
		timeKill = time.After(time.Duration(us) * time.Microsecond)
	}
	hang := time.After(200 * time.Second)
	var werr error
	hung := false
wait:
	for {
		select {
		case werr = <-done:
			break wait
		case <-timeKill:
			_ = cmd.Process.Kill()
			timeKill = nil
		case <-hang:
			hung = true
			_ = cmd.Process.Kill()
			hang = nil
		}
	}
	out.gens++
	status = "exit0"
	if werr != nil {
		status = "error"
		if ee, ok := werr.(*osexec.ExitError); ok {
			if ws, ok := ee.Sys().(syscall.WaitStatus); ok && ws.Signaled() && ws.Signal() == syscall.SIGKILL {
				status = "killed"
			}
		}
	}
	if hung {
		out.hung++
		status = "hung"
		verifC17Append(trace, "Hung", "gen", gen)
	}
	if status == "error" {
		tail := buf.String()
		if len(tail) > 1500 {
			tail = tail[len(tail)-1500:]
		}
		verifC17Append(trace, "ChildExit", "gen", gen, "out", tail)
		out.errs = append(out.errs, fmt.Sprintf("run %d gen %d (%s): child failed: %s", run.N, gen, g.Kill, tail))
	}
	return status
}

// verifC17Disk appends what is on disk now to the trace; false = the run cannot go on
func verifC17Disk(dir, dbName, trace, status string, gen int, run verifC17Run, out *verifC17Outcome) (verifC17DiskState, bool) {
	st, err := verifC17ReadDisk(dir, dbName)
	if err != nil {
		out.errs = append(out.errs, fmt.Sprintf("run %d gen %d: disk: %v", run.N, gen, err))
		verifC17Append(trace, "DiskErr", "err", err.Error())
		return st, false
	}
	if st.Tail != 0 && status != "torn" {
		// the kill cut the last write(2) inside a record: fsbinlog's subject (C18), not judged here
		out.torn++
		verifC17Append(trace, "Torn", "tail", st.Tail, "gen", gen)
		return st, false
	}
	if status == "torn" {
		status = "fresh"
	}
	verifC17Append(trace, "Disk", "dboff", st.DbOff, "dbrows", st.DbRows, "recs", st.Recs,
		"tail", st.Tail, "status", status, "gen", gen)
	return st, true
}

func verifC17RunOne(base string, run verifC17Run) (out verifC17Outcome) {
	dir := filepath.Join(base, fmt.Sprintf("run%05d", run.N))
	_ = os.MkdirAll(dir, 0o755)
	out.trace = filepath.Join(dir, "trace.ndjson")
	if _, err := fsbinlog.CreateEmptyFsBinlog(verifC17BinlogOptions(dir)); err != nil {
		out.errs = append(out.errs, "CreateEmptyFsBinlog: "+err.Error())
		return
	}
	verifC17Append(out.trace, "Reset", "run", run.N, "mode", run.Mode, "class", run.Class)
	if _, ok := verifC17Disk(dir, verifC17DBName, out.trace, "fresh", 0, run, &out); !ok {
		return
	}
	for gi, g := range run.Gens {
		status := verifC17Spawn(dir, out.trace, run, g, gi+1, &out)
		if _, ok := verifC17Disk(dir, verifC17DBName, out.trace, status, gi+1, run, &out); !ok || status == "error" || status == "hung" {
			return
		}
	}
	if run.Torn {
		verifC17TornTail(dir, run, &out)
	}
	return
}

// verifC17TornTail: after the master of this run was closed, its binlog is cut inside the last
// event (a master that is in the middle of a write / was killed there); a ReadAndExit engine with
// a database of its own reads the cut files and is closed; the rest of the event reaches the
// disk; the same engine is started again.  Second segment of the run's trace.
func verifC17TornTail(dir string, run verifC17Run, out *verifC17Outcome) {
	full, err := verifC17ReadDisk(dir, verifC17DBName)
	files, _ := filepath.Glob(filepath.Join(dir, verifC17BlPrefix+".*.bin"))
	if err != nil || full.Tail != 0 || len(files) != 1 || len(full.Recs) == 0 {
		out.errs = append(out.errs, fmt.Sprintf("run %d: torn-tail stage cannot start (%v, %d files)", run.N, err, len(files)))
		return
	}
	lastUser := -1
	for i, r := range full.Recs {
		if r.ID != 0 {
			lastUser = i
		}
	}
	if lastUser < 0 {
		return
	}
	content, err := os.ReadFile(files[0])
	if err != nil {
		out.errs = append(out.errs, err.Error())
		return
	}
	rng := rand.New(rand.NewSource(run.WSeed + 99))
	ev := full.Recs[lastUser]
	end := full.Recs[len(full.Recs)-1].End
	cut := (end - ev.End) + 4 + rng.Int63n(ev.Sz-7) // bytes removed: trailing service records + part of the last event
	if err := os.WriteFile(files[0], content[:int64(len(content))-cut], 0o640); err != nil {
		out.errs = append(out.errs, err.Error())
		return
	}
	const db2 = "db_reread"
	verifC17Append(out.trace, "Reset", "run", run.N, "mode", run.Mode, "class", run.Class+"/reread")
	st, ok := verifC17Disk(dir, db2, out.trace, "torn", 0, run, out)
	if !ok {
		return
	}
	verifC17Append(out.trace, "Grow", "recs", st.Recs) // written by the master: in the files, durable
	for gen := 1; gen <= 2; gen++ {
		status := verifC17Spawn(dir, out.trace, run, verifC17Gen{Clean: true}, gen, out, "VERIF_C17_ROLE=reread", "VERIF_C17_DB="+db2)
		if status == "error" || status == "hung" {
			return
		}
		st, err := verifC17ReadDisk(dir, db2)
		if err != nil {
			out.errs = append(out.errs, err.Error())
			verifC17Append(out.trace, "DiskErr", "err", err.Error())
			return
		}
		verifC17Append(out.trace, "Disk", "dboff", st.DbOff, "dbrows", st.DbRows, "recs", st.Recs,
			"tail", st.Tail, "status", status, "gen", gen)
		if gen == 1 {
			if err := os.WriteFile(files[0], content, 0o640); err != nil { // the rest of the event reaches the disk
				out.errs = append(out.errs, err.Error())
				return
			}
			verifC17Append(out.trace, "Grow", "recs", full.Recs)
		}
	}
}

func verifC17Plan(seed int64, nocc, nrand int, thorough bool) []verifC17Run {
	rng := rand.New(rand.NewSource(seed*7919 + 17))
	var runs []verifC17Run
	add := func(mode, class string, gens []verifC17Gen) {
		commit := []int{500, 2000, 8000}[rng.Intn(3)]
		runs = append(runs, verifC17Run{N: len(runs), Mode: mode, Gens: gens, WSeed: 1 + rng.Int63n(1<<30),
			Big: rng.Intn(4) == 0, CommitUS: commit, Class: class})
	}
	anyPoint := func(pts []string) string {
		return fmt.Sprintf("%s:%d", pts[rng.Intn(len(pts))], 1+rng.Intn(8))
	}
	nops := func() int { return 3 + rng.Intn(5) }
	tail := func() []verifC17Gen {
		// the last generation closes cleanly: afterwards the database must hold the whole binlog
		return []verifC17Gen{{Kill: "", Nops: 2, Clean: true}}
	}
	for _, mode := range []string{"wait", "nowait"} {
		for _, p := range verifC17ServePoints {
			for occ := 1; occ <= nocc; occ++ {
				o := occ
				if occ > 2 { // later occurrences: spread
					o = occ + rng.Intn(6)
				}
				gens := []verifC17Gen{{Kill: fmt.Sprintf("%s:%d", p, o), Nops: nops()},
					{Kill: anyPoint(verifC17ServePoints), Nops: nops()}}
				add(mode, "serve/"+p, append(gens, tail()...))
			}
		}
		for _, p := range verifC17ReplayPoints {
			for occ := 1; occ <= nocc; occ++ {
				// generation 1 leaves a binlog that is ahead of the database, generation 2 dies
				// while re-reading it, generation 3 re-reads again and dies while serving
				// (no timer commit in generation 1 of every other run, so that all of it is re-read)
				g1commit := 0
				if rng.Intn(2) == 0 {
					g1commit = 5000000
				}
				gens := []verifC17Gen{{Kill: anyPoint([]string{"Ret", "AppendA", "BlCommitDone", "View", "End"}), Nops: nops(), CommitUS: g1commit},
					{Kill: fmt.Sprintf("%s:%d", p, occ), Nops: nops()},
					{Kill: anyPoint(verifC17ServePoints), Nops: nops()}}
				add(mode, "replay/"+p, append(gens, tail()...))
			}
		}
		if mode == "wait" {
			ntorn := 6
			if thorough {
				ntorn = 30
			}
			for i := 0; i < ntorn; i++ {
				// a master that is closed cleanly (sometimes after a kill + restart), then the torn-tail stage
				gens := []verifC17Gen{}
				if i%3 == 2 {
					gens = append(gens, verifC17Gen{Kill: anyPoint(verifC17ServePoints), Nops: nops()})
				}
				gens = append(gens, verifC17Gen{Nops: 2 + nops(), Clean: true})
				add(mode, "torn", gens)
				runs[len(runs)-1].Torn = true
				runs[len(runs)-1].Big = i%2 == 1
			}
		}
		for i := 0; i < nrand; i++ {
			gens := []verifC17Gen{}
			for g := 0; g < 2+rng.Intn(2); g++ {
				gens = append(gens, verifC17Gen{Kill: fmt.Sprintf("time:%d", rng.Intn(40000)), Nops: nops()})
			}
			add(mode, "time", append(gens, tail()...))
		}
	}
	return runs
}

func TestVerifC17Crash(t *testing.T) {
	verifkit.Gate(t)
	res := verifkit.NewResult()
	defer res.Write(t)
	base := verifkit.TmpDir(t, "c17-crash-")
	nocc := verifkit.EnvInt("VERIF_C17_OCC", 2)
	nrand := verifkit.EnvInt("VERIF_C17_NRANDOM", 10)
	par := verifkit.EnvInt("VERIF_C17_PAR", 8)
	runs := verifC17Plan(verifkit.Seed(), nocc, nrand, verifkit.Thorough())
	if only := os.Getenv("VERIF_C17_ONLY"); only != "" { // development aid: one class of runs
		var keep []verifC17Run
		for _, r := range runs {
			if strings.HasPrefix(r.Class, only) {
				r.N = len(keep)
				keep = append(keep, r)
			}
		}
		runs = keep
	}
	if lim := verifkit.EnvInt("VERIF_C17_MAXRUNS", 0); lim > 0 && lim < len(runs) {
		runs = runs[:lim]
	}
	outs := make([]verifC17Outcome, len(runs))
	var wg sync.WaitGroup
	ch := make(chan int)
	for i := 0; i < par; i++ {
		wg.Add(1)
		go func() {
			defer wg.Done()
			for n := range ch {
				outs[n] = verifC17RunOne(base, runs[n])
			}
		}()
	}
	for n := range runs {
		ch <- n
	}
	close(ch)
	wg.Wait()

	files := map[string]*os.File{}
	for _, mode := range []string{"wait", "nowait"} {
		p := filepath.Join(base, "trace_"+mode+".ndjson")
		f, err := os.Create(p)
		if err != nil {
			t.Fatal(err)
		}
		files[mode] = f
		res.Files = append(res.Files, p)
	}
	hits := map[string]int{}
	for n, o := range outs {
		b, err := os.ReadFile(o.trace)
		if err != nil {
			res.Note("run %d: no trace: %v", n, err)
			continue
		}
		// keep well-formed lines only: a line cut by the kill belongs to a step that never happened
		for _, ln := range bytes.Split(b, []byte{'\n'}) {
			if len(ln) == 0 {
				continue
			}
			var m map[string]any
			if json.Unmarshal(ln, &m) != nil {
				res.Count("cut_lines", 1)
				continue
			}
			if m["ev"] == "ViewBusy" || m["ev"] == "EngineBusy" {
				res.Count("sqlite_busy", 1)
			}
			if m["ev"] == "Kill" {
				hits[fmt.Sprintf("%s/%v", runs[n].Mode, m["at"])]++
			}
			files[runs[n].Mode].Write(ln)
			files[runs[n].Mode].Write([]byte{'\n'})
			res.Steps++
		}
		res.Replayed++
		res.Count("generations", o.gens)
		res.Count("hung", o.hung)
		res.Count("torn_tail", o.torn)
		res.Count("child_errors", len(o.errs))
		for _, e := range o.errs {
			res.Note("%s", e)
		}
		res.Seen(runs[n].Mode + "/" + runs[n].Class)
	}
	for _, f := range files {
		_ = f.Close()
	}
	ks := make([]string, 0, len(hits))
	for k := range hits {
		ks = append(ks, k)
	}
	sort.Strings(ks)
	for _, k := range ks {
		res.Counters["kill@"+k] = hits[k]
	}
	res.Sample(map[string]any{"runs": len(runs), "first": runs[0]})
	res.Consts["points_serve"] = verifC17ServePoints
	res.Consts["points_replay"] = verifC17ReplayPoints
}
