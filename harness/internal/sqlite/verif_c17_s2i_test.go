package sqlite

// C17 S->I: behaviours of SqliteEngine.tla (replica role: Engine.Apply with the switch to the
// apply queue, apply()'s skip of already applied bytes, Skip, Commit with the commit of the
// write transaction and the drain of the queue, crash and restart from the stored offset) are
// replayed on the real engine over a file database; a do-nothing binlog stands in for the
// event reactor, the test calls the engine's callbacks itself.  After every step the engine's
// in-memory state, the write connection's view and the committed database (through a
// read-only connection) are compared with the specification's state.

import (
	"context"
	"encoding/binary"
	"errors"
	"fmt"
	"io"
	"log"
	"os"
	"path/filepath"
	"sync"
	"sync/atomic"
	"testing"

	binlog2 "github.com/VKCOM/statshouse/internal/vkgo/binlog"
	"github.com/VKCOM/statshouse/internal/verifkit"
)

type verifC17NopBinlog struct{}

func (verifC17NopBinlog) Run(int64, []byte, []byte, binlog2.Engine) error { return nil }
func (verifC17NopBinlog) Append(int64, []byte) (int64, error) {
	return 0, fmt.Errorf("verif: Append on the replica stub")
}
func (verifC17NopBinlog) AppendASAP(int64, []byte) (int64, error) {
	return 0, fmt.Errorf("verif: AppendASAP on the replica stub")
}
func (verifC17NopBinlog) EngineStatus(binlog2.EngineStatus)     {}
func (verifC17NopBinlog) GetStartCmd() (binlog2.StartCmd, bool) { return binlog2.StartCmd{}, false }
func (verifC17NopBinlog) RequestShutdown()                      {}
func (verifC17NopBinlog) RequestReindex(bool, bool)             {}
func (verifC17NopBinlog) AddStats(map[string]string)            {}

type verifC17Replica struct {
	e    *Engine
	impl *binlogEngineReplicaImpl
}

func verifC17OpenReplica(path string) (*verifC17Replica, error) {
	e, err := openDB(Options{Path: path, APPID: verifC17AppID, Scheme: verifC17Schema, Replica: true,
		DurabilityMode: WaitCommit, CacheMaxSizePerConnect: 10, MaxROConn: 2}, verifC17NopBinlog{},
		verifC17Apply(false), verifC17Apply(true))
	if err != nil {
		return nil, err
	}
	e.isTest = true // no reactor goroutine, the clock condition of Apply is e.mustWaitCommit
	impl, err := e.binlogRun()
	if err != nil {
		return nil, err
	}
	return &verifC17Replica{e: e, impl: impl}, nil
}

func (r *verifC17Replica) project() (map[string]any, error) {
	p := map[string]any{}
	p["dbo"] = r.e.dbOffset
	p["rst"] = "none"
	if r.impl.state == waitToCommit {
		p["rst"] = "wtc"
	}
	p["qlen"] = 0
	if r.impl.applyQueue != nil {
		p["qlen"] = len(r.impl.applyQueue.q)
		if r.impl.state == waitToCommit {
			p["qoff"] = r.impl.applyQueue.dbOffset
		}
	}
	ci, _ := r.e.committedInfo.Load().(*committedInfo)
	p["cinfo"] = ci.offset
	err := r.e.do(func(c Conn) error {
		rows, err := verifC17Rows(c)
		if err != nil {
			return err
		}
		off, _, err := binlogLoadPosition(c)
		p["txapp"], p["txoff"] = rows, off
		return err
	})
	if err != nil {
		return nil, err
	}
	err = r.e.View(context.Background(), "verif_v", func(c Conn) error {
		rows, err := verifC17Rows(c)
		if err != nil {
			return err
		}
		off, _, err := binlogLoadPosition(c)
		p["dbapp"], p["dboff"] = rows, off
		return err
	})
	return p, err
}

func TestVerifC17S2I(t *testing.T) {
	verifkit.Gate(t)
	log.SetOutput(io.Discard)
	res := verifkit.NewResult()
	defer res.Write(t)
	behs := verifkit.LoadBehaviours(t)
	base := verifkit.TmpDir(t, "c17-s2i-")
	var nsteps, nreplayed atomic.Int64
	var wg sync.WaitGroup
	work := make(chan int)
	one := func(bi int) {
		beh := behs[bi]
		dir := filepath.Join(base, fmt.Sprintf("b%06d", bi))
		if err := os.MkdirAll(dir, 0o755); err != nil {
			res.Note("mkdir: %v", err)
			return
		}
		path := filepath.Join(dir, "db")
		var r *verifC17Replica
		bad := func(i int, want, got any, sig, note string) {
			res.Mismatch(verifkit.Mismatch{Beh: beh, Step: i, Want: want, Got: got, Sig: sig, Note: note})
		}
		ok := true
	steps:
		for i, st := range beh {
			nsteps.Add(1)
			var ret any
			wantRet := false
			switch st.Act() {
			case "ExtAppend":
				continue
			case "Restart":
				var err error
				if r, err = verifC17OpenReplica(path); err != nil {
					bad(i, "engine opens", err.Error(), "s2i/Restart", "")
					ok = false
					break steps
				}
			case "Crash":
				if r != nil {
					_ = r.e.close(false, false) // connections closed without COMMIT: the open write transaction is lost
					r = nil
				}
				continue
			case "Skip":
				off, err := r.impl.Skip(int64(st.Int("n")))
				if err != nil {
					bad(i, "no error", err.Error(), "s2i/Skip", "")
					ok = false
					break steps
				}
				ret, wantRet = off, true
			case "Apply":
				var payload []byte
				ids, _ := st["ids"].([]any)
				szs, _ := st["szs"].([]any)
				for k := range ids {
					id, sz := int(ids[k].(float64)), int(szs[k].(float64))
					payload = append(payload, verifC17Event(uint32(id), sz-verifC17HeaderLen)...)
				}
				// what follows the complete events in the buffer handed to Apply
				var wantErr error
				switch st.Str("tail") {
				case "partial": // the first 12 bytes of a 20-byte event
					payload = append(payload, verifC17Event(9999, 8)[:12]...)
					wantErr = binlog2.ErrorNotEnoughData
				case "svc": // a crc32 record of fsbinlog
					svc := make([]byte, 20)
					binary.LittleEndian.PutUint32(svc, 0x04435243)
					payload = append(payload, svc...)
					wantErr = binlog2.ErrorUnknownMagic
				}
				r.e.mustWaitCommit = st.Bool("elapsed") || r.impl.state == waitToCommit
				off, err := r.impl.Apply(payload)
				if !errors.Is(err, wantErr) || (wantErr == nil && err != nil) {
					bad(i, fmt.Sprint("error: ", wantErr), fmt.Sprint("error: ", err), "s2i/Apply", "error returned to the binlog")
					ok = false
					break steps
				}
				ret, wantRet = off, true
			case "Commit":
				off := int64(st.Int("off"))
				if err := r.impl.Commit(off, nil, off); err != nil {
					bad(i, "no error", err.Error(), "s2i/Commit", "")
					ok = false
					break steps
				}
			case "Desync":
				r.e.dbOffset = int64(st.Int("off")) // the binlog is started below the stored offset
			case "DoWriteReplica":
				id := uint32(st.Int("w"))
				err := r.e.Do(context.Background(), "verif_w", func(c Conn, _ []byte) ([]byte, error) {
					if _, err := c.Exec("verif_ins", "INSERT INTO verif_t(w) VALUES ($w)", Int64("$w", int64(id))); err != nil {
						return nil, err
					}
					return verifC17Event(id, 4*int(id)), nil
				})
				if err == nil {
					bad(i, "error (replica cannot write the binlog)", "nil", "s2i/DoWriteReplica", "")
				}
			default:
				bad(i, "known action", st.Act(), "s2i/harness", "")
				ok = false
				break steps
			}
			post := st.Post()
			if post == nil {
				continue
			}
			got, err := r.project()
			if err != nil {
				bad(i, "projection", err.Error(), "s2i/"+st.Act(), "")
				ok = false
				break steps
			}
			want := map[string]any{}
			for k, v := range post {
				if k == "qoff" && post["rst"] != "wtc" {
					continue
				}
				want[k] = v
			}
			if verifkit.Canon(want) != verifkit.Canon(got) {
				bad(i, want, got, "s2i/"+st.Act(), "state after the step")
				ok = false
				break steps
			}
			if wantRet {
				exp := post["dbo"]
				if post["rst"] == "wtc" {
					exp = post["qoff"]
				}
				if verifkit.Canon(exp) != verifkit.Canon(ret) {
					bad(i, exp, ret, "s2i/"+st.Act()+"/offset", "offset returned to the binlog")
					ok = false
					break steps
				}
			}
			res.Seen(st.Act() + "/" + fmt.Sprint(post["rst"]))
		}
		if r != nil {
			_ = r.e.close(false, false)
		}
		if ok {
			nreplayed.Add(1)
		}
		_ = os.RemoveAll(dir)
	}
	for i := 0; i < verifkit.EnvInt("VERIF_C17_PAR", 4); i++ {
		wg.Add(1)
		go func() {
			defer wg.Done()
			for bi := range work {
				one(bi)
			}
		}()
	}
	for bi := range behs {
		work <- bi
	}
	close(work)
	wg.Wait()
	res.Steps, res.Replayed = int(nsteps.Load()), int(nreplayed.Load())
}
