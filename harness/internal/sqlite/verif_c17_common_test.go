package sqlite

// C17 conformance harness, shared pieces: the event format and apply functions of the test
// engine, the trace file (one write(2) with O_APPEND per event, so that an event is on disk
// before the step it announces can have any effect and survives a SIGKILL), kill points, the
// decorators around the real fsbinlog and the engine callbacks, and the observation of what a
// killed process left on disk.

import (
	"encoding/binary"
	"encoding/json"
	"fmt"
	"os"
	"path/filepath"
	"strings"
	"sync"
	"syscall"
	"time"

	"github.com/VKCOM/statshouse/internal/sqlite/sqlite0"
	binlog2 "github.com/VKCOM/statshouse/internal/vkgo/binlog"
	"github.com/VKCOM/statshouse/internal/vkgo/binlog/fsbinlog"
)

const (
	verifC17Magic     uint32 = 0x17c17c17
	verifC17BlMagic   uint32 = 3456
	verifC17Schema           = "CREATE TABLE IF NOT EXISTS verif_t (seq INTEGER PRIMARY KEY, w INTEGER);"
	verifC17AppID            = 0x17c17
	verifC17DBName           = "db"
	verifC17BlPrefix         = "bl"
	verifC17HeaderLen        = 12
)

var errVerifC17Callback = fmt.Errorf("verif c17: callback failed on purpose")

// event = magic, filler length, id, filler; the binlog pads it to 4 bytes
func verifC17Event(id uint32, filler int) []byte {
	b := make([]byte, verifC17HeaderLen+filler)
	binary.LittleEndian.PutUint32(b, verifC17Magic)
	binary.LittleEndian.PutUint32(b[4:], uint32(filler))
	binary.LittleEndian.PutUint32(b[8:], id)
	for i := 0; i < filler; i++ {
		b[verifC17HeaderLen+i] = byte(id) + byte(i) | 1
	}
	return b
}

// verifC17Parse returns the id and padded size of the first event of b
func verifC17Parse(b []byte) (id uint32, n int, err error) {
	if len(b) < 4 {
		return 0, 0, binlog2.ErrorNotEnoughData
	}
	if binary.LittleEndian.Uint32(b) != verifC17Magic {
		return 0, 0, binlog2.ErrorUnknownMagic
	}
	if len(b) < verifC17HeaderLen {
		return 0, 0, binlog2.ErrorNotEnoughData
	}
	filler := int(binary.LittleEndian.Uint32(b[4:]))
	n = fsbinlog.AddPadding(verifC17HeaderLen + filler)
	if len(b) < n {
		return 0, 0, binlog2.ErrorNotEnoughData
	}
	return binary.LittleEndian.Uint32(b[8:]), n, nil
}

func verifC17Apply(scanOnly bool) ApplyEventFunction {
	return func(conn Conn, offset int64, b []byte) (int, error) {
		read := 0
		for len(b) > 0 {
			id, n, err := verifC17Parse(b)
			if err != nil {
				return read, err
			}
			if !scanOnly {
				if _, err = conn.Exec("verif_ins", "INSERT INTO verif_t(w) VALUES ($w)", Int64("$w", int64(id))); err != nil {
					return read, err
				}
			}
			read += n
			b = b[n:]
		}
		return read, nil
	}
}

func verifC17Rows(conn Conn) ([]int64, error) {
	rows := conn.Query("verif_sel", "SELECT w FROM verif_t ORDER BY seq")
	res := []int64{}
	for rows.Next() {
		w, _ := rows.ColumnInt64(0)
		res = append(res, w)
	}
	return res, rows.Error()
}

// ---------------------------------------------------------------------------------------
// trace + kill points

type verifC17Tracer struct {
	f    *os.File
	mu   sync.Mutex
	cnt  map[string]int
	kp   string // kill point (event name), "" = none
	kocc int
}

func verifC17OpenTrace(path, kill string) (*verifC17Tracer, error) {
	f, err := os.OpenFile(path, os.O_WRONLY|os.O_APPEND|os.O_CREATE, 0o644)
	if err != nil {
		return nil, err
	}
	t := &verifC17Tracer{f: f, cnt: map[string]int{}}
	if i := strings.IndexByte(kill, ':'); i > 0 && !strings.HasPrefix(kill, "time:") {
		t.kp = kill[:i]
		fmt.Sscanf(kill[i+1:], "%d", &t.kocc)
	}
	return t, nil
}

func (t *verifC17Tracer) line(ev string, kv []any) {
	m := make(map[string]any, 1+len(kv)/2)
	m["ev"] = ev
	for i := 0; i+1 < len(kv); i += 2 {
		m[fmt.Sprint(kv[i])] = kv[i+1]
	}
	b, err := json.Marshal(m)
	if err != nil {
		b = []byte(fmt.Sprintf(`{"ev":"Bad","what":%q}`, err.Error()))
	}
	b = append(b, '\n')
	_, _ = t.f.Write(b) // one write(2), O_APPEND
}

// Emit logs the event, then kills the process if this is the selected occurrence of the
// selected point.  Events are emitted BEFORE the step they announce (or after the fact for
// observations), so a lost line never hides an effect.
func (t *verifC17Tracer) Emit(ev string, kv ...any) {
	t.line(ev, kv)
	if t.kp == "" || t.kp != ev {
		return
	}
	t.mu.Lock()
	t.cnt[ev]++
	hit := t.cnt[ev] == t.kocc
	t.mu.Unlock()
	if hit {
		t.line("Kill", []any{"at", ev, "occ", t.kocc})
		_ = syscall.Kill(os.Getpid(), syscall.SIGKILL)
		select {}
	}
}

// ---------------------------------------------------------------------------------------
// decorators: real fsbinlog below, real engine callbacks above

type verifC17Binlog struct {
	inner binlog2.Binlog
	tr    *verifC17Tracer
	mu    sync.Mutex // orders AppendA against BlCommit in the trace
	mode  string
}

var _ binlog2.Binlog = &verifC17Binlog{}

func (b *verifC17Binlog) Run(offset int64, snapshotMeta []byte, controlMeta []byte, engine binlog2.Engine) error {
	impl := engine.(*binlogEngineReplicaImpl)
	b.tr.Emit("BlRun", "off", offset)
	err := b.inner.Run(offset, snapshotMeta, controlMeta, &verifC17EngineWrap{impl: impl, b: b})
	if err != nil {
		b.tr.Emit("BlRunErr", "err", err.Error())
	}
	return err
}

func (b *verifC17Binlog) doAppend(onOffset int64, payload []byte, asap bool) (int64, error) {
	id, n, perr := verifC17Parse(append(append([]byte{}, payload...), 0, 0, 0))
	if perr != nil {
		id, n = 0, fsbinlog.AddPadding(len(payload))
	}
	b.mu.Lock()
	defer b.mu.Unlock()
	b.tr.Emit("AppendB", "w", id, "sz", n, "off", onOffset, "asap", asap)
	var next int64
	var err error
	if asap {
		next, err = b.inner.AppendASAP(onOffset, payload)
	} else {
		next, err = b.inner.Append(onOffset, payload)
	}
	if err != nil {
		b.tr.Emit("AppendErr", "w", id, "err", err.Error())
		return next, err
	}
	b.tr.Emit("AppendA", "w", id, "sz", n, "off", onOffset, "next", next, "asap", asap)
	return next, err
}

func (b *verifC17Binlog) Append(onOffset int64, payload []byte) (int64, error) {
	return b.doAppend(onOffset, payload, false)
}
func (b *verifC17Binlog) AppendASAP(onOffset int64, payload []byte) (int64, error) {
	return b.doAppend(onOffset, payload, true)
}
func (b *verifC17Binlog) EngineStatus(status binlog2.EngineStatus) { b.inner.EngineStatus(status) }
func (b *verifC17Binlog) GetStartCmd() (binlog2.StartCmd, bool)   { return b.inner.GetStartCmd() }
func (b *verifC17Binlog) RequestShutdown()                        { b.inner.RequestShutdown() }
func (b *verifC17Binlog) RequestReindex(diff bool, fast bool)     { b.inner.RequestReindex(diff, fast) }
func (b *verifC17Binlog) AddStats(stats map[string]string)        { b.inner.AddStats(stats) }

type verifC17EngineWrap struct {
	impl *binlogEngineReplicaImpl
	b    *verifC17Binlog
}

func (w *verifC17EngineWrap) pos() int64 {
	if w.impl.state == waitToCommit {
		return w.impl.applyQueue.dbOffset
	}
	return w.impl.e.dbOffset
}

func (w *verifC17EngineWrap) Apply(payload []byte) (int64, error) {
	before := w.pos()
	newOffset, err := w.impl.Apply(payload)
	consumed := int(newOffset - before)
	ids, szs := []int64{}, []int64{}
	if consumed > 0 && consumed <= len(payload) {
		p := payload[:consumed]
		for len(p) > 0 {
			id, n, perr := verifC17Parse(p)
			if perr != nil {
				break
			}
			ids, szs = append(ids, int64(id)), append(szs, int64(n))
			p = p[n:]
		}
	}
	es := ""
	if err != nil {
		es = err.Error()
	}
	w.b.tr.Emit("RApply", "ids", ids, "szs", szs, "from", before, "off", newOffset,
		"queued", w.impl.state == waitToCommit, "dbo", w.impl.e.dbOffset, "err", es)
	return newOffset, err
}

func (w *verifC17EngineWrap) Skip(skipLen int64) (int64, error) {
	newOffset, err := w.impl.Skip(skipLen)
	w.b.tr.Emit("RSkip", "n", skipLen, "off", newOffset, "queued", w.impl.state == waitToCommit,
		"dbo", w.impl.e.dbOffset, "err", err != nil)
	return newOffset, err
}

func (w *verifC17EngineWrap) Commit(offset int64, snapshotMeta []byte, safeSnapshotOffset int64) error {
	w.b.mu.Lock()
	w.b.tr.Emit("BlCommit", "off", offset) // the binlog is fsynced up to offset
	w.b.mu.Unlock()
	err := w.impl.Commit(offset, snapshotMeta, safeSnapshotOffset)
	w.b.tr.Emit("BlCommitDone", "off", offset, "err", err != nil)
	return err
}

func (w *verifC17EngineWrap) Revert(toOffset int64) (bool, error) { return w.impl.Revert(toOffset) }
func (w *verifC17EngineWrap) ChangeRole(info binlog2.ChangeRoleInfo) error {
	w.b.tr.Emit("ChangeRole", "master", info.IsMaster, "ready", info.IsReady)
	return w.impl.ChangeRole(info)
}
func (w *verifC17EngineWrap) StartReindex(op binlog2.ReindexOperator) { w.impl.StartReindex(op) }
func (w *verifC17EngineWrap) Split(offset int64, toShardID string) bool {
	return w.impl.Split(offset, toShardID)
}
func (w *verifC17EngineWrap) Shutdown() { w.impl.Shutdown() }

// ---------------------------------------------------------------------------------------
// what a dead process left behind

type verifC17Rec struct {
	ID  int64 `json:"id"`
	Sz  int64 `json:"sz"`
	End int64 `json:"end"`
}

// collector engine: the real fsbinlog reader (ReadAndExit) tells what the files hold
type verifC17Collector struct {
	pos  int64
	recs []verifC17Rec
}

func (c *verifC17Collector) Apply(payload []byte) (int64, error) {
	for len(payload) > 0 {
		id, n, err := verifC17Parse(payload)
		if err != nil {
			return c.pos, err
		}
		c.pos += int64(n)
		c.recs = append(c.recs, verifC17Rec{ID: int64(id), Sz: int64(n), End: c.pos})
		payload = payload[n:]
	}
	return c.pos, nil
}
func (c *verifC17Collector) Skip(skipLen int64) (int64, error) {
	c.pos += skipLen
	c.recs = append(c.recs, verifC17Rec{ID: 0, Sz: skipLen, End: c.pos})
	return c.pos, nil
}
func (c *verifC17Collector) Commit(int64, []byte, int64) error        { return nil }
func (c *verifC17Collector) Revert(int64) (bool, error)               { return false, nil }
func (c *verifC17Collector) ChangeRole(binlog2.ChangeRoleInfo) error  { return nil }
func (c *verifC17Collector) StartReindex(binlog2.ReindexOperator)     {}
func (c *verifC17Collector) Split(offset int64, toShardID string) bool { return false }
func (c *verifC17Collector) Shutdown()                                {}

type verifC17DiskState struct {
	DbOff   int64         `json:"dboff"`
	DbRows  []int64       `json:"dbrows"`
	Recs    []verifC17Rec `json:"recs"`
	Tail    int64         `json:"tail"` // bytes in the binlog files behind the last complete record
	DbExist bool          `json:"dbexist"`
}

func verifC17BinlogOptions(dir string) fsbinlog.Options {
	d := 300 * time.Microsecond
	return fsbinlog.Options{PrefixPath: filepath.Join(dir, verifC17BlPrefix), Magic: verifC17BlMagic, WriteCallDelay: &d}
}

func verifC17ReadDisk(dir, dbName string) (st verifC17DiskState, err error) {
	st.DbRows = []int64{}
	st.Recs = []verifC17Rec{}
	// 1. binlog files through the real reader
	opt := verifC17BinlogOptions(dir)
	opt.ReadAndExit = true
	bl, err := fsbinlog.NewFsBinlog(&binlog2.EmptyLogger{}, opt)
	if err != nil {
		return st, err
	}
	col := &verifC17Collector{}
	if err = bl.Run(0, nil, nil, col); err != nil {
		return st, fmt.Errorf("reading binlog files: %w", err)
	}
	st.Recs = append(st.Recs, col.recs...)
	files, _ := filepath.Glob(filepath.Join(dir, verifC17BlPrefix+".*.bin"))
	var total int64
	for _, f := range files {
		if fi, e := os.Stat(f); e == nil {
			total += fi.Size()
		}
	}
	st.Tail = total - col.pos
	// 2. database file through a plain connection (rolls a hot journal back, as any open does)
	dbp := filepath.Join(dir, dbName)
	if _, e := os.Stat(dbp); e != nil {
		return st, nil
	}
	st.DbExist = true
	conn, err := sqlite0.Open(dbp, sqlite0.OpenReadWrite)
	if err != nil {
		return st, fmt.Errorf("open db: %w", err)
	}
	defer func() { _ = conn.Close() }()
	_ = conn.SetBusyTimeout(5 * time.Second)
	q := func(sql string, f func(*sqlite0.Stmt)) error {
		s, _, e := conn.Prepare([]byte(sql))
		if e != nil {
			if strings.Contains(e.Error(), "no such table") {
				return nil
			}
			return e
		}
		defer func() { _ = s.Close() }()
		for {
			row, e := s.Step()
			if e != nil {
				return e
			}
			if !row {
				return nil
			}
			f(s)
		}
	}
	if err = q("SELECT offset FROM __binlog_offset", func(s *sqlite0.Stmt) { st.DbOff, _ = s.ColumnInt64(0) }); err != nil {
		return st, fmt.Errorf("read offset: %w", err)
	}
	if err = q("SELECT w FROM verif_t ORDER BY seq", func(s *sqlite0.Stmt) {
		w, _ := s.ColumnInt64(0)
		st.DbRows = append(st.DbRows, w)
	}); err != nil {
		return st, fmt.Errorf("read rows: %w", err)
	}
	return st, nil
}
