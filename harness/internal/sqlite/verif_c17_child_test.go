package sqlite

// C17: the process that gets killed.  It runs the real engine over the real fsbinlog on real
// files with a seeded concurrent workload and logs every step to the trace file.

import (
	"context"
	"io"
	"log"
	"math/rand"
	"os"
	"path/filepath"
	"strconv"
	"strings"
	"sync"
	"sync/atomic"
	"syscall"
	"testing"
	"time"

	binlog2 "github.com/VKCOM/statshouse/internal/vkgo/binlog"
	"github.com/VKCOM/statshouse/internal/vkgo/binlog/fsbinlog"
	"github.com/VKCOM/statshouse/internal/verifkit"
)

func verifC17EnvInt(name string, def int) int {
	n, err := strconv.Atoi(os.Getenv(name))
	if err != nil {
		return def
	}
	return n
}

func TestVerifC17Child(t *testing.T) {
	verifkit.Gate(t)
	if os.Getenv("VERIF_C17_CHILD") != "1" {
		t.Skip("only as a child of TestVerifC17Crash")
	}
	log.SetOutput(io.Discard)
	dir := os.Getenv("VERIF_C17_DIR")
	mode := os.Getenv("VERIF_C17_MODE")
	gen := verifC17EnvInt("VERIF_C17_GEN", 1)
	firstID := verifC17EnvInt("VERIF_C17_FIRSTID", 1)
	nops := verifC17EnvInt("VERIF_C17_NOPS", 6)
	nwriters := verifC17EnvInt("VERIF_C17_NWRITERS", 3)
	wseed := int64(verifC17EnvInt("VERIF_C17_WSEED", 1))
	clean := os.Getenv("VERIF_C17_CLEAN") == "1"
	big := os.Getenv("VERIF_C17_BIG") == "1"
	commitEvery := time.Duration(verifC17EnvInt("VERIF_C17_COMMIT_US", 2000)) * time.Microsecond

	tr, err := verifC17OpenTrace(os.Getenv("VERIF_C17_TRACE"), os.Getenv("VERIF_C17_KILL"))
	if err != nil {
		t.Fatal(err)
	}
	fail := func(what string, err error) {
		if verifC17Busy(err) {
			verifC17DieBusy(tr, what, err)
		}
		tr.Emit("ChildErr", "what", what, "err", err.Error(), "gen", gen)
		t.Fatalf("%s: %v", what, err)
	}
	verifEmit = tr.Emit
	tr.Emit("Open", "gen", gen, "mode", mode)

	dur := WaitCommit
	if mode == "nowait" {
		dur = NoWaitCommit
	}
	if os.Getenv("VERIF_C17_ROLE") == "reread" {
		// a ReadAndExit engine with a database of its own reads whatever the binlog files hold now
		opt := verifC17BinlogOptions(dir)
		opt.ReadAndExit = true
		inner, err := fsbinlog.NewFsBinlog(&binlog2.EmptyLogger{}, opt)
		if err != nil {
			fail("NewFsBinlog", err)
		}
		e, err := OpenEngine(Options{
			Path:                   filepath.Join(dir, os.Getenv("VERIF_C17_DB")),
			APPID:                  verifC17AppID,
			Scheme:                 verifC17Schema,
			ReadAndExit:            true,
			CacheMaxSizePerConnect: 10,
		}, &verifC17Binlog{inner: inner, tr: tr, mode: mode}, verifC17Apply(false), verifC17Apply(true))
		if err != nil {
			fail("OpenEngine", err)
		}
		err = e.do(func(c Conn) error {
			rows, err := verifC17Rows(c)
			if err != nil {
				return err
			}
			off, _, err := binlogLoadPosition(c)
			if err != nil {
				return err
			}
			tr.Emit("UpRO", "rows", rows, "off", off, "dbo", e.dbOffset)
			return nil
		})
		if err != nil {
			fail("Do(up)", err)
		}
		tr.Emit("CloseBegin")
		if err := e.Close(context.Background()); err != nil {
			fail("Close", err)
		}
		tr.Emit("Closed")
		return
	}
	inner, err := fsbinlog.NewFsBinlog(&binlog2.EmptyLogger{}, verifC17BinlogOptions(dir))
	if err != nil {
		fail("NewFsBinlog", err)
	}
	bl := &verifC17Binlog{inner: inner, tr: tr, mode: mode}
	e, err := OpenEngine(Options{
		Path:                   filepath.Join(dir, verifC17DBName),
		APPID:                  verifC17AppID,
		Scheme:                 verifC17Schema,
		DurabilityMode:         dur,
		CommitEvery:            commitEvery,
		CacheMaxSizePerConnect: 10,
		MaxROConn:              4,
	}, bl, verifC17Apply(false), verifC17Apply(true))
	if err != nil {
		fail("OpenEngine", err)
	}
	ctx := context.Background()

	// what the engine holds after its (re)start, read through the write connection
	err = e.Do(ctx, "verif_up", func(c Conn, _ []byte) ([]byte, error) {
		rows, err := verifC17Rows(c)
		if err != nil {
			return nil, err
		}
		off, _, err := binlogLoadPosition(c)
		if err != nil {
			return nil, err
		}
		tr.Emit("Up", "rows", rows, "off", off, "dbo", e.dbOffset)
		return nil, nil
	})
	if err != nil {
		fail("Do(up)", err)
	}

	var wg, bg sync.WaitGroup
	var stop atomic.Bool
	for j := 0; j < nwriters; j++ {
		wg.Add(1)
		go func(j int) {
			defer wg.Done()
			rng := rand.New(rand.NewSource(wseed*1000 + int64(gen)*100 + int64(j)))
			for k := 0; k < nops; k++ {
				id := uint32(firstID + j*20 + k)
				filler := rng.Intn(40)
				switch x := rng.Intn(100); {
				case x < 20:
					filler = 100 + rng.Intn(2000)
				case big && x < 55:
					filler = 15000 + rng.Intn(15000)
				}
				failing := rng.Intn(100) < 15
				err := e.Do(ctx, "verif_w", func(c Conn, cache []byte) ([]byte, error) {
					_, err := c.Exec("verif_ins", "INSERT INTO verif_t(w) VALUES ($w)", Int64("$w", int64(id)))
					if err != nil {
						return nil, err
					}
					tr.Emit("Exec", "w", id, "ok", !failing)
					if failing {
						return verifC17Event(id, filler), errVerifC17Callback
					}
					return verifC17Event(id, filler), nil
				})
				switch {
				case err == nil && !failing:
					tr.Emit("Ret", "w", id, "ok", true) // the acknowledgement, logged before anything acts on it
				case err != nil && failing:
					tr.Emit("Ret", "w", id, "ok", false)
				case verifC17Busy(err):
					verifC17DieBusy(tr, "Do(write)", err)
				default:
					tr.Emit("ChildErr", "what", "Do(write)", "err", verifC17ErrString(err), "w", id)
					return
				}
				if d := rng.Intn(400); d > 100 {
					time.Sleep(time.Duration(d) * time.Microsecond)
				}
			}
		}(j)
	}
	for r := 0; r < 2; r++ {
		bg.Add(1)
		go func(r int) {
			defer bg.Done()
			rng := rand.New(rand.NewSource(wseed*1000 + int64(gen)*100 + 50 + int64(r)))
			for n := 0; n < 12 && !stop.Load(); n++ {
				err := e.View(ctx, "verif_v", func(c Conn) error {
					rows, err := verifC17Rows(c)
					if err != nil {
						return err
					}
					tr.Emit("View", "r", r, "rows", rows)
					return nil
				})
				if verifC17Busy(err) {
					tr.line("ViewBusy", []any{"r", r})
					continue
				}
				if err != nil {
					tr.Emit("ChildErr", "what", "View", "err", err.Error())
					return
				}
				time.Sleep(time.Duration(200+rng.Intn(1500)) * time.Microsecond)
			}
		}(r)
	}
	bg.Add(1)
	go func() {
		defer bg.Done()
		rng := rand.New(rand.NewSource(wseed*1000 + int64(gen)*100 + 60))
		for n := 0; n < 6 && !stop.Load(); n++ {
			var seen []int64
			err := e.Do(ctx, "verif_r", func(c Conn, _ []byte) ([]byte, error) {
				rows, err := verifC17Rows(c)
				if err != nil {
					return nil, err
				}
				off, _, err := binlogLoadPosition(c)
				if err != nil {
					return nil, err
				}
				seen = rows
				tr.Emit("Read", "rows", rows, "off", off, "dbo", e.dbOffset)
				return nil, nil
			})
			if verifC17Busy(err) {
				verifC17DieBusy(tr, "Do(read)", err)
			}
			if err != nil {
				tr.Emit("ChildErr", "what", "Do(read)", "err", err.Error())
				return
			}
			tr.Emit("ReadRet", "rows", seen)
			time.Sleep(time.Duration(300+rng.Intn(2500)) * time.Microsecond)
		}
	}()
	wg.Wait()
	stop.Store(true)
	bg.Wait()
	rng := rand.New(rand.NewSource(wseed*1000 + int64(gen)*100 + 70))
	lull := 3 * commitEvery
	if lull > 20*time.Millisecond {
		lull = 20 * time.Millisecond
	}
	time.Sleep(time.Duration(rng.Int63n(int64(lull) + 1)))
	if clean {
		tr.Emit("CloseBegin")
		cctx, cancel := context.WithTimeout(ctx, 150*time.Second)
		defer cancel()
		if err := e.Close(cctx); err != nil {
			if verifC17Busy(err) {
				verifC17DieBusy(tr, "Close", err)
			}
			fail("Close", err)
		}
		tr.Emit("Closed")
		return
	}
	tr.Emit("End")
	tr.line("Kill", []any{"at", "End", "occ", 0})
	_ = syscall.Kill(os.Getpid(), syscall.SIGKILL)
	select {}
}

// SQLITE_BUSY after the 5 s busy timeout is an artefact of the stand-in SQLite (rollback journal:
// readers and the committing writer exclude each other; the WAL2 build does not) on a starved
// machine.  A reader just skips the observation; a broken write connection ends the generation
// with a kill, after which the files are judged as after any other kill.
func verifC17Busy(err error) bool {
	return err != nil && strings.Contains(err.Error(), "database is locked")
}

func verifC17DieBusy(tr *verifC17Tracer, what string, err error) {
	tr.line("EngineBusy", []any{"what", what, "err", err.Error()})
	tr.line("Kill", []any{"at", "EngineBusy", "occ", 0})
	_ = syscall.Kill(os.Getpid(), syscall.SIGKILL)
	select {}
}

func verifC17ErrString(err error) string {
	if err == nil {
		return "<nil>"
	}
	return err.Error()
}
