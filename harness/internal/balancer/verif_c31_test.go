//go:build verif

package balancer

// C31 conformance harness (I->S): drives the real Egress + handler against local TCP listeners,
// records the hook events (push / swap / pop / connect / report) and what the listeners receive,
// and leaves the verdict to specs/BalancerTrace.tla.  See /verif/design_notes/C31.md.

import (
	"bytes"
	"context"
	"encoding/binary"
	"fmt"
	"io"
	"log"
	"math/rand"
	"net"
	"os"
	"path/filepath"
	"runtime/debug"
	"sort"
	"sync"
	"syscall"
	"testing"
	"time"

	"github.com/VKCOM/statshouse/internal/data_model/gen2/tlstatshouse"
	"github.com/VKCOM/statshouse/internal/receiver"
	"github.com/VKCOM/statshouse/internal/verifkit"
)

const (
	verifC31HostTag = "verif-c31-host"
	verifC31Unit    = 20 // real packets per packet of the BufLen=10 model (behaviour scripts)
	verifC31MinBody = 16
)

// ---------------------------------------------------------------------------------------
// hook dispatch: events carry the *pktBuffer, which identifies the scenario and the sender

type verifC31Raw struct {
	ev string
	b  *pktBuffer
	a  []any
}

var (
	verifC31Bufs    sync.Map // *pktBuffer -> *verifC31Scn
	verifC31AdoptMu sync.Mutex
	verifC31Adopter *verifC31Scn // scenario inside NewEgress: events of unknown buffers are queued for it
)

func init() { verifEmit = verifC31Dispatch }

func verifC31Dispatch(ev string, a ...any) {
	if len(a) == 0 {
		return
	}
	b, _ := a[0].(*pktBuffer)
	if b == nil {
		return
	}
	if v, ok := verifC31Bufs.Load(b); ok {
		v.(*verifC31Scn).onHook(ev, b, a[1:])
		return
	}
	verifC31AdoptMu.Lock()
	ad := verifC31Adopter
	verifC31AdoptMu.Unlock()
	if ad != nil {
		ad.onHook(ev, b, a[1:])
	}
}

// ---------------------------------------------------------------------------------------
// packets: body = "VC31" | id (8, LE) | len (4, LE) | filler determined by (id, len)

func verifC31Body(id int, n int) []byte {
	if n < verifC31MinBody {
		n = verifC31MinBody
	}
	if n > pktBodyMax {
		n = pktBodyMax
	}
	b := make([]byte, n)
	copy(b, "VC31")
	binary.LittleEndian.PutUint64(b[4:], uint64(id))
	binary.LittleEndian.PutUint32(b[12:], uint32(n))
	x := uint32(id)*2654435761 + uint32(n)*40503 + 12345
	for i := 16; i < n; i++ {
		x = x*1664525 + 1013904223
		b[i] = byte(x >> 24)
	}
	return b
}

// verifC31ParseBody returns the id if body is exactly the packet the driver generated.
func verifC31ParseBody(body []byte) (int, bool) {
	if len(body) < verifC31MinBody || string(body[:4]) != "VC31" {
		return 0, false
	}
	id := int(binary.LittleEndian.Uint64(body[4:]))
	n := int(binary.LittleEndian.Uint32(body[12:]))
	if n != len(body) || !bytes.Equal(body, verifC31Body(id, n)) {
		return id, false
	}
	return id, true
}

// ---------------------------------------------------------------------------------------
// upstream listeners

type verifC31Up struct {
	c       *net.TCPConn
	remote  string
	items   [][2]any // {"p", id} / {"r", bytes} / {"bad", n}
	hsOK    bool
	bad     int
	reset   bool // the listener reset this connection
	stalled bool // do not read
	resetAt int  // reset after this many frames (0 = never)
	done    bool
}

type verifC31Lis struct {
	sc        *verifC31Scn
	ln        net.Listener
	addr      string
	mu        sync.Mutex
	cond      *sync.Cond
	conns     []*verifC31Up
	stallNext int // the next connections accepted will not be read until released
	resetNext int // the next connection accepted resets after that many frames
	closing   bool
	wg        sync.WaitGroup
}

func verifC31Listen(sc *verifC31Scn, rcvbuf int) (*verifC31Lis, error) {
	lc := net.ListenConfig{}
	if rcvbuf > 0 {
		// a small receive buffer on the listening socket is inherited by the accepted ones: a
		// connection that is not read then really blocks its writer after a few megabytes
		lc.Control = func(network, address string, c syscall.RawConn) error {
			return c.Control(func(fd uintptr) {
				_ = syscall.SetsockoptInt(int(fd), syscall.SOL_SOCKET, syscall.SO_RCVBUF, rcvbuf)
			})
		}
	}
	ln, err := lc.Listen(context.Background(), "tcp", "127.0.0.1:0")
	if err != nil {
		return nil, err
	}
	l := &verifC31Lis{sc: sc, ln: ln, addr: ln.Addr().String()}
	l.cond = sync.NewCond(&l.mu)
	l.wg.Add(1)
	go l.acceptLoop()
	return l, nil
}

func (l *verifC31Lis) acceptLoop() {
	defer l.wg.Done()
	for {
		c, err := l.ln.Accept()
		if err != nil {
			return
		}
		tc := c.(*net.TCPConn)
		u := &verifC31Up{c: tc, remote: tc.RemoteAddr().String()}
		l.mu.Lock()
		if l.stallNext > 0 {
			l.stallNext--
			u.stalled = true
		}
		if l.resetNext > 0 {
			u.resetAt = l.resetNext
			l.resetNext = 0
		}
		l.conns = append(l.conns, u)
		l.mu.Unlock()
		l.wg.Add(1)
		go l.read(u)
	}
}

func verifC31Handshake() []byte {
	b := []byte(receiver.TCPPrefix)
	b = append(b, receiver.TCPMagicV2Balancer)
	b = binary.LittleEndian.AppendUint32(b, uint32(len(verifC31HostTag)))
	return append(b, verifC31HostTag...)
}

func (l *verifC31Lis) read(u *verifC31Up) {
	defer l.wg.Done()
	defer func() {
		l.mu.Lock()
		u.done = true
		l.mu.Unlock()
	}()
	want := verifC31Handshake()
	buf := make([]byte, 0, 1<<16)
	tmp := make([]byte, 1<<18)
	hs := false
	desync := false
	frames := 0
	for {
		l.mu.Lock()
		for u.stalled && !l.closing {
			l.cond.Wait()
		}
		l.mu.Unlock()
		n, err := u.c.Read(tmp)
		buf = append(buf, tmp[:n]...)
		if !hs && len(buf) >= len(want) {
			hs = true
			l.mu.Lock()
			u.hsOK = bytes.Equal(buf[:len(want)], want)
			l.mu.Unlock()
			buf = buf[len(want):]
		}
		for hs && !desync && len(buf) >= pktHeadLen {
			bl := int(binary.LittleEndian.Uint32(buf))
			if bl > receiver.MaxTCPFrameBody {
				desync = true // what the real receiver calls a framing error
				l.mu.Lock()
				u.bad++
				u.items = append(u.items, [2]any{"bad", bl})
				l.mu.Unlock()
				break
			}
			if len(buf) < pktHeadLen+bl {
				break
			}
			it := verifC31Classify(buf[pktHeadLen : pktHeadLen+bl])
			buf = buf[pktHeadLen+bl:]
			frames++
			l.mu.Lock()
			u.items = append(u.items, it)
			if it[0] == "bad" {
				u.bad++
			}
			doReset := u.resetAt > 0 && frames >= u.resetAt && !u.reset
			if doReset {
				u.reset = true
			}
			l.mu.Unlock()
			if it[0] == "p" {
				l.sc.noteRecv(it[1].(int))
			}
			if doReset {
				_ = u.c.SetLinger(0)
				_ = u.c.Close()
				return
			}
		}
		if err != nil {
			_ = u.c.Close()
			return
		}
	}
}

func verifC31Classify(body []byte) [2]any {
	if id, ok := verifC31ParseBody(body); ok {
		return [2]any{"p", id}
	}
	var batch tlstatshouse.AddMetricsBatch
	if rest, err := batch.ReadTL1Boxed(body); err == nil && len(rest) == 0 && len(batch.Metrics) == 1 {
		m := batch.Metrics[0]
		if m.Name == "__src_client_write_err" && len(m.Value) == 1 && m.Tags["1"] == "1" && m.Tags["2"] == "1" &&
			m.Tags["3"] == "sh-balancer" && m.Tags["_h"] == verifC31HostTag {
			return [2]any{"r", int(m.Value[0])}
		}
	}
	return [2]any{"bad", len(body)}
}

// resetCurrent makes the listener reset (RST) its most recent live connection.
func (l *verifC31Lis) resetCurrent() {
	l.mu.Lock()
	var u *verifC31Up
	for i := len(l.conns) - 1; i >= 0; i-- {
		if !l.conns[i].reset && !l.conns[i].done {
			u = l.conns[i]
			break
		}
	}
	if u != nil {
		u.reset = true
	}
	l.mu.Unlock()
	if u != nil {
		_ = u.c.SetLinger(0)
		_ = u.c.Close()
	}
}

func (l *verifC31Lis) releaseAll() {
	l.mu.Lock()
	for _, u := range l.conns {
		u.stalled = false
	}
	l.stallNext = 0
	l.closing = true
	l.cond.Broadcast()
	l.mu.Unlock()
}

// ---------------------------------------------------------------------------------------
// scenario

type verifC31Opts struct {
	writeTimeout time.Duration
	stuckRecon   time.Duration
	newEgress    bool
	rcvbuf       int
}

type verifC31Scn struct {
	no   int
	kind string
	rnd  *rand.Rand
	tr   *verifkit.Trace
	e    *Egress
	h    *handler
	lis  [3]*verifC31Lis

	mu       sync.Mutex
	cond     *sync.Cond
	adopting bool
	raw      []verifC31Raw
	idx      map[*pktBuffer]int
	gate     [3]bool
	permit   [3]int
	parked   [3]bool
	parkedAt [3]time.Time
	rgate    [3]bool // hold the sender at the report write
	rparked  [3]bool
	opened   bool // all gates open for good
	pend     [3]int
	lastN    [3]int
	lastRi   [3]int
	asleep   [3]bool
	timedOut [3]bool
	nTimeout [3]int
	nPopDone [3]int
	nPopErr  [3]int
	nConn    [3]int
	connSeq  int
	connAddr []string // local address of connection c (index c-1)
	npush    int
	owed     int64 // bytes of dropped packets
	repSh    int64 // bytes reported (Report events minus ReportErr)
	nextID   int
	lastFwd  uint64
	lastDrp  uint64
	closed   bool
	accAt    map[int]time.Time
	maxLat   time.Duration
	nRecv    int
	infra    string
	notes    []string
	quiesces int
	lateQ    int
	prog     int // data progress: batches handed to / finished by a writer, connections, reports, frames received
}

func (sc *verifC31Scn) emit(ev string, kv ...any) { sc.tr.Emit(ev, kv...) }

func (sc *verifC31Scn) note(f string, a ...any) {
	if len(sc.notes) < 20 {
		sc.notes = append(sc.notes, fmt.Sprintf(f, a...))
	}
}

func (sc *verifC31Scn) noteRecv(id int) {
	sc.mu.Lock()
	sc.nRecv++
	sc.prog++
	if t, ok := sc.accAt[id]; ok {
		if d := time.Since(t); d > sc.maxLat {
			sc.maxLat = d
		}
		delete(sc.accAt, id)
	}
	sc.mu.Unlock()
}

func (sc *verifC31Scn) onHook(ev string, b *pktBuffer, a []any) {
	sc.mu.Lock()
	defer sc.mu.Unlock()
	if sc.adopting {
		sc.raw = append(sc.raw, verifC31Raw{ev, b, a})
		return
	}
	sc.process(ev, b, a)
}

// process runs with sc.mu held, at the hook's position (under pktBuffer.mu for push/swap).
func (sc *verifC31Scn) process(ev string, b *pktBuffer, a []any) {
	s := sc.idx[b]
	if s == 0 {
		return
	}
	switch ev {
	case "Push":
		pkt := a[0].([]byte)
		ok := a[1].(bool)
		id := -1
		if len(pkt) >= pktHeadLen+verifC31MinBody {
			id = int(binary.LittleEndian.Uint64(pkt[pktHeadLen+4:]))
		}
		sc.emit("Push", "s", s, "id", id, "len", len(pkt), "ok", ok)
		sc.npush++
		if ok {
			sc.pend[s]++
			sc.accAt[id] = time.Now()
		}
	case "SwapSleep":
		sc.emit("SwapSleep", "s", s)
		sc.asleep[s] = true
	case "SwapWake":
		sc.emit("SwapWake", "s", s)
		sc.asleep[s] = false
	case "SwapTimeout":
		sc.emit("SwapTimeout", "s", s)
		sc.timedOut[s] = true
		sc.nTimeout[s]++
	case "SwapDone":
		sc.emit("SwapDone", "s", s, "closed", a[0].(bool), "wi", a[1].(int))
		if a[1].(int) > 0 {
			sc.prog++
		}
		sc.asleep[s] = false
		sc.timedOut[s] = false
	case "PopWrite":
		sc.prog++
		ri, rm := a[0].(int), a[1].(int)
		sc.emit("PopWrite", "s", s, "ri", ri, "rm", rm)
		sc.lastN[s] = rm - ri
		sc.lastRi[s] = ri
		for sc.gate[s] && sc.permit[s] == 0 && !sc.opened {
			if !sc.parked[s] {
				sc.parkedAt[s] = time.Now()
			}
			sc.parked[s] = true
			sc.cond.Wait()
		}
		sc.parked[s] = false
		if sc.gate[s] && sc.permit[s] > 0 {
			sc.permit[s]--
		}
	case "PopOK":
		sc.prog++
		sc.emit("PopOK", "s", s)
		sc.pend[s] -= sc.lastN[s]
		sc.nPopDone[s]++
	case "PopErr":
		sc.prog++
		n, ri := a[0].(int), a[1].(int)
		sc.emit("PopErr", "s", s, "left", n, "ri", ri)
		sc.pend[s] -= ri - sc.lastRi[s] // packets pop() will not offer again (written or skipped)
		sc.nPopDone[s]++
		sc.nPopErr[s]++
	case "Connected":
		sc.prog++
		sc.connSeq++
		la := ""
		if c, ok := a[0].(net.Conn); ok && c != nil {
			la = c.LocalAddr().String()
		}
		sc.connAddr = append(sc.connAddr, la)
		sc.nConn[s]++
		sc.emit("Connected", "s", s, "c", sc.connSeq)
	case "ReconClose":
		sc.emit("ReconClose", "s", s)
	case "Report":
		sc.prog++
		n := a[0].(int64)
		sc.emit("Report", "s", s, "amt", n)
		sc.repSh += n
		// the hook sits between reading the counter and conn.Write: holding the sender here is
		// holding it inside the report write
		for sc.rgate[s] && !sc.opened {
			sc.rparked[s] = true
			sc.cond.Wait()
		}
		sc.rparked[s] = false
	case "ReportErr":
		n := a[0].(int64)
		sc.emit("ReportErr", "s", s, "amt", n)
		sc.repSh -= n
	}
}

// ---------------------------------------------------------------------------------------
// waiting: no verdict depends on a sleep; the only wall-clock quantity is the generous ceiling
// of the bounded-delay check, and it is measured in *responsive* time: a poll step that was
// itself delayed by a loaded machine counts for at most 20 ms, so the ceiling stretches with load.

const verifC31Ceiling = 5 * time.Second

func (sc *verifC31Scn) waitFor(ceil time.Duration, pred func() bool, then func(ok bool)) bool {
	return sc.waitForP(ceil, false, pred, then)
}

// waitForP: with idleOnly the ceiling only counts time in which no data progress was seen (a
// batch handed to or finished by a writer, a connection, a report, a frame received upstream):
// a machine that is slow but moving is not a witness of a stuck sender.
func (sc *verifC31Scn) waitForP(ceil time.Duration, idleOnly bool, pred func() bool, then func(ok bool)) bool {
	var resp time.Duration
	start := time.Now()
	lastProg := -1
	for {
		sc.mu.Lock()
		if idleOnly && sc.prog != lastProg {
			lastProg = sc.prog
			resp = 0
		}
		ok := pred()
		over := time.Since(start) > 6*time.Minute
		if ok || resp >= ceil || over {
			if then != nil {
				then(ok)
			}
			if !ok && over && resp < ceil {
				sc.infra = "machine too loaded: ceiling not reached in responsive time"
			}
			sc.mu.Unlock()
			return ok
		}
		sc.mu.Unlock()
		t0 := time.Now()
		time.Sleep(4 * time.Millisecond)
		d := time.Since(t0)
		if d > 20*time.Millisecond {
			d = 20 * time.Millisecond
		}
		resp += d
	}
}

func (sc *verifC31Scn) prim() int {
	if *sc.e.pool.primPtr == sc.e.pool.primary {
		return 1
	}
	return 2
}

func (sc *verifC31Scn) randLen() int {
	switch x := sc.rnd.Intn(100); {
	case x < 60:
		return verifC31MinBody + sc.rnd.Intn(300)
	case x < 85:
		return 300 + sc.rnd.Intn(2700)
	case x < 95:
		return 3000 + sc.rnd.Intn(pktBodyMax-3000)
	case x < 98:
		return pktBodyMax
	default:
		return verifC31MinBody
	}
}

// push makes one handler call (the real framing path) and records its outcome.
func (sc *verifC31Scn) push(bodyLen int) {
	id := sc.nextID
	sc.nextID++
	body := verifC31Body(id, bodyLen)
	sc.mu.Lock()
	sc.npush = 0
	sc.mu.Unlock()
	_ = sc.h.HandleMetricsBatchRaw(body)
	fwd := sc.e.stats.forwardedPackets.Load()
	drp := sc.e.stats.droppedPackets.Load()
	sc.mu.Lock()
	if drp > sc.lastDrp && sc.npush > 0 {
		sc.owed += int64(pktHeadLen + len(body))
	}
	sc.lastFwd, sc.lastDrp = fwd, drp
	sc.emit("CallEnd", "fwd", fwd, "drp", drp, "np", sc.npush)
	sc.mu.Unlock()
}

func (sc *verifC31Scn) burst(n int, small bool) {
	for i := 0; i < n; i++ {
		if small {
			sc.push(verifC31MinBody + sc.rnd.Intn(200))
		} else {
			sc.push(sc.randLen())
		}
	}
}

// quiesce waits (at most the ceiling) until the healthy senders have nothing unsent and, if
// sender 1 is healthy, every dropped byte has been reported; then records that it waited.
func (sc *verifC31Scn) quiesce(healthy ...int) bool {
	return sc.quiesceCeil(verifC31Ceiling, healthy...)
}

func (sc *verifC31Scn) quiesceCeil(ceil time.Duration, healthy ...int) bool {
	t0 := time.Now()
	ok := sc.waitForP(ceil, true, func() bool {
		for _, s := range healthy {
			if sc.pend[s] != 0 {
				return false
			}
			if s == 1 && sc.owed != sc.repSh {
				return false
			}
		}
		return true
	}, func(ok bool) {
		sc.emit("Quiesce", "healthy", healthy, "ok", ok)
		sc.quiesces++
		if !ok {
			sc.lateQ++
			sc.note("quiesce late: pend=%v owed=%d reported=%d asleep=%v timedOut=%v waited=%v", sc.pend, sc.owed, sc.repSh, sc.asleep, sc.timedOut, time.Since(t0))
		}
	})
	return ok
}

// waitSleepFresh waits until sender s sleeps in swap() and its swapWaitMax has not fired yet.
func (sc *verifC31Scn) waitSleepFresh(s int) bool {
	return sc.waitFor(3*time.Second, func() bool { return sc.asleep[s] && !sc.timedOut[s] }, nil)
}

// waitTimedOut waits until the timer of sender s's current wait has fired.
func (sc *verifC31Scn) waitTimedOut(s int) bool {
	return sc.waitFor(3*time.Second, func() bool { return sc.timedOut[s] }, nil)
}

func (sc *verifC31Scn) setGate(s int, closed bool) {
	sc.mu.Lock()
	sc.gate[s] = closed
	if !closed {
		sc.permit[s] = 0
	}
	sc.cond.Broadcast()
	sc.mu.Unlock()
}

func (sc *verifC31Scn) permitOne(s int) {
	sc.mu.Lock()
	sc.permit[s]++
	sc.cond.Broadcast()
	sc.mu.Unlock()
}

func (sc *verifC31Scn) waitParked(s int) bool {
	return sc.waitFor(3*time.Second, func() bool { return sc.parked[s] }, nil)
}

func (sc *verifC31Scn) waitPopDone(s int, after int) bool {
	return sc.waitFor(3*time.Second, func() bool { return sc.nPopDone[s] > after }, nil)
}

func (sc *verifC31Scn) openAll() {
	sc.mu.Lock()
	sc.opened = true
	sc.cond.Broadcast()
	sc.mu.Unlock()
}

func (sc *verifC31Scn) doClose() {
	if sc.closed {
		return
	}
	sc.closed = true
	sc.openAll()
	for s := 1; s <= 2; s++ {
		sc.lis[s].releaseAll()
	}
	sc.mu.Lock()
	sc.emit("Close")
	sc.mu.Unlock()
	_ = sc.e.Close()
}

// ---------------------------------------------------------------------------------------
// set-up / tear-down

var verifC31NewEgressMu sync.Mutex

func verifC31NewScn(no int, kind string, seed int64, o verifC31Opts) (*verifC31Scn, error) {
	sc := &verifC31Scn{no: no, kind: kind, rnd: rand.New(rand.NewSource(seed)), tr: verifkit.NewTrace(),
		idx: map[*pktBuffer]int{}, accAt: map[int]time.Time{}, nextID: 1}
	sc.cond = sync.NewCond(&sc.mu)
	sc.emit("Reset", "scn", no, "kind", kind)
	for s := 1; s <= 2; s++ {
		l, err := verifC31Listen(sc, o.rcvbuf)
		if err != nil {
			return nil, err
		}
		sc.lis[s] = l
	}
	cfg := EgressConfig{Network: "tcp", Address: sc.lis[1].addr + "," + sc.lis[2].addr, HostTag: verifC31HostTag,
		ReconnectDelay: 20 * time.Millisecond, WriteTimeout: o.writeTimeout, StuckReconDelay: o.stuckRecon}
	if o.newEgress {
		// the real constructor: DNS refresh goroutine, shuffled address pools, 2 s "time to connect"
		verifC31NewEgressMu.Lock()
		sc.adopting = true
		verifC31AdoptMu.Lock()
		verifC31Adopter = sc
		verifC31AdoptMu.Unlock()
		e := NewEgress(cfg)
		sc.mu.Lock()
		sc.e = e
		sc.idx[e.pool.primary.buf] = 1
		sc.idx[e.pool.secondary.buf] = 2
		verifC31Bufs.Store(e.pool.primary.buf, sc)
		verifC31Bufs.Store(e.pool.secondary.buf, sc)
		verifC31AdoptMu.Lock()
		verifC31Adopter = nil
		verifC31AdoptMu.Unlock()
		sc.adopting = false
		for _, r := range sc.raw {
			sc.process(r.ev, r.b, r.a)
		}
		sc.raw = nil
		sc.mu.Unlock()
		verifC31NewEgressMu.Unlock()
	} else {
		// NewEgress without the DNS goroutine and the 2 s sleep: same objects, fixed address pools
		cfg.fillDefaults()
		e := &Egress{cfg: cfg}
		b1, b2 := newPktBuffer(), newPktBuffer()
		sc.idx[b1], sc.idx[b2] = 1, 2
		verifC31Bufs.Store(b1, sc)
		verifC31Bufs.Store(b2, sc)
		sc.e = e
		e.pool = &tcpPool{closed: make(chan struct{})}
		e.pool.primary = newTCPSender(cfg, &e.stats, addressPool{addrs: []string{sc.lis[1].addr}}, b1)
		e.pool.secondary = newTCPSender(cfg, &e.stats, addressPool{addrs: []string{sc.lis[2].addr}}, b2)
		e.pool.primPtr = &e.pool.primary
		e.pool.secPtr = &e.pool.secondary
	}
	// the handler as newHandler builds it, without the 30 s stats logger (it consumes Stats())
	sc.h = &handler{egress: sc.e, reportInterval: 30 * time.Second, pkt: make([]byte, pktHeadLen, pktFrameMax), stop: make(chan struct{})}
	return sc, nil
}

// lisOf returns the listener sender s dials (with NewEgress the address pools are shuffled).
func (sc *verifC31Scn) lisOf(s int) *verifC31Lis {
	snd := sc.e.pool.primary
	if s == 2 {
		snd = sc.e.pool.secondary
	}
	snd.poolMu.Lock()
	defer snd.poolMu.Unlock()
	for i := 1; i <= 2; i++ {
		for _, a := range snd.pool.addrs {
			if a == sc.lis[i].addr {
				return sc.lis[i]
			}
		}
	}
	return sc.lis[s]
}

// finish closes the egress, lets the listeners drain to EOF and records what they received.
func (sc *verifC31Scn) finish() {
	sc.doClose()
	want := 0
	sc.mu.Lock()
	want = sc.connSeq
	sc.mu.Unlock()
	allDone := func() bool {
		n := 0
		for s := 1; s <= 2; s++ {
			l := sc.lis[s]
			l.mu.Lock()
			for _, u := range l.conns {
				if !u.done {
					l.mu.Unlock()
					return false
				}
			}
			n += len(l.conns)
			l.mu.Unlock()
		}
		return n >= want
	}
	if !sc.waitFor(20*time.Second, allDone, nil) {
		sc.mu.Lock()
		if sc.infra == "" {
			sc.infra = "listeners did not drain to EOF after Close"
		}
		sc.mu.Unlock()
	}
	for s := 1; s <= 2; s++ {
		_ = sc.lis[s].ln.Close()
	}
	for s := 1; s <= 2; s++ {
		sc.lis[s].mu.Lock()
		for _, u := range sc.lis[s].conns {
			_ = u.c.Close()
		}
		sc.lis[s].mu.Unlock()
		sc.lis[s].wg.Wait()
	}
	byRemote := map[string]*verifC31Up{}
	for s := 1; s <= 2; s++ {
		for _, u := range sc.lis[s].conns {
			byRemote[u.remote] = u
		}
	}
	sc.mu.Lock()
	recv := make([][][2]any, 0, sc.connSeq)
	reset := make([]bool, 0, sc.connSeq)
	hs := make([]bool, 0, sc.connSeq)
	bad := 0
	for _, la := range sc.connAddr {
		u := byRemote[la]
		if u == nil {
			recv = append(recv, [][2]any{})
			reset = append(reset, true) // never seen by a listener: nothing can be said about it
			hs = append(hs, false)
			sc.note("connection %s not seen by a listener", la)
			continue
		}
		items := u.items
		if items == nil {
			items = [][2]any{}
		}
		recv = append(recv, items)
		reset = append(reset, u.reset)
		hs = append(hs, u.hsOK)
		bad += u.bad
	}
	st := sc.e.Stats() // the public counters (forwarded/dropped are reset by reading them)
	sc.emit("End", "recv", recv, "reset", reset, "hs", hs, "bad", bad,
		"fwd", st.ForwardedPackets, "drp", st.DroppedPackets, "werr", st.WriteErrors)
	for b := range sc.idx {
		verifC31Bufs.Delete(b)
	}
	sc.mu.Unlock()
}

// ---------------------------------------------------------------------------------------
// scenarios.  Arrival patterns: single packet then idle, sparse, bursty; upstreams: reading,
// stalled (gate before the write, or a listener that does not read), resetting.

// single packet then idle, then sparse packets each arriving while the sender waits for a batch
func verifC31Sparse(sc *verifC31Scn) {
	rounds := 1 + sc.rnd.Intn(3)
	for i := 0; i < rounds; i++ {
		p := sc.prim()
		switch sc.rnd.Intn(3) {
		case 0, 1: // inside a fresh wait: only swapWaitMax can release it
			sc.waitSleepFresh(p)
		case 2: // after the timer fired: the push itself wakes the sender
			sc.waitTimedOut(p)
		}
		sc.burst(1+sc.rnd.Intn(3)*sc.rnd.Intn(2), false)
		sc.quiesce(1, 2)
	}
}

// bursts of every size around the 20 % threshold and the buffer length
func verifC31Bursty(sc *verifC31Scn) {
	sizes := []int{1, 2, 5, 39, 40, 41, 60, 199, 200, 201, 260}
	rounds := 2 + sc.rnd.Intn(4)
	for i := 0; i < rounds; i++ {
		n := sizes[sc.rnd.Intn(len(sizes))]
		if sc.rnd.Intn(4) == 0 {
			n = 1 + sc.rnd.Intn(450)
		}
		sc.burst(n, sc.rnd.Intn(3) > 0)
		if sc.rnd.Intn(3) > 0 {
			sc.quiesce(1, 2)
		}
	}
	sc.quiesce(1, 2)
}

// both upstreams stalled before the write: buffers fill, fail-over, drops; then they drain
func verifC31Fill(sc *verifC31Scn) {
	sc.setGate(1, true)
	sc.setGate(2, true)
	sc.burst(40+sc.rnd.Intn(40), true)
	sc.waitParked(sc.prim())
	total := 650 + sc.rnd.Intn(400)
	switch sc.rnd.Intn(3) {
	case 0: // fill everything at once
		sc.burst(total, true)
	case 1: // let the first sender write one batch in the middle
		sc.burst(total/2, true)
		sc.mu.Lock()
		p := 0
		for s := 1; s <= 2; s++ {
			if sc.parked[s] && (p == 0 || sc.rnd.Intn(2) == 0) {
				p = s
			}
		}
		before := sc.nPopDone[p%3]
		sc.mu.Unlock()
		if p != 0 {
			sc.permitOne(p)
			sc.waitPopDone(p, before)
		}
		sc.burst(total/2, true)
	case 2: // only one side stalled for a while
		sc.setGate(2, false)
		sc.burst(total/2, true)
		sc.quiesce(2)
		sc.setGate(2, true)
		sc.burst(total, true)
	}
	sc.setGate(1, false)
	sc.setGate(2, false)
	sc.quiesce(1, 2)
	if sc.rnd.Intn(2) == 0 {
		sc.burst(1+sc.rnd.Intn(100), false)
		sc.quiesce(1, 2)
	}
}

// only one upstream stalled: fail-over to the other sender and back, nothing may be dropped
func verifC31Failover(sc *verifC31Scn) {
	a := 1 + sc.rnd.Intn(2)
	sc.setGate(a, true)
	for i := 0; i < 2+sc.rnd.Intn(3); i++ {
		sc.burst(100+sc.rnd.Intn(250), true)
		sc.quiesce(3 - a)
		if sc.rnd.Intn(2) == 0 {
			sc.setGate(a, false)
			sc.quiesce(1, 2)
			a = 3 - a
			sc.setGate(a, true)
		}
	}
	sc.setGate(a, false)
	sc.quiesce(1, 2)
}

// the upstream resets the connection after some frames; the sender reconnects and goes on
func verifC31Reset(sc *verifC31Scn) {
	rounds := 1 + sc.rnd.Intn(3)
	for i := 0; i < rounds; i++ {
		s := sc.prim()
		l := sc.lisOf(s)
		if sc.rnd.Intn(3) == 0 {
			// the connection dies while a batch is held before the write and the write slice
			// fills up behind it: the rest of the batch must still go out first
			sc.setGate(s, true)
			sc.burst(40+sc.rnd.Intn(100), true)
			sc.waitParked(s)
			sc.burst(150+sc.rnd.Intn(100), true)
			l.resetCurrent()
			sc.setGate(s, false)
			sc.quiesce(1, 2)
			continue
		}
		if sc.rnd.Intn(2) == 0 {
			l.mu.Lock()
			for _, u := range l.conns {
				if !u.reset && !u.done {
					u.resetAt = len(u.items) + 1 + sc.rnd.Intn(60)
				}
			}
			l.mu.Unlock()
		} else {
			sc.burst(1+sc.rnd.Intn(50), true)
			sc.quiesce(1, 2)
			l.resetCurrent()
		}
		sc.burst(50+sc.rnd.Intn(200), sc.rnd.Intn(2) == 0)
		sc.quiesce(1, 2)
		sc.burst(1+sc.rnd.Intn(80), true)
		sc.quiesce(1, 2)
	}
}

// a listener that accepts and does not read: the write blocks until the write timeout, the
// sender reconnects (the new connection is read) and resends the rest of the batch
func verifC31ListenerStall(sc *verifC31Scn) {
	s := sc.prim()
	l := sc.lisOf(s)
	l.mu.Lock()
	for _, u := range l.conns {
		u.stalled = true
	}
	l.mu.Unlock()
	sc.mu.Lock()
	before := sc.nPopErr[s]
	sc.mu.Unlock()
	for i := 0; i < 300; i++ {
		sc.push(pktBodyMax - sc.rnd.Intn(100))
	}
	// healthy again only once the stalled write has timed out and the sender has reconnected
	// (or the socket buffers swallowed everything and nothing is pending any more)
	sc.waitFor(20*time.Second, func() bool { return sc.nPopErr[s] > before || sc.pend[s] == 0 }, nil)
	sc.quiesce(1, 2)
	sc.burst(1+sc.rnd.Intn(30), false)
	sc.quiesce(1, 2)
}

// the write is held (a stalled upstream seen from the write's side) for longer than
// WriteTimeout: the deadline armed for it has passed, so the write must fail and the sender
// must reconnect and send the rest on the new connection
func verifC31Overdue(sc *verifC31Scn) {
	s := sc.prim()
	sc.setGate(s, true)
	sc.burst(40+sc.rnd.Intn(120), true)
	if !sc.waitParked(s) {
		sc.setGate(s, false)
		sc.quiesce(1, 2)
		return
	}
	sc.mu.Lock()
	since := sc.parkedAt[s]
	before := sc.nPopDone[s]
	sc.mu.Unlock()
	// the deadline was set before pop() was entered, i.e. before the sender parked; being later
	// than planned only makes it more overdue
	time.Sleep(time.Until(since.Add(sc.e.cfg.WriteTimeout + 1500*time.Millisecond)))
	sc.mu.Lock()
	if sc.parked[s] {
		sc.emit("Overdue", "s", s)
	}
	sc.mu.Unlock()
	sc.setGate(s, false)
	sc.waitPopDone(s, before)
	sc.quiesce(1, 2)
	sc.burst(1+sc.rnd.Intn(60), true)
	sc.quiesce(1, 2)
}

// drops keep arriving while the primary sender is inside the write of the drop report: both
// buffers are full, sender 1 is released, writes its batch and is held at the report write (its
// freshly emptied write slice is filled again first), further packets are dropped, then everything
// is released; every dropped byte must have been reported at quiescence
func verifC31ReportRace(sc *verifC31Scn) {
	sc.setGate(1, true)
	sc.setGate(2, true)
	sc.burst(40+sc.rnd.Intn(40), true)
	sc.waitParked(1)
	sc.burst(600+sc.rnd.Intn(200), true) // fills both, fails over, drops
	sc.mu.Lock()
	sc.rgate[1] = true
	sc.mu.Unlock()
	sc.setGate(1, false) // sender 2 stays held before its write, its write slice full
	if !sc.waitFor(5*time.Second, func() bool { return sc.rparked[1] }, nil) {
		sc.note("sender 1 did not reach the report write (owed=%d)", sc.owed)
	}
	sc.burst(230+sc.rnd.Intn(120), true) // 200 refill sender 1's write slice, the rest are dropped
	sc.mu.Lock()
	sc.rgate[1] = false
	sc.cond.Broadcast()
	sc.mu.Unlock()
	sc.setGate(2, false)
	sc.quiesce(1, 2)
	if sc.rnd.Intn(2) == 0 {
		sc.burst(1+sc.rnd.Intn(50), true)
		sc.quiesce(1, 2)
	}
}

// Close with packets still buffered; calls after Close are rejected and counted
func verifC31CloseMid(sc *verifC31Scn) {
	sc.burst(1+sc.rnd.Intn(300), true)
	if sc.rnd.Intn(2) == 0 {
		sc.quiesce(1, 2)
		sc.burst(1+sc.rnd.Intn(30), true)
	}
	sc.doClose()
	sc.burst(1+sc.rnd.Intn(3), true)
}

// a behaviour exported by TLC from Balancer (BufLen = 10, one model packet = verifC31Unit real
// ones) as a script: pushes, timer expiries and write completions in the order TLC chose them.
// The order of the remaining sender steps is whatever the real goroutines do; the trace
// validation judges what really happened.
func verifC31Behaviour(sc *verifC31Scn, beh []verifkit.Step) {
	sc.setGate(1, true)
	sc.setGate(2, true)
	for _, st := range beh {
		s := st.Int("s")
		switch st.Act() {
		case "Push":
			if st.Str("res") == "closed" {
				sc.burst(1, true)
			} else {
				sc.burst(verifC31Unit, true)
			}
		case "TimeoutFires":
			if s >= 1 && s <= 2 {
				sc.mu.Lock()
				before := sc.nTimeout[s]
				sc.mu.Unlock()
				sc.waitFor(1500*time.Millisecond, func() bool { return sc.nTimeout[s] > before || sc.timedOut[s] }, nil)
			}
		case "WriteOK", "WriteErr":
			if s >= 1 && s <= 2 && !sc.closed {
				sc.mu.Lock()
				before := sc.nPopDone[s]
				sc.mu.Unlock()
				if st.Act() == "WriteErr" {
					sc.lisOf(s).resetCurrent()
				}
				if sc.waitFor(1500*time.Millisecond, func() bool { return sc.parked[s] }, nil) {
					sc.permitOne(s)
					sc.waitPopDone(s, before)
				}
			}
		case "Close":
			sc.doClose()
		}
	}
	if !sc.closed {
		sc.setGate(1, false)
		sc.setGate(2, false)
		sc.quiesce(1, 2)
	}
}

// ---------------------------------------------------------------------------------------

type verifC31Job struct {
	no   int
	kind string
	beh  []verifkit.Step
}

func verifC31RunJob(j verifC31Job, seed int64) (*verifC31Scn, error) {
	o := verifC31Opts{}
	rnd := rand.New(rand.NewSource(seed ^ 0x5eed))
	if rnd.Intn(2) == 0 {
		o.stuckRecon = time.Millisecond // the stuck-reconnect branch closes the old primary's connection
	}
	switch j.kind {
	case "lstall":
		o.writeTimeout = 6 * time.Second
		o.rcvbuf = 16 << 10
	case "overdue":
		o.writeTimeout = 6 * time.Second
	case "newegress":
		o.newEgress = true
	}
	sc, err := verifC31NewScn(j.no, j.kind, seed, o)
	if err != nil {
		return nil, err
	}
	switch j.kind {
	case "sparse", "newegress":
		verifC31Sparse(sc)
		if j.kind == "newegress" {
			verifC31Bursty(sc)
		}
	case "bursty":
		verifC31Bursty(sc)
	case "fill":
		verifC31Fill(sc)
	case "failover":
		verifC31Failover(sc)
	case "reset":
		verifC31Reset(sc)
	case "lstall":
		verifC31ListenerStall(sc)
	case "closemid":
		verifC31CloseMid(sc)
	case "overdue":
		verifC31Overdue(sc)
	case "reportrace":
		verifC31ReportRace(sc)
	case "beh":
		verifC31Behaviour(sc, j.beh)
	}
	sc.finish()
	return sc, nil
}

// TestVerifC31 runs the scenarios (VERIF_NSCN seeded ones plus one per behaviour in VERIF_IN)
// with bounded parallelism and writes the traces, grouped into VERIF_NFILES files.
func TestVerifC31(t *testing.T) {
	verifkit.Gate(t)
	res := verifkit.NewResult()
	defer res.Write(t)
	log.SetOutput(io.Discard)
	res.Consts["bufferLen"] = bufferLen
	res.Consts["swapThreshold"] = bufferLen * 20 / 100
	res.Consts["swapWaitMaxMs"] = int(swapWaitMax / time.Millisecond)
	res.Consts["pktHeadLen"] = pktHeadLen
	res.Consts["pktBodyMax"] = pktBodyMax

	var jobs []verifC31Job
	if os.Getenv("VERIF_IN") != "" {
		for _, b := range verifkit.LoadBehaviours(t) {
			jobs = append(jobs, verifC31Job{kind: "beh", beh: b})
		}
	}
	nb := len(jobs)
	mix := []string{"sparse", "bursty", "fill", "reset", "failover", "sparse", "closemid", "bursty", "reset", "sparse"}
	nscn := verifkit.EnvInt("VERIF_NSCN", 20)
	for i := 0; i < nscn; i++ {
		jobs = append(jobs, verifC31Job{kind: mix[i%len(mix)]})
	}
	for i := 0; i < verifkit.EnvInt("VERIF_NLSTALL", 1); i++ {
		jobs = append(jobs, verifC31Job{kind: "lstall"})
	}
	for i := 0; i < verifkit.EnvInt("VERIF_NOVERDUE", 1); i++ {
		jobs = append(jobs, verifC31Job{kind: "overdue"})
	}
	for i := 0; i < verifkit.EnvInt("VERIF_NREPORTRACE", 2); i++ {
		jobs = append(jobs, verifC31Job{kind: "reportrace"})
	}
	for i := 0; i < verifkit.EnvInt("VERIF_NNEWEGRESS", 1); i++ {
		jobs = append(jobs, verifC31Job{kind: "newegress"})
	}
	for i := range jobs {
		jobs[i].no = i + 1
	}
	par := verifkit.EnvInt("VERIF_PAR", 6)
	nfiles := verifkit.EnvInt("VERIF_NFILES", 4)
	if nfiles > len(jobs) {
		nfiles = len(jobs)
	}
	scns := make([]*verifC31Scn, len(jobs))
	errs := make([]error, len(jobs))
	sem := make(chan struct{}, par)
	var wg sync.WaitGroup
	for i := range jobs {
		wg.Add(1)
		sem <- struct{}{}
		go func(i int) {
			defer wg.Done()
			defer func() { <-sem }()
			scns[i], errs[i] = verifC31RunJob(jobs[i], verifkit.Seed()*7919+int64(i)*104729+17)
			if i%8 == 7 {
				debug.FreeOSMemory()
			}
		}(i)
	}
	wg.Wait()

	dir := verifkit.TmpDir(t, "c31-")
	files := make([][]map[string]any, nfiles)
	scnFile := map[string]any{}
	kinds := map[string]int{}
	var maxLat time.Duration
	for i, sc := range scns {
		if errs[i] != nil || sc == nil {
			res.Note("scenario %d: %v", i+1, errs[i])
			res.Count("infra", 1)
			continue
		}
		if sc.infra != "" {
			res.Note("scenario %d (%s): %s", sc.no, sc.kind, sc.infra)
			res.Count("infra", 1)
			continue
		}
		f := i % nfiles
		files[f] = append(files[f], sc.tr.Events()...)
		scnFile[fmt.Sprint(sc.no)] = map[string]any{"file": f, "kind": sc.kind, "notes": sc.notes}
		kinds[sc.kind]++
		res.Replayed++
		res.Steps += sc.tr.Len()
		res.Count("quiesce", sc.quiesces)
		res.Count("quiesce_late", sc.lateQ)
		res.Count("packets", sc.nextID-1)
		res.Count("received", sc.nRecv)
		res.Count("connections", sc.connSeq)
		res.Count("dropped", int(sc.lastDrp))
		if sc.maxLat > maxLat {
			maxLat = sc.maxLat
		}
		res.Seen(fmt.Sprintf("%s/conns=%d/drops=%v/late=%v", sc.kind, sc.connSeq, sc.lastDrp > 0, sc.lateQ > 0))
		for _, n := range sc.notes {
			res.Note("scenario %d (%s): %s", sc.no, sc.kind, n)
		}
	}
	for f := range files {
		if len(files[f]) == 0 {
			continue
		}
		p := filepath.Join(dir, fmt.Sprintf("trace_%d.ndjson", f))
		if err := verifkit.WriteNDJSON(p, files[f]); err != nil {
			t.Fatal(err)
		}
		res.Files = append(res.Files, p)
	}
	res.Consts["scenarios"] = scnFile
	res.Consts["behaviours"] = nb
	ks := make([]string, 0, len(kinds))
	for k, n := range kinds {
		ks = append(ks, fmt.Sprintf("%s:%d", k, n))
	}
	sort.Strings(ks)
	res.Sample(map[string]any{"kinds": ks, "max_accept_to_receive_ms": maxLat.Milliseconds()})
}

// TestVerifC31Report: the would-block report (Balancer's Report / ReportErr actions with
// ReportRetry) on the real reportWouldBlockIfAny: seeded sequences of "bytes dropped", "report
// over a connection whose write fails", "report over a healthy connection"; the listener must
// have been told every dropped byte once the last healthy report went out.
func TestVerifC31Report(t *testing.T) {
	verifkit.Gate(t)
	res := verifkit.NewResult()
	defer res.Write(t)
	log.SetOutput(io.Discard)
	ln, err := net.Listen("tcp", "127.0.0.1:0")
	if err != nil {
		t.Fatal(err)
	}
	defer ln.Close()
	type got struct {
		sum  int
		bad  int
		nrep int
	}
	results := make(chan got, 1)
	go func() {
		for {
			c, err := ln.Accept()
			if err != nil {
				return
			}
			data, _ := io.ReadAll(c)
			_ = c.Close()
			g := got{}
			for len(data) >= pktHeadLen {
				bl := int(binary.LittleEndian.Uint32(data))
				if bl > receiver.MaxTCPFrameBody || len(data) < pktHeadLen+bl {
					g.bad++
					break
				}
				it := verifC31Classify(data[pktHeadLen : pktHeadLen+bl])
				data = data[pktHeadLen+bl:]
				if it[0] == "r" {
					g.sum += it[1].(int)
					g.nrep++
				} else {
					g.bad++
				}
			}
			results <- g
		}
	}()
	rnd := verifkit.Rand(31)
	n := verifkit.EnvInt("VERIF_NREPORT", 200)
	for i := 0; i < n; i++ {
		cfg := EgressConfig{HostTag: verifC31HostTag}
		cfg.fillDefaults()
		var stats egressStatsAtomic
		s := &tcpSender{cfg: cfg, stats: &stats}
		m := s.getWriteErrM()
		scratch := make([]byte, 0, pktHeadLen)
		dead, err := net.Dial("tcp", ln.Addr().String())
		if err != nil {
			t.Fatal(err)
		}
		_ = dead.Close() // every write on it fails
		<-results        // the listener saw the dead connection end
		healthy, err := net.Dial("tcp", ln.Addr().String())
		if err != nil {
			t.Fatal(err)
		}
		total := 0
		var script []string
		nops := 1 + rnd.Intn(6)
		for k := 0; k < nops; k++ {
			switch rnd.Intn(3) {
			case 0:
				x := pktHeadLen + verifC31MinBody + rnd.Intn(pktBodyMax-verifC31MinBody)
				s.wouldBlockBytes.Add(int64(x))
				total += x
				script = append(script, fmt.Sprintf("drop %d", x))
			case 1:
				scratch = s.reportWouldBlockIfAny(dead, m, scratch)
				script = append(script, "report(write fails)")
			case 2:
				scratch = s.reportWouldBlockIfAny(healthy, m, scratch)
				script = append(script, "report")
			}
		}
		scratch = s.reportWouldBlockIfAny(healthy, m, scratch)
		script = append(script, "report")
		_ = healthy.Close()
		g := <-results
		res.Replayed++
		res.Steps += len(script)
		res.Seen(fmt.Sprint(len(script), total > 0))
		if g.sum != total || g.bad != 0 {
			res.Mismatch(verifkit.Mismatch{Beh: script, Step: len(script), Want: map[string]any{"reported": total},
				Got: map[string]any{"reported": g.sum, "bad_frames": g.bad, "left_in_counter": s.wouldBlockBytes.Load()},
				Sig: "report-lost", Note: "dropped bytes never reported upstream after a failed report write"})
		}
	}
}
