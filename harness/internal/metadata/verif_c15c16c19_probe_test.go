package metadata

import (
	"context"
	"fmt"
	"io"
	"log"
	"os"
	"testing"
	"time"

	"github.com/VKCOM/statshouse/internal/format"
	"github.com/VKCOM/statshouse/internal/vkgo/binlog/fsbinlog"
)

type verifC15Logger struct{}

func (*verifC15Logger) Tracef(format string, args ...interface{}) {}
func (*verifC15Logger) Debugf(format string, args ...interface{}) {}
func (*verifC15Logger) Infof(format string, args ...interface{})  {}
func (*verifC15Logger) Warnf(format string, args ...interface{})  {}
func (*verifC15Logger) Errorf(format string, args ...interface{}) {}

func verifC15Open(t *testing.T, dir, file string, create bool, opt Options) *DBV2 {
	bo := fsbinlog.Options{PrefixPath: dir + "/bl", Magic: 3456}
	if create {
		if _, err := fsbinlog.CreateEmptyFsBinlog(bo); err != nil {
			t.Fatal(err)
		}
	}
	bl, err := fsbinlog.NewFsBinlog(&verifC15Logger{}, bo)
	if err != nil {
		t.Fatal(err)
	}
	db, err := OpenDB(dir+"/"+file, opt, bl)
	if err != nil {
		t.Fatal(err)
	}
	return db
}

func TestVerifC15Probe(t *testing.T) {
	log.SetOutput(io.Discard)
	ctx := context.Background()
	dir, _ := os.MkdirTemp("", "probe")
	defer os.RemoveAll(dir)
	now := int64(1000000)
	opt := Options{MaxBudget: 3, StepSec: 10, BudgetBonus: 1, GlobalBudget: 0, Now: func() time.Time { return time.Unix(now, 0) }}
	t0 := time.Now()
	db := verifC15Open(t, dir, "db", true, opt)
	fmt.Println("open", time.Since(t0))
	t0 = time.Now()
	ns, err := db.SaveEntity(ctx, "n", 0, 0, "{}", true, 0, format.NamespaceEvent, "m")
	fmt.Println("create ns", ns, err, time.Since(t0))
	t0 = time.Now()
	for i := 0; i < 20; i++ {
		_, err = db.SaveEntity(ctx, fmt.Sprintf("x%d", i), 0, 0, "{}", true, 0, format.MetricEvent, "m")
	}
	fmt.Println("20 creates", err, time.Since(t0))
	// type confusion rename
	r, err := db.SaveEntity(ctx, "n2", ns.Id, ns.Version, "{}", false, 0, format.MetricEvent, "m")
	fmt.Println("rename ns via metric type", r, err)
	j, _ := db.JournalEvents(ctx, 0, 1000)
	for _, e := range j {
		if e.Id == ns.Id {
			fmt.Println("journal ns", e)
		}
	}
	// flood: reset at unaligned time
	now = 1000005
	for i := 0; i < 5; i++ {
		resp, err := db.GetOrCreateMapping(ctx, "m1", fmt.Sprintf("k%d", i))
		fmt.Println("create", i, resp, err)
	}
	b, a, err := db.ResetFlood(ctx, "m1", 1)
	fmt.Println("reset", b, a, err)
	for i := 5; i < 10; i++ {
		resp, err := db.GetOrCreateMapping(ctx, "m1", fmt.Sprintf("k%d", i))
		fmt.Println("create", i, resp, err)
	}
	t0 = time.Now()
	db.Close()
	fmt.Println("close", time.Since(t0))
	t0 = time.Now()
	db = verifC15Open(t, dir, "db2", false, opt)
	fmt.Println("reopen fresh", time.Since(t0))
	j, _ = db.JournalEvents(ctx, 0, 1000)
	fmt.Println("journal len", len(j))
	t0 = time.Now()
	db.Close()
	fmt.Println("close", time.Since(t0))
	t0 = time.Now()
	db = verifC15Open(t, dir, "db", false, opt)
	fmt.Println("reopen same", time.Since(t0))
	db.Close()
}
