package metadata

// Conformance driver for C15 / C16 / C19 (specs/MetaDB.tla).
//
// Behaviours exported by TLC (exhaustive small instances + seeded random scripts followed by the
// specification) are stepped through the public methods of the real DBV2 over the real sqlite
// engine and the real fsbinlog in a temporary directory, with Options.Now injected.
//
//	C15, C19  every request, the reply of the code and the tables read back after the step
//	     (journal / mapping table) are recorded as a trace that specs/MetaDBTrace.tla validates
//	     against the properties (I->S).  Reads are cross-checked here: JournalEvents for every
//	     `since` and several page sizes against the full journal, GetMappingByValue / ByID
//	     against GetNewMappings.  Agreement with the mechanism of the specification (exact
//	     replies, history, flood_limits, sqlite_sequence) is only counted, never a verdict.
//	C16  the database is closed and reopened (a) into a fresh file replaying the whole binlog and
//	     (b) from the file copies taken at every Snap step; the projection of the reopened
//	     database is compared with the projection of the primary (real against real).

import (
	"context"
	"encoding/json"
	"fmt"
	"io"
	"log"
	"os"
	"path/filepath"
	"sort"
	"strings"
	"sync"
	"testing"
	"time"

	"github.com/VKCOM/statshouse/internal/data_model/gen2/tlmetadata"
	"github.com/VKCOM/statshouse/internal/data_model/gen2/tlstatshouse"
	"github.com/VKCOM/statshouse/internal/sqlite"
	"github.com/VKCOM/statshouse/internal/verifkit"
	"github.com/VKCOM/statshouse/internal/vkgo/binlog/fsbinlog"
)

type verifMDLogger struct{}

func (*verifMDLogger) Tracef(format string, args ...interface{}) {}
func (*verifMDLogger) Debugf(format string, args ...interface{}) {}
func (*verifMDLogger) Infof(format string, args ...interface{})  {}
func (*verifMDLogger) Warnf(format string, args ...interface{})  {}
func (*verifMDLogger) Errorf(format string, args ...interface{}) {}

type verifMDConsts struct {
	MaxBudget int64 `json:"maxBudget"`
	Step      int64 `json:"step"`
	Bonus     int64 `json:"bonus"`
	Global    int64 `json:"global"`
	Clock0    int64 `json:"clock0"`
}

type verifMDBeh struct {
	C     verifMDConsts   `json:"c"`
	Src   string          `json:"src"`
	Steps []verifkit.Step `json:"steps"`
}

type verifMDRun struct {
	dir   string
	db    *DBV2
	mu    sync.Mutex
	now   int64
	opt   Options
	snaps []string
}

func (r *verifMDRun) clock() time.Time {
	r.mu.Lock()
	defer r.mu.Unlock()
	return time.Unix(r.now, 0)
}

// DBV2.Close without its 5 s deadline (the machine may be heavily loaded)
func (r *verifMDRun) close() error {
	db := r.db
	r.db = nil
	err := db.eng.Close(context.Background())
	db.cancel()
	return err
}

func (r *verifMDRun) open(file string, create bool) error {
	bo := fsbinlog.Options{PrefixPath: r.dir + "/bl", Magic: 3456}
	if create {
		if _, err := fsbinlog.CreateEmptyFsBinlog(bo); err != nil {
			return err
		}
	}
	bl, err := fsbinlog.NewFsBinlog(&verifMDLogger{}, bo)
	if err != nil {
		return err
	}
	db, err := OpenDB(r.dir+"/"+file, r.opt, bl)
	if err != nil {
		return err
	}
	r.db = db
	return nil
}

func verifMDCopyDB(dir, from, to string) error {
	ents, err := os.ReadDir(dir)
	if err != nil {
		return err
	}
	for _, e := range ents {
		n := e.Name()
		if n != from && !strings.HasPrefix(n, from+"-") {
			continue
		}
		b, err := os.ReadFile(filepath.Join(dir, n))
		if err != nil {
			return err
		}
		if err := os.WriteFile(filepath.Join(dir, to+strings.TrimPrefix(n, from)), b, 0o644); err != nil {
			return err
		}
	}
	return nil
}

func verifMDQuery(db *DBV2, name, sql string, row func(r *sqlite.Rows) error, args ...sqlite.Arg) error {
	return db.eng.Do(context.Background(), name, func(conn sqlite.Conn, cache []byte) ([]byte, error) {
		rows := conn.Query(name, sql, args...)
		for rows.Next() {
			if err := row(&rows); err != nil {
				return cache, err
			}
		}
		return cache, rows.Error()
	})
}

func verifMDSeq(db *DBV2, table string) (int64, error) {
	var seq int64
	err := verifMDQuery(db, "verif_seq", "SELECT seq FROM sqlite_sequence WHERE name = $n", func(r *sqlite.Rows) error {
		seq, _ = r.ColumnInt64(0)
		return nil
	}, sqlite.TextString("$n", table))
	return seq, err
}

// verifMDProject reads the observable state.  histFromTable=false builds the history through
// GetHistoryShort/GetEntityVersioned for the entities of the journal (public API only).
func verifMDProject(db *DBV2, histFromTable bool) (map[string]any, error) {
	ctx := context.Background()
	p := map[string]any{}
	jr, err := db.JournalEvents(ctx, 0, 1000)
	if err != nil {
		return nil, fmt.Errorf("JournalEvents: %w", err)
	}
	j := []any{}
	for _, e := range jr {
		j = append(j, []any{e.Id, e.Name, e.Version, e.Data, e.EventType, e.Unused, e.NamespaceId, e.UpdateTime})
	}
	p["j"] = j
	type hrow struct {
		ver int64
		row []any
	}
	var hs []hrow
	if histFromTable {
		err = verifMDQuery(db, "verif_hist", "SELECT entity_id, version, name, data, type, deleted_at, namespace_id, updated_at, metadata FROM entity_history ORDER BY version", func(r *sqlite.Rows) error {
			id, _ := r.ColumnInt64(0)
			ver, _ := r.ColumnInt64(1)
			name, _ := r.ColumnBlobString(2)
			data, _ := r.ColumnBlobString(3)
			typ, _ := r.ColumnInt64(4)
			del, _ := r.ColumnInt64(5)
			ns, _ := r.ColumnInt64(6)
			ut, _ := r.ColumnInt64(7)
			meta, _ := r.ColumnBlobString(8)
			hs = append(hs, hrow{ver, []any{id, ver, name, data, typ, del, ns, ut, meta}})
			return nil
		})
		if err != nil {
			return nil, fmt.Errorf("entity_history: %w", err)
		}
	} else {
		for _, e := range jr {
			short, err := db.GetHistoryShort(ctx, e.Id)
			if err != nil {
				return nil, fmt.Errorf("GetHistoryShort: %w", err)
			}
			for i, s := range short.Events {
				if i > 0 && short.Events[i-1].Version <= s.Version {
					return nil, fmt.Errorf("GetHistoryShort(%d) not in descending version order", e.Id)
				}
				ev, err := db.GetEntityVersioned(ctx, e.Id, s.Version)
				if err != nil {
					return nil, fmt.Errorf("GetEntityVersioned(%d,%d): %w", e.Id, s.Version, err)
				}
				if ev.Metadata != s.Metadata {
					return nil, fmt.Errorf("GetEntityVersioned(%d,%d) metadata %q, GetHistoryShort says %q", e.Id, s.Version, ev.Metadata, s.Metadata)
				}
				// entity_history keeps deleted_at but GetEntityVersioned does not return it
				hs = append(hs, hrow{s.Version, []any{ev.Id, ev.Version, ev.Name, ev.Data, ev.EventType, ev.NamespaceId, ev.UpdateTime, ev.Metadata}})
			}
		}
		sort.Slice(hs, func(a, b int) bool { return hs[a].ver < hs[b].ver })
	}
	h := []any{}
	for _, x := range hs {
		h = append(h, x.row)
	}
	p["h"] = h
	ms, maxID, err := db.GetNewMappings(ctx, 0, 50000, nil)
	if err != nil {
		return nil, fmt.Errorf("GetNewMappings: %w", err)
	}
	m := []any{}
	var last int32
	for _, x := range ms {
		m = append(m, []any{x.Str, x.Value})
		last = x.Value
	}
	if maxID != last {
		return nil, fmt.Errorf("GetNewMappings max id %d, last row %d", maxID, last)
	}
	p["m"] = m
	if p["seq"], err = verifMDSeq(db, "mappings"); err != nil {
		return nil, err
	}
	if p["eseq"], err = verifMDSeq(db, "metrics_v5"); err != nil {
		return nil, err
	}
	f := []any{}
	err = verifMDQuery(db, "verif_flood", "SELECT metric_name, last_time_update, count_free FROM flood_limits ORDER BY metric_name", func(r *sqlite.Rows) error {
		name, _ := r.ColumnBlobString(0)
		lt, _ := r.ColumnInt64(1)
		c, _ := r.ColumnInt64(2)
		f = append(f, []any{name, lt, c})
		return nil
	})
	if err != nil {
		return nil, fmt.Errorf("flood_limits: %w", err)
	}
	p["f"] = f
	bs, err := db.GetBootstrap(ctx)
	if err != nil {
		return nil, fmt.Errorf("GetBootstrap: %w", err)
	}
	b := []any{}
	for _, x := range bs.Mappings {
		b = append(b, []any{x.Str, x.Value})
	}
	p["b"] = b
	return p, nil
}

// the specification's history rows carry deleted_at at index 5; the public API does not return it
func verifMDHistPublic(post any) any {
	rows, _ := post.([]any)
	out := []any{}
	for _, r := range rows {
		x, _ := r.([]any)
		if len(x) == 9 {
			out = append(out, []any{x[0], x[1], x[2], x[3], x[4], x[6], x[7], x[8]})
		}
	}
	return out
}

func verifMDDiff(a, b map[string]any, fields []string) []string {
	var d []string
	for _, f := range fields {
		if verifkit.Canon(a[f]) != verifkit.Canon(b[f]) {
			d = append(d, f)
		}
	}
	return d
}

type verifMDSaveRes struct {
	ok  bool
	ev  tlmetadata.Event
	err string
}

func (r *verifMDRun) save(rq map[string]any) verifMDSaveRes {
	s := verifkit.Step(rq)
	ev, err := r.db.SaveEntity(context.Background(), s.Str("name"), int64(s.Int("id")), int64(s.Int("old")), s.Str("data"),
		s.Bool("create"), uint32(s.Int("del")), int32(s.Int("typ")), s.Str("meta"))
	if err != nil {
		return verifMDSaveRes{err: err.Error()}
	}
	return verifMDSaveRes{ok: true, ev: ev}
}

// journal reads for every `since` and several page sizes, derived from the full journal
func verifMDJournalPages(db *DBV2, full []any) error {
	ctx := context.Background()
	vers := []int64{0}
	for _, r := range full {
		vers = append(vers, int64(r.([]any)[2].(float64)))
	}
	for _, since := range vers {
		var want []any
		for _, r := range full {
			if int64(r.([]any)[2].(float64)) > since {
				want = append(want, r)
			}
		}
		for _, page := range []int64{1, 2, 1000} {
			got, err := db.JournalEvents(ctx, since, page)
			if err != nil {
				return err
			}
			w := want
			if int64(len(w)) > page {
				w = w[:page]
			}
			g := []any{}
			for _, e := range got {
				g = append(g, []any{e.Id, e.Name, e.Version, e.Data, e.EventType, e.Unused, e.NamespaceId, e.UpdateTime})
			}
			if w == nil {
				w = []any{}
			}
			if verifkit.Canon(g) != verifkit.Canon(w) {
				return fmt.Errorf("JournalEvents(since=%d,page=%d) = %s, want %s", since, page, verifkit.Canon(g), verifkit.Canon(w))
			}
		}
	}
	return nil
}

func verifMDMappingReads(db *DBV2, m []any) error {
	ctx := context.Background()
	for _, r := range m {
		x := r.([]any)
		k, id := x[0].(string), int32(x[1].(float64))
		gid, notExists, err := db.GetMappingByValue(ctx, k)
		if err != nil || notExists || gid != id {
			return fmt.Errorf("GetMappingByValue(%q) = %d,%v,%v want %d", k, gid, notExists, err, id)
		}
		gk, ok, err := db.GetMappingByID(ctx, id)
		if err != nil || !ok || gk != k {
			return fmt.Errorf("GetMappingByID(%d) = %q,%v,%v want %q", id, gk, ok, err, k)
		}
	}
	return nil
}

type verifMDOutcome struct {
	steps    int
	mismatch *verifkit.Mismatch
	diverged bool // the implementation left the mechanism of the specification (never a verdict)
	note     string
	class    string
	trace    []map[string]any
}

func verifMDRunBehaviour(t *testing.T, mode string, idx int, beh verifMDBeh) (out verifMDOutcome) {
	dir := verifkit.TmpDir(t, "metadb")
	defer os.RemoveAll(dir)
	r := &verifMDRun{dir: dir, now: beh.C.Clock0}
	r.opt = Options{MaxBudget: beh.C.MaxBudget, StepSec: uint32(beh.C.Step), BudgetBonus: beh.C.Bonus, GlobalBudget: beh.C.Global, Now: r.clock}
	if err := r.open("db", true); err != nil {
		out.note = "infra: open: " + err.Error()
		return
	}
	defer func() {
		if r.db != nil {
			_ = r.close()
		}
	}()
	fail := func(step int, sig string, want, got any, note string) {
		out.mismatch = &verifkit.Mismatch{Beh: beh, Step: step, Want: want, Got: got, Sig: sig, Note: note}
	}
	left := func(i int, act string, want, got any) {
		if !out.diverged {
			out.note = fmt.Sprintf("step %d (%s): specification %s, implementation %s", i, act, verifkit.Canon(want), verifkit.Canon(got))
		}
		out.diverged = true
	}
	tracing := mode == "C15" || mode == "C19"
	emit := func(ev string, kv ...any) map[string]any {
		m := map[string]any{"ev": ev, "b": idx}
		for i := 0; i+1 < len(kv); i += 2 {
			m[kv[i].(string)] = kv[i+1]
		}
		if tracing {
			out.trace = append(out.trace, m)
		}
		return m
	}
	emit("Begin", "clock0", beh.C.Clock0)
	ctx := context.Background()
	var classes []string
	// metrics whose flood row was changed by ResetFlood (which writes no binlog event) since the
	// empty file (index 0) / since each snapshot, and not rewritten by a logged creation since
	taints := []map[string]bool{{}}
	for i, st := range beh.Steps {
		out.steps++
		post := st.Post()
		act := st.Act()
		classes = append(classes, act)
		var line map[string]any
		switch act {
		case "Save":
			rq, _ := st["rq"].(map[string]any)
			res := r.save(rq)
			line = emit("Save", "rq", rq, "ok", res.ok, "rid", res.ev.Id, "rver", res.ev.Version, "rns", res.ev.NamespaceId)
			want := []any{st.Bool("ok")}
			got := []any{res.ok}
			if st.Bool("ok") && res.ok {
				want = append(want, st.Int("rid"), st.Int("rver"), st.Int("rns"))
				got = append(got, res.ev.Id, res.ev.Version, res.ev.NamespaceId)
			}
			if !st.Bool("ok") {
				classes[len(classes)-1] = "Save!" + st.Str("why")
			}
			if verifkit.Canon(want) != verifkit.Canon(got) {
				left(i, act, want, []any{got, res.err})
			}
		case "Race":
			q1, _ := st["q1"].(map[string]any)
			q2, _ := st["q2"].(map[string]any)
			var r1, r2 verifMDSaveRes
			start := make(chan struct{})
			var wg sync.WaitGroup
			wg.Add(2)
			go func() { defer wg.Done(); <-start; r1 = r.save(q1) }()
			go func() { defer wg.Done(); <-start; r2 = r.save(q2) }()
			close(start)
			wg.Wait()
			line = emit("Race", "q1", q1, "q2", q2, "ok1", r1.ok, "ok2", r2.ok, "id1", r1.ev.Id, "id2", r2.ev.Id,
				"ver1", r1.ev.Version, "ver2", r2.ev.Version, "ns1", r1.ev.NamespaceId, "ns2", r2.ev.NamespaceId)
			got := []any{r1.ok, r2.ok, r1.ev.Version, r2.ev.Version}
			alt, _ := st["alt"].(map[string]any)
			as := verifkit.Step(alt)
			w1 := []any{st.Bool("ok1"), st.Bool("ok2"), st.Int("ver1"), st.Int("ver2")}
			w2 := []any{as.Bool("ok1"), as.Bool("ok2"), as.Int("ver1"), as.Int("ver2")}
			switch verifkit.Canon(got) {
			case verifkit.Canon(w1):
			case verifkit.Canon(w2):
				// the other serialisation: from here on the exported behaviour is only a script
				post = as.Post()
				classes[len(classes)-1] = "Race:alt"
				if verifkit.Canon(w1) != verifkit.Canon(w2) {
					left(i, act, "first request serialised first", "second request serialised first (equally allowed)")
				}
			default:
				left(i, act, []any{w1, w2}, []any{got, r1.err, r2.err})
			}
		case "Goc":
			resp, err := r.db.GetOrCreateMapping(ctx, st.Str("metric"), st.Str("key"))
			kind, id := "error", int32(0)
			if err == nil {
				if g, ok := resp.AsGetMappingResponse(); ok {
					kind, id = "get", g.Id
				} else if c, ok := resp.AsCreated(); ok {
					kind, id = "created", c.Id
				} else if resp.IsFloodLimitError() {
					kind = "flood"
				}
			}
			line = emit("Goc", "metric", st.Str("metric"), "key", st.Str("key"), "kind", kind, "rid", id)
			if kind == "created" {
				for _, tn := range taints {
					delete(tn, st.Str("metric"))
				}
			}
			classes[len(classes)-1] = "Goc:" + st.Str("kind")
			want := []any{st.Str("kind"), st.Int("rid")}
			got := []any{kind, id}
			if verifkit.Canon(want) != verifkit.Canon(got) {
				left(i, act, want, []any{got, fmt.Sprint(err)})
			}
		case "Put":
			ks, vs := []string{}, []int32{}
			for _, k := range st["ks"].([]any) {
				ks = append(ks, k.(string))
			}
			for _, v := range st["vs"].([]any) {
				vs = append(vs, int32(v.(float64)))
			}
			err := r.db.PutMapping(ctx, ks, vs)
			line = emit("Put", "ks", ks, "vs", vs, "ok", err == nil)
			if err != nil {
				left(i, act, "ok", err.Error())
			}
		case "Del":
			ids := []int32{}
			for _, v := range st["ids"].([]any) {
				ids = append(ids, int32(v.(float64)))
			}
			cnt, err := r.db.deleteMappingsByIdBatched(ctx, ids)
			line = emit("Del", "ids", ids, "ok", err == nil)
			if err != nil || int(cnt) != st.Int("cnt") {
				left(i, act, st.Int("cnt"), []any{cnt, fmt.Sprint(err)})
			}
		case "Reset":
			_, after, err := r.db.ResetFlood(ctx, st.Str("metric"), int64(st.Int("limit")))
			line = emit("RFlood", "metric", st.Str("metric"), "limit", st.Int("limit"), "ok", err == nil)
			for _, tn := range taints {
				tn[st.Str("metric")] = true
			}
			if err != nil || int(after) != st.Int("after") {
				left(i, act, st.Int("after"), []any{after, fmt.Sprint(err)})
			}
		case "Boot":
			var ms []tlstatshouse.Mapping
			for _, p := range st["ms"].([]any) {
				x := p.([]any)
				ms = append(ms, tlstatshouse.Mapping{Str: x[0].(string), Value: int32(x[1].(float64))})
			}
			// DBV2 has no public PutBootstrap any more; this is the body it had: the handler
			// that replay uses, run as a primary write
			err := r.db.eng.Do(ctx, "put_bootstrap", func(conn sqlite.Conn, cache []byte) ([]byte, error) {
				_, cache, err := applyPutBootstrap(conn, cache, ms)
				return cache, err
			})
			if err != nil {
				out.note = "infra: put bootstrap: " + err.Error()
				return
			}
			line = emit("Boot")
		case "Tick":
			r.mu.Lock()
			r.now += int64(st.Int("d"))
			r.mu.Unlock()
			line = emit("Tick", "d", st.Int("d"))
		case "Snap":
			if err := r.close(); err != nil {
				out.note = "infra: close: " + err.Error()
				return
			}
			name := fmt.Sprintf("snap%d", len(r.snaps))
			if err := verifMDCopyDB(dir, "db", name); err != nil {
				out.note = "infra: copy: " + err.Error()
				return
			}
			r.snaps = append(r.snaps, name)
			taints = append(taints, map[string]bool{})
			if err := r.open("db", false); err != nil {
				fail(i, "replay-fails: reopen of the primary's own file", "open", err.Error(), "")
				return
			}
			line = emit("Snap")
		default:
			out.note = "infra: unknown action " + act
			return
		}
		// the tables read back after the step
		proj, err := verifMDProject(r.db, mode != "C15")
		if err != nil {
			if mode == "C16" {
				out.note = "infra: projection: " + err.Error()
			} else {
				fail(i, "read-mismatch: "+strings.SplitN(err.Error(), ":", 2)[0], "consistent reads", err.Error(), "")
			}
			return
		}
		if mode == "C15" && act != "Tick" {
			line["j"] = proj["j"]
		}
		// long histories (tables of a thousand rows): read-back tables in the trace and the
		// per-row lookups only every 97th step and at the end
		nm := len(proj["m"].([]any))
		sparse := nm > 64 && i%97 != 0 && i != len(beh.Steps)-1
		if mode == "C19" && act != "Tick" && !sparse {
			line["m"] = proj["m"]
		}
		// agreement with the mechanism of the specification: counted only
		want := map[string]any{}
		for k, v := range post {
			want[k] = v
		}
		fields := []string{"j", "h", "m", "seq", "eseq", "f", "b"}
		if mode == "C15" {
			want["h"] = verifMDHistPublic(post["h"])
		}
		if d := verifMDDiff(want, proj, fields); len(post) > 0 && len(d) > 0 && !out.diverged {
			left(i, act+" state "+strings.Join(d, ","), want[d[0]], proj[d[0]])
		}
		if mode == "C15" {
			jj, _ := json.Marshal(proj["j"])
			var full []any
			_ = json.Unmarshal(jj, &full)
			if err := verifMDJournalPages(r.db, full); err != nil {
				fail(i, "read-mismatch: JournalEvents paging", "pages of the journal", err.Error(), "")
				return
			}
		}
		if mode == "C19" && !sparse {
			mj, _ := json.Marshal(proj["m"])
			var mm []any
			_ = json.Unmarshal(mj, &mm)
			if err := verifMDMappingReads(r.db, mm); err != nil {
				fail(i, "read-mismatch: mapping lookups", "GetMappingByValue/ByID agree with GetNewMappings", err.Error(), "")
				return
			}
		}
	}
	out.class = strings.Join(classes, ",")
	if mode != "C16" {
		return
	}
	// ---- C16: reopen from the binlog and compare with the primary (real against real)
	prim, err := verifMDProject(r.db, true)
	if err != nil {
		out.note = "infra: projection: " + err.Error()
		return
	}
	if err := r.close(); err != nil {
		out.note = "infra: close: " + err.Error()
		return
	}
	all := []string{"j", "h", "m", "seq", "eseq", "f", "b"}
	files := append([]string{"fresh"}, r.snaps...)
	for k, file := range files {
		what := "fresh file from offset 0"
		if k > 0 {
			what = fmt.Sprintf("snapshot %d", k)
		}
		if err := r.open(file, false); err != nil {
			fail(len(beh.Steps), "replay-fails: "+strings.Fields(what)[0], "reopen from "+what, err.Error(), "OpenDB failed while replaying the binlog")
			return
		}
		rep, err := verifMDProject(r.db, true)
		cerr := r.close()
		if err != nil || cerr != nil {
			out.note = fmt.Sprintf("infra: replayed projection: %v %v", err, cerr)
			return
		}
		d := verifMDDiff(prim, rep, all)
		if len(d) == 0 {
			continue
		}
		sig := "replay-diverges: " + strings.Join(d, ",")
		if len(d) == 1 && d[0] == "f" && k < len(taints) {
			// flood rows of metrics reset by ResetFlood since this snapshot (no binlog event)
			taint := taints[k]
			rows := func(p any) map[string]string {
				res := map[string]string{}
				b, _ := json.Marshal(p)
				var xs [][]any
				_ = json.Unmarshal(b, &xs)
				for _, x := range xs {
					res[x[0].(string)] = verifkit.Canon(x)
				}
				return res
			}
			pr, rr := rows(prim["f"]), rows(rep["f"])
			only := true
			for m, v := range pr {
				if rr[m] != v && !taint[m] {
					only = false
				}
			}
			for m, v := range rr {
				if pr[m] != v && !taint[m] {
					only = false
				}
			}
			if only {
				sig = "replay-loses: ResetFlood"
			}
		}
		w, g := map[string]any{}, map[string]any{}
		for _, f := range d {
			w[f], g[f] = prim[f], rep[f]
		}
		fail(len(beh.Steps), sig, w, g, "primary (want) against the database reopened from "+what+" (got)")
		return
	}
	return
}

func TestVerifC15C16C19(t *testing.T) {
	verifkit.Gate(t)
	log.SetOutput(io.Discard)
	res := verifkit.NewResult()
	defer res.Write(t)
	mode := os.Getenv("VERIF_MODE")
	res.Consts["maxResetLimit"] = maxResetLimit
	res.Consts["mode"] = mode
	var behs []verifMDBeh
	verifkit.ForEachLine(t, os.Getenv("VERIF_IN"), func(line []byte) {
		var b verifMDBeh
		if err := json.Unmarshal(line, &b); err != nil {
			t.Fatalf("bad behaviour: %v", err)
		}
		behs = append(behs, b)
	})
	workers := verifkit.EnvInt("VERIF_WORKERS", 8)
	base := verifkit.EnvInt("VERIF_BASE", 0) // index of the first behaviour of this batch
	var wg sync.WaitGroup
	var tmu sync.Mutex
	traces := map[string][]map[string]any{} // budget constants -> concatenated runs
	bySig := map[string][]verifkit.Mismatch{}
	next := make(chan int)
	for w := 0; w < workers; w++ {
		wg.Add(1)
		go func() {
			defer wg.Done()
			for i := range next {
				o := verifMDRunBehaviour(t, mode, base+i, behs[i])
				res.Count("steps", o.steps)
				if strings.HasPrefix(o.note, "infra:") {
					res.Count("infra", 1)
					res.Note("behaviour %d: %s", i, o.note)
					continue
				}
				if o.mismatch != nil {
					// at most 2 witnesses per signature, so that many instances of one class (the
					// known ResetFlood finding) cannot crowd out another class
					tmu.Lock()
					if len(bySig[o.mismatch.Sig]) < 2 {
						bySig[o.mismatch.Sig] = append(bySig[o.mismatch.Sig], *o.mismatch)
					}
					tmu.Unlock()
					res.Count("mismatching", 1)
					res.Count("sig:"+o.mismatch.Sig, 1)
					continue
				}
				if o.diverged {
					res.Count("left_spec", 1)
					res.Note("behaviour %d: %s", i, o.note)
				}
				if len(o.trace) > 0 {
					c := behs[i].C
					key := fmt.Sprintf("%d_%d_%d_%d", c.MaxBudget, c.Step, c.Bonus, c.Global)
					tmu.Lock()
					traces[key] = append(traces[key], o.trace...)
					tmu.Unlock()
				}
				res.Count("ok", 1)
				res.Seen(o.class)
				if i%997 == 0 {
					res.Sample(map[string]any{"src": behs[i].Src, "ops": o.class})
				}
			}
		}()
	}
	for i := range behs {
		next <- i
	}
	close(next)
	wg.Wait()
	for _, sig := range verifkit.SortedKeys(bySig) {
		for _, m := range bySig[sig] {
			res.Mismatch(m)
		}
	}
	groups := map[string]string{}
	for _, key := range verifkit.SortedKeys(traces) {
		p := filepath.Join(verifkit.TmpDir(t, "mdtrace"), "trace_"+key+".ndjson")
		if err := verifkit.WriteNDJSON(p, traces[key]); err != nil {
			t.Fatal(err)
		}
		groups[key] = p
		res.Files = append(res.Files, p)
	}
	res.Consts["groups"] = groups
	res.Replayed = res.Counters["ok"]
	res.Steps = res.Counters["steps"]
}
