// Package verifkit is injected into the repository with `go test -overlay` by /verif/tools.
// It holds what every conformance harness shares: the run gate, behaviour input (S->I),
// trace output (I->S) and the result file.  Standard library only.
package verifkit

import (
	"bufio"
	"encoding/json"
	"fmt"
	"math/rand"
	"os"
	"sort"
	"strconv"
	"sync"
	"testing"
)

// Gate skips the injected test unless the check driver runs it.
func Gate(t testing.TB) {
	if os.Getenv("VERIF_RUN") != "1" {
		t.Skip("verif harness: set VERIF_RUN=1 (run through /verif/tools/check)")
	}
}

func Seed() int64 {
	n, err := strconv.ParseInt(os.Getenv("VERIF_SEED"), 10, 64)
	if err != nil {
		return 1
	}
	return n
}

func Rand(salt int64) *rand.Rand { return rand.New(rand.NewSource(Seed()*1000003 + salt)) }

func Thorough() bool { return os.Getenv("VERIF_TIER") == "thorough" }

func EnvInt(name string, def int) int {
	n, err := strconv.Atoi(os.Getenv(name))
	if err != nil {
		return def
	}
	return n
}

// Step is one action of a specification behaviour as exported by TLC (`hist` records):
// "a" is the action name, "post" the abstract state expected afterwards, everything else
// are the action's arguments.
type Step map[string]any

func (s Step) Act() string { v, _ := s["a"].(string); return v }
func (s Step) Int(k string) int {
	switch v := s[k].(type) {
	case float64:
		return int(v)
	case string:
		n, _ := strconv.Atoi(v)
		return n
	}
	return 0
}
func (s Step) Str(k string) string { v, _ := s[k].(string); return v }
func (s Step) Bool(k string) bool  { v, _ := s[k].(bool); return v }
func (s Step) Post() map[string]any {
	v, _ := s["post"].(map[string]any)
	return v
}

// LoadBehaviours reads VERIF_IN: one JSON array of steps per line.
func LoadBehaviours(t testing.TB) [][]Step {
	var res [][]Step
	ForEachLine(t, os.Getenv("VERIF_IN"), func(line []byte) {
		var b []Step
		if err := json.Unmarshal(line, &b); err != nil {
			t.Fatalf("verifkit: bad behaviour line: %v", err)
		}
		res = append(res, b)
	})
	return res
}

// LoadCases reads VERIF_IN as one JSON value per line into out elements created by mk.
func ForEachLine(t testing.TB, path string, f func(line []byte)) {
	if path == "" {
		t.Fatalf("verifkit: VERIF_IN not set")
	}
	fh, err := os.Open(path)
	if err != nil {
		t.Fatalf("verifkit: %v", err)
	}
	defer fh.Close()
	sc := bufio.NewScanner(fh)
	sc.Buffer(make([]byte, 1<<20), 1<<28)
	for sc.Scan() {
		if len(sc.Bytes()) == 0 {
			continue
		}
		f(sc.Bytes())
	}
	if err := sc.Err(); err != nil {
		t.Fatalf("verifkit: %v", err)
	}
}

// Mismatch is a divergence between the specification and the implementation witnessed on
// the real code.  Sig (optional) is the canonical class used for known-findings matching.
type Mismatch struct {
	Beh  any    `json:"beh,omitempty"`
	Step int    `json:"step"`
	Want any    `json:"want"`
	Got  any    `json:"got"`
	Sig  string `json:"sig,omitempty"`
	Note string `json:"note,omitempty"`
}

// Result is what a harness test writes to VERIF_OUT.
type Result struct {
	mu         sync.Mutex
	Replayed   int            `json:"replayed"`   // behaviours / cases / traces handled
	Steps      int            `json:"steps"`      // total steps executed on the real code
	Mismatches []Mismatch     `json:"mismatches"` // S->I divergences
	Samples    []any          `json:"samples"`
	Counters   map[string]int `json:"counters"`
	Distinct   map[string]int `json:"-"`
	NDistinct  int            `json:"distinct"`
	Files      []string       `json:"files"` // trace files produced for I->S validation
	Notes      []string       `json:"notes"`
	Consts     map[string]any `json:"consts,omitempty"` // constants read from the code
}

func NewResult() *Result {
	return &Result{Counters: map[string]int{}, Distinct: map[string]int{}, Consts: map[string]any{}}
}

func (r *Result) Count(k string, n int) {
	r.mu.Lock()
	r.Counters[k] += n
	r.mu.Unlock()
}

// Seen records a case class for the distinct-nontrivial count.
func (r *Result) Seen(class string) {
	r.mu.Lock()
	r.Distinct[class]++
	r.mu.Unlock()
}

func (r *Result) Sample(v any) {
	r.mu.Lock()
	if len(r.Samples) < 5 {
		r.Samples = append(r.Samples, v)
	}
	r.mu.Unlock()
}

func (r *Result) Mismatch(m Mismatch) {
	r.mu.Lock()
	if len(r.Mismatches) < 20 {
		r.Mismatches = append(r.Mismatches, m)
	}
	r.Counters["mismatches_total"]++
	r.mu.Unlock()
}

func (r *Result) Note(format string, a ...any) {
	r.mu.Lock()
	if len(r.Notes) < 50 {
		r.Notes = append(r.Notes, fmt.Sprintf(format, a...))
	}
	r.mu.Unlock()
}

// Write stores the result at VERIF_OUT.  Harness tests call it in a defer so that a result
// exists even when the test fails.
func (r *Result) Write(t testing.TB) {
	r.mu.Lock()
	defer r.mu.Unlock()
	r.NDistinct = len(r.Distinct)
	p := os.Getenv("VERIF_OUT")
	if p == "" {
		return
	}
	b, err := json.Marshal(r)
	if err != nil {
		t.Fatalf("verifkit: %v", err)
	}
	if err := os.WriteFile(p, b, 0o644); err != nil {
		t.Fatalf("verifkit: %v", err)
	}
}

// Trace is an ndjson event recorder for I->S validation.  Emit must be called at the
// linearization point (under the lock protecting the change); one mutex assigns the global
// order, no wall clock is used.
type Trace struct {
	mu  sync.Mutex
	n   int
	buf []map[string]any
}

func NewTrace() *Trace { return &Trace{} }

// Emit records event ev with alternating key, value pairs.
func (tr *Trace) Emit(ev string, kv ...any) {
	m := map[string]any{"ev": ev}
	for i := 0; i+1 < len(kv); i += 2 {
		m[fmt.Sprint(kv[i])] = kv[i+1]
	}
	tr.mu.Lock()
	tr.n++
	m["n"] = tr.n
	tr.buf = append(tr.buf, m)
	tr.mu.Unlock()
}

func (tr *Trace) Len() int {
	tr.mu.Lock()
	defer tr.mu.Unlock()
	return len(tr.buf)
}

func (tr *Trace) Events() []map[string]any {
	tr.mu.Lock()
	defer tr.mu.Unlock()
	return append([]map[string]any(nil), tr.buf...)
}

// WriteFile writes the events as ndjson (keys sorted by encoding/json).
func (tr *Trace) WriteFile(path string) error {
	tr.mu.Lock()
	defer tr.mu.Unlock()
	return WriteNDJSON(path, tr.buf)
}

func WriteNDJSON[T any](path string, items []T) error {
	fh, err := os.Create(path)
	if err != nil {
		return err
	}
	w := bufio.NewWriter(fh)
	for _, it := range items {
		b, err := json.Marshal(it)
		if err != nil {
			fh.Close()
			return err
		}
		w.Write(b)
		w.WriteByte('\n')
	}
	if err := w.Flush(); err != nil {
		fh.Close()
		return err
	}
	return fh.Close()
}

// TmpDir returns a scratch directory under the check's temp dir (removed by the driver).
func TmpDir(t testing.TB, prefix string) string {
	base := os.Getenv("VERIF_TMP")
	if base == "" {
		return t.TempDir()
	}
	d, err := os.MkdirTemp(base, prefix)
	if err != nil {
		t.Fatalf("verifkit: %v", err)
	}
	return d
}

// SortedKeys of a string-keyed map (stable projections).
func SortedKeys[V any](m map[string]V) []string {
	ks := make([]string, 0, len(m))
	for k := range m {
		ks = append(ks, k)
	}
	sort.Strings(ks)
	return ks
}

// Canon re-encodes v through JSON so that values coming from the spec and projections of the
// implementation can be compared with reflect.DeepEqual / string equality.
func Canon(v any) string {
	b, err := json.Marshal(v)
	if err != nil {
		return fmt.Sprintf("!%v", err)
	}
	var x any
	_ = json.Unmarshal(b, &x)
	b, _ = json.Marshal(x)
	return string(b)
}
