package format

// C11 conformance driver, raw tag half.  Every token string TLC examined in specs/RawTag.tla
// arrives with the specification's verdict (accept / reject / either for an explicit '+') and the
// stored bit pattern as a decimal string; the string is concretised and run through
// ContainsRawTagValueBytes / ContainsRawTagValue64Bytes, the result compared with the
// specification and decoded back.  A seeded random part compares with math/big.

import (
	"fmt"
	"math/big"
	"math/rand"
	"strconv"
	"strings"
)

var verifC11RawReps = map[byte][]string{
	's': {" ", "\t", "\n", "\r"},
	'x': {"a", "e", ".", "x", ",", "/", ":", "\x00", "\xff", "E"},
	'_': {"_"},
}

func verifC11RawConcretise(toks string, variant int, rnd *rand.Rand) []byte {
	var b []byte
	for i := 0; i < len(toks); i++ {
		c := toks[i]
		if reps, ok := verifC11RawReps[c]; ok {
			idx := (variant + i) % len(reps)
			if rnd != nil {
				idx = rnd.Intn(len(reps))
			}
			b = append(b, reps[idx]...)
		} else {
			b = append(b, c)
		}
	}
	return b
}

func verifC11Bits64(lo, hi int32) uint64 { return uint64(uint32(hi))<<32 | uint64(uint32(lo)) }

// what the number is, from the text alone (nil if it is not [+-]?digits)
func verifC11BigOf(b []byte) *big.Int {
	s := string(b)
	d := strings.TrimPrefix(strings.TrimPrefix(s, "-"), "+")
	if len(s)-len(d) > 1 || d == "" || strings.Trim(d, "0123456789") != "" {
		return nil
	}
	n, ok := new(big.Int).SetString(s, 10)
	if !ok {
		return nil
	}
	return n
}

func (ck *verifC11Checker) rawDecodeBack(b []byte, width int, ok bool, bits uint64) {
	if !ok {
		return
	}
	n := verifC11BigOf(b)
	if n == nil {
		ck.mismatch(fmt.Sprintf("raw%d-accepts-non-decimal", width), b, "rejected", "accepted", "not a decimal integer")
		return
	}
	var back *big.Int
	if n.Sign() < 0 { // negative numbers are read back signed
		if width == 32 {
			back = big.NewInt(int64(int32(uint32(bits))))
		} else {
			back = big.NewInt(int64(bits))
		}
	} else {
		back = new(big.Int).SetUint64(bits)
	}
	if back.Cmp(n) != 0 {
		ck.mismatch(fmt.Sprintf("raw%d-decodes-to-other-number", width), b, n.String(), back.String(), "stored bit pattern does not decode back")
	}
}

// helpers that print / parse stored raw values for the API
func (ck *verifC11Checker) rawCodeHelpers(b []byte, v32 int32, ok32 bool, bits64 uint64, ok64 bool) {
	if ok32 && v32 != 0 {
		back, err := ParseCodeTagValue(CodeTagValue(v32))
		if err != nil || back != int64(v32) {
			ck.mismatch("raw-code-tag-value-roundtrip", b, int64(v32), fmt.Sprint(back, err), "ParseCodeTagValue(CodeTagValue(v))")
		}
	}
	if ok64 && bits64 != 0 {
		back, err := ParseCodeTagValue(CodeTagValue64(int64(bits64)))
		if err != nil || back != int64(bits64) {
			ck.mismatch("raw-code-tag-value64-roundtrip", b, int64(bits64), fmt.Sprint(back, err), "ParseCodeTagValue(CodeTagValue64(v))")
		}
	}
}

func (ck *verifC11Checker) rawCase(toks, f32, bits32, f64, bits64, sign string, variants int, rnd *rand.Rand) error {
	nv := variants
	if !strings.ContainsAny(toks, "sx") {
		nv = 1
	}
	want := func(bits string) uint64 {
		if bits == "" {
			return 0
		}
		u, err := strconv.ParseUint(bits, 10, 64)
		if err != nil {
			panic(fmt.Sprintf("bad bits %q in specification export", bits))
		}
		return u
	}
	for v := 0; v < nv; v++ {
		var r *rand.Rand
		if v == nv-1 && v > 0 {
			r = rnd
		}
		b := verifC11RawConcretise(toks, v, r)
		v32, ok32 := ContainsRawTagValueBytes(append([]byte(nil), b...))
		lo, hi, ok64 := ContainsRawTagValue64Bytes(append([]byte(nil), b...))
		u64 := verifC11Bits64(lo, hi)
		ck.res.Steps += 2
		for _, c := range []struct {
			w    int
			flag string
			ok   bool
			got  uint64
			want uint64
		}{{32, f32, ok32, uint64(uint32(v32)), want(bits32)}, {64, f64, ok64, u64, want(bits64)}} {
			switch c.flag {
			case "A":
				if !c.ok {
					ck.mismatch(fmt.Sprintf("raw%d-rejects-in-range", c.w), b, "accepted", "rejected", "spec input "+toks)
				}
			case "r":
				if c.ok {
					ck.mismatch(fmt.Sprintf("raw%d-accepts-out-of-range-or-malformed", c.w), b, "rejected", "accepted", "spec input "+toks)
				}
			case "P": // explicit plus sign: the property admits both answers
			default:
				return fmt.Errorf("bad flag %q", c.flag)
			}
			if c.ok && c.flag != "r" && c.got != c.want {
				ck.mismatch(fmt.Sprintf("raw%d-bit-pattern", c.w), b, strconv.FormatUint(c.want, 10), strconv.FormatUint(c.got, 10), "spec input "+toks)
			}
			ck.rawDecodeBack(b, c.w, c.ok, c.got)
		}
		ck.rawCodeHelpers(b, v32, ok32, u64, ok64)
	}
	_ = sign
	ck.res.Replayed++
	ck.res.Seen("R:" + toks)
	return nil
}

var verifC11Bounds = func() []*big.Int {
	var res []*big.Int
	for _, k := range []uint{0, 7, 8, 15, 16, 31, 32, 33, 62, 63, 64, 65} {
		p := new(big.Int).Lsh(big.NewInt(1), k)
		res = append(res, p, new(big.Int).Neg(p))
	}
	return res
}()

// the property itself with math/big as the oracle: accepted iff decimal and in range, and the
// stored pattern is the number modulo 2^W
func (ck *verifC11Checker) rawRandom(rnd *rand.Rand) {
	var n *big.Int
	switch rnd.Intn(3) {
	case 0:
		n = new(big.Int).Add(verifC11Bounds[rnd.Intn(len(verifC11Bounds))], big.NewInt(int64(rnd.Intn(2001)-1000)))
	case 1:
		digits := 1 + rnd.Intn(24)
		var sb strings.Builder
		for i := 0; i < digits; i++ {
			sb.WriteByte(byte('0' + rnd.Intn(10)))
		}
		n, _ = new(big.Int).SetString(sb.String(), 10)
		if rnd.Intn(2) == 0 {
			n.Neg(n)
		}
	default:
		n = big.NewInt(rnd.Int63())
		n.Rsh(n, uint(rnd.Intn(63)))
		if rnd.Intn(2) == 0 {
			n.Neg(n)
		}
	}
	s := new(big.Int).Abs(n).String()
	s = strings.Repeat("0", rnd.Intn(4)*rnd.Intn(3)) + s
	if n.Sign() < 0 || (n.Sign() == 0 && rnd.Intn(4) == 0) {
		s = "-" + s
	}
	b := []byte(s)
	junk := rnd.Intn(12) == 0
	if junk { // damage the text
		pos := rnd.Intn(len(b) + 1)
		ins := []string{" ", "_", "x", "-", "+", ".", "\n"}[rnd.Intn(7)]
		b = append(append(append([]byte(nil), b[:pos]...), ins...), b[pos:]...)
		if verifC11BigOf(b) != nil { // still a number (or an explicit plus): not this part's business
			return
		}
	}
	v32, ok32 := ContainsRawTagValueBytes(append([]byte(nil), b...))
	lo, hi, ok64 := ContainsRawTagValue64Bytes(append([]byte(nil), b...))
	ck.res.Steps += 2
	in := func(lo, hi *big.Int) bool { return !junk && n.Cmp(lo) >= 0 && n.Cmp(hi) <= 0 }
	one := big.NewInt(1)
	min32, max32 := new(big.Int).Neg(new(big.Int).Lsh(one, 31)), new(big.Int).Sub(new(big.Int).Lsh(one, 32), one)
	min64, max64 := new(big.Int).Neg(new(big.Int).Lsh(one, 63)), new(big.Int).Sub(new(big.Int).Lsh(one, 64), one)
	if ok32 != in(min32, max32) {
		ck.mismatch("raw32-random-accept", b, in(min32, max32), ok32, "accepted iff decimal integer in [-2^31, 2^32-1]")
	}
	if ok64 != in(min64, max64) {
		ck.mismatch("raw64-random-accept", b, in(min64, max64), ok64, "accepted iff decimal integer in [-2^63, 2^64-1]")
	}
	if !junk {
		ck.rawDecodeBack(b, 32, ok32, uint64(uint32(v32)))
		ck.rawDecodeBack(b, 64, ok64, verifC11Bits64(lo, hi))
	}
}
