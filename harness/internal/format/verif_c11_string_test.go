package format

// C11 conformance driver, string half (injected by /verif/tools via -overlay; see /verif/DESIGN.md).
//
// S->I: every input that TLC explored in specs/TagValue.tla (a sequence of rune classes with a
// run-length filler) arrives with what the specification says about it: the normalised output
// (as classes), whether the input is valid, whether strict normalisation fails.  Each abstract
// input is concretised with several representatives per class, run through the public functions
// of format.go and compared with the specification; the laws of the property are also asserted
// directly on the concrete bytes.  A seeded random part checks the laws on arbitrary byte strings.

import (
	"bytes"
	"fmt"
	"math/rand"
	"os"
	"strconv"
	"strings"
	"testing"
	"unicode"
	"unicode/utf8"

	"github.com/VKCOM/statshouse/internal/verifkit"
)

type verifC11Item struct {
	c string
	n int
}

var verifC11Reps = map[string][]string{
	"a":  {"a", "Z", "~", "!", "0", "_", "%"},
	"s":  {" "},
	"t":  {"\t", "\n", "\v", "\f", "\r"},
	"c":  {"\x00", "\x01", "\x1f", "\x7f", "\x1b", "\x08"},
	"u":  {"\u0085", "\u00a0"},
	"U":  {"\u2000", "\u2003", "\u200a", "\u2028", "\u2029", "\u202f", "\u205f", "\u3000", "\u1680"},
	"p2": {"\u00e9", "\u044f", "\u00df", "\u00a1", "\u03a9"},
	"p3": {"\u20ac", "\u4e2d", "\u3042", "\u2603", "\u0800"},
	"p4": {"\U0001F600", "\U00010348", "\U0001F4A9", "\U00020000"},
	"n2": {"\u0080", "\u009f", "\u00ad"},
	"n3": {"\u200b", "\ufeff", "\ue000", "\u200e", "\ufffe", "\uffff"},
	"n4": {"\U000e0001", "\U000f0000", "\U0010ffff", "\U000e0020"},
	"R":  {"\ufffd"},
	// the first representatives never form a valid sequence with any neighbour; the later ones
	// may merge with what follows (the driver detects that and falls back)
	"x": {"\xff", "\xfe", "\xc0", "\xc1", "\xf5", "\x80", "\xbf", "\xc3", "\xe2", "\xf0"},
	"y": {"\xc0\x80", "\xed\xa0", "\xe0\x80", "\xe2\x82", "\xf0\x9f", "\xc3\xc3"},
	"z": {"\xed\xa0\x80", "\xe0\x80\x80", "\xf4\x90\x80", "\xf0\x80\x80", "\xf0\x9f\x98", "\xe2\x82\xe2"},
}

const verifC11RunAlphabet = "abcdefghijklmnopqrstuvwxyzABCDEFGHIJKLMNOPQRSTUVWXYZ0123456789!#$%&()*+-./:;<=>?@[]^_{|}~"

func verifC11ParseToks(s string) ([]verifC11Item, error) {
	if s == "" {
		return nil, nil
	}
	var res []verifC11Item
	for _, f := range strings.Split(s, ",") {
		it := verifC11Item{c: f, n: 1}
		if i := strings.IndexByte(f, '*'); i >= 0 {
			n, err := strconv.Atoi(f[i+1:])
			if err != nil {
				return nil, err
			}
			it = verifC11Item{c: f[:i], n: n}
		}
		if _, ok := verifC11Reps[it.c]; !ok || it.n < 1 {
			return nil, fmt.Errorf("bad token %q", f)
		}
		res = append(res, it)
	}
	return res, nil
}

// canonical form: stray-byte classes expanded, adjacent ASCII printable merged
func verifC11Canon(items []verifC11Item) string {
	var exp []verifC11Item
	for _, it := range items {
		switch it.c {
		case "y":
			exp = append(exp, verifC11Item{"x", 1}, verifC11Item{"x", 1})
		case "z":
			exp = append(exp, verifC11Item{"x", 1}, verifC11Item{"x", 1}, verifC11Item{"x", 1})
		case "a":
			if len(exp) > 0 && exp[len(exp)-1].c == "a" {
				exp[len(exp)-1].n += it.n
			} else {
				exp = append(exp, it)
			}
		default:
			exp = append(exp, it)
		}
	}
	var sb strings.Builder
	for i, it := range exp {
		if i > 0 {
			sb.WriteByte(',')
		}
		sb.WriteString(it.c)
		if it.n != 1 {
			sb.WriteByte('*')
			sb.WriteString(strconv.Itoa(it.n))
		}
	}
	return sb.String()
}

// the abstraction function: classes of a concrete byte string, from the Go library alone
func verifC11Classify(b []byte) []verifC11Item {
	var res []verifC11Item
	for i := 0; i < len(b); {
		r, size := utf8.DecodeRune(b[i:])
		var c string
		switch {
		case r == utf8.RuneError && size <= 1:
			c = "x"
		case size == 1 && r == ' ':
			c = "s"
		case size == 1 && r >= 0x21 && r <= 0x7e:
			c = "a"
		case size == 1 && unicode.IsSpace(r):
			c = "t"
		case size == 1:
			c = "c"
		case r == utf8.RuneError:
			c = "R"
		case unicode.IsSpace(r):
			c = map[int]string{2: "u", 3: "U"}[size]
		case unicode.IsPrint(r):
			c = "p" + strconv.Itoa(size)
		default:
			c = "n" + strconv.Itoa(size)
		}
		res = append(res, verifC11Item{c, 1})
		i += size
	}
	return res
}

// the property's own words: UTF-8, at most 128 bytes, trimmed, single ASCII spaces, printable
func verifC11IndependentValid(b []byte) bool {
	if len(b) > 128 || !utf8.Valid(b) {
		return false
	}
	s := string(b)
	if strings.TrimSpace(s) != s || strings.Contains(s, "  ") {
		return false
	}
	for _, r := range s {
		if r == ' ' {
			continue
		}
		if unicode.IsSpace(r) || !unicode.IsPrint(r) {
			return false
		}
	}
	return true
}

type verifC11Piece struct {
	c string
	b []byte
}

// concretise an abstract input; variant selects the representatives
func verifC11Concretise(items []verifC11Item, variant int, rnd *rand.Rand) ([]byte, []verifC11Piece) {
	var out []byte
	var pieces []verifC11Piece
	for pos, it := range items {
		reps := verifC11Reps[it.c]
		var b []byte
		if it.c == "a" && it.n > 1 {
			off := (variant*17 + pos*5) % len(verifC11RunAlphabet)
			for k := 0; k < it.n; k++ {
				b = append(b, verifC11RunAlphabet[(off+k)%len(verifC11RunAlphabet)])
			}
		} else {
			var idx int
			switch {
			case variant == 0:
				idx = 0
			case rnd != nil:
				idx = rnd.Intn(len(reps))
			default:
				idx = (variant + pos*(variant+1)) % len(reps)
			}
			b = []byte(reps[idx])
		}
		out = append(out, b...)
		pieces = append(pieces, verifC11Piece{it.c, b})
	}
	return out, pieces
}

// expected concrete output from the specification's abstract output and the input pieces:
// printable pieces are copied in order, a space is 0x20, a replacement is U+FFFD
func verifC11ExpectedBytes(in []verifC11Piece, out []verifC11Item) ([]byte, error) {
	var pieces []verifC11Piece
	for _, pc := range in {
		if pc.c == "y" || pc.c == "z" { // several stray bytes, one replacement each
			for _, bb := range pc.b {
				pieces = append(pieces, verifC11Piece{"x", []byte{bb}})
			}
			continue
		}
		pieces = append(pieces, pc)
	}
	var res []byte
	p := 0
	for _, o := range out {
		if o.c == "s" {
			res = append(res, ' ')
			continue
		}
		found := false
		for p < len(pieces) && !found {
			pc := pieces[p]
			p++
			switch {
			case pc.c == "s" || pc.c == "t" || pc.c == "u" || pc.c == "U": // became a space or vanished
			case o.c == "R" && (pc.c == "R" || pc.c == "c" || pc.c == "n2" || pc.c == "n3" || pc.c == "n4" || pc.c == "x"):
				res = append(res, "\ufffd"...)
				found = true
			case o.c != "R" && pc.c == o.c && o.n <= len(pc.b):
				if o.c == "a" {
					res = append(res, pc.b[:o.n]...)
				} else {
					res = append(res, pc.b...)
				}
				found = true
			default:
				return nil, fmt.Errorf("cannot align output %s with input piece %s", o.c, pc.c)
			}
		}
		if !found {
			return nil, fmt.Errorf("output %s has no source", o.c)
		}
	}
	return res, nil
}

type verifC11Checker struct {
	res *verifkit.Result
}

func (ck *verifC11Checker) mismatch(sig string, in []byte, want, got any, note string) {
	ck.res.Mismatch(verifkit.Mismatch{Beh: map[string]any{"input_hex": fmt.Sprintf("%x", in), "input_quoted": strconv.QuoteToASCII(string(in))},
		Want: want, Got: got, Sig: sig, Note: note})
}

// the laws of the property on one concrete byte string; returns the forced value
func (ck *verifC11Checker) laws(b []byte) []byte {
	in := append([]byte(nil), b...)
	f := []byte(ForceValidStringValue(string(in)))
	fb := ForceValidStringValueBytes(append([]byte(nil), in...))
	ck.res.Steps += 2
	if !bytes.Equal(f, fb) {
		ck.mismatch("string-force-variants", in, strconv.QuoteToASCII(string(f)), strconv.QuoteToASCII(string(fb)), "ForceValidStringValue and ForceValidStringValueBytes differ")
	}
	vs, vb := ValidStringValue(string(in)), ValidStringValueBytes(in)
	if vs != vb {
		ck.mismatch("string-valid-variants", in, vs, vb, "ValidStringValue and ValidStringValueBytes differ")
	}
	if vs != verifC11IndependentValid(in) {
		ck.mismatch("string-valid-predicate", in, verifC11IndependentValid(in), vs, "ValidStringValue differs from the definition of a valid tag value")
	}
	// forcing yields a valid value
	if !ValidStringValue(string(f)) || !ValidStringValueBytes(f) || !verifC11IndependentValid(f) {
		ck.mismatch("string-force-not-valid", in, "valid", strconv.QuoteToASCII(string(f)), "forced value is not a valid tag value")
	}
	// ... that equals the input when the input was already valid
	if (vs || verifC11IndependentValid(in)) && !bytes.Equal(f, in) {
		ck.mismatch("string-valid-changed", in, strconv.QuoteToASCII(string(in)), strconv.QuoteToASCII(string(f)), "valid input was changed by forcing")
	}
	// forcing is idempotent
	f2 := []byte(ForceValidStringValue(string(f)))
	f2b := ForceValidStringValueBytes(append([]byte(nil), f...))
	if !bytes.Equal(f2, f) || !bytes.Equal(f2b, f) {
		ck.mismatch("string-force-not-idempotent", in, strconv.QuoteToASCII(string(f)), strconv.QuoteToASCII(string(f2))+" / "+strconv.QuoteToASCII(string(f2b)), "forcing twice differs from forcing once")
	}
	// strict normalisation fails only on invalid UTF-8 and otherwise agrees with forcing
	prefix := []byte("pfx=")
	o, err := AppendValidStringValue(append([]byte(nil), prefix...), append([]byte(nil), in...))
	ck.res.Steps += 4
	if err != nil && utf8.Valid(in) {
		ck.mismatch("string-strict-fails-on-valid-utf8", in, "no error", err.Error(), "strict normalisation failed on valid UTF-8")
	}
	if err == nil && !utf8.Valid(in) && 3*len(in) <= MaxStringLen {
		// nothing can be cut from so short an input, so the stray byte was read
		ck.mismatch("string-strict-accepts-invalid-utf8", in, "error", "nil", "strict normalisation accepted invalid UTF-8")
	}
	if err == nil {
		if !bytes.HasPrefix(o, prefix) || !bytes.Equal(o[len(prefix):], f) {
			ck.mismatch("string-strict-differs-from-force", in, strconv.QuoteToASCII(string(f)), strconv.QuoteToASCII(string(o)), "strict normalisation succeeded with a value different from forcing")
		}
	}
	return f
}

func (ck *verifC11Checker) stringCase(inToks, outToks, validFlag, strictFlag string, variants int, rnd *rand.Rand) error {
	in, err := verifC11ParseToks(inToks)
	if err != nil {
		return err
	}
	out, err := verifC11ParseToks(outToks)
	if err != nil {
		return err
	}
	wantIn, wantOut := verifC11Canon(in), verifC11Canon(out)
	done := 0
	for v := 0; v < variants; v++ {
		var r *rand.Rand
		if v == variants-1 && v > 0 {
			r = rnd
		}
		b, pieces := verifC11Concretise(in, v, r)
		if verifC11Canon(verifC11Classify(b)) != wantIn {
			// neighbouring representatives merged into another rune: not an instance of this case
			ck.res.Count("concretisations_rejected", 1)
			if v == 0 {
				return fmt.Errorf("safe representatives of %q do not abstract back to it (%q)", inToks, verifC11Canon(verifC11Classify(b)))
			}
			continue
		}
		done++
		f := ck.laws(b)
		if got := verifC11Canon(verifC11Classify(f)); got != wantOut {
			ck.mismatch("string-force-output", b, wantOut, got, "spec input "+inToks)
		} else if exp, err := verifC11ExpectedBytes(pieces, out); err != nil {
			return fmt.Errorf("case %q -> %q: %v", inToks, outToks, err)
		} else if !bytes.Equal(exp, f) {
			ck.mismatch("string-force-bytes", b, strconv.QuoteToASCII(string(exp)), strconv.QuoteToASCII(string(f)), "spec input "+inToks)
		}
		if got := ValidStringValueBytes(b); got != (validFlag == "V") {
			ck.mismatch("string-valid-vs-spec", b, validFlag == "V", got, "spec input "+inToks)
		}
		_, serr := AppendValidStringValue(nil, append([]byte(nil), b...))
		switch strictFlag {
		case "E":
			if serr == nil {
				ck.mismatch("string-strict-accepts-invalid-utf8", b, "error", "nil", "spec input "+inToks)
			}
		case "-":
			if serr != nil {
				ck.mismatch("string-strict-fails-on-valid-utf8", b, "nil", serr.Error(), "spec input "+inToks)
			}
		case "e": // stray bytes only behind the cut: the property admits both outcomes
		default:
			return fmt.Errorf("bad strict flag %q", strictFlag)
		}
		ck.res.Steps += 2
	}
	if done > 0 {
		ck.res.Replayed++
		ck.res.Seen("S:" + wantIn)
	}
	return nil
}

func verifC11RandomBytes(rnd *rand.Rand) []byte {
	classes := []string{"a", "a", "a", "s", "s", "t", "c", "u", "U", "p2", "p3", "p4", "n2", "n3", "n4", "R", "x", "y", "z"}
	var b []byte
	switch rnd.Intn(4) {
	case 0: // arbitrary bytes
		n := rnd.Intn(200)
		b = make([]byte, n)
		for i := range b {
			b[i] = byte(rnd.Intn(256))
		}
	case 1: // class soup around the limit
		target := 100 + rnd.Intn(60)
		for len(b) < target {
			reps := verifC11Reps[classes[rnd.Intn(len(classes))]]
			b = append(b, reps[rnd.Intn(len(reps))]...)
		}
	case 2: // words and blanks, sometimes long
		n := rnd.Intn(40)
		for i := 0; i < n; i++ {
			w := rnd.Intn(9)
			for k := 0; k < w; k++ {
				b = append(b, verifC11RunAlphabet[rnd.Intn(len(verifC11RunAlphabet))])
			}
			for k := rnd.Intn(3); k > 0; k-- {
				b = append(b, " \t\n "[rnd.Intn(4)])
			}
		}
	default: // short class soup
		n := rnd.Intn(8)
		for i := 0; i < n; i++ {
			reps := verifC11Reps[classes[rnd.Intn(len(classes))]]
			b = append(b, reps[rnd.Intn(len(reps))]...)
		}
	}
	return b
}

func verifC11CheckClassTable() error {
	for c, reps := range verifC11Reps {
		want := verifC11Canon([]verifC11Item{{c, 1}})
		for _, r := range reps {
			if got := verifC11Canon(verifC11Classify([]byte(r))); got != want {
				return fmt.Errorf("representative %q of class %s classifies as %s", r, c, got)
			}
		}
	}
	for b := 0; b < 128; b++ {
		if unicode.IsPrint(rune(b)) != (b >= 0x20 && b <= 0x7e) {
			return fmt.Errorf("unicode.IsPrint(%#x) unexpected", b)
		}
		if unicode.IsSpace(rune(b)) != (b == ' ' || (b >= '\t' && b <= '\r')) {
			return fmt.Errorf("unicode.IsSpace(%#x) unexpected", b)
		}
	}
	if !unicode.IsPrint(utf8.RuneError) || unicode.IsSpace(utf8.RuneError) || utf8.RuneLen(utf8.RuneError) != 3 {
		return fmt.Errorf("U+FFFD is not a printable 3-byte rune")
	}
	return nil
}

func TestVerifC11(t *testing.T) {
	verifkit.Gate(t)
	res := verifkit.NewResult()
	defer res.Write(t)
	res.Consts["MaxStringLen"] = MaxStringLen
	if err := verifC11CheckClassTable(); err != nil {
		t.Fatalf("class table: %v", err)
	}
	ck := &verifC11Checker{res: res}
	variants := verifkit.EnvInt("VERIF_VARIANTS", 3)
	rnd := verifkit.Rand(11)
	nS, nR := 0, 0
	verifkit.ForEachLine(t, os.Getenv("VERIF_IN"), func(line []byte) {
		f := strings.Split(string(line), "\t")
		switch {
		case f[0] == "S" && len(f) == 5:
			if err := ck.stringCase(f[1], f[2], f[3], f[4], variants, rnd); err != nil {
				t.Fatalf("string case %q: %v", line, err)
			}
			nS++
		case f[0] == "R" && len(f) == 7:
			if err := ck.rawCase(f[1], f[2], f[3], f[4], f[5], f[6], variants, rnd); err != nil {
				t.Fatalf("raw case %q: %v", line, err)
			}
			nR++
		default:
			t.Fatalf("bad input line %q", line)
		}
	})
	// the empty input is the initial state of the specification
	if err := ck.stringCase("", "", "V", "-", 1, rnd); err != nil {
		t.Fatal(err)
	}
	res.Count("string_cases", nS)
	res.Count("raw_cases", nR)
	// seeded random part: the laws on arbitrary byte strings and decimal strings
	nrand := verifkit.EnvInt("VERIF_NRANDOM", 20000)
	r2 := verifkit.Rand(12)
	for i := 0; i < nrand; i++ {
		b := verifC11RandomBytes(r2)
		f := ck.laws(b)
		if i < 3 {
			res.Sample(map[string]any{"random_input": strconv.QuoteToASCII(string(b)), "forced": strconv.QuoteToASCII(string(f))})
		}
	}
	res.Count("random_strings", nrand)
	r3 := verifkit.Rand(13)
	for i := 0; i < nrand; i++ {
		ck.rawRandom(r3)
	}
	res.Count("random_raw", nrand)
	if len(res.Mismatches) > 0 {
		t.Errorf("%d mismatches", res.Counters["mismatches_total"])
	}
}
