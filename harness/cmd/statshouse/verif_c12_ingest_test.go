// C12 conformance driver (S->I): every behaviour exported by TLC from specs/Ingest.tla is a
// sequence of abstract events.  Each is concretised (several concrete representatives per
// class) and pushed through the real pipeline worker.HandleMetrics (metric lookup,
// Agent.Map, Agent.ApplyMetric) of a test agent; afterwards all shard buckets are projected to
// (metric rows with aggregates, ingestion-status rows) and compared with the specification.
//
// What is a VIOLATION (property C12) and what is only noted:
//   - an event that is not valid (spec: Valid(e) false) changes a metric row               -> violation
//   - ... or leaves a number of status records other than one (two for a dual-shard metric),
//     or a record whose <status, tag id> is not a reason that is true of the event          -> violation
//   - a valid event whose row aggregates differ from the specified contribution, or that is
//     booked under an error status                                                        -> violation
//   - a different-but-true reason, different OK/warning records, shard or timestamp placement
//     are recorded as notes (the property does not fix them).
package main

import (
	"encoding/json"
	"fmt"
	"math"
	"os"
	"sort"
	"strings"
	"testing"
	"time"

	"github.com/VKCOM/statshouse/internal/agent"
	"github.com/VKCOM/statshouse/internal/data_model"
	"github.com/VKCOM/statshouse/internal/data_model/gen2/tl"
	"github.com/VKCOM/statshouse/internal/data_model/gen2/tlmetadata"
	"github.com/VKCOM/statshouse/internal/data_model/gen2/tlstatshouse"
	"github.com/VKCOM/statshouse/internal/format"
	"github.com/VKCOM/statshouse/internal/metajournal"
	"github.com/VKCOM/statshouse/internal/pcache"
	"github.com/VKCOM/statshouse/internal/verifkit"
)

const (
	verifC12NumShards = 5
	verifC12DualP     = 1 // "shard": 2  (1-based)
	verifC12DualS     = 3 // "shard2": 4
)

type verifC12Num struct {
	K string `json:"k"`
	N int64  `json:"n"`
	D int64  `json:"d"`
}

type verifC12SK struct {
	Sm string `json:"sm"`
	Sh string `json:"sh"`
	M  string `json:"m"`
	St string `json:"st"`
	K  int32  `json:"k"`
}

type verifC12Step struct {
	A  string `json:"a"`
	M  string `json:"m"`
	C  string `json:"c"`
	P  string `json:"p"`
	T  string `json:"t"`
	S  string `json:"s"`
	Ev struct {
		Ctr verifC12Num   `json:"ctr"`
		V   []verifC12Num `json:"v"`
		U   []int64       `json:"u"`
		H   []struct {
			V verifC12Num `json:"v"`
			W verifC12Num `json:"w"`
		} `json:"h"`
		Tags []struct {
			N string `json:"n"`
			V string `json:"v"`
		} `json:"tags"`
		Ts uint32 `json:"ts"`
	} `json:"ev"`
	Dec struct {
		Accept bool         `json:"accept"`
		Reason string       `json:"reason"`
		Key    int32        `json:"key"`
		Emit   []verifC12SK `json:"emit"`
	} `json:"dec"`
	Valid bool `json:"valid"`
	True  []struct {
		R string `json:"r"`
		K int32  `json:"k"`
	} `json:"true"`
	Post struct {
		Rows []struct {
			Key struct {
				Sh   string `json:"sh"`
				M    string `json:"m"`
				Now  bool   `json:"now"`
				Ts   uint32 `json:"ts"`
				Tags []struct {
					I int    `json:"i"`
					T string `json:"t"`
					A string `json:"a"`
				} `json:"tags"`
			} `json:"key"`
			Agg struct {
				Cexact bool        `json:"cexact"`
				Vexact bool        `json:"vexact"`
				HasVal bool        `json:"hasVal"`
				Cnt    verifC12Num `json:"cnt"`
				Sum    verifC12Num `json:"sum"`
				Sq     verifC12Num `json:"sq"`
				Min    verifC12Num `json:"min"`
				Max    verifC12Num `json:"max"`
				Uniq   []int64     `json:"uniq"`
				Pct    bool        `json:"pct"`
			} `json:"agg"`
		} `json:"rows"`
		Stats []struct {
			Key verifC12SK `json:"key"`
			N   int        `json:"n"`
		} `json:"stats"`
	} `json:"post"`
}

var verifC12Status = map[string]int32{
	"OKCached":                   format.TagValueIDSrcIngestionStatusOKCached,
	"ErrMetricNotFound":          format.TagValueIDSrcIngestionStatusErrMetricNotFound,
	"ErrNanInfValue":             format.TagValueIDSrcIngestionStatusErrNanInfValue,
	"ErrNanInfCounter":           format.TagValueIDSrcIngestionStatusErrNanInfCounter,
	"ErrNegativeCounter":         format.TagValueIDSrcIngestionStatusErrNegativeCounter,
	"WarnMapTagNameNotFound":     format.TagValueIDSrcIngestionStatusWarnMapTagNameNotFound,
	"ErrMapTagValueEncoding":     format.TagValueIDSrcIngestionStatusErrMapTagValueEncoding,
	"ErrMetricDisabled":          format.TagValueIDSrcIngestionStatusErrMetricDisabled,
	"WarnMapTagSetTwice":         format.TagValueIDSrcIngestionStatusWarnMapTagSetTwice,
	"WarnDeprecatedKeyName":      format.TagValueIDSrcIngestionStatusWarnDeprecatedKeyName,
	"ErrMetricNameEncoding":      format.TagValueIDSrcIngestionStatusErrMetricNameEncoding,
	"ErrMapTagNameEncoding":      format.TagValueIDSrcIngestionStatusErrMapTagNameEncoding,
	"ErrValueUniqueBothSet":      format.TagValueIDSrcIngestionStatusErrValueUniqueBothSet,
	"WarnMapInvalidRawTagValue":  format.TagValueIDSrcIngestionStatusWarnMapInvalidRawTagValue,
	"WarnMapTagNameFoundDraft":   format.TagValueIDSrcIngestionStatusWarnMapTagNameFoundDraft,
	"ErrShardingFailed":          format.TagValueIDSrcIngestionStatusErrShardingFailed,
	"ErrMetricBuiltin":           format.TagValueIDSrcIngestionStatusErrMetricBuiltin,
	"WarnTimestampClampedFuture": format.TagValueIDSrcIngestionStatusWarnTimestampClampedFuture,
	"ErrTooBigCounter":           format.TagValueIDSrcIngestionStatusErrTooBigCounter,
	"ErrTooBigValue":             format.TagValueIDSrcIngestionStatusErrTooBigValue,
	"ErrZeroCounter":             format.TagValueIDSrcIngestionStatusErrZeroCounter,
	"ErrMapTagValueCorrupted":    format.TagValueIDSrcIngestionStatusErrMapTagValueCorrupted,
}

func verifC12IsErr(code int32) bool {
	switch code {
	case format.TagValueIDSrcIngestionStatusOKCached,
		format.TagValueIDSrcIngestionStatusWarnMapTagNameNotFound,
		format.TagValueIDSrcIngestionStatusWarnMapTagNameFoundDraft,
		format.TagValueIDSrcIngestionStatusWarnMapTagSetTwice,
		format.TagValueIDSrcIngestionStatusWarnMapInvalidRawTagValue,
		format.TagValueIDSrcIngestionStatusWarnDeprecatedKeyName,
		format.TagValueIDSrcIngestionStatusWarnTimestampClampedFuture,
		format.TagValueIDSrcIngestionStatusWarnTimestampClampedPast,
		format.TagValueIDSrcIngestionStatusWarnTimestampClampedFutureAgg:
		return false
	}
	return true
}

type verifC12Metric struct {
	names []string
	id    int32
	res   uint32
	dual  bool
}

type verifC12Env struct {
	ag      *agent.Agent
	w       *worker
	metrics map[string]verifC12Metric
	t0      uint32
}

func verifC12Setup(t *testing.T, t0 uint32, legacy bool) *verifC12Env {
	now := uint32(time.Now().Unix())
	if now+200000 >= t0 {
		t.Fatalf("verif C12: wall clock %d is not well before the model's T0 %d", now, t0)
	}
	mc, err := pcache.LoadMappingsCacheSlice(new([]byte), 1<<20)
	if err != nil {
		t.Fatal(err)
	}
	mc.AddValues(now, []pcache.MappingPair{{Str: "production", Value: 7}, {Str: "staging", Value: 8}})
	ms := metajournal.MakeMetricsStorage(nil)
	tags := `"tags":[{},{},{"raw_kind":"int"},{"raw_kind":"int64"},{},{"name":"named"}],"tags_draft":{"drafty":{"name":"drafty"}}`
	mk := func(id int64, name, extra string) tlmetadata.Event {
		return tlmetadata.Event{Id: id, Name: name, EventType: format.MetricEvent, Version: id,
			Data: `{"kind":"mixed",` + tags + extra + `}`}
	}
	ms.ApplyEvent([]tlmetadata.Event{
		mk(1001, "verif_plain", ``),
		{Id: 1002, Name: "verif_pct", EventType: format.MetricEvent, Version: 1002, Data: `{"kind":"mixed_p",` + tags + `}`},
		mk(1003, "verif_res5", `,"resolution":5`),
		mk(1004, "verif_disabled", `,"disable":true`),
		mk(1005, "verif_shardoor", `,"shard_strategy":"fixed_shard","shard_num":99`),
		mk(1006, "verif_dual", fmt.Sprintf(`,"shard":%d,"shard2":%d,"shard2_timestamp":%d`, verifC12DualP+1, verifC12DualS+1, t0)),
	})
	addrs := make([]string, 3*verifC12NumShards)
	for i := range addrs {
		addrs[i] = "127.0.0.1:1"
	}
	gcr := tlstatshouse.GetConfigResult3{Addresses: addrs, ShardByMetricCount: verifC12NumShards}
	cfg := agent.DefaultConfig()
	cfg.Cluster = "verif"
	cfg.LegacyApplyValues = legacy
	ag, err := agent.MakeAgent("tcp4", "", "", nil, cfg, "verif-host", format.TagValueIDComponentAgent,
		ms, mc, nil, nil, func(string, ...interface{}) {}, nil, &gcr, nil)
	if err != nil {
		t.Fatal(err)
	}
	if len(ag.Shards) != verifC12NumShards {
		t.Fatalf("verif C12: %d shards", len(ag.Shards))
	}
	env := &verifC12Env{ag: ag, w: startWorker(ag, ms, nil, nil), t0: t0}
	env.reset()
	get := func(name string) *format.MetricMetaValue {
		if m := ms.GetMetaMetricByName(name); m != nil {
			return m
		}
		if m := format.BuiltinMetricByName[name]; m != nil {
			return m
		}
		t.Fatalf("verif C12: metric %q missing", name)
		return nil
	}
	env.metrics = map[string]verifC12Metric{
		"notfound": {names: []string{"verif_nosuch", "", "not a name"}},
		"badname":  {names: []string{"\xff\xfe", "verif_\xc3", "\x80abc"}},
	}
	for cls, name := range map[string]string{"plain": "verif_plain", "pct": "verif_pct", "res5": "verif_res5",
		"disabled": "verif_disabled", "shardoor": "verif_shardoor", "dual": "verif_dual",
		"builtinok": "__usage_mem", "builtinno": "__agg_keep_alive", "builtindist": "__src_ingestion_status"} {
		m := get(name)
		env.metrics[cls] = verifC12Metric{names: []string{name}, id: m.MetricID, res: uint32(m.EffectiveResolution), dual: m.ShardFixedKey2 != 0}
	}
	return env
}

// fresh buckets, fixed shard clock (the agent is never Run, nothing else touches the shards)
func (env *verifC12Env) reset() {
	for _, sh := range env.ag.Shards {
		sh.CurrentTime = env.t0
		sh.SendTime = env.t0 - 2
		for j := range sh.SuperQueue {
			sh.SuperQueue[j] = &data_model.MetricsBucket{}
		}
	}
}

type verifC12Row struct {
	Shard  int      `json:"shard"`
	Metric int32    `json:"metric"`
	Ts     uint32   `json:"ts"`
	Tags   string   `json:"tags"`
	Cnt    float64  `json:"cnt"`
	Sum    float64  `json:"sum"`
	Sq     float64  `json:"sq"`
	Min    float64  `json:"min"`
	Max    float64  `json:"max"`
	HasVal bool     `json:"hasVal"`
	Uniq   uint64   `json:"uniq"`
	Digest *float64 `json:"digest,omitempty"`
	used   bool
}

type verifC12Stat struct {
	Sm     string `json:"sm"`
	Shard  int    `json:"shard"`
	Metric int32  `json:"metric"`
	Code   int32  `json:"code"`
	Key    int32  `json:"key"`
}

type verifC12Snap struct {
	rows  []*verifC12Row
	stats map[verifC12Stat]float64
	other []string
}

func verifC12TagStr(i int, ti int32, ts string) string {
	if ti != 0 {
		return fmt.Sprintf("%d=I:%d", i, ti)
	}
	return fmt.Sprintf("%d=S:%s", i, ts)
}

func verifC12RowStrings(rows []*verifC12Row) []string { // JSON cannot carry NaN/Inf
	var out []string
	for _, r := range rows {
		d := "nil"
		if r.Digest != nil {
			d = fmt.Sprint(*r.Digest)
		}
		out = append(out, fmt.Sprintf("shard=%d metric=%d ts=%d tags=[%s] cnt=%v sum=%v sumsq=%v min=%v max=%v valueSet=%v uniq=%d digest=%s",
			r.Shard, r.Metric, r.Ts, r.Tags, r.Cnt, r.Sum, r.Sq, r.Min, r.Max, r.HasVal, r.Uniq, d))
	}
	return out
}

func (env *verifC12Env) snapshot() *verifC12Snap {
	sn := &verifC12Snap{stats: map[verifC12Stat]float64{}}
	for si, sh := range env.ag.Shards {
		for _, b := range sh.SuperQueue {
			for _, item := range b.MultiItems {
				k := item.Key
				if k.Metric == format.BuiltinMetricIDIngestionStatus || k.Metric == format.BuiltinMetricIDIngestionStatusNoShard {
					sm := "st"
					if k.Metric == format.BuiltinMetricIDIngestionStatusNoShard {
						sm = "ns"
					}
					c := item.Tail.Value.Count()
					for _, v := range item.Top {
						c += v.Value.Count()
					}
					sn.stats[verifC12Stat{Sm: sm, Shard: si, Metric: k.Tags[1], Code: k.Tags[2], Key: k.Tags[3]}] += c
					continue
				}
				var base []string
				for i := 0; i < format.MaxTags; i++ {
					if k.Tags[i] != 0 || k.STags[i] != "" {
						base = append(base, verifC12TagStr(i, k.Tags[i], k.STags[i]))
					}
				}
				add := func(mv *data_model.MultiValue, top string) {
					tg := append([]string(nil), base...)
					if top != "" {
						tg = append(tg, top)
					}
					sort.Strings(tg)
					r := &verifC12Row{Shard: si, Metric: k.Metric, Ts: k.Timestamp, Tags: strings.Join(tg, ","),
						Cnt: mv.Value.Count(), Sum: mv.Value.ValueSum, Sq: mv.Value.ValueSumSquare,
						Min: mv.Value.ValueMin, Max: mv.Value.ValueMax, HasVal: mv.Value.ValueSet,
						Uniq: mv.HLL.Size(false)}
					if mv.ValueTDigest != nil {
						w := mv.ValueTDigest.Count()
						r.Digest = &w
					}
					sn.rows = append(sn.rows, r)
				}
				// a tail or top entry with count 0, no value and no unique holds nothing (it is what
				// an accepted event whose histogram weights are all zero leaves behind)
				holds := func(mv *data_model.MultiValue) bool {
					return !mv.Empty() || mv.Value.ValueSet || mv.HLL.ItemsCount() != 0
				}
				if holds(&item.Tail) {
					add(&item.Tail, "")
				}
				for tk, v := range item.Top {
					if holds(v) {
						add(v, verifC12TagStr(format.StringTopTagIndexV3, tk.I, tk.S))
					}
				}
			}
		}
	}
	sort.Slice(sn.rows, func(i, j int) bool {
		a, b := sn.rows[i], sn.rows[j]
		if a.Metric != b.Metric {
			return a.Metric < b.Metric
		}
		if a.Tags != b.Tags {
			return a.Tags < b.Tags
		}
		if a.Ts != b.Ts {
			return a.Ts < b.Ts
		}
		return a.Shard < b.Shard
	})
	return sn
}

// ---------------------------------------------------------------- concretisation

type verifC12Rep struct {
	variant int // 0: first representative of every class, unit 1
	unit    float64
	salt    uint64
}

func (r verifC12Rep) pick(atom string, n int) int {
	if r.variant == 0 || n <= 1 {
		return 0
	}
	h := r.salt
	for _, c := range []byte(atom) {
		h = (h ^ uint64(c)) * 1099511628211
	}
	h ^= h >> 29
	return int(h % uint64(n))
}

func verifC12Float(x verifC12Num, r verifC12Rep, role string, scale float64) float64 {
	switch x.K {
	case "fin":
		if x.N == 0 && role == "ctr" && r.pick("negzero", 2) == 1 {
			return math.Copysign(0, -1)
		}
		return float64(x.N) / float64(x.D) * scale
	case "nan":
		return []float64{math.NaN(), math.Float64frombits(0xFFF8000000000001), math.Float64frombits(0x7FF0000000000001)}[r.pick("nan"+role, 3)]
	case "pinf":
		return math.Inf(1)
	case "ninf":
		return math.Inf(-1)
	case "big":
		return []float64{1e39, math.Nextafter(math.MaxFloat32, math.Inf(1)), math.MaxFloat64}[r.pick("big"+role, 3)]
	case "nbig":
		return -[]float64{1e39, math.Nextafter(math.MaxFloat32, math.Inf(1)), math.MaxFloat64}[r.pick("nbig"+role, 3)]
	case "maxf":
		return math.MaxFloat32
	case "nmaxf":
		return -math.MaxFloat32
	}
	panic("verif C12: unknown number class " + x.K)
}

var verifC12Names = map[string][]string{
	"env": {"0"}, "t1": {"1"}, "t1legacy": {"key1"}, "raw": {"2"}, "raw64": {"3"}, "hi64": {"4"},
	"named": {"named", "5"}, "top": {"_s"}, "host": {"_h"},
	"unknown": {"nosuch", "99", "key16", strings.Repeat("z", 200), "no such", "skey"},
	"draft":   {"drafty"},
	"badutf":  {"\xff\xfe", "a\xc3", "\x80abc"},
}

type verifC12Val struct {
	in     string
	s      string // stored string (S)
	i      int32  // stored int (I, raw, lo)
	hi     int32  // stored high half (raw64)
	stored string // "S", "I", "Z"
}

func verifC12Value(nameAtom, valAtom string, r verifC12Rep) verifC12Val {
	p := func(n int) int { return r.pick(nameAtom+"/"+valAtom, n) }
	switch valAtom {
	case "plain":
		s := []string{"abc", "x y", "знач"}[r.pick("plain", 3)]
		return verifC12Val{in: s, s: s}
	case "plain2":
		s := []string{"def", "q", "A-1"}[r.pick("plain2", 3)]
		return verifC12Val{in: s, s: s}
	case "mapped":
		k := r.pick("mapped", 2)
		return verifC12Val{in: []string{"production", "staging"}[k], i: []int32{7, 8}[k]}
	case "empty":
		return verifC12Val{}
	case "spacey":
		k := r.pick("spacey", 3)
		return verifC12Val{in: []string{"  a   b  ", "a\tb", "a\nb "}[k], s: "a b"}
	case "long":
		return verifC12Val{in: strings.Repeat("a", 200), s: strings.Repeat("a", format.MaxStringLen)}
	case "badutf":
		return verifC12Val{in: []string{"\xff\xfea", "ab\xc3", "\xf8\x88\x80\x80\x80"}[p(3)]}
	case "corrupt":
		return verifC12Val{in: []string{"ab\x39\x02\x58\x56cd", "\x39\x02\x58\x56"}[p(2)]}
	case "corruptbad":
		return verifC12Val{in: "\xff\x39\x02\x58\x56"}
	case "rawok":
		k := p(3)
		return verifC12Val{in: []string{"123", "4294967295", "2147483647"}[k], i: []int32{123, -1, 2147483647}[k]}
	case "rawneg":
		k := p(2)
		return verifC12Val{in: []string{"-5", "-2147483648"}[k], i: []int32{-5, -2147483648}[k]}
	case "rawzero":
		return verifC12Val{in: []string{"0", "-0", "00"}[p(3)]}
	case "rawbad":
		if nameAtom == "raw64" {
			return verifC12Val{in: []string{"abc", "18446744073709551616", "-9223372036854775809", "1e3"}[p(4)]}
		}
		return verifC12Val{in: []string{"abc", "4294967296", "-2147483649", "1.5"}[p(4)]}
	case "r64big":
		k := p(3)
		return verifC12Val{in: []string{"12345678901234", "-1", "18446744073709551615"}[k],
			i: []int32{int32(uint32(12345678901234 & 0xFFFFFFFF)), -1, -1}[k], hi: []int32{int32(12345678901234 >> 32), -1, -1}[k]}
	case "r64small":
		k := p(2)
		return verifC12Val{in: []string{"123", "4294967295"}[k], i: []int32{123, -1}[k]}
	}
	panic("verif C12: unknown value class " + valAtom)
}

type verifC12Concrete struct {
	mb    tlstatshouse.MetricBytes
	descr map[string]any
}

func (env *verifC12Env) concretise(st *verifC12Step, r verifC12Rep) verifC12Concrete {
	md := env.metrics[st.M]
	var mb tlstatshouse.MetricBytes
	mb.Name = []byte(md.names[r.pick("metric:"+st.M, len(md.names))])
	mb.Counter = verifC12Float(st.Ev.Ctr, r, "ctr", 1)
	for _, v := range st.Ev.V {
		mb.Value = append(mb.Value, verifC12Float(v, r, "val", r.unit))
	}
	mb.Unique = append(mb.Unique, st.Ev.U...)
	for _, h := range st.Ev.H {
		mb.Histogram = append(mb.Histogram, [2]float64{verifC12Float(h.V, r, "val", r.unit), verifC12Float(h.W, r, "ctr", 1)})
	}
	for _, tg := range st.Ev.Tags {
		names := verifC12Names[tg.N]
		mb.Tags = append(mb.Tags, tl.DictFieldStringStringBytes{
			Key: []byte(names[r.pick("name:"+tg.N, len(names))]), Value: []byte(verifC12Value(tg.N, tg.V, r).in)})
	}
	mb.Ts = st.Ev.Ts
	d := map[string]any{"name": fmt.Sprintf("%q", mb.Name), "counter": fmt.Sprint(mb.Counter), "value": fmt.Sprint(mb.Value),
		"unique": fmt.Sprint(mb.Unique), "histogram": fmt.Sprint(mb.Histogram), "ts": mb.Ts}
	var tgs []string
	for _, tg := range mb.Tags {
		tgs = append(tgs, fmt.Sprintf("%q=%q", tg.Key, tg.Value))
	}
	d["tags"] = tgs
	return verifC12Concrete{mb: mb, descr: d}
}

// ---------------------------------------------------------------- comparison

func verifC12Close(got, want float64) bool {
	if got == want {
		return true
	}
	d := math.Abs(got - want)
	return d <= 1e-9*math.Max(math.Abs(got), math.Abs(want))
}

type verifC12Issue struct {
	cat  string // violation category ("" = none)
	what string
}

func (env *verifC12Env) expectTags(st *verifC12Step, ri int, nameOf map[int]string, r verifC12Rep) string {
	var tg []string
	for _, t := range st.Post.Rows[ri].Key.Tags {
		// the value atom was concretised together with the tag it was sent under
		na := nameOf[t.I]
		v := verifC12Value(na, t.A, r)
		switch t.T {
		case "S":
			tg = append(tg, verifC12TagStr(t.I, 0, v.s))
		case "I", "raw", "lo":
			tg = append(tg, verifC12TagStr(t.I, v.i, ""))
		case "hi":
			tg = append(tg, verifC12TagStr(t.I, v.hi, ""))
		}
	}
	sort.Strings(tg)
	return strings.Join(tg, ",")
}

// name atom under which tag index i is addressed in this model
var verifC12NameOfIdx = map[int]string{0: "env", 1: "t1", 2: "raw", 3: "raw64", 4: "hi64", 5: "named", 47: "top"}

func (env *verifC12Env) compareRows(st *verifC12Step, sn *verifC12Snap, r verifC12Rep, single bool, lo, hi uint32,
	note func(string)) (issues []verifC12Issue) {
	for _, o := range sn.rows {
		o.used = false
	}
	for ri := range st.Post.Rows {
		er := &st.Post.Rows[ri]
		md := env.metrics[er.Key.M]
		nameOf := map[int]string{}
		for k, v := range verifC12NameOfIdx {
			nameOf[k] = v
		}
		for _, t := range er.Key.Tags {
			if t.T == "hi" { // the high half was sent under the raw64 tag's name
				nameOf[t.I] = "raw64"
			}
		}
		wantTags := env.expectTags(st, ri, nameOf, r)
		wantShard := -1
		if md.dual {
			wantShard = verifC12DualP
			if er.Key.Sh == "s" {
				wantShard = verifC12DualS
			}
		}
		tsOK := func(ts uint32) bool {
			if er.Key.Now {
				return ts >= (lo/md.res)*md.res && ts <= hi
			}
			return ts == er.Key.Ts
		}
		var cand *verifC12Row
		for pass := 0; pass < 2 && cand == nil; pass++ {
			for _, o := range sn.rows {
				if o.used || o.Metric != md.id || o.Tags != wantTags || (wantShard >= 0 && o.Shard != wantShard) {
					continue
				}
				if pass == 0 && !tsOK(o.Ts) {
					continue
				}
				cand = o
				if pass == 1 {
					note(fmt.Sprintf("row timestamp %d differs from the model (%v %d)", o.Ts, er.Key.Now, er.Key.Ts))
				}
				break
			}
		}
		if cand == nil {
			issues = append(issues, verifC12Issue{"row-missing", fmt.Sprintf("no row metric=%d tags=[%s] shard=%d", md.id, wantTags, wantShard)})
			continue
		}
		cand.used = true
		a := &er.Agg
		bad := func(f string, got, want float64) {
			issues = append(issues, verifC12Issue{"row-" + f, fmt.Sprintf("row metric=%d tags=[%s]: %s got %v want %v", md.id, wantTags, f, got, want)})
		}
		if a.Cexact {
			if w := float64(a.Cnt.N) / float64(a.Cnt.D); !verifC12Close(cand.Cnt, w) {
				bad("count", cand.Cnt, w)
			}
		} else if !(cand.Cnt > 0) {
			bad("count", cand.Cnt, math.MaxFloat32)
		}
		if cand.HasVal != a.HasVal {
			issues = append(issues, verifC12Issue{"row-valueset", fmt.Sprintf("row metric=%d: ValueSet %v want %v", md.id, cand.HasVal, a.HasVal)})
		}
		if a.HasVal {
			u := r.unit
			if len(a.Uniq) != 0 {
				u = 1
			}
			if a.Vexact && a.Cexact {
				if w := float64(a.Sum.N) / float64(a.Sum.D) * u; !verifC12Close(cand.Sum, w) {
					bad("sum", cand.Sum, w)
				}
				if w := float64(a.Sq.N) / float64(a.Sq.D) * u * u; !verifC12Close(cand.Sq, w) {
					bad("sumsquare", cand.Sq, w)
				}
			}
			if w := verifC12Float(a.Min, verifC12Rep{}, "val", u); !verifC12Close(cand.Min, w) {
				bad("min", cand.Min, w)
			}
			if w := verifC12Float(a.Max, verifC12Rep{}, "val", u); !verifC12Close(cand.Max, w) {
				bad("max", cand.Max, w)
			}
		}
		if cand.Uniq != uint64(len(a.Uniq)) {
			bad("unique", float64(cand.Uniq), float64(len(a.Uniq)))
		}
		if single && cand.Digest != nil && a.Cexact {
			if w := float64(a.Cnt.N) / float64(a.Cnt.D); math.Abs(*cand.Digest-w) > 1e-6*w {
				bad("digest-weight", *cand.Digest, w)
			}
		}
		if single && a.Pct && a.HasVal && len(a.Uniq) == 0 && cand.Min != cand.Max && cand.Digest == nil {
			note("percentile metric row with distinct values has no digest")
		}
	}
	for _, o := range sn.rows {
		if o.used {
			continue
		}
		if o.Metric > 0 || env.isModelMetric(o.Metric) {
			issues = append(issues, verifC12Issue{"row-unexpected", "unexpected row " + verifC12RowStrings([]*verifC12Row{o})[0]})
		} else {
			note(fmt.Sprintf("row of another builtin metric %d", o.Metric))
		}
	}
	return issues
}

func (env *verifC12Env) isModelMetric(id int32) bool {
	for _, m := range env.metrics {
		if m.id == id && id != 0 {
			return true
		}
	}
	return false
}

func verifC12RowsEqual(a, b *verifC12Snap) bool {
	if len(a.rows) != len(b.rows) {
		return false
	}
	for i := range a.rows {
		x, y := *a.rows[i], *b.rows[i]
		x.used, y.used = false, false
		xd, yd := x.Digest, y.Digest
		x.Digest, y.Digest = nil, nil
		if x != y && !(math.IsNaN(x.Sum) && math.IsNaN(y.Sum)) {
			return false
		}
		if (xd == nil) != (yd == nil) || (xd != nil && *xd != *yd) {
			return false
		}
	}
	return true
}

func TestVerifC12Ingest(t *testing.T) {
	verifkit.Gate(t)
	res := verifkit.NewResult()
	defer res.Write(t)
	t0 := uint32(verifkit.EnvInt("VERIF_T0", 2000000043))
	legacy := os.Getenv("VERIF_C12_LEGACY") == "1"
	nvar := verifkit.EnvInt("VERIF_C12_VARIANTS", 3)
	env := verifC12Setup(t, t0, legacy)
	res.Consts["TagIDShift"] = format.TagIDShift
	res.Consts["MaxTags"] = format.MaxTags
	res.Consts["StringTopTagIndexV3"] = format.StringTopTagIndexV3
	res.Consts["HostTagIndex"] = format.HostTagIndex
	res.Consts["MaxStringLen"] = format.MaxStringLen
	res.Consts["legacyApplyValues"] = legacy
	for cls, m := range env.metrics {
		res.Consts["metric."+cls] = fmt.Sprintf("%d/res%d/dual=%v", m.id, m.res, m.dual)
	}
	rnd := verifkit.Rand(12)
	units := []float64{1, 0.5, 1024, 1e30, -1}
	var scratch []byte

	bi := 0
	verifkit.ForEachLine(t, os.Getenv("VERIF_IN"), func(line []byte) {
		var beh []verifC12Step
		if err := json.Unmarshal(line, &beh); err != nil {
			t.Fatalf("verif C12: bad behaviour: %v", err)
		}
		bi++
		single := len(beh) == 1
		for v := 0; v < nvar; v++ {
			rep := verifC12Rep{variant: v, unit: 1, salt: rnd.Uint64()}
			if v > 0 && single {
				rep.unit = units[rnd.Intn(len(units))]
				if rep.unit < 0 { // negative unit swaps min and max; only used for single-value payloads
					if len(beh[0].Ev.V)+len(beh[0].Ev.H) != 1 {
						rep.unit = 1
					}
				}
			}
			env.reset()
			prev := env.snapshot()
			res.Replayed++
			for si := range beh {
				st := &beh[si]
				c := env.concretise(st, rep)
				res.Steps++
				res.Seen(st.Dec.Reason)
				var firstErr error
				lo := uint32(time.Now().Unix())
				env.w.HandleMetrics(data_model.HandlerArgs{MetricBytes: &c.mb, Scratch: &scratch, FirstError: &firstErr})
				hi := uint32(time.Now().Unix())
				cur := env.snapshot()
				var notes []string
				note := func(s string) { notes = append(notes, s) }
				var issues []verifC12Issue
				// status records written by this event
				type rec struct {
					k verifC12Stat
					n float64
				}
				var errRecs, okRecs []rec
				for k, n := range cur.stats {
					if d := n - prev.stats[k]; d != 0 {
						if verifC12IsErr(k.Code) {
							errRecs = append(errRecs, rec{k, d})
						} else {
							okRecs = append(okRecs, rec{k, d})
						}
					}
				}
				md := env.metrics[st.M]
				if !st.Valid {
					// contributes nothing ...
					if !verifC12RowsEqual(prev, cur) {
						issues = append(issues, verifC12Issue{"rejected-event-contributes", "an invalid event changed metric rows"})
					}
					// ... but one ingestion-status record naming the reason
					wantN := 1.0
					if md.dual {
						for _, e := range st.Dec.Emit {
							if e.Sh == "s" {
								wantN = 2
							}
						}
					}
					total := 0.0
					for _, e := range errRecs {
						total += e.n
						isTrue := false
						for _, tr := range st.True {
							if verifC12Status[tr.R] == e.k.Code && tr.K == e.k.Key {
								isTrue = true
							}
						}
						if !isTrue {
							issues = append(issues, verifC12Issue{"rejected-status-reason", fmt.Sprintf("status record %+v names a reason that is not true of the event (true: %v)", e.k, st.True)})
						} else if verifC12Status[st.Dec.Reason] != e.k.Code || st.Dec.Key != e.k.Key {
							note(fmt.Sprintf("different but true reason: code %d key %d, model %s/%d", e.k.Code, e.k.Key, st.Dec.Reason, st.Dec.Key))
							res.Count("reason_differs_but_true", 1)
						}
						if e.k.Metric != md.id {
							issues = append(issues, verifC12Issue{"rejected-status-metric", fmt.Sprintf("status record %+v is booked on metric %d, event is for %d", e.k, e.k.Metric, md.id)})
						}
					}
					if total != wantN {
						issues = append(issues, verifC12Issue{"rejected-status-count", fmt.Sprintf("%v error status records for one invalid event, want %v", total, wantN)})
					}
					for _, e := range okRecs {
						issues = append(issues, verifC12Issue{"rejected-extra-status", fmt.Sprintf("invalid event also produced status record %+v x%v", e.k, e.n)})
					}
					if firstErr == nil {
						note("FirstError not set for a rejected event")
					}
				} else {
					for _, e := range errRecs {
						issues = append(issues, verifC12Issue{"accepted-event-error-status", fmt.Sprintf("valid event booked as error %+v x%v", e.k, e.n)})
					}
					for _, is := range env.compareRows(st, cur, rep, single, lo, hi, note) {
						issues = append(issues, verifC12Issue{"accepted-contribution/" + is.cat, is.what})
					}
					// OK / warning records: compared with the model, differences are notes only
					want := map[string]float64{}
					for _, e := range st.Dec.Emit {
						want[fmt.Sprintf("%d/%d", verifC12Status[e.St], e.K)]++
					}
					got := map[string]float64{}
					for _, e := range okRecs {
						got[fmt.Sprintf("%d/%d", e.k.Code, e.k.Key)] += e.n
					}
					if fmt.Sprint(want) != fmt.Sprint(got) {
						note(fmt.Sprintf("OK/warning records differ from the model: got %v want %v", got, want))
						res.Count("warn_status_differs", 1)
					}
					if firstErr != nil {
						note("FirstError set for an accepted event")
					}
				}
				if len(notes) > 0 {
					res.Count("notes", len(notes))
					if len(res.Notes) < 40 {
						res.Note("beh %d step %d (%s %s %s %s %s): %s", bi, si, st.M, st.C, st.P, st.T, st.S, strings.Join(notes, "; "))
					}
				}
				if len(issues) > 0 {
					var what []string
					for _, is := range issues {
						what = append(what, is.cat+": "+is.what)
					}
					obs := map[string]any{"rows": verifC12RowStrings(cur.rows), "event": c.descr, "variant": v, "unit": rep.unit}
					var sts []string
					for k, n := range cur.stats {
						sts = append(sts, fmt.Sprintf("%+v x%v", k, n))
					}
					sort.Strings(sts)
					obs["stats"] = sts
					obs["issues"] = what
					cls := st.Dec.Reason
					if st.Valid {
						cls = st.C + "," + st.P
					}
					res.Mismatch(verifkit.Mismatch{Beh: json.RawMessage(append([]byte(nil), line...)), Step: si,
						Want: map[string]any{"valid": st.Valid, "dec": st.Dec, "true": st.True, "rows": st.Post.Rows},
						Got:  obs, Sig: strings.SplitN(issues[0].cat, "/", 2)[0] + ":" + cls})
					break // the buckets no longer follow the model
				}
				if len(res.Samples) < 5 && (bi%997 == 1) {
					res.Sample(map[string]any{"event": c.descr, "decision": st.Dec.Reason, "rows": verifC12RowStrings(cur.rows)})
				}
				prev = cur
			}
		}
	})
	if bi == 0 {
		t.Fatalf("verif C12: no behaviours")
	}
}
