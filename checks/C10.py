"""C10 - shard and replica routing is deterministic and consistent end to end.

MC:   Routing.tla transcribes every routing function (sharding.Shard, Agent.shard,
      MetricMetaValue.Sharded/.Shard, chutil's shard choice, getShardReplicaForSecond, the
      aggregator's rounding loop, Conveyor's filing rule, goTicker's own-second rule) and TLC
      evaluates the property invariants over the full finite grid of inputs (one state per
      grid point) plus theorems about the rotation / rounding arithmetic.
S->I: the same grid points (exported by TLC) and seeded random ones are evaluated on the real
      code (internal/sharding, internal/agent incl. the API's chutil.ClickHouse.Select);
I->S: together with the filing / tick / config decisions observed on three real in-process
      aggregators they form one trace whose every line RoutingTrace.tla judges with the very
      same property invariants (a difference from the transcription that keeps the property is
      reported as drift only)."""
import json, os, random, re
from vlib import Infra

INVARIANT_WHAT = {
    "ShardInRange": "agent shard outside the configured shard count",
    "TimeIndependent": "shard depends on the event timestamp",
    "AgentApiAgree": "agent writes a fixed/by-metric metric to a shard the API does not read",
    "HelpersAgree": "sharding.Shard and MetricMetaValue.Shard disagree",
    "UnshardedReadsAll": "API restricts a non-pinned metric to one shard",
    "SecondaryDiffers": "secondary shard equals the primary",
    "HashInRange": "tags-hash bucket outside the count",
    "ConfigConsistent": "by-metric count handed to agents differs from the API's",
    "PrimaryIsOwner": "second not sent to its primary replica",
    "ReplicaOfShardAlive": "chosen replica dead or of another shard",
    "SpareDiffers": "spare replica equals the primary",
    "SpareShared": "the two non-primary replicas do not share spare traffic",
    "NoneOnlyIfDown": "no replica chosen although one is available",
    "FiledOwnSoon": "aggregator filed a second into a bucket it does not insert within two seconds",
    "TickOwn": "aggregator handed a foreign second to its inserters",
    "AddressedToMe": "aggregator took a bucket addressed to another shard replica",
}


def run(ctx):
    th = ctx.thorough
    rnd = random.Random(ctx.seed)
    # 1. the grid: property invariants + theorems, and export of every point
    mc = ctx.tlc("RoutingMC", "Routing_mc_big.cfg" if th else "Routing_mc.cfg", timeout=3000 if th else 900,
                 coverage=th, name="grid")
    ctx.require_model_ok(mc, "Routing invariants over the grid")
    ctx.ev.set("exhaustive", True)
    pts = [b[0] for b in mc.behaviours if b]
    if mc.distinct != len(pts) + 1:
        raise Infra("behaviour export incomplete: %d points for %d states" % (len(pts), mc.distinct))
    kinds = {}
    for p in pts:
        kinds[p["a"]] = kinds.get(p["a"], 0) + 1
    ctx.log("grid: %s" % kinds)
    for k in ("shard", "hash", "replica", "file", "tick", "config", "addr"):
        if not kinds.get(k):
            raise Infra("grid has no %s points" % k)
    shard_pts = [p for p in pts if p["a"] == "shard"]
    replica_pts = [p for p in pts if p["a"] == "replica"]
    hash_pts = [p for p in pts if p["a"] == "hash"]
    if not th:  # quick: a seeded sample of the shard grid (thorough: all of it)
        rnd.shuffle(shard_pts)
        shard_pts = shard_pts[:1500]
    strip = lambda p, keep: [{k: p[k] for k in keep}]
    inp = [strip(p, ("a", "N", "S", "fk", "strat", "num", "fk2", "id", "hi", "lo", "ts")) for p in shard_pts] + \
          [strip(p, ("a", "N", "shn", "t", "alive")) for p in replica_pts]
    files = []
    # 2. S->I on the real code
    res, out, rc = ctx.go_test("internal/agent", "TestVerifC10Routing", inp=inp,
                               env={"VERIF_NRANDOM": 8000 if th else 1500}, timeout=1500)
    res = ctx.need_result(res, out, rc, "TestVerifC10Routing")
    if rc != 0 or not res.get("files"):
        p = ctx.save("driver_routing.log", out[-20000:])
        raise Infra("routing driver failed rc=%s, see %s" % (rc, p))
    if res["replayed"] != len(inp):
        raise Infra("routing driver replayed %d of %d grid points" % (res["replayed"], len(inp)))
    want = "tags_hash,fixed_shard,,builtin"
    if res.get("consts", {}).get("strategies") != want:
        raise Infra("sharding strategy names changed (%s): re-instantiate Routing.tla" % res.get("consts"))
    files.append(res["files"][0])
    n_routing, steps_routing = res["replayed"] + sum(v for k, v in res["counters"].items() if k.startswith("random")), res["steps"]
    samples = list(res.get("samples") or [])
    res, out, rc = ctx.go_test("internal/sharding", "TestVerifC10Hash", inp=[strip(p, ("a", "n", "hi", "lo")) for p in hash_pts],
                               env={"VERIF_NRANDOM": 6000 if th else 1000}, timeout=600)
    res = ctx.need_result(res, out, rc, "TestVerifC10Hash")
    if rc != 0 or not res.get("files"):
        p = ctx.save("driver_hash.log", out[-20000:])
        raise Infra("hash driver failed rc=%s, see %s" % (rc, p))
    files.append(res["files"][0])
    n_hash = res["steps"]
    # 3. I->S: filing / tick / config decisions of real aggregators
    res, out, rc = ctx.go_test("internal/aggregator", "TestVerifC10Filing", env={"VERIF_C10_ROUNDS": 6 if th else 3}, timeout=900)
    res = ctx.need_result(res, out, rc, "TestVerifC10Filing")
    if not res.get("files") or not os.path.exists(res["files"][0]):
        p = ctx.save("driver_filing.log", out[-20000:])
        raise Infra("filing driver produced no trace rc=%s, see %s" % (rc, p))
    filing_rc = rc
    files.append(res["files"][0])
    n_filing = res["steps"]
    fcount = res.get("counters") or {}
    samples += res.get("samples") or []
    # 4. one trace, judged by RoutingTrace
    trace = os.path.join(ctx.tmp, "c10_trace.ndjson")
    nlines = 0
    with open(trace, "w") as w:
        for f in files:
            with open(f) as r:
                for line in r:
                    if line.strip():
                        w.write(line)
                        nlines += 1
    tv = ctx.tlc("RoutingTrace", "RoutingTrace.cfg", workers=1, files={"trace.ndjson": trace}, timeout=3000,
                 name="trace validation", expect_violation=True)
    drift = [l for l in tv.printed if "DRIFT" in l]
    if tv.violated:
        keep = ctx.save("rejected_trace.ndjson", open(trace).read())
        # every line is a successor of the initial state: the counterexample's second state names it
        ls = [int(x) for x in re.findall(r"\bl = (\d+)", tv.cex or "") if int(x) > 0]
        witness = None
        if ls:
            with open(trace) as f:
                for i, t in enumerate(f, 1):
                    if i == ls[-1]:
                        witness = t.strip()
        wp = ctx.save("witness.json", witness or "")
        if tv.violated.startswith("invariant:"):
            name = tv.violated.split(":", 1)[1]
            ctx.violation(name, "real code: %s (%s); input and outputs: %s" % (
                INVARIANT_WHAT.get(name, name), name, (witness or "")[:600]), wp)
        else:
            where = [l for l in tv.printed if "TRACE_REJECTED" in l]
            raise Infra("trace not evaluable by RoutingTrace (%s %s), see %s" % (tv.violated, where, keep))
    elif filing_rc != 0:
        p = ctx.save("driver_filing.log", out[-20000:])
        raise Infra("filing driver died (rc=%s) although its trace satisfies the property, see %s" % (filing_rc, p))
    total = [l for l in drift if "DRIFT_TOTAL" in l]
    ndrift = int(re.search(r"(\d+)", total[0].split(",")[1]).group(1)) if total else None
    if not tv.violated:
        if ndrift is None or tv.distinct != nlines + 1:
            raise Infra("trace validation incomplete: %s states for %d lines, drift %s" % (tv.distinct, nlines, ndrift))
        ctx.ev.set("drift_lines", ndrift)
        if ndrift:
            ctx.log("NOTE: %d lines differ from the transcription in Routing.tla while keeping the property: %s" % (ndrift, drift[:6]))
    ctx.ev.add_impl("routing evaluations of the real code accepted by RoutingTrace", 0 if tv.violated else nlines,
                    steps=steps_routing + n_hash + n_filing, grid_points_replayed=len(inp) + len(hash_pts),
                    random_cases=n_routing - len(inp), hash_evaluations=n_hash, filing_decisions=n_filing,
                    filing_kinds=fcount)
    for s in samples[:6]:
        ctx.ev.sample(s)
    ctx.ev.assume("the API is started with the aggregator's --shard-by-metric-shards value and the same cluster "
                  "address list (statshouse-api flag: 'A copy from aggregator's config'); S <= number of shards "
                  "(MakeAggregator refuses anything else)")
    ctx.ev.assume("key.Metric equals the meta's MetricID (fillKey / mapping set it so)")
    ctx.ev.assume("timestamps below 2^31 (TLC integers); filing is observed at the clock values the run happens at, "
                  "with the aggregator's fixed historic window of 86400 s; the window arithmetic for other windows "
                  "is checked on the model (Conveyor!Filing) only")
    ctx.ev.assume("API shard observed through ClickHouse.Select with a cancelled context (returns after the shard / "
                  "host choice, before any network use)")
