"""C20 - metadata replicas converge and name lookups stay correct.

MC:   MetaJournal.tla transcribes JournalFast (latest event per key, version order, xor state
      hash, compaction, diff delivery, save / load of truncated files) and
      MetricsStorage.ApplyEvent (by-id / by-name indexes, group recomputation); the property is
      stated on the source table and the replicas' observable state.  Exhaustive instances:
      name index + groups on one journal, and the source -> aggregator -> agent chain with
      compaction and restarts.
I->S: histories explored by TLC (exhaustive exports, long simulated ones, and the histories on
      which the *pinned* ApplyEvent - spec constant Orig = TRUE - loses a name) plus seeded random
      longer ones are executed on the real JournalFast / MetricsStorage chain; after every step
      the real projection is recorded and MetaJournalTrace.tla replays the history and demands
      equality, evaluating the property invariants in every state.  The driver evaluates the
      property predicates on the real state too (that gives a violation its signature)."""
import json, os, random
from concurrent.futures import ThreadPoolExecutor
from vlib import Infra

INV = ("NoPanic LoaderAhead HashConsistent VersionsDistinct StorageMatchesJournal NameLookupCorrect "
       "GroupAssignmentCorrect Converged HashAgreement")


def pick(ctx, res, n, rnd):
    bs = list(res.behaviours)
    rnd.shuffle(bs)
    return bs[:n]


def validate(ctx, path, stage):
    return ctx.tlc("MetaJournalTrace", "MetaJournalTrace.cfg", workers=1, files={"trace.ndjson": path},
                   timeout=7200, heap="2g", name=stage, expect_violation=True, keep_beh=False)


def run(ctx):
    th = ctx.thorough
    rnd = random.Random(ctx.seed)
    # 1. the design: exhaustive model checking; 2. histories for the driver (all TLC jobs run side by side)
    mcs = [("MetaJournal_mc.cfg", "name index + groups, one journal"),
           ("MetaJournal_mc_chain.cfg", "source -> compact aggregator -> agent")]
    if th:
        mcs = [("MetaJournal_mc_big.cfg", "name index + groups, one journal, 5 edits"),
               ("MetaJournal_mc_m3_big.cfg", "three metrics competing for three names"),
               ("MetaJournal_mc_ns_big.cfg", "groups / namespaces renamed, names reused"),
               ("MetaJournal_mc_chain_big.cfg", "source -> compact aggregator -> agent, 4 edits"),
               ("MetaJournal_mc_chain3_big.cfg", "source -> compact aggregator -> two agents"),
               ("MetaJournal_mc_plain_big.cfg", "source -> plain aggregator -> agent")]
    if os.environ.get("VERIF_SELFTEST"):
        mcs = []  # tools/selftest mutates the code, not the model: only the histories are needed
    exports = [("names", "MetaJournal_beh.cfg", None), ("chain", "MetaJournal_beh_chain.cfg", None),
               # histories after which the pinned tree (spec constants OrigNames / OrigSkip) breaks the property
               ("orig-names", "MetaJournal_orig_big.cfg" if th else "MetaJournal_orig.cfg", None),
               ("orig-rebuild", "MetaJournal_orig_rebuild.cfg", None),
               ("orig-skip", "MetaJournal_stale_big.cfg" if th else "MetaJournal_stale.cfg", None),
               ("sim", "MetaJournal_sim.cfg", (100 if th else 15, 31))]
    w = 4
    with ThreadPoolExecutor(max_workers=4) as ex:
        fm = [ex.submit(ctx.tlc, "MetaJournalMC", cfg, workers=w, timeout=7200 if th else 1800, name=what, heap="6g" if th else "3g")
              for cfg, what in mcs]
        fe = {k: ex.submit(ctx.tlc, "MetaJournalMC", cfg, workers=w, timeout=7200 if th else 1800, simulate=simu,
                           name="history export (%s)" % k, heap="4g" if th else "2g") for k, cfg, simu in exports}
        for (cfg, what), f in zip(mcs, fm):
            ctx.require_model_ok(f.result(), "MetaJournal invariants (%s)" % cfg)
        exp = {k: f.result() for k, f in fe.items()}
    for k, r in exp.items():
        ctx.require_model_ok(r, "history export (%s)" % k)
    ctx.ev.set("exhaustive", True)
    for k in ("orig-names", "orig-rebuild", "orig-skip"):
        if not exp[k].behaviours:
            raise Infra("the transcription of the pinned code (%s) no longer yields counterexamples" % k)
    directed = (pick(ctx, exp["orig-names"], 3000 if th else 100, rnd) + pick(ctx, exp["orig-skip"], 1000 if th else 40, rnd)
                + [b for b in exp["orig-rebuild"].behaviours if any(st.get("e", {}).get("t") == "G" for st in b)])
    long_b = pick(ctx, exp["sim"], 300 if th else 40, rnd)
    behs = pick(ctx, exp["names"], 1500 if th else 200, rnd) + pick(ctx, exp["chain"], 1500 if th else 150, rnd)
    nexp = len(behs)
    behs += directed + long_b
    ctx.log("histories: %d exported, %d defect-directed, %d simulated" % (nexp, len(directed), len(long_b)))
    # 3. the real code
    nfiles = 8
    res, out, rc = ctx.go_test("internal/metajournal", "TestVerifC20", inp=behs,
                               env={"VERIF_NRANDOM": 400 if th else 60, "VERIF_NFILES": nfiles}, timeout=1800)
    res = ctx.need_result(res, out, rc, "TestVerifC20")
    consts = res.get("consts", {})
    if consts.get("BuiltinGroupIDDefault") != -4:
        raise Infra("code constants changed: %s" % consts)
    for mm in res.get("mismatches") or []:
        if mm.get("sig") == "driver":
            raise Infra("driver problem: %s" % mm.get("got"))
    nbad = ctx.replay_s2i_mismatches(res, "real-chain")
    with ThreadPoolExecutor(max_workers=nfiles) as ex:
        tvs = list(ex.map(lambda p: validate(ctx, p, "trace validation"), res["files"]))
    ntr = res["replayed"]
    rejected = [(p, tv) for p, tv in zip(res["files"], tvs) if tv.violated]
    if rejected:
        trace, tv = rejected[0]
        keep = ctx.save("rejected_trace.ndjson", open(trace).read())
        tv2 = validate(ctx, keep, "trace re-validation")
        if not tv2.violated:
            raise Infra("trace rejection not reproducible")
        where = [l for l in tv.printed if "TRACE_REJECTED" in l]
        if nbad == 0:
            sig = tv.violated if tv.violated.startswith("invariant") else "trace-rejected"
            ctx.violation(sig, "real JournalFast/MetricsStorage execution is not a behaviour of MetaJournal: %s %s"
                          % (tv.violated, where), keep)
        ntr = 0
    elif nbad:
        raise Infra("driver predicates and trace validation disagree")
    ctx.ev.add_impl("JournalFast/MetricsStorage histories accepted by MetaJournalTrace", ntr, steps=res["steps"],
                    from_tlc=len(behs), defect_directed=len(directed), random=res["counters"].get("random", 0),
                    trace_events=res["counters"].get("trace_events", 0))
    for s in res.get("samples", [])[:4]:
        ctx.ev.sample(s)
    ctx.ev.assume("the source hands out strictly increasing versions, keeps one row per entity and names unique "
                  "per entity type (metrics_v5: version = MAX(version)+1, UNIQUE(namespace_id, type, name)); names "
                  "are freed by renames only (deletion is a flag)")
    ctx.ev.assume("update time changes with every version; an entity version is abstracted to (name, payload kept "
                  "by the compact form, payload dropped by it); behind a compact journal the version number of an "
                  "entity may be that of an earlier compact-equal version")
    ctx.ev.assume("one aggregator per chain (agents do not switch between aggregators with different journals); "
                  "single-threaded driver; file damage = truncation (whole chunks survive, a torn tail is ignored)")
