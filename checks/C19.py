"""C19 - tag mappings form a stable bijection and creation obeys flood limits."""
import os, sys, random
sys.path.insert(0, os.path.dirname(os.path.abspath(__file__)))
import metadb_common as M

INV = "Bijection PositiveIds UsedComplete FloodBound FloodRowBelowCredit FloodTimesRounded ChargedWhenExhausted"
PROP = "MappingStable GetOrCreateIdempotent DeadIdsNeverReissued"


def run(ctx):
    th = ctx.thorough
    # 1. the design: getOrCreateMapping / calcBudget / roundTime, PutMapping (INSERT OR REPLACE),
    #    batched deletion, ResetFlood, reopen (lastMappingIDToInsert is lost) transcribed; the
    #    flood bound is stated on the ghost allowance `credit`
    r, items = M.mc(ctx, "MetaDB_map.cfg", "map", {"MaxOps": "= 3"}, INV, PROP, export=True)
    items = M.sample(ctx, items, 1800 if th else 300, 1)
    r, it = M.mc(ctx, "MetaDB_map2.cfg", "map2", {"MaxOps": "= 4"}, INV, PROP, export=True)
    items += M.sample(ctx, it, 1800 if th else 300, 2)
    # deletion of the NEWEST ids after the budgets are spent, then the metric asks again (MAX(id) of
    # the table is not monotone; the allowance and the never-reissued ids must not depend on it)
    r, it = M.mc(ctx, "MetaDB_map3.cfg", "map3", {"MaxOps": "= 6" if th else "= 5"}, INV, PROP, export=True)
    items += M.sample(ctx, it, 1800 if th else 400, 3, first=M.newest_deleted_then_asked)
    if th:
        M.expect_model_violation(ctx, "MetaDB_map3.cfg", "deviation last-id-from-max",
                                 {"Bugs": '= {"last-id-from-max"}', "MaxOps": "= 5"}, "FloodBound", "", "FloodBound")
        M.mc(ctx, "MetaDB_map.cfg", "map deep", {"MaxOps": "= 4"}, INV, PROP, timeout=7200, coverage=True)
        M.mc(ctx, "MetaDB_map2.cfg", "map2 deep", {"MaxOps": "= 6"}, INV, PROP, timeout=7200)
        # liveness of the flood bound: the unrounded reset time switched back on breaks it
        M.expect_model_violation(ctx, "MetaDB_map2.cfg", "bug reset-unrounded",
                                 {"Bugs": '= {"reset-unrounded"}', "MaxOps": "= 4", "GlobalBudget": "= 0"},
                                 "FloodBound", "", "FloodBound")
    ctx.ev.set("exhaustive", True)
    # 2. seeded random long histories: three metrics, up to 14 keys, other budgets / steps / clocks
    rnd = random.Random(ctx.seed)
    for k in range(4 if th else 1):
        budget = M.random_budget(rnd) if k else (2, 10, 2, 1, 1000005)
        r, it = M.scripts(ctx, "scripts %d" % k, {"map"}, 250 if th else 70, 60, budget, INV, PROP, salt=20 + k)
        items += it
    if th:
        # the default constants of the metadata server (1000 / 3600 s / 10), global budget spent
        r, it = M.scripts(ctx, "default constants", {"map"}, 1, 0, (1000, 3600, 10, 0, 1641027722),
                          "FloodBound FloodRowBelowCredit FloodTimesRounded ChargedWhenExhausted PositiveIds",
                          "GetOrCreateIdempotent DeadIdsNeverReissued", salt=99, fixed=[M.real_constants_script(rnd)])
        items += it
    # 3. the real DBV2
    M.drive(ctx, "C19", items, "mappings")
    ctx.ev.assume("clock progression = the clock never steps back (arbitrary forward steps, aligned or not); "
                  "MaxBudget >= 1; PutMapping is an explicit overwrite (INSERT OR REPLACE) and counts as explicit deletion "
                  "of the pairs it replaces")
    ctx.ev.assume("elapsed steps = step boundaries crossed by the clock; 'global budget exhausted' = an id above "
                  "GlobalBudget has been handed out")


def replay(ctx, path):
    M.replay_witness(ctx, "C19", path)
