"""C26 - user-supplied filter values cannot change the structure of storage queries.

MC (a): SqlLiteral.tla - the repository's escaper transcribed as a per-character transducer, the
        storage dialect's literal lexer/decoder written independently; TLC checks for every class
        string up to the bound that the quoted escaped string is exactly one literal decoding to the
        string, alone and next to a second literal.  An alternative table with the property passes,
        three tables without it are refuted (liveness of the theorem).
MC (b): SqlFilter.tla - filterIn / filterNotIn built by Add / SetRe; writeWhere / writeTagFilter
        transcribed into a syntax tree; TLC checks Eval(Where) = Matches on every row of the universe
        in every reachable filter state (exhaustive to a depth, random deeper), and refutes six
        deliberately broken transcriptions.
S->I:   (a) every exported class string, concretised with several real characters per class, goes
        through the real escapeReplacer; the harness lexer (checked against Lex/Dec on every exported
        unescaped string) must find one literal holding the string.
        (b) every exported filter behaviour is built on the real queryBuilder with hostile strings,
        regexes, 32/64-bit integers, random tag indices and all three query kinds; the real query text
        must have the structure of the same query with harmless strings, every literal must decode to
        the supplied string, and the parsed where-clause must select exactly the rows of Matches."""
import random
from vlib import Infra

BAD_ESC = ["SqlLiteral_bad_nobackslash.cfg", "SqlLiteral_bad_doubledonly.cfg", "SqlLiteral_bad_noquote.cfg"]
BAD_FILTER = ["const_flipped", "raw_consults_str", "not_match_missing", "empty_mapped_only", "notin_or", "or_between_tags"]


def must_refute(ctx, module, cfg, inv, name):
    r = ctx.tlc(module, cfg, timeout=1800, name=name, expect_violation=True, record=False, heap="4g", keep_beh=False)
    if r.violated != "invariant:" + inv:
        raise Infra("%s is not live: %s/%s gives %s" % (inv, module, cfg, r.violated))


def run(ctx):
    th = ctx.thorough
    rnd = random.Random(ctx.seed * 2609 + 1)

    # ---- (a) literals
    lit = ctx.tlc("SqlLiteral", "SqlLiteral_beh_big.cfg" if th else "SqlLiteral_beh.cfg", timeout=3000, heap="4g",
                  name="one-literal theorem, all 13 classes (+ export)")
    ctx.require_model_ok(lit, "RoundTrip")
    pair = ctx.tlc("SqlLiteral", "SqlLiteral_pair_big.cfg" if th else "SqlLiteral_pair.cfg", timeout=3000, heap="4g",
                   keep_beh=False, name="two literals in a list")
    ctx.require_model_ok(pair, "RoundTrip, PairTheorem")
    must_refute(ctx, "SqlLiteral", BAD_ESC[ctx.seed % 3] if not th else BAD_ESC[0], "RoundTrip", "escaper without the property (must violate)")
    if th:
        for c in BAD_ESC[1:]:
            must_refute(ctx, "SqlLiteral", c, "RoundTrip", "escaper without the property (must violate)")
        m6 = ctx.tlc("SqlLiteral", "SqlLiteral_mc6_big.cfg", timeout=3000, heap="4g", keep_beh=False,
                     name="one-literal theorem, 7 classes, length <= 6")
        ctx.require_model_ok(m6, "RoundTrip, NeverEscapes")
        alt = ctx.tlc("SqlLiteral", "SqlLiteral_alt.cfg", timeout=3000, heap="4g", keep_beh=False,
                      name="quote-doubling escaper also has the property")
        ctx.require_model_ok(alt, "RoundTrip, PairTheorem (alternative escaper)")

    behs = [b for b in lit.behaviours if b]
    res, out, rc = ctx.go_test("internal/api", "TestVerifC26Literal", inp=behs, timeout=2400,
                               env={"VERIF_NCONC": 6 if th else 3, "VERIF_ENUMLEN": 6 if th else 5,
                                    "VERIF_NRANDOM": 200000 if th else 20000})
    res = ctx.need_result(res, out, rc, "TestVerifC26Literal")
    cnt = res.get("counters") or {}
    if cnt.get("lexer_conformance_failures", 0) or cnt.get("lexer_conformance_checked", 0) < len(behs):
        raise Infra("harness lexer does not conform to SqlLiteral!Lex: %s %s" % (cnt, (res.get("notes") or [])[:2]))
    nbad_a = ctx.replay_s2i_mismatches(res, "literal")
    ctx.ev.add_impl("class strings through the real escapeReplacer, lexed with the dialect's literal rules",
                    res["replayed"] + cnt.get("enumerated", 0) + cnt.get("random", 0) if not nbad_a else 0, steps=res["steps"],
                    tlc_exported=res["replayed"], enumerated=cnt.get("enumerated", 0), random_long=cnt.get("random", 0),
                    lexer_conformance_checked=cnt.get("lexer_conformance_checked", 0),
                    differs_from_transcription=cnt.get("differs_from_transcription", 0))

    # ---- (b) where-clause
    beh = ctx.tlc("SqlFilterMC", "SqlFilter_beh.cfg", timeout=3000, heap="4g", coverage=th,
                  name="filter states to depth 2: Where = Matches (+ export)")
    ctx.require_model_ok(beh, "WhereSelectsExactly, PolaritiesComplement")
    if th and beh.zero_cov:
        ctx.log("zero coverage: %s" % beh.zero_cov)
    sim = ctx.tlc("SqlFilterMC", "SqlFilter_sim.cfg", timeout=3000, heap="4g", simulate=(1500 if th else 300, 7),
                  name="random filter states to depth 6 (+ export)")
    ctx.require_model_ok(sim, "WhereSelectsExactly, PolaritiesComplement")
    must_refute(ctx, "SqlFilterMC", "SqlFilter_bad_%s.cfg" % BAD_FILTER[ctx.seed % len(BAD_FILTER)], "WhereSelectsExactly",
                "broken transcription (must violate)")
    if th:
        for b in BAD_FILTER:
            if b != BAD_FILTER[ctx.seed % len(BAD_FILTER)]:
                must_refute(ctx, "SqlFilterMC", "SqlFilter_bad_%s.cfg" % b, "WhereSelectsExactly", "broken transcription (must violate)")
        big = ctx.tlc("SqlFilterMC", "SqlFilter_mc_big.cfg", timeout=3000, heap="4g", keep_beh=False,
                      name="filter states to depth 3")
        ctx.require_model_ok(big, "WhereSelectsExactly, PolaritiesComplement")
        odd = ctx.tlc("SqlFilterMC", "SqlFilter_odd.cfg", timeout=3000, heap="4g", keep_beh=False,
                      name="depth 2 with the values no producer makes (empty string / zero in M, S, B)")
        ctx.require_model_ok(odd, "WhereSelectsExactly, PolaritiesComplement")
        full = ctx.tlc("SqlFilterMC", "SqlFilter_full_big.cfg", timeout=3000, heap="4g", keep_beh=False,
                       name="depth 2 on the full row universe of both tags")
        ctx.require_model_ok(full, "WhereSelectsExactly, PolaritiesComplement")
    ctx.ev.set("exhaustive", True)

    ctx.ev.set("simulated_filter_behaviours", len(sim.behaviours))
    deep = [b for b in sim.behaviours if len(b) >= 4]
    shallow = list(beh.behaviours)
    rnd.shuffle(deep)
    rnd.shuffle(shallow)
    take = shallow[:12000 if th else 4000] + deep[:6000 if th else 1200]
    res2, out2, rc2 = ctx.go_test("internal/api", "TestVerifC26Where", inp=take, timeout=2400, env={"VERIF_NCONC": 4 if th else 2})
    res2 = ctx.need_result(res2, out2, rc2, "TestVerifC26Where")
    cnt2 = res2.get("counters") or {}
    nbad_b = ctx.replay_s2i_mismatches(res2, "where", sig_of=lambda mm: mm.get("sig") or "where")
    if not nbad_b and (cnt2.get("selecting_configs", 0) < len(take) // 4 or min(cnt2.get("mode%d" % i, 0) for i in range(3)) < len(take) // 8):
        raise Infra("where driver is vacuous: %s" % cnt2)
    ctx.ev.add_impl("TLC filter behaviours built on the real queryBuilder (series / tag-values / tag-value-ids), query text lexed, "
                    "where-clause evaluated on the row universe", res2["replayed"] if not nbad_b else 0, steps=res2["steps"],
                    concretisations=sum(cnt2.get("mode%d" % i, 0) for i in range(3)), distinct_configs=res2.get("distinct"),
                    rows_evaluated=res2["steps"], selecting_configs=cnt2.get("selecting_configs", 0))
    for s in (res2.get("samples") or [])[:2]:
        ctx.ev.sample(s)

    ctx.ev.assume("TRUSTED: the harness lexer/decoder (verifC26Split/verifC26Dec, ~100 lines; checked against SqlLiteral!Lex/Dec on "
                  "every exported unescaped class string) and the where-clause tokenizer/parser/evaluator "
                  "(verif_c26_eval_test.go, AND/OR/NOT/[NOT] IN/=/!=/>=/</match/raw64 bit expression; strict typing) stand in for the storage")
    ctx.ev.assume("literal rules of the storage dialect as in ClickHouse Lexer.cpp quotedString + readQuotedStringWithSQLStyle/"
                  "parseComplexEscapeSequence: backslash escapes (\\x.., \\N, control letters, dropped backslash before \\ ' \" ` / = and "
                  "control characters, kept before anything else) and doubled quotes; bytes >= 0x80 and control bytes pass through raw")
    ctx.ev.assume("match(col, pattern) is evaluated by Go regexp (RE2 syntax, unanchored search) on the decoded pattern; TagFilter.Re2 means "
                  "the pattern as the storage evaluates it. promql/engine.go passes the PromQL matcher value unanchored while it selects the "
                  "mapped values with the anchored matcher - outside this property's layer, reported in the design notes")
    ctx.ev.assume("rows with a string in the column of a raw tag do not exist (RowOK): whether the code consults that column is left open; "
                  "values no producer makes (NewTagValueS(\"\"), NewTagValueM(0), NewTagValue(\"\", n), NewTagValue(s, 0)) are model checked "
                  "against the literal reading of Matches but not replayed on the code")
    ctx.ev.assume("a regex is only set together with string values it matches (Covered; the only producer, promql/engine.go, adds the values "
                  "the matcher accepts); with a regex present the code drops the string list")
    ctx.ev.assume("metrics without pre-key (lod.HasPreKey = false; the `_prekey` name of the pre-key path is not a column of the V3 tables), "
                  "tag-values builders leave `by` empty (as handler.go / promql.go do), raw64 tags at index <= 45")
    ctx.ev.assume("row universe: per tag 4 integers x 4 strings (tag 1: 2 x 2) incl. one integer and one string no filter mentions, "
                  "concretised with near-miss strings (escaped form, doubled quotes, added/removed quotes and backslashes) and, for raw64 "
                  "tags, values differing only in the high or low half; rows failing time/metric/index_type/pre-key must never be selected")
