"""C27 - PromQL evaluation matches operator definitions; rewrites (reductions) preserve results.

MC:   PromAgg.tla - definitions of the aggregation operators (sum min max avg count group stddev
      stdvar quantile topk bottomk, by/without) and of the *_over_time functions as exact integer
      relations over series sets with missing points; the storage contract (points pooled per
      bucket and group into a mergeable digest, `what` projected); reductions.go's rule table
      transcribed.  TLC checks on every data set of the instance that the digest carries the
      definitions and that the value each reduction rule (#0..#3) substitutes equals the definition
      applied to the raw points (avg of avg / count of count under the stated side condition, which
      is shown necessary by two configs that must be refuted).
S->I: TLC exports every data set with the specified results; the Go driver evaluates the
      expressions with the real Engine.Exec over a storage stub implementing the contract: at the
      raw resolution (aggregations reduced and unreduced, topk/bottomk, every over-time window, as
      range selector and as subquery) and at the 5 s level (rules #1..#3 reduced; the same
      expressions unreduced at the 1 s step, all 30+25 operator pairs against the two-level
      definitions), and compares as integer relations value*den = num."""
import os
import re
from concurrent.futures import ThreadPoolExecutor
from vlib import Infra

# name, cfg, expected distinct states, what
QUICK = [
    ("a", "PromAgg_a.cfg", 125, "3 series x (1 free + 1 anchored) slots, values {-1,0,1,3}: aggregation operators"),
    ("b", "PromAgg_b.cfg", 125, "1 series x 3 slots, values {-1,0,1,3}: over-time functions, rule #1"),
    ("c", "PromAgg_c.cfg", 81, "2 series x 2 slots, values {-1,2}: everything incl. rules #2/#3"),
    ("t", "PromAgg_t.cfg", 256, "2 series x 2 slots, values {-1,0,1}: topk/bottomk/sort ranking (plateaus, negative constants)"),
]
THOROUGH = [
    ("a", "PromAgg_a.cfg", 125, QUICK[0][3], 1),
    ("b", "PromAgg_b.cfg", 125, QUICK[1][3], 1),
    ("t", "PromAgg_t.cfg", 256, QUICK[3][3], 1),
    ("T", "PromAgg_t_big.cfg", 729, "3 series x 2 slots, values {-1,0}: topk/bottomk/sort ranking, k = 1, 2 < group size", 1),
    ("A", "PromAgg_a_big.cfg", 4096, "3 series x 2 slots, values {-1,0,2}: aggregation operators", 4),
    ("B", "PromAgg_b_big.cfg", 625, "1 series x 4 slots, values {-1,0,1,3}, 2 buckets: over-time functions, rule #1", 1),
    ("C", "PromAgg_c_big.cfg", 729, "3 series x 2 slots, values {-1,2}: everything", 1),
    ("D", "PromAgg_d_big.cfg", 729, "2 series x 3 slots, values {-1,2}, 2 buckets: everything", 1),
]
BAD = [("PromAgg_bad_noavg.cfg", "avg of avg without the equal-count side condition"),
       ("PromAgg_bad_nocount.cfg", "count of count without the one-point side condition")]
SPECS = os.path.join(os.path.dirname(os.path.dirname(os.path.abspath(__file__))), "specs")


def run(ctx):
    th = ctx.thorough
    selftest = os.environ.get("VERIF_SELFTEST") == "1"
    insts = [(n, c, e, w, 1) for n, c, e, w in QUICK] if not th else THOROUGH

    def model(inst):
        name, cfg, expect, what, selmod = inst
        files = None
        if selmod > 1:  # every data set is checked, a seed-dependent share is exported to the driver
            txt = open(os.path.join(SPECS, cfg)).read()
            txt = re.sub(r"SelMod = \d+", "SelMod = %d" % selmod, txt)
            txt = re.sub(r"Sel = \d+", "Sel = %d" % (ctx.seed % selmod), txt)
            cfg = cfg.replace(".cfg", "_sel.cfg")
            files = {cfg: txt}
        r = ctx.tlc("PromAggMC", cfg, workers=6 if th else 5, heap="4g", timeout=3000, files=files, record=False)
        return inst, r

    # development aid for tools/selftest only: the exported cases do not depend on the repository,
    # so a mutant run may reuse the cases saved by a normal run (VERIF_C27_SAVE_CASES=<file>)
    cache = os.environ.get("VERIF_C27_CASES") if selftest else None
    if cache and os.path.exists(cache):
        ctx.log("selftest: reusing exported cases from %s" % cache)
        import json
        cases = [json.loads(l) for l in open(cache) if l.strip()]
        ctx.go_build_test("internal/promql")
        return drive(ctx, cases)

    with ThreadPoolExecutor(max_workers=9) as pool:
        build = pool.submit(ctx.go_build_test, "internal/promql")
        runs = list(pool.map(model, insts))
        bad = []
        if not selftest:
            todo = BAD if th else [BAD[ctx.seed % len(BAD)]]
            bad = list(pool.map(lambda b: (b, ctx.tlc("PromAggMC", b[0], workers=2, heap="2g", timeout=1200, record=False,
                                                       expect_violation=True, keep_beh=False,
                                                       name="must be refuted: " + b[1])), todo))
        build.result()
    cases = []
    for (name, cfg, expect, what, selmod), r in runs:
        ctx.ev.add_tlc(r, name="PromAgg %s: %s" % (name, what))    # recorded here: the runs were concurrent
        ctx.require_model_ok(r, "PromAgg theorems (%s)" % cfg)
        if r.distinct != expect:
            raise Infra("%s: %d data sets instead of %d" % (cfg, r.distinct, expect))
        got = [b for b in r.behaviours if b]
        if not got or (selmod == 1 and len(got) != expect):
            raise Infra("%s: %d cases exported" % (cfg, len(got)))
        cases += got
    for (cfg, what), r in bad:
        if r.violated not in ("invariant:Rule2Exact", "invariant:Rule3Exact"):
            raise Infra("theorem is not live: %s gives %s" % (cfg, r.violated))
    ctx.ev.set("exhaustive", True)
    if os.environ.get("VERIF_C27_SAVE_CASES"):
        import json
        with open(os.environ["VERIF_C27_SAVE_CASES"], "w") as f:
            for c in cases:
                f.write(json.dumps(c, separators=(",", ":")) + "\n")
    return drive(ctx, cases)


def drive(ctx, cases):
    res, out, rc = ctx.go_test("internal/promql", "TestVerifC27", inp=cases, timeout=3000)
    res = ctx.need_result(res, out, rc, "TestVerifC27")
    cnt = res.get("counters") or {}
    nbad = ctx.replay_s2i_mismatches(res, "promql")
    if res.get("replayed") != len(cases):
        raise Infra("driver handled %s of %d cases" % (res.get("replayed"), len(cases)))
    if not nbad:
        for k in ("rule1_applied", "rule2_applied", "rule3_applied", "exec"):
            if cnt.get(k, 0) == 0:
                raise Infra("driver is vacuous: %s = 0 (%s)" % (k, cnt))
        if res.get("steps", 0) < 20 * len(cases):
            raise Infra("driver compared only %s values" % res.get("steps"))
    ctx.ev.add_impl("TLC-exported data sets evaluated with the real promql Engine.Exec (reduced and unreduced) over the "
                    "contract stub, results compared with the specified values", res["replayed"] if not nbad else 0,
                    steps=res.get("steps", 0), engine_evaluations=cnt.get("exec", 0),
                    expression_classes=res.get("distinct"),
                    rule0_pushed_down=cnt.get("rule0_applied", 0), rule1_pushed_down=cnt.get("rule1_applied", 0),
                    rule2_pushed_down=cnt.get("rule2_applied", 0), rule3_pushed_down=cnt.get("rule3_applied", 0),
                    pushdown_not_observed=sum(v for k, v in cnt.items() if k.endswith("_not_applied")))
    for s in (res.get("samples") or [])[:2]:
        ctx.ev.sample(s)
    ctx.ev.assume("TRUSTED: the storage stub (verif_c27_stub_test.go: pools raw points per bucket and group-by key, projects count/"
                  "countsec/sum/sumsec/avg/min/max/stdvar/stddev as PromAgg!What) stands in for the Handler; the production "
                  "handler (internal/api) is not part of this property")
    ctx.ev.assume("integer-exact instances only: values -1..3, at most one point per series and second; results compared as "
                  "value*den = num with 1e-9 relative slack for float rounding; float accuracy is not claimed")
    ctx.ev.assume("where an operator is applied to no point (PromQL: no sample) the result is not constrained: the engine yields "
                  "NaN (sum/min/max/avg), 0 (count, stdvar, count_over_time) or 1 (group) by design; compositions over "
                  "count/count_over_time are only compared where every inner set is non-empty")
    ctx.ev.assume("reductions are exact at the raw resolution (rule #0) and for range = step (rules #1..#3); avg of avg and "
                  "count of count pool events by design and equal the two-level PromQL definition only under the side "
                  "conditions stated in PromAgg.tla (TLC refutes the theorems without them)")
    ctx.ev.assume("topk/bottomk select whole series by the engine's weight (sum of squares, or last value when all series of the "
                  "group are non-decreasing), ties arbitrary: any admissible set is accepted")
