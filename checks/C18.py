"""C18 - fsbinlog replays exactly what was appended, across rotation and damage.

MC:   FsBinlog.tla: writer (putLevToBuffer arithmetic, writer loop at system-call granularity),
      reader (file selection, seek with snapshot meta, crc32 chain per file) and the property
      (ReplayExact, TruncSafe, FlipDetected, CommitMonotone, CommitDurable), exhaustive for small
      writeCrcEveryBytes / MaxChunkSize.
S->I: write histories exported by TLC with the code's writeCrcEveryBytes (payloads that cross the
      crc32 interval, chunk sizes that force rotation) plus seeded random longer ones are
      executed on the real fsbinlog (gofs in-memory and real directories).
      Histories with a crash inside the last write (Tear) followed by a restart as master and more
      appends are exported separately: the writer has to refuse to start or cut the torn tail.
I->S: everything observed (offsets returned by Append, every Engine.Commit with an fsync probe,
      the record layout parsed from the real files, and the callbacks of ReadAll from every
      possible commit position on intact, truncated and bit-flipped copies) is validated by
      FsBinlogTrace.tla, one invariant per clause of the property."""
import random, json, os, concurrent.futures
from vlib import Infra, NCPU

INV_WHAT = {
    "AppendOffsets": "Append returned an offset other than the specified one",
    "LayoutAsSpecified": "the records found in the files are not the specified stream (event/crc32/rotate positions)",
    "ReplayExactObs": "replay of an intact binlog did not deliver exactly the remaining suffix at the returned offsets",
    "TruncSafeObs": "replay of a truncated binlog did not stop exactly after the last complete record",
    "FlipDetectedObs": "a corrupted byte covered by a later checksum record did not produce a checksum error at that record",
    "CommitMonotone": "commit notifications went backwards",
    "CommitValidObs": "commit at a position that is not a possible buffer boundary / wrong snapshot meta",
    "CommitDurableObs": "commit notified for bytes that were not fsynced",
    "StopCleanObs": "shutdown did not commit everything appended / Run failed",
    "RefusalJustified": "Run refused to start although the binlog has no torn tail",
}


def validate(ctx, path, stage):
    return ctx.tlc("FsBinlogTrace", "FsBinlogTrace.cfg", workers=1, files={"trace.ndjson": path},
                   timeout=3000, name=stage, expect_violation=True, heap="4g")


def split_trace(ctx, path, nparts):
    """Cut the trace into nparts files at Open events (every world is self-contained)."""
    lines = open(path).read().splitlines()
    starts = [i for i, l in enumerate(lines) if '"ev":"Open"' in l]
    if not starts or starts[0] != 0:
        raise Infra("trace does not start with Open")
    per = max(1, len(lines) // nparts)
    cuts, nxt = [0], per
    for st in starts[1:]:
        if st >= nxt:
            cuts.append(st)
            nxt = st + per
    cuts.append(len(lines))
    parts = []
    for a, b in zip(cuts, cuts[1:]):
        pth = os.path.join(ctx.tmp, "trace_part_%d.ndjson" % len(parts))
        with open(pth, "w") as f:
            f.write("\n".join(lines[a:b]) + "\n")
        parts.append(pth)
    return parts


def validate_parts(ctx, parts, stage):
    """Validate the parts concurrently; returns [(part path, TLCResult)] in trace order."""
    with concurrent.futures.ThreadPoolExecutor(max_workers=min(len(parts), max(2, NCPU // 3))) as ex:
        futs = [ex.submit(validate, ctx, p, "%s part %d/%d" % (stage, i + 1, len(parts))) for i, p in enumerate(parts)]
        return [(p, f.result()) for p, f in zip(parts, futs)]


def rejected_line(tv):
    for l in tv.printed:
        if "TRACE_REJECTED_AT_LINE" in l:
            try:
                return int(l.strip("<>").split(",")[1])
            except Exception:
                pass
    return None


def signature_of(tv, trace_path):
    """Canonical class of a rejected observation: the violated invariant plus, for flips, the
    kind of record whose checksum was passed."""
    sig = tv.violated or "trace-rejected"
    return sig


def run(ctx):
    th = ctx.thorough
    # 1. model checking of the design, 2. write histories for the driver (real writeCrcEveryBytes);
    #    the three TLC runs and the build of the driver are independent and run side by side
    with concurrent.futures.ThreadPoolExecutor(max_workers=5) as ex:
        f_mc = ex.submit(ctx.tlc, "FsBinlogMC", "FsBinlog_mc_big.cfg" if th else "FsBinlog_mc.cfg",
                         timeout=3000 if th else 900, coverage=th, name="reader/damage model", workers=max(2, NCPU // 2), heap="4g",
                         constants={"CrcEvery": 64, "Chunks": [100, 170, 1000000], "Lens": [12, 21, 50],
                                    "MaxOps": 6 if th else 5})
        f_fine = ex.submit(ctx.tlc, "FsBinlogMC", "FsBinlog_fine_big.cfg" if th else "FsBinlog_fine.cfg",
                           timeout=3000 if th else 900, coverage=th, name="writer loop at system call granularity",
                           workers=max(2, NCPU // 4), heap="6g",
                           constants={"CrcEvery": 64, "Chunks": [100, 1000000], "Lens": [12, 50], "MaxOps": 6 if th else 4})
        f_beh = ex.submit(ctx.tlc, "FsBinlogMC", "FsBinlog_beh_big.cfg" if th else "FsBinlog_beh.cfg", timeout=900,
                          name="behaviour export", workers=max(2, NCPU // 4), heap="4g")
        # histories with a crash inside the last write: ... Stop, Tear(k), Restart as master, appends, Stop
        f_torn = ex.submit(ctx.tlc, "FsBinlogMC", "FsBinlog_beh_torn.cfg", timeout=1800, name="torn-tail behaviour export",
                           workers=max(2, NCPU // 4), heap="4g")
        f_bin = ex.submit(ctx.go_build_test, "internal/vkgo/binlog/fsbinlog")
        mc, fine, beh, torn = f_mc.result(), f_fine.result(), f_beh.result(), f_torn.result()
        f_bin.result()
    ctx.require_model_ok(mc, "FsBinlog reader/damage invariants")
    ctx.require_model_ok(fine, "FsBinlog writer-loop invariants")
    ctx.require_model_ok(beh, "behaviour export")
    ctx.require_model_ok(torn, "torn-tail behaviour export")
    ctx.ev.set("exhaustive", True)
    bs = beh.behaviours
    maxlen = max(len(b) for b in bs)
    full = [b for b in bs if len(b) == maxlen or b[-1].get("a") == "Stop"]
    rnd = random.Random(ctx.seed)
    rnd.shuffle(full)
    # prefer histories in which something interesting happens: a big payload, a restart
    def score(b):
        s = 0
        if any(x.get("a") == "Append" and x.get("n", 0) > 30000 for x in b): s += 1
        if any(x.get("a") == "Restart" for x in b): s += 1
        return -s
    full.sort(key=score)
    ntake = 300 if th else 90
    take = full[: ntake // 2] + rnd.sample(full[ntake // 2:], min(len(full) - ntake // 2, ntake - ntake // 2)) if len(full) > ntake else full
    tb = list(torn.behaviours)
    if not any(x.get("a") == "Tear" for b in tb for x in b):
        raise Infra("torn-tail export produced no Tear history")
    rnd.shuffle(tb)
    take = take + tb[: (150 if th else 40)]
    env = {"VERIF_NRANDOM": 150 if th else 30,
           "VERIF_C18_TRUNC": 40 if th else 16, "VERIF_C18_FLIP": 70 if th else 30, "VERIF_C18_READ": 12 if th else 6,
           "VERIF_C18_ALLBELOW": 420 if th else 0, "VERIF_C18_ALLWORLDS": 30, "VERIF_C18_OSEVERY": 10}
    res, out, rc = ctx.go_test("internal/vkgo/binlog/fsbinlog", "TestVerifC18", inp=take, env=env, timeout=2400)
    res = ctx.need_result(res, out, rc, "TestVerifC18")
    if rc != 0:
        ctx.save("driver_failed.log", out[-20000:])
        raise Infra("driver TestVerifC18 failed (rc=%s): %s" % (rc, out[-1500:]))
    consts = res.get("consts", {})
    if consts.get("writeCrcEveryBytes") != 65536 or consts.get("levCrcSize") != 20 or consts.get("levRotateSize") != 36:
        raise Infra("code constants changed (%s): specs/FsBinlog*.cfg must be re-instantiated" % consts)
    trace = res["files"][0]
    parts = split_trace(ctx, trace, 8 if th else 3)
    ntr = res["replayed"]
    cnt = res.get("counters", {})
    cadence = 0
    for part, tv in validate_parts(ctx, parts, "trace validation"):
        cadence += sum(1 for l in tv.printed if "CADENCE_DEVIATION" in l)
        if not tv.violated:
            continue
        keep = ctx.save("rejected_trace.ndjson", open(part).read())
        tv2 = validate(ctx, keep, "trace re-validation")      # deterministic re-validation of the stored witness
        if tv2.violated != tv.violated:
            raise Infra("trace rejection not reproducible (%s / %s)" % (tv.violated, tv2.violated))
        line = rejected_line(tv)
        lines = open(part).read().splitlines()
        ctxt = []
        if line and 1 <= line <= len(lines) + 1:
            # an invariant fails in the state *after* the offending line was consumed
            i = min(line - 1 if (tv.violated or "").startswith("invariant") else line, len(lines)) - 1
            i = max(i, 0)
            j = i
            while j > 0 and '"ev":"Open"' not in lines[j]:
                j -= 1
            ctxt = [lines[j]] + lines[max(j + 1, i - 2): i + 1]
        ctx.save("rejected_observation.txt", "\n".join(ctxt))
        what = INV_WHAT.get((tv.violated or "").replace("invariant:", ""), "the real execution is not a behaviour of FsBinlog")
        ctx.violation(signature_of(tv, part), "real fsbinlog execution: %s (%s); observation: %s" % (
            what, tv.violated, ctxt[-1][:600] if ctxt else "?"), keep)
        ntr = 0
        break
    if cadence and not ctx.violations:
        # the property does not fix where crc32 / rotate records go, so this is not an alarm; but the
        # model-checked instance no longer transcribes the code
        raise Infra("the code places crc32/rotate records differently from FsBinlog.tla's CodedCrc/CodedRot "
                    "(%d appends): re-transcribe putLevToBuffer" % cadence)
    ctx.ev.add_impl("fsbinlog write histories + audits accepted by FsBinlogTrace", ntr, steps=cnt.get("events", 0),
                    from_tlc_behaviours=cnt.get("from_tlc", 0), random=res["replayed"] - cnt.get("from_tlc", 0),
                    reads=cnt.get("ev_Read", 0), commits=cnt.get("ev_Commit", 0), appends=cnt.get("ev_AppendCall", 0))
    ctx.ev.set("distinct_nontrivial", res.get("distinct", 0))
    for s in res.get("samples", [])[:6]:
        ctx.ev.sample(s)
    ctx.ev.assume("crc32 is abstracted by one bit (some consumed byte differs); single-byte changes are always detected by CRC-32")
    ctx.ev.assume("checksum record = levCrc32 or levRotateTo; levRotateFrom.Crc32 is the seed of the next file's chain, "
                  "so bytes after the last checksum record of a file (and the rotateTo record's own non-crc fields) are not covered")
    ctx.ev.assume("truncation = the logical stream cut at byte k (later files absent); cuts inside a file header "
                  "(LevStart / rotateFrom) and flips in bytes the directory scan or the engine's own framing interprets "
                  "(magics, lengths, CurLogPos) only have to never pass a later checksum record")
    ctx.ev.assume("fsync is observed on the gofs in-memory file system through its dirty-page tracking; real directories "
                  "are used for layout/replay only")
