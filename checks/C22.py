"""C22 - query time axes are aligned, gap-free and bounded.

Spec: Timescale.tla is the CONTRACT of data_model.GetTimescale / GetLODs as a relation between the
      arguments of a call and its result, clause by clause (strictly increasing; differences = the
      step of the covering level, calendar months from a month table; alignment under the
      configured offset / location; steps from the table and finer toward the present; point
      limit; the view = the points inside [start, end); coverage from StartX; storage ranges
      contiguous and equal to the points).
MC:   TimescaleModel.tla - a small abstract model of the level-of-detail planner (three table
      levels shaped like the real ones, steps 15/5/1, point budget 12); TLC enumerates every
      (start, end, step, now, width, offset, utc, resolution, mode, extend) of the instance and
      checks every clause of the contract on the model's output.
I->S: (1) boundary grid x seeded random inputs on the real GetTimescale/GetLODs with the real
      tables; every case is screened in Go and a stratified sample (plus every flagged case) is
      judged by TLC (TimescaleTrace.tla).  (2) the real planner with the model's tiny table over
      the model's whole input grid: judged by the contract and compared with the model's output
      (TimescaleSmallTrace.tla).  (3) roundTime / shiftTimestamp / calcUTCOffset of lod.go.
Level: contract validation of observed outputs plus the small abstract model (no exhaustive
      design-level result for the real tables)."""
import json
import re
from vlib import Infra

CLAUSES = ["ErrorsAgree", "NoUnexpectedError", "NonEmpty", "LODSteps", "LODFiner", "Limit", "Increasing", "LenSum",
           "PointShape", "Diffs", "Aligned", "View", "CoverStart", "CoverEnd", "Ranges",
           "Round", "Shift", "CalcRange", "CalcFixedZone", "CalcSomeZone", "CalcCurrentZone"]
MONTH = 2678400
REAL_CONSTS = {"maxPoints": 7680, "MaxSlice": 8192, "month": MONTH,
               "resolutions": "[1 5 15 60 300 900 3600 14400 86400 604800 2678400]"}


def signature(rec, clause):
    """Canonical class of a rejected record: a known finding only for exactly the inputs and clauses
    the finding is about, otherwise the clause of the contract."""
    if rec.get("ev") == "Q" and rec.get("step") == MONTH:
        if rec.get("dstgap"):  # some month of the range begins inside a gap of the local clock (driver, time.Date)
            return "month-start-in-dst-gap"
        if (rec.get("maxoff") or rec.get("off")) and clause in ("View", "CoverStart", "CoverEnd"):
            return "monthly-step-with-offset"
    if rec.get("ev") == "Calc" and clause == "CalcCurrentZone" and rec.get("zone0") != rec.get("zonenow"):
        return "calcUTCOffset-epoch-zone"
    return "contract:" + clause


def read_lines(path):
    with open(path) as f:
        return [l for l in f.read().split("\n") if l.strip()]


def judge(ctx, lines, stage, module="TimescaleTrace", timeout=1500):
    """Every recorded call is judged by every clause (CONSTRAINT Report prints <<"REJ", line, clause>>).
    Returns {line index (0-based): [clauses]}.  ModelAgrees is reported apart."""
    if not lines:
        return {}, {}
    tv = ctx.tlc(module, module + ".cfg", workers=1, files={"trace.ndjson": "\n".join(lines) + "\n"}, timeout=timeout,
                 heap="4g", name=stage)
    if tv.violated:
        raise Infra("%s: trace validation stopped: %s %s" % (stage, tv.violated, (tv.cex or "")[:600]))
    if tv.distinct != len(lines):
        raise Infra("%s: TLC visited %s states for %d recorded calls" % (stage, tv.distinct, len(lines)))
    rej, dis = {}, {}
    for p in tv.printed:
        m = re.match(r'<<"REJ", (\d+), "(\w+)">>', p)
        if not m:
            continue
        k, cl = int(m.group(1)) - 1, m.group(2)
        if cl == "ModelAgrees":
            dis.setdefault(k, []).append(cl)
        elif cl in CLAUSES:
            rej.setdefault(k, []).append(cl)
        else:
            raise Infra("%s: unknown clause %s" % (stage, cl))
    return rej, dis


def brief(rec, limit=900):
    d = dict(rec)
    if isinstance(d.get("time"), list) and len(d["time"]) > 12:
        d["time"] = d["time"][:6] + ["... %d points ..." % len(d["time"])] + d["time"][-4:]
    if isinstance(d.get("months"), list) and len(d["months"]) > 6:
        d["months"] = d["months"][:3] + ["..."] + d["months"][-2:]
    return json.dumps(d, separators=(",", ":"))[:limit]


def report(ctx, stage, lines, rej, module="TimescaleTrace"):
    """Turn rejections into violations (unknown ones are first re-validated alone, with the clauses as
    TLC invariants).  Returns the number of rejected records."""
    seen = set()
    for k in sorted(rej):
        rec = json.loads(lines[k])
        for cl in rej[k]:
            sig = signature(rec, cl)
            if sig in seen:
                continue
            seen.add(sig)
            keep = ctx.save("rejected_%s_%s.ndjson" % (re.sub(r"\W+", "_", stage), re.sub(r"\W+", "_", sig)), lines[k] + "\n")
            if sig.startswith("contract:"):
                tv = ctx.tlc(module, module + "_inv.cfg", workers=1, files={"trace.ndjson": lines[k] + "\n"}, timeout=600,
                             heap="4g", name=stage + " (re-validation)", expect_violation=True, record=False)
                if not (tv.violated or "").startswith("invariant:"):
                    raise Infra("%s: rejection by clause %s is not reproduced by the invariants (%s)" % (stage, cl, tv.violated))
            ctx.violation(sig, "%s: the real code's output violates clause %s of Timescale.tla: %s" % (stage, cl, brief(rec)), keep)
    return len(rej)


def unknown(ctx):
    return [v for v in ctx.violations if v[0].startswith("contract:")]


def assumptions(ctx):
    ctx.ev.assume("a range that begins after now (shifted by the largest metric offset) has no level of detail: an empty axis is accepted")
    ctx.ev.assume("month starts and zone offsets handed to the specification come from Go's time package (trusted)")
    ctx.ev.assume("timestamps between 1969 and 2036 (TLC integers are 32 bit); metric offsets are whole weeks "
                  "(whole 31-day months for the monthly step) or rejected with the offset error")
    ctx.ev.assume("the limit of the contract is MaxSlice (8192); the planner's own budget maxPoints+3 is checked on the model only")
    ctx.ev.assume("level of this check: contract validation of observed outputs plus a small abstract model; "
                  "no exhaustive design-level result for the real tables")


def run(ctx):
    th = ctx.thorough
    assumptions(ctx)
    ctx.ev.set("exhaustive", False)
    # 1. the real planner, real tables: generator -> Go screen of every case -> TLC on the sample
    res, out, rc = ctx.go_test("internal/data_model", "TestVerifC22Timescale",
                               env={"VERIF_NRANDOM": 100000 if th else 5000, "VERIF_GRID_STRIDE": 2 if th else 9,
                                    "VERIF_NTRACE": 2500 if th else 250, "VERIF_POINT_BUDGET": 600000 if th else 60000,
                                    "VERIF_PER_CLASS": 3 if th else 1, "VERIF_NMONTHOFF": 300 if th else 40,
                                    "VERIF_MAX_BIG": 60 if th else 4},
                               timeout=2400)
    res = ctx.need_result(res, out, rc, "TestVerifC22Timescale")
    consts = res.get("consts") or {}
    for k, v in REAL_CONSTS.items():
        if consts.get(k) != v:
            raise Infra("the code's constants changed (%s=%s, expected %s): re-instantiate specs/TimescaleTrace.cfg" % (k, consts.get(k), v))
    cnt = res.get("counters") or {}
    for n in (res.get("notes") or [])[:8]:
        ctx.log(n[:500])
    qlines = read_lines(res["files"][0])
    flagged = cnt.get("flagged", 0)
    ctx.ev.add_impl("generated inputs on GetTimescale/GetLODs screened against the contract in the driver", res["replayed"],
                    steps=res["steps"], classes=res.get("distinct"))
    for s in (res.get("samples") or [])[:2]:
        ctx.ev.sample(s)
    if flagged:
        # the screen flags something: let TLC judge these records right away (they come first in the file)
        rej, _ = judge(ctx, qlines[:flagged], "flagged by the driver's screen")
        report(ctx, "real code", qlines, rej)
        if unknown(ctx):
            return
        raise Infra("the driver's screen flags %d calls that TimescaleTrace accepts: %s" % (flagged, (res.get("notes") or [""])[0][:400]))

    # 2. lod.go helpers; one TLC run judges the planner's records and the helpers' records
    res5, out5, rc5 = ctx.go_test("internal/api", "TestVerifC22Lod", env={"VERIF_NRANDOM": 20000 if th else 1500}, timeout=2400)
    res5 = ctx.need_result(res5, out5, rc5, "TestVerifC22Lod")
    if (res5.get("consts") or {}).get("month") != MONTH:
        raise Infra("lod.go: _1M changed")
    hlines = read_lines(res5["files"][0])
    lines = qlines + hlines
    rej, _ = judge(ctx, lines, "real tables and lod.go helpers", timeout=3000)
    nrej = report(ctx, "real code", lines, rej)
    nq = sum(1 for k in rej if k < len(qlines))
    ctx.ev.add_impl("recorded (args, result) pairs of GetTimescale/GetLODs accepted by TimescaleTrace", len(qlines) - nq,
                    points=cnt.get("trace_points"), rejected=nq)
    ctx.ev.add_impl("roundTime/shiftTimestamp/calcUTCOffset calls accepted by TimescaleTrace", len(hlines) - (nrej - nq),
                    rejected=nrej - nq)
    if unknown(ctx):
        return

    # 3. the real planner with the model's tiny table over the model's grid
    res3, out3, rc3 = ctx.go_test("internal/data_model", "TestVerifC22Small",
                                  env={"VERIF_SMALL_STRIDE": 3 if th else 16, "VERIF_NTRACE": 4000 if th else 500}, timeout=2400)
    res3 = ctx.need_result(res3, out3, rc3, "TestVerifC22Small")
    for n in (res3.get("notes") or [])[:5]:
        ctx.log(n[:500])
    slines = read_lines(res3["files"][0])
    rej3, dis3 = judge(ctx, slines, "tiny table", module="TimescaleSmallTrace", timeout=3000)
    report(ctx, "tiny table", slines, rej3, module="TimescaleSmallTrace")
    if (res3.get("counters") or {}).get("flagged", 0) and not rej3:
        raise Infra("the driver's screen flags calls (tiny table) that TimescaleSmallTrace accepts")
    ctx.ev.add_impl("calls with the model's tiny table screened against the contract in the driver", res3["replayed"],
                    steps=res3["steps"], classes=res3.get("distinct"))
    ctx.ev.add_impl("tiny-table pairs accepted by TimescaleSmallTrace", len(slines) - len(rej3), rejected=len(rej3))
    ctx.ev.set("model_agrees_with_code_on", len(slines) - len(dis3))
    if dis3:
        # allowed by the property as long as the contract holds; the model no longer describes the planner
        k = sorted(dis3)[0]
        ctx.log("NOTE: the planner's output differs from TimescaleModel on %d of %d sampled inputs, e.g. %s" % (
            len(dis3), len(slines), brief(json.loads(slines[k]), 500)))
        ctx.ev.assume("the planner deviates from TimescaleModel on %d of %d sampled inputs of the tiny instance; "
                      "the model-checking result then speaks about the model only" % (len(dis3), len(slines)))
    if unknown(ctx):
        return

    # 4. the abstract model satisfies the contract (exhaustive over the instance)
    mc = ctx.tlc("TimescaleMC", "Timescale_mc_big.cfg" if th else "Timescale_mc.cfg", workers=8, heap="4g",
                 timeout=3000 if th else 900, name="TimescaleModel vs contract",
                 constants={"LevelRel": [35, 13, 0], "LevelSteps": [[15], [15, 5], [15, 5, 1]], "MaxPts": 12, "Limit": 16})
    ctx.require_model_ok(mc, "TimescaleModel satisfies the contract")
    if th:
        # non-vacuity: the instance contains axes of three levels and axes that use the whole budget
        for cfg, what in (("Timescale_probe_multi.cfg", "a three-level axis"), ("Timescale_probe_budget.cfg", "an axis of MaxPts+3 points")):
            pr = ctx.tlc("TimescaleMC", cfg, workers=4, heap="4g", timeout=900, name="probe: " + what, expect_violation=True, record=False)
            if not (pr.violated or "").startswith("invariant:Probe"):
                raise Infra("the model instance never produces %s (vacuous)" % what)
