"""C22 - WIP"""
from vlib import Infra


def run(ctx):
    th = ctx.thorough
    res, out, rc = ctx.go_test("internal/data_model", "TestVerifC22Timescale",
                               env={"VERIF_NRANDOM": 200000 if th else 30000}, timeout=1200)
    res = ctx.need_result(res, out, rc, "TestVerifC22Timescale")
    ctx.log(str(res.get("counters")))
    for n in res.get("notes", []):
        if not n.startswith("screen: View") and not n.startswith("screen: CoverEnd"):
            ctx.log(n[:600])
