import json
def S(name, cs, steps): return [{"a":"Scenario","name":name,"cs":cs}]+steps
def st(a, **kw): d={"a":a}; d.update(kw); return d
scen=[]
# A: a request that began after an invalidation joins the load that finished before it
scen.append(S("await-stale-inflight",2,[st("Start",g=1,lo=1,hi=2),st("LoadBegin",g=1),st("LoadEnd",g=1,ok=True),
  st("InvBegin",i=1,T=[1]),st("InvApply",i=1),st("Start",g=2,lo=1,hi=1),st("Post",g=1),st("GetEnd",g=2),st("GetEnd",g=1)]))
# B: a load superseded through a gap chunk publishes and resets the invalidation
scen.append(S("superseded-load-publishes",1,[st("Start",g=1,lo=2,hi=2),st("LoadBegin",g=1),st("LoadEnd",g=1,ok=True),
  st("InvBegin",i=1,T=[2]),st("InvApply",i=1),st("Start",g=2,lo=1,hi=3),st("LoadBegin",g=2),st("Post",g=1),
  st("Start",g=3,lo=2,hi=2),st("GetEnd",g=3),st("LoadEnd",g=2,ok=True),st("Post",g=2),st("GetEnd",g=2),st("GetEnd",g=1)]))
# B': the superseded load publishes after the newer one
scen.append(S("superseded-load-overwrites",1,[st("Start",g=1,lo=2,hi=2),st("LoadBegin",g=1),st("LoadEnd",g=1,ok=True),
  st("InvBegin",i=1,T=[2]),st("InvApply",i=1),st("Start",g=2,lo=1,hi=3),st("LoadBegin",g=2),st("LoadEnd",g=2,ok=True),st("Post",g=2),
  st("Post",g=1),st("Start",g=3,lo=2,hi=2),st("GetEnd",g=3),st("GetEnd",g=2),st("GetEnd",g=1)]))
# memory: two loads that together exceed the hard limit, trim empties the cache meanwhile
scen.append(S("mem-two-loads-over-hard-limit",2,[st("Start",g=1,lo=1,hi=2),st("LoadBegin",g=1),st("LoadEnd",g=1,ok=True),st("Post",g=1),st("GetEnd",g=1),
  st("SetLimits",hard=40,soft=30),st("HoldTrim"),
  st("Start",g=2,lo=3,hi=4,announce=True),st("LoadBegin",g=2),st("Start",g=3,lo=5,hi=6,announce=True),st("LoadBegin",g=3),
  st("Announce",g=2,rows=30),st("WaitTrimParked"),st("Announce",g=3,rows=30),st("Announce",g=2,rows=1),st("ReleaseTrim"),st("Yield"),
  st("LoadEnd",g=2,ok=True),st("LoadEnd",g=3,ok=True),st("Post",g=2),st("Post",g=3)]))
# reset while a trim pass has collected the buckets
scen.append(S("reset-during-trim-pass",2,[st("Start",g=1,lo=1,hi=2),st("LoadBegin",g=1),st("LoadEnd",g=1,ok=True),st("Post",g=1),st("GetEnd",g=1),
  st("HoldTrim"),st("TrimPass"),st("WaitTrimParked"),st("Reset"),st("ReleaseTrim"),st("WaitTrimPass"),
  st("Start",g=2,lo=1,hi=2),st("LoadBegin",g=2),st("LoadEnd",g=2,ok=True),st("Post",g=2),st("GetEnd",g=2)]))
# failed load with awaiters
scen.append(S("failed-load-awaiters",2,[st("Start",g=1,lo=1,hi=4),st("LoadBegin",g=1),st("Start",g=2,lo=2,hi=3),st("Start",g=3,lo=4,hi=5),st("LoadBegin",g=3),
  st("LoadEnd",g=1,ok=False),st("LoadEnd",g=3,ok=True),st("Post",g=3),st("GetEnd",g=1),st("GetEnd",g=2),st("GetEnd",g=3),
  st("Start",g=4,lo=1,hi=4),st("LoadBegin",g=4),st("LoadEnd",g=4,ok=True),st("Post",g=4),st("GetEnd",g=4)]))
# trim while loading with awaiters, then reload
scen.append(S("trim-while-loading",2,[st("Start",g=1,lo=1,hi=4),st("LoadBegin",g=1),st("Start",g=2,lo=3,hi=4),st("Trim",T=[2]),st("Start",g=3,lo=3,hi=4),st("LoadBegin",g=3),
  st("LoadEnd",g=1,ok=True),st("Post",g=1),st("LoadEnd",g=3,ok=True),st("Post",g=3),st("GetEnd",g=1),st("GetEnd",g=2),st("GetEnd",g=3),
  st("Start",g=4,lo=1,hi=4),st("GetEnd",g=4)]))
# two loads of one chunk in flight, the older one read the storage before the invalidation; a request that
# awaits the newer load must not be answered by the older one
scen.append(S("old-load-answers-awaiter",2,[st("Start",g=1,lo=1,hi=2),st("LoadBegin",g=1),st("LoadEnd",g=1,ok=True),
  st("InvBegin",i=1,T=[1]),st("InvApply",i=1),
  st("Start",g=2,lo=1,hi=2),st("LoadBegin",g=2),st("Start",g=3,lo=1,hi=2),st("Start",g=4,lo=2,hi=2),
  st("Post",g=1),st("GetEnd",g=3),st("GetEnd",g=4),st("GetEnd",g=1),
  st("LoadEnd",g=2,ok=True),st("Post",g=2),st("GetEnd",g=2),st("GetEnd",g=3),st("GetEnd",g=4)]))
# a chunk invalidated while it is being loaded stays invalidated after the load is published
scen.append(S("invalidated-while-loading",2,[st("Start",g=1,lo=1,hi=2),st("LoadBegin",g=1),st("LoadEnd",g=1,ok=True),
  st("InvBegin",i=1,T=[1]),st("InvApply",i=1),st("Post",g=1),st("GetEnd",g=1),
  st("Start",g=2,lo=1,hi=2),st("LoadBegin",g=2),st("LoadEnd",g=2,ok=True),st("Post",g=2),st("GetEnd",g=2)]))
# an invalidation naming several chunks reaches all of them
scen.append(S("invalidate-two-chunks",2,[st("Start",g=1,lo=1,hi=6),st("LoadBegin",g=1),st("LoadEnd",g=1,ok=True),st("Post",g=1),st("GetEnd",g=1),
  st("InvBegin",i=1,T=[1,2,3]),st("InvApply",i=1),
  st("Start",g=2,lo=2,hi=6),st("LoadBegin",g=2),st("LoadEnd",g=2,ok=True),st("Post",g=2),st("GetEnd",g=2),
  st("InvBegin",i=2,T=[3]),st("InvApply",i=2),
  st("Start",g=3,lo=1,hi=6),st("LoadBegin",g=3),st("LoadEnd",g=3,ok=True),st("Post",g=3),st("GetEnd",g=3)]))
# shard level: a bucket is removed (as trim does) while invalidate is between two buckets and its cursor points to it
scen.append(S("invalidate-vs-removal-of-next-bucket",2,[st("Start",g=1,lo=1,hi=2),st("LoadBegin",g=1),st("LoadEnd",g=1,ok=True),st("Post",g=1),st("GetEnd",g=1),
  st("Start",g=2,key="j",lo=1,hi=2),st("LoadBegin",g=2),st("LoadEnd",g=2,ok=True),st("Post",g=2),st("GetEnd",g=2),
  st("InvBegin",i=1,T=[1]),st("RemoveBucket",key="~gate2"),st("InvApply",i=1),
  st("Start",g=3,lo=1,hi=2),st("LoadBegin",g=3),st("LoadEnd",g=3,ok=True),st("Post",g=3),st("GetEnd",g=3),
  st("Start",g=4,key="j",lo=1,hi=2),st("LoadBegin",g=4),st("LoadEnd",g=4,ok=True),st("Post",g=4),st("GetEnd",g=4)]))
# the same deeper in the list: parked at the bucket of k, the bucket of j goes, then m is asked
scen.append(S("invalidate-vs-removal-mid-list",2,[st("Start",g=1,lo=1,hi=4),st("LoadBegin",g=1),st("LoadEnd",g=1,ok=True),st("Post",g=1),st("GetEnd",g=1),
  st("Start",g=2,key="j",lo=1,hi=4),st("LoadBegin",g=2),st("LoadEnd",g=2,ok=True),st("Post",g=2),st("GetEnd",g=2),
  st("Start",g=3,key="m",lo=2,hi=3),st("LoadBegin",g=3),st("LoadEnd",g=3,ok=True),st("Post",g=3),st("GetEnd",g=3),
  st("InvBegin",i=1,T=[1,2],at="k"),st("RemoveBucket",key="j"),st("InvApply",i=1),
  st("Start",g=4,key="m",lo=1,hi=4),st("LoadBegin",g=4),st("LoadEnd",g=4,ok=True),st("Post",g=4),st("GetEnd",g=4),
  st("Start",g=5,key="j",lo=1,hi=4),st("LoadBegin",g=5),st("LoadEnd",g=5,ok=True),st("Post",g=5),st("GetEnd",g=5),
  st("Start",g=6,lo=1,hi=4),st("LoadBegin",g=6),st("LoadEnd",g=6,ok=True),st("Post",g=6),st("GetEnd",g=6)]))
# the removed bucket is created again while invalidate is still parked (a bucket created during the call needs no visit)
scen.append(S("invalidate-vs-removal-and-recreate",2,[st("Start",g=1,lo=1,hi=2),st("LoadBegin",g=1),st("LoadEnd",g=1,ok=True),st("Post",g=1),st("GetEnd",g=1),
  st("Start",g=2,key="j",lo=1,hi=2),st("LoadBegin",g=2),st("LoadEnd",g=2,ok=True),st("Post",g=2),st("GetEnd",g=2),
  st("InvBegin",i=1,T=[1],at="k"),st("RemoveBucket",key="j"),st("Start",g=3,key="j",lo=1,hi=2),st("LoadBegin",g=3),st("LoadEnd",g=3,ok=True),st("Post",g=3),st("GetEnd",g=3),
  st("InvApply",i=1),st("Start",g=4,key="j",lo=1,hi=2),st("GetEnd",g=4),st("Start",g=5,lo=1,hi=2),st("LoadBegin",g=5),st("LoadEnd",g=5,ok=True),st("Post",g=5),st("GetEnd",g=5)]))
# memory: a Signal that arrives while the trim goroutine is finishing a pass is lost; it must not go to sleep over the soft limit
scen.append(S("mem-trim-sleeps-over-soft-limit",2,[st("Start",g=1,lo=1,hi=2),st("LoadBegin",g=1),st("LoadEnd",g=1,ok=True),st("Post",g=1),st("GetEnd",g=1),
  st("HoldTrim"),st("SetLimitsRel",under=1,room=200),st("WaitTrimParked"),
  st("HoldBucket",key="~gate1"),st("ReleaseTrim"),st("WaitParked",fn="removeBucket"),st("HoldTrim"),st("ReleaseBucket"),st("WaitTrimParked"),
  st("Start",g=2,key="j",lo=1,hi=40),st("LoadBegin",g=2),st("LoadEnd",g=2,ok=True),st("Post",g=2),st("GetEnd",g=2),
  st("Start",g=3,lo=5,hi=6,announce=True,nowait=False),st("LoadBegin",g=3),st("Yield"),
  st("ReleaseTrim"),st("Yield"),st("LoadEnd",g=3,ok=True),st("Post",g=3),st("GetEnd",g=3)]))
open('/verif/checks/C23_scenarios.json','w').write(json.dumps(scen,indent=None,separators=(",",":")).replace('],[{"a":"Scenario"','],\n[{"a":"Scenario"'))
with open('/tmp/c23_scenarios.ndjson','w') as f:
    for s in scen: f.write(json.dumps(s)+"\n")
print(len(scen))
