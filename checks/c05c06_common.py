"""Shared machinery of the checks C05 (sampling keeps expected values) and C06 (sampling is fair).

MC:    specs/Sampler.tla (sampler.run's water-filling and sampler.sample / sampleQuota transcribed,
       properties as invariants on ghost state) checked exhaustively by TLC over the families of
       specs/SamplerMC.tla (Sampler_*.cfg: flat / tree / keys / bud / agent / quota with the
       deterministic hooks, any / anybud with every subset the random selector may keep and
       every rounding), plus two sanity runs that MUST fail: the specification of the code
       before the fix (legacy) and the kept-bytes bound without the uniform-size restriction.
S->I:  every input TLC enumerated (exported from the final states) is executed on the real
       NewSampler/Add/Run with the deterministic hooks, with the real selectRandom and with the
       real roundSampleFactor; what the property fixes is compared with the model.
I->S:  recorded executions (model inputs + seeded random realistic buckets, real selectRandom)
       are validated by specs/SamplerTrace.tla, which evaluates the invariants of Sampler on the
       real decisions.
stat:  keep frequency of every row over >= 20000 seeded runs of the production path against
       1/SF (the only statistical step; tolerance 9 sigma + 12).
Call sites: agent Shard.sampleBucket (C05) and aggregator calcHostMetricBudgets (C06)."""
import concurrent.futures, json, os, random
from vlib import Infra, load_known

SIG_ONCE = "exactly-once: row neither kept nor discarded exactly once"
SIG_MUST = "fair-share: row of a partition within its share not kept with factor 1"
SIG_NSA = "noSampleAgent: row of a not-to-sample metric not kept with factor 1 on the agent"
SIG_FITS = "fits: bucket within budget but rows sampled"
SIG_SFLT1 = "factor<1: kept row carries a sample factor below 1"
SIG_SELECTOR = "factor: row's factor differs from the factor its selector call was given"
SIG_UNCOND = "factor: row kept without selection carries factor != 1"
SIG_BUDGET = "kept>budget: uniform item sizes"
SIG_BUDGET_NU = "kept>budget: non-uniform item sizes in sampled leaf"
SIG_BUDGET_UNIT = "kept>budget: 1-byte rows in a leaf whose share rounds to zero"
SIG_MONOTONE = "monotone: larger size/weight ratio got a smaller sample factor"
SIG_QUOTA = "quota: budget handed back is not the proportional share"
SIG_QUOTA_SUM = "quota: budgets handed back exceed the total"
SIG_PANIC = "panic in sampler"
SIG_STAT = "keep-probability: keep frequency differs from 1/SF"
SIG_ROUNDF = "roundSampleFactor: result is neither floor nor floor+1 of a fractional share"
SIG_SELECT1 = "selectRandom: does not keep every row for sf <= 1"
SIG_AGENT = "agent: sampleBucket loses a row, sends it twice or scales a not-to-sample row"
SIG_AGGQUOTA = "aggregator: host metric budgets not proportional or above the receive budget"

OWN = {
    "C05": {SIG_ONCE, SIG_NSA, SIG_SFLT1, SIG_SELECTOR, SIG_UNCOND, SIG_PANIC, SIG_STAT, SIG_SELECT1, SIG_AGENT},
    "C06": {SIG_MUST, SIG_FITS, SIG_BUDGET, SIG_BUDGET_NU, SIG_BUDGET_UNIT, SIG_MONOTONE, SIG_QUOTA, SIG_QUOTA_SUM,
            SIG_PANIC, SIG_ROUNDF, SIG_AGGQUOTA},
}
# invariant of SamplerTrace -> signature
INV_SIG = {
    "AtMostOnce": SIG_ONCE, "ExactlyOnce": SIG_ONCE, "TrUnbiased": SIG_SELECTOR, "KeptRowsFactorGE1": SIG_SFLT1,
    "NoSampleAgentKept": SIG_NSA, "SelectorConsistent": SIG_SELECTOR,
    "FitsNothingSampled": SIG_FITS, "FairShare": SIG_MUST, "FixedWithinBudget": SIG_MUST, "FairShareRemaining": SIG_MUST,
    "TrKeptWithinBudget": SIG_BUDGET, "TrMonotone": SIG_MONOTONE, "QuotaProportional": SIG_QUOTA,
    "QuotaFitIsSize": SIG_QUOTA, "TrQuotaWithinTotal": SIG_QUOTA_SUM,
}
C05_INVS = "AtMostOnce ExactlyOnce TrUnbiased KeptRowsFactorGE1 NoSampleAgentKept SelectorConsistent"
C06_INVS = ("FitsNothingSampled FairShare FixedWithinBudget FairShareRemaining TrKeptWithinBudget TrMonotone "
            "QuotaProportional QuotaFitIsSize TrQuotaWithinTotal")

QUICK = ["flat", "wide", "fixfirst", "tree", "keys", "bud", "agent", "quota", "any", "anybud"]
THOROUGH = ["flat", "flat_big", "wide", "wide_big", "fixfirst", "fixfirst_big", "tree", "tree_big", "treefloor_big", "keys_big", "bud_big", "agent_big", "quota",
            "quota_big", "any_big", "anybud_big"]


def trace_cfg(invs):
    return ("SPECIFICATION TraceSpec\nCONSTANTS\n  RoundMode = \"trace\"\n  SelectMode = \"trace\"\n  LegacyBreak = FALSE\n"
            "VIEW TraceView\nCONSTRAINT HighWater\nINVARIANTS %s\nPOSTCONDITION TraceAccepted\nCHECK_DEADLOCK FALSE\n" % invs)


def report(ctx, pid, mismatches, stage):
    """mismatches of a Go driver -> violations of this property (other property's classes are its check's job)"""
    n = 0
    seen = set()
    known = {k.get("signature") for k in load_known() if k.get("property") == pid and k.get("status") == "known"}
    for mm in mismatches or []:
        sig = mm.get("sig") or stage
        if sig not in OWN[pid] or sig in seen:
            continue
        seen.add(sig)
        n += sig not in known
        p = ctx.save("%s_%d.json" % (stage, len(seen)), mm)
        ctx.violation(sig, "%s: %s [%s]" % (stage, str(mm.get("got"))[:300], mm.get("note", "")), p)
    return n


def unknown_violation(ctx, pid):
    known = {k.get("signature") for k in load_known() if k.get("property") == pid and k.get("status") == "known"}
    return any(sig not in known for sig, _w, _r in ctx.violations)


def run(ctx, pid):
    th = ctx.thorough
    # tools/selftest (development aid: is a mutation of the code caught?) skips the instances that do not
    # involve the code at all (no export) - the verdict about the code never depends on them
    selftest = os.environ.get("VERIF_SELFTEST") == "1"
    rnd = random.Random(ctx.seed)
    fams = THOROUGH if th else QUICK
    par = 3

    def mc(name):
        return name, ctx.tlc("SamplerMC", "Sampler_%s.cfg" % name, workers=5 if th else 4, timeout=14400 if th else 5400,
                             name="Sampler/" + name, coverage=False)

    results = {}
    with concurrent.futures.ThreadPoolExecutor(max_workers=par) as ex:
        if selftest:
            fams = [f for f in fams if not f.startswith("any")]
        for name, res in ex.map(mc, fams + ([] if selftest else ["legacy", "anysizes"])):
            results[name] = res
    # sanity: the invariants are live
    leg = results.pop("legacy", None)
    if leg is None:
        pass
    elif not leg.violated or not leg.violated.startswith("invariant:"):
        raise Infra("the specification of the pre-fix code no longer violates the properties (vacuous invariants?)")
    anys = results.pop("anysizes", None)
    if anys is not None and anys.violated != "invariant:KeptWithinBudgetAnySizes":
        raise Infra("kept<=budget without the uniform-size restriction is expected to fail in the model: %s" % anys.violated)
    if leg is not None:
        ctx.ev.set("sanity_model_counterexamples", {"legacy(LegacyBreak=TRUE)": leg.violated, "anysizes": anys.violated})
    cases = {}
    for name in fams:
        res = results[name]
        ctx.require_model_ok(res, "Sampler invariants, family " + name)
        for b in res.behaviours:
            key = json.dumps(b["input"], sort_keys=True) + b["rmode"]
            cases.setdefault(key, b)       # one per input (whale-weight ties give several final states)
    ctx.ev.set("exhaustive", True)
    cases = [cases[k] for k in sorted(cases)]
    rnd.shuffle(cases)
    ctx.log("inputs exported by TLC: %d" % len(cases))
    if len(cases) < 1000:
        raise Infra("too few inputs exported (%d)" % len(cases))

    # ---- S->I
    res, out, rc = ctx.go_test("internal/data_model", "TestVerifC05C06Replay", inp=cases, timeout=7200)
    res = ctx.need_result(res, out, rc, "TestVerifC05C06Replay")
    if res["replayed"] != len(cases):
        raise Infra("replay handled %s of %d cases" % (res["replayed"], len(cases)))
    bad = report(ctx, pid, res.get("mismatches"), "replay")
    ctx.ev.add_impl("TLC-enumerated inputs executed on NewSampler/Add/Run (det hooks, real selectRandom, real RoundF)",
                    0 if bad else res["replayed"], steps=res["steps"], distinct_classes=res.get("distinct"),
                    outcome_equals_model=res["counters"].get("plan_equal"), outcome_differs_from_model=res["counters"].get("plan_differs"))
    for s in res.get("samples", [])[:3]:
        ctx.ev.sample(s)

    if unknown_violation(ctx, pid):
        return
    # ---- I->S
    take = cases[: (1500 if th else 200)]
    res, out, rc = ctx.go_test("internal/data_model", "TestVerifC05C06Trace", inp=take,
                               env={"VERIF_NRANDOM": 800 if th else 80, "VERIF_NBIG": 80 if th else 8,
                                    "VERIF_CHUNK": 600 if th else 150}, timeout=7200)
    res = ctx.need_result(res, out, rc, "TestVerifC05C06Trace")
    report(ctx, pid, res.get("mismatches"), "trace-driver")
    files = res.get("files") or []
    if not files:
        raise Infra("trace driver produced no trace")
    cfgtext = trace_cfg(C05_INVS if pid == "C05" else C06_INVS)

    def tv(i_path):
        i, path = i_path
        return path, ctx.tlc("SamplerTrace", "SamplerTraceRun.cfg", workers=1, files={"trace.ndjson": path, "SamplerTraceRun.cfg": cfgtext},
                             timeout=7200, name="trace validation %d" % i, expect_violation=True, heap="4g")

    accepted = nrej = 0
    with concurrent.futures.ThreadPoolExecutor(max_workers=4) as ex:
        tvs = list(ex.map(tv, enumerate(files)))
    for path, t in tvs:
        nruns = sum(1 for line in open(path) if '"ev":"Reset"' in line)
        if t.violated:
            nrej += 1
            keep = ctx.save("rejected_trace_%d.ndjson" % nrej, open(path).read())
            where = [l for l in t.printed if "TRACE_REJECTED" in l]
            if t.violated.startswith("invariant:"):
                sig = INV_SIG.get(t.violated.split(":", 1)[1], t.violated)
            else:
                sig = SIG_ONCE if pid == "C05" else SIG_MUST
                if not where:
                    raise Infra("trace validation failed without a rejection point: %s" % t.violated)
            ctx.violation(sig, "real sampler execution rejected by SamplerTrace: %s %s" % (t.violated, where), keep)
        else:
            accepted += nruns
    ctx.ev.add_impl("sampler executions (real selectRandom, floor/ceil RoundF) accepted by SamplerTrace", accepted,
                    steps=res["steps"], random_buckets=res["replayed"] - len(take), from_tlc_inputs=len(take))

    if unknown_violation(ctx, pid):
        return
    # ---- statistical step (C05 only) and helper contracts
    if pid == "C05":
        nstat = 100 if th else 16
        elig = [c for c in cases if c["leaves"] and not c["input"]["opts"]["quota"]]
        whales = [c for c in elig if any(l["pos"] > 0 for l in c["leaves"])]
        plain = [c for c in elig if not any(l["pos"] > 0 for l in c["leaves"])]
        sample = whales[: nstat // 2] + plain[: nstat - min(len(whales), nstat // 2)]
        if not whales:
            raise Infra("no exported input with whales for the statistical step")
        res, out, rc = ctx.go_test("internal/data_model", "TestVerifC05C06Stat", inp=sample,
                                   env={"VERIF_NRANDOM": 20 if th else 4, "VERIF_NRUNS": 20000}, timeout=7200)
        res = ctx.need_result(res, out, rc, "TestVerifC05C06Stat")
        bad = report(ctx, pid, res.get("mismatches"), "stat")
        ctx.ev.add_impl("inputs x 20000 seeded runs of the production path (keep frequency vs 1/SF)", 0 if bad else res["replayed"],
                        steps=res["steps"], row_tests=res["counters"].get("row_tests"))
        ctx.ev.assume("statistical sub-claim (keep probability = 1/SF): per-row keep frequency over 20000 seeded runs of the "
                      "production path within 9 sigma + 12 of 20000/SF (Bernstein bound: false alarm < 2e-12 per row, "
                      "< 1e-8 per run); everything else is exact")
    else:
        res, out, rc = ctx.go_test("internal/data_model", "TestVerifC05C06Stat", inp=[], env={"VERIF_NRANDOM": 0, "VERIF_NRUNS": 1},
                                   timeout=7200)
        res = ctx.need_result(res, out, rc, "TestVerifC05C06Stat")
        report(ctx, pid, res.get("mismatches"), "contracts")

    if unknown_violation(ctx, pid):
        return
    # ---- call sites
    if pid == "C05":
        res, out, rc = ctx.go_test("internal/agent", "TestVerifC05AgentSampleBucket", env={"VERIF_N": 400 if th else 60}, timeout=7200)
        res = ctx.need_result(res, out, rc, "TestVerifC05AgentSampleBucket")
        bad = report(ctx, pid, res.get("mismatches"), "agent")
        ctx.ev.add_impl("buckets through agent Shard.sampleBucket", 0 if bad else res["replayed"], steps=res["steps"])
    else:
        res, out, rc = ctx.go_test("internal/aggregator", "TestVerifC06HostBudgets", env={"VERIF_N": 2000 if th else 300}, timeout=7200)
        res = ctx.need_result(res, out, rc, "TestVerifC06HostBudgets")
        bad = report(ctx, pid, res.get("mismatches"), "aggregator")
        ctx.ev.add_impl("buckets through aggregator calcHostMetricBudgets", 0 if bad else res["replayed"], steps=res["steps"])

    ctx.ev.assume("RoundF returns floor or floor+1 of a fractional share (checked on roundSampleFactor directly); the model "
                  "checks every such choice, the replay uses floor / ceil hooks and the real function")
    ctx.ev.assume("per-metric fixed budgets: all rows of a metric carry the same Budget (as the agent sets it)")
    ctx.ev.assume("kept<=budget is claimed for leaves with uniform row sizes and rows of at least 2 bytes when a leaf's share "
                  "rounds to 0; deterministic hooks SelectF=floor(len/sf), RoundF=floor; no SampleKeepSingle / noSampleAgent rows")
    ctx.ev.assume("quota sum <= total is claimed for RoundF=floor; with random rounding each rounded group adds < 1 unit (model-checked)")
