"""C06 - sampling is fair (see c05c06_common.py)."""
import importlib.util, os
_p = os.path.join(os.path.dirname(os.path.abspath(__file__)), "c05c06_common.py")
_s = importlib.util.spec_from_file_location("c05c06_common", _p)
common = importlib.util.module_from_spec(_s)
_s.loader.exec_module(common)


def run(ctx):
    common.run(ctx, "C06")
