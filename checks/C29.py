"""C29 - query admission: per-user round-robin queue and weighted semaphore.

MC:   RRQueue.tla / WSem.tla (the code's critical sections transcribed + the property on an
      abstract layer with ghost state), exhaustive over small instances, all interleavings;
      liveness under fairness in separate configurations; defective variants of the
      mechanism (Bug constant) must make the invariants fire (vacuity check, thorough tier).
S->I: behaviours exported by TLC (every transition of a small instance + seeded simulation of
      a larger one) are executed on the real Queue / Weighted with real goroutines; outcomes,
      Observe(), the waiting set and the woken/admitted waiters are compared after each step.
I->S: the same executions plus seeded random free-running concurrent runs are recorded at the
      linearization points (hooks under the mutex) and validated by RRQueueTrace / WSemTrace,
      which evaluate the property invariants after every critical section of the real code."""
import os, random, re
from concurrent.futures import ThreadPoolExecutor
from vlib import Infra

QPKG = "internal/util/queue"
SPKG = "internal/vkgo/semaphore"


def cfg_with(ctx, base, **repl):
    """Text of specs/<base> with `Name = value` lines replaced (instances derived in one place)."""
    txt = open(os.path.join(ctx.root, "specs", base)).read()
    for k, v in repl.items():
        txt, n = re.subn(r"(?m)^(\s*%s\s*(?:=|<-)\s*).*$" % re.escape(k), lambda m: m.group(1) + v, txt)
        if n != 1:
            raise Infra("cfg template %s has no line for %s" % (base, k))
    return txt


def pick(behs, k, rnd):
    """Sample k behaviours, preferring long ones (every prefix of a behaviour is executed anyway)."""
    behs = sorted(behs, key=len, reverse=True)
    head = behs[: k // 2]
    rest = behs[k // 2:]
    rnd.shuffle(rest)
    return head + rest[: k - len(head)]


def split_runs(path, parts):
    """Split an ndjson trace at Reset events into <= parts files of whole runs."""
    runs, cur = [], []
    with open(path) as f:
        for line in f:
            if '"ev":"Reset"' in line and cur:
                runs.append(cur)
                cur = []
            cur.append(line)
    if cur:
        runs.append(cur)
    parts = max(1, min(parts, len(runs)))
    chunks = [[] for _ in range(parts)]
    for i, r in enumerate(runs):
        chunks[i * parts // len(runs)].append(r)
    return chunks


def validate(ctx, pool, which, module, trace, parts):
    """Validate a recorded trace; returns number of accepted runs, reports violations."""
    chunks = split_runs(trace, parts)
    paths = []
    for i, ch in enumerate(chunks):
        p = os.path.join(ctx.tmp, "%s_chunk_%d.ndjson" % (which, i))
        with open(p, "w") as f:
            for r in ch:
                f.writelines(r)
        paths.append(p)

    def one(i):
        return ctx.tlc(module, module + ".cfg", workers=1, files={"trace.ndjson": paths[i]}, timeout=3000,
                       name="%s trace validation %d" % (which, i), expect_violation=True, heap="2g")
    results = list(pool.map(one, range(len(paths))))
    accepted = 0
    for i, tv in enumerate(results):
        if not tv.violated:
            accepted += len(chunks[i])
            continue
        # locate the offending run: the high-water line number is printed by the postcondition
        line = None
        for pr in tv.printed:
            m = re.search(r"TRACE_REJECTED_AT_LINE\", (\d+)", pr)
            if m:
                line = int(m.group(1))
        witness, n = chunks[i][-1], 0
        if line is not None:
            for r in chunks[i]:
                if n + len(r) >= line - 1:
                    witness = r
                    break
                n += len(r)
                accepted += 1
        keep = ctx.save("%s_rejected_run_%d.ndjson" % (which, i), "".join(witness))
        tv2 = ctx.tlc(module, module + ".cfg", workers=1, files={"trace.ndjson": keep}, timeout=600,
                      name="%s witness re-validation" % which, expect_violation=True, record=False)
        if not tv2.violated:
            raise Infra("%s: trace rejection not reproducible on the isolated run (%s)" % (which, keep))
        viol = tv2.violated
        sig = "%s-trace-%s" % (which, viol.split(":", 1)[1] if viol.startswith("invariant:") else "rejected")
        ctx.violation(sig, "real %s execution (%d events) violates %s" % (which, len(witness), viol), keep)
    return accepted


def drive(ctx, which, pkg, test, behs, nrandom):
    res, out, rc = ctx.go_test(pkg, test, inp=behs, env={"VERIF_NRANDOM": nrandom}, timeout=2400)
    res = ctx.need_result(res, out, rc, test)
    cnt = res.get("counters") or {}
    if cnt.get("stuck"):
        p = ctx.save("driver_stuck_%s.log" % which, out[-20000:])
        raise Infra("%s driver stuck (%s), see %s" % (which, res.get("notes"), p))
    if rc != 0:
        p = ctx.save("driver_failed_%s.log" % which, out[-20000:])
        raise Infra("%s driver failed rc=%s, see %s" % (which, rc, p))
    if not res.get("files"):
        raise Infra("%s driver produced no trace" % which)
    return res


def run(ctx):
    th = ctx.thorough
    rnd = random.Random(ctx.seed)
    pool = ThreadPoolExecutor(max_workers=4)      # at most four JVMs / builds at a time
    selftest = bool(os.environ.get("VERIF_SELFTEST"))  # mutation runs skip the jobs that do not touch the code
    H = "2g"

    def tlc(key, module, cfg, **kw):
        kw.setdefault("heap", H)
        kw.setdefault("timeout", 3000)
        jobs[key] = pool.submit(ctx.tlc, module, cfg, **kw)

    # ---------------------------------------------------------------- 1. model checking
    jobs = {}
    # builds first (they are needed last, and run beside the model checker)
    jobs["qbuild"] = pool.submit(ctx.go_build_test, QPKG)
    jobs["sbuild"] = pool.submit(ctx.go_build_test, SPKG)
    # behaviour export: every transition of a small instance + seeded simulation of a larger one
    # (the export configurations also check the invariants: 3 users x 1 query / 3 acquirers exhaustively)
    tlc("qbeh", "RRQueueMC", "RRQueue_beh_big.cfg" if th else "RRQueue_beh.cfg", workers=2, name="RRQueue behaviour export")
    tlc("sbeh", "WSemMC", "WSem_beh_big.cfg" if th else "WSem_beh.cfg", workers=2, name="WSem behaviour export")
    tlc("qsim", "RRQueueMC", "RRQueue_sim.cfg", simulate=(100 if th else 25, 70), name="RRQueue simulation export")
    tlc("ssim", "WSemMC", "WSem_sim.cfg", simulate=(100 if th else 25, 70), name="WSem simulation export")
    vac = {}
    if not selftest:
        tlc("qmc", "RRQueueMC", "RRQueue_mc.cfg", workers=2, coverage=th, name="RRQueue exhaustive (2 users x 2 queries)",
            constants={"cfg": "RRQueue_mc.cfg"})
        tlc("smc", "WSemMC", "WSem_mc.cfg", workers=2, coverage=th, name="WSem exhaustive (3 acquirers)",
            constants={"cfg": "WSem_mc.cfg"})
        tlc("qlive", "RRQueueMC", "RRQueue_live.cfg", workers=2, name="RRQueue liveness (recycling queries, 3 users)")
        tlc("slive", "WSemMC", "WSem_live_big.cfg" if th else "WSem_live.cfg", workers=2, name="WSem liveness")
    if th and not selftest:
        tlc("qmcbig", "RRQueueMC", "RRQueue_mc_big.cfg", workers=8, heap="8g", name="RRQueue exhaustive (3 users x 2 queries)",
            constants={"cfg": "RRQueue_mc_big.cfg"})
        tlc("smcbig", "WSemMC", "WSem_mc_big.cfg", workers=4, heap="4g", name="WSem exhaustive (4 acquirers)",
            constants={"cfg": "WSem_mc_big.cfg"})
        tlc("qlive2", "RRQueueMC", "RRQueue_live_big.cfg", workers=4, heap="4g",
            name="RRQueue liveness (recycling queries, 2 users x 2)")
        # vacuity: the defective mechanisms must violate exactly the invariant that guards them
        for bug, inv in (("eq", "CapacityAtGrant"), ("noadj", "NoLostWakeup"), ("same", "RoundRobinFair"), ("lifo", "UserFIFO")):
            txt = cfg_with(ctx, "RRQueue_mc_big.cfg", Bug='"%s"' % bug)
            vac[("RRQueue", bug, inv)] = pool.submit(ctx.tlc, "RRQueueMC", "vac_q_%s.cfg" % bug, files={"vac_q_%s.cfg" % bug: txt},
                                                     workers=2, timeout=3000, record=False, expect_violation=True, heap=H)
        for bug, inv in (("lifo", "FIFO"), ("nonotify", "NoLostWakeup"), ("skip", "FIFO"), ("cancelkeep", None)):
            txt = cfg_with(ctx, "WSem_mc.cfg", Bug='"%s"' % bug)
            vac[("WSem", bug, inv)] = pool.submit(ctx.tlc, "WSemMC", "vac_s_%s.cfg" % bug, files={"vac_s_%s.cfg" % bug: txt},
                                                  workers=2, timeout=3000, record=False, expect_violation=True, heap=H)
        txt = cfg_with(ctx, "RRQueue_live.cfg", Bug='"same"').replace("INVARIANTS", "\\* INVARIANTS")
        vac[("RRQueue-liveness", "same", "property")] = pool.submit(
            ctx.tlc, "RRQueueMC", "vac_ql.cfg", files={"vac_ql.cfg": txt}, workers=2, timeout=3000, record=False,
            expect_violation=True, heap=H)

    need = ("qbuild", "sbuild", "qbeh", "qsim", "sbeh", "ssim")
    r = {k: jobs[k].result() for k in need}
    for k in need[2:]:
        ctx.require_model_ok(r[k], k)

    # ---------------------------------------------------------------- 2. drive the real code
    nq, ns = (4000, 4000) if th else (900, 900)
    qbehs = pick(r["qbeh"].behaviours, nq, rnd) + pick(r["qsim"].behaviours, nq // 3, rnd)
    sbehs = pick(r["sbeh"].behaviours, ns, rnd) + pick(r["ssim"].behaviours, ns // 3, rnd)
    nrand = 1000 if th else 200
    dpool = ThreadPoolExecutor(max_workers=2)     # code-facing jobs do not queue behind the model-only ones
    fq = dpool.submit(drive, ctx, "queue", QPKG, "TestVerifC29Queue", qbehs, nrand)
    fs = dpool.submit(drive, ctx, "sem", SPKG, "TestVerifC29Sem", sbehs, nrand)
    qres, sres = fq.result(), fs.result()

    for which, res, behs in (("queue", qres, qbehs), ("sem", sres, sbehs)):
        ctx.replay_s2i_mismatches(res, which + "-s2i")
        cnt = res.get("counters") or {}
        ctx.ev.add_impl("%s: TLC behaviours reproduced step by step by the real code" % which,
                        cnt.get("s2i_behaviours", 0), steps=res.get("steps"), offered=len(behs),
                        mismatching=cnt.get("mismatches_total", 0))
        for k, v in cnt.items():
            if k.endswith("differs_from_mechanism") or k.startswith("random_runs"):
                ctx.ev.set("%s_%s" % (which, k), v)
        for s in (res.get("samples") or [])[:3]:
            ctx.ev.sample(s)

    # ---------------------------------------------------------------- 3. validate the recorded executions
    parts = 4 if th else 2
    fa = dpool.submit(validate, ctx, pool2(), "queue", "RRQueueTrace", qres["files"][0], parts)
    fb = dpool.submit(validate, ctx, pool2(), "sem", "WSemTrace", sres["files"][0], parts)
    qa, sa = fa.result(), fb.result()
    ctx.ev.add_impl("queue: recorded runs of the real Queue accepted by RRQueueTrace", qa, steps=qres.get("steps"),
                    random_concurrent=(qres.get("counters") or {}).get("random_runs", 0))
    ctx.ev.add_impl("sem: recorded runs of the real Weighted accepted by WSemTrace", sa, steps=sres.get("steps"),
                    random_concurrent=(sres.get("counters") or {}).get("random_runs", 0))
    # ---------------------------------------------------------------- 4. the model-only jobs
    for k, f in jobs.items():
        if k not in need:
            ctx.require_model_ok(f.result(), k)
    ctx.ev.set("exhaustive", not selftest)
    for (mod, bug, inv), f in vac.items():
        v = f.result().violated
        ok = v is not None and (inv is None or v == "invariant:" + inv or v == inv)
        if not ok:
            raise Infra("vacuity: %s with Bug=%s should violate %s, TLC says %s" % (mod, bug, inv, v))
    if vac:
        ctx.ev.set("vacuity_variants_caught", len(vac))

    pool.shutdown(wait=False)

    ctx.ev.assume("hooks (build tag verif) mark the linearization points under q.mx / s.mu; the harness reads the "
                  "structures white-box under the same lock")
    ctx.ev.assume("semaphore weights >= 1 (Acquire(0) is not used by the repository)")
    ctx.ev.assume("per-user FIFO inside the round-robin queue and the exact user order are mechanism details: "
                  "reported as counters, only the stated fairness (no user twice while an earlier waiter waits) is alarmed")
    ctx.ev.assume("bounded model checking: 3 users x 2 queries / 3-4 weighted acquirers, one or two capacity changes; "
                  "larger instances only by seeded simulation and random concurrent runs")


_p2 = []


def pool2():
    p = ThreadPoolExecutor(max_workers=2)
    _p2.append(p)
    return p
