"""C07 - string-top rows conserve totals and keep the heaviest values.

MC:   specs/StringTop.tla: MapStringTop (lookup, probabilistic routing to the tail, resample loop
      with a nondeterministic fold set, placement) and FinishStringTop transcribed from
      data_model/bucket.go; Conservation / FinishBound / FinishHeaviest stated on ghost state and
      checked exhaustively (thorough: counter events over 4 values, counts {1,2,5}, capacities
      default/1..3, all sequences of <= 6 events; counter and value events over 3 values for
      min/max/sum; quick: a smaller instance).
I->S: the event sequences TLC explored plus seeded random ones with the code's real capacities
      are executed on the real MultiItem with several RNG seeds (MapStringTop, MapStringTopBytes,
      MergeWithTLMultiItem, percentile rows); specs/StringTopTrace.tla checks every recorded step
      against the property-level successor relation and evaluates the invariants on the real
      Top / Tail."""
import os, random, re
from vlib import Infra

REAL = {"DefaultStringTopCapacity": 100, "AggregatorStringTopCapacity": 1000,
        "MinStringTopCapacity": 20, "MinStringTopSend": 5}


def inputs_of(behs):
    """behaviours end in Finish or are cut by MaxOps; keep the distinct maximal input sequences"""
    seen = {}
    for b in behs:
        key = tuple(tuple(sorted(s.items())) for s in b)
        seen[key] = b
    keys = set(seen)
    out = []
    for k, b in seen.items():
        if b[-1].get("a") == "Finish":
            out.append(b)
    return out


def validate(ctx, path, stage):
    return ctx.tlc("StringTopTrace", "StringTopTrace.cfg", workers=1, files={"trace.ndjson": path},
                   timeout=2400, name=stage, expect_violation=True)


def run(ctx):
    th = ctx.thorough
    selftest = os.environ.get("VERIF_SELFTEST") == "1"   # mutant runs: the model does not depend on the code
    # 1. the design
    quick = (("StringTop_mc.cfg", "counter and value events",
              {"Values": 3, "Counts": [1, 5], "Xs": [1, 4], "Caps": [1, 2], "FinCaps": [-1, 1, 2], "MaxOps": 3}),)
    big = (("StringTop_mc_big.cfg", "counter events",
            {"Values": 4, "Counts": [1, 2, 5], "Caps": [0, 1, 2, 3], "FinCaps": [-1, 0, 1, 2, 3], "MaxOps": 6}),
           ("StringTop_mcv_big.cfg", "counter and value events",
            {"Values": 3, "Counts": [1, 2, 5], "Xs": [1, 4], "Caps": [1, 2], "FinCaps": [-1, 1, 2], "MaxOps": 4}))
    for cfg, what, consts in () if selftest else (big if th else quick):
        mc = ctx.tlc("StringTopMC", cfg, timeout=3000 if th else 900, coverage=(th and "mcv" in cfg), constants=consts,
                     name="StringTop (%s)" % what)
        ctx.require_model_ok(mc, "StringTop invariants (%s)" % what)
    ctx.ev.set("exhaustive", not selftest)
    if th and not selftest:
        # non-vacuity: the invariants must fire on broken variants of the specification, NeverStuck on
        # the sample factor as the code computed it before the repair (`1 << n` in a machine int)
        for cfg, inv in (("StringTop_bad_drop.cfg", "Conservation"), ("StringTop_bad_light.cfg", "FinishHeaviest"),
                         ("StringTop_bad_cap.cfg", "FinishBound"), ("StringTop_orig_overflow.cfg", "NeverStuck")):
            r = ctx.tlc("StringTopMC", cfg, timeout=600, expect_violation=True, name="non-vacuity: " + inv, record=False)
            if r.violated != "invariant:" + inv:
                raise Infra("%s does not fire on the broken specification %s (%s)" % (inv, cfg, r.violated))
    # 2. inputs for the driver
    beh = ctx.tlc("StringTopMC", "StringTop_beh.cfg", timeout=900, name="behaviour export")
    ctx.require_model_ok(beh, "behaviour export")
    inputs = inputs_of(beh.behaviours)
    rnd = random.Random(ctx.seed)
    rnd.shuffle(inputs)
    take = inputs[: (2000 if th else 500)]
    res, out, rc = ctx.go_test("internal/data_model", "TestVerifC07", inp=take,
                               env={"VERIF_NRANDOM": 1500 if th else 250, "VERIF_NSEEDS": 3 if th else 2}, timeout=1500)
    res = ctx.need_result(res, out, rc, "TestVerifC07")
    for k, v in REAL.items():
        if res.get("consts", {}).get(k) != v:
            raise Infra("code constant %s changed (%s): adjust specs/StringTopTrace.cfg and the driver" % (k, res.get("consts", {}).get(k)))
    n = ctx.replay_s2i_mismatches(res, "stringtop")
    if rc != 0 and not n:
        ctx.save("driver.log", out[-20000:])
        raise Infra("driver failed without a result")
    if res["counters"].get("heavy_undecided"):
        raise Infra("the heavy-count scenario neither returned nor showed a wrapped sample factor")
    if not n and not res["counters"].get("heavy_runs"):
        raise Infra("the heavy-count scenario did not run")
    if not res["counters"].get("runs_with_eviction") or not res["counters"].get("runs_with_resample"):
        raise Infra("no run exercised eviction: the driver is vacuous (%s)" % res["counters"])
    trace = res["files"][0]
    tv = validate(ctx, trace, "trace validation")
    ntr = res["replayed"]
    if tv.violated:
        keep = ctx.save("rejected_trace.ndjson", open(trace).read())
        tv2 = validate(ctx, keep, "trace re-validation")
        if not tv2.violated:
            raise Infra("trace rejection not reproducible")
        where = [l for l in tv.printed if "TRACE_REJECTED" in l]
        sig = tv.violated if tv.violated.startswith("invariant") else "trace-rejected"
        line = ""
        m = re.search(r"l = (\d+)", tv.cex or "")
        ctx.violation(sig, "real MultiItem execution violates %s %s (replay: tools/check C07 --replay %s)" % (tv.violated, where, keep), keep)
        ntr = 0
    drift = [l for l in tv.printed if "MECH_DRIFT" in l]
    m = re.search(r'"MECH_DRIFT", (\d+), (\d+)', " ".join(drift))
    if m and int(m.group(1)) > 0:
        ctx.log("NOTE: %s steps of the real code are not steps of the transcribed mechanism (first at trace line %s): "
                "the property holds but specs/StringTop.tla no longer mirrors bucket.go" % (m.group(1), m.group(2)))
        ctx.ev.set("mechanism_drift_steps", int(m.group(1)))
    elif not m and not tv.violated:
        raise Infra("trace validation did not report MECH_DRIFT")
    ctx.ev.add_impl("MultiItem runs accepted by StringTopTrace", ntr, steps=res["steps"],
                    from_tlc_behaviours=res["counters"].get("tlc_behaviours", 0), random=res["counters"].get("random_runs", 0),
                    runs_with_eviction=res["counters"].get("runs_with_eviction", 0), distinct_classes=res.get("distinct", 0))
    for s in res.get("samples", [])[:3]:
        ctx.ev.sample(s)
    ctx.ev.assume("counts and values are integers (every float operation of the code is exact on them); the "
                  "order in which Go iterates the Top map is not modelled because merging is commutative there")
    ctx.ev.assume("host tags, digests and unique sketches of the merged entries are not part of C07 (C03/C04)")


def replay(ctx, path):
    tv = validate(ctx, path, "replay")
    print("replay of %s: %s %s" % (path, tv.violated, [l for l in tv.printed if "TRACE" in l or "DRIFT" in l]))
    if tv.violated:
        sig = tv.violated if tv.violated.startswith("invariant") else "trace-rejected"
        ctx.violation(sig, "stored trace violates %s" % tv.violated, path)
