"""C04 - aggregation results do not depend on merge order or grouping.

MC:   specs/RowMerge.tla (value aggregates and host attributions: a pool of partial aggregates,
      every order and every binary tree of MultiValue.Merge / tsValues.merge steps is a behaviour;
      invariants compare each element with aggregates computed directly from its multiset of
      leaves) and specs/Unique.tla (the unique sketch with thinning: Insert, Merge, MergeRead over
      a pool of sketches; invariant: every sketch is Canon(everything that reached it)).
S->I: every (multiset, order, tree) TLC explored is replayed on the real MultiValue.Merge,
      ItemValue.Merge, ItemCounter.Merge/AddCounterHost (internal/data_model) and tsValues.merge
      (internal/api) and compared with the specification after every step.
I->S: real ChUnique sketches around 1x, 2x, 3x the real limit (65536) are merged by every merge
      program TLC exported (Merge and MarshallAppend->MergeRead); (skipDegree, itemsCount) and the
      counts of input hashes divisible by 2^k are validated by specs/UniqueTrace.tla."""
import json, random, re
from vlib import Infra


def shape_table(res):
    for line in res.printed:
        m = re.match(r'^<<"SHAPES", (".*")>>$', line)
        if m:
            return {"a": "Tables", "shapes": json.loads(json.loads(m.group(1)))}
    raise Infra("RowMergeMC did not print its shape table")


def validate_unique_trace(ctx, path, stage, what):
    """UniqueTrace evaluates Canon on the integers logged from the real sketches."""
    tv = ctx.tlc("UniqueTrace", "UniqueTrace.cfg", workers=1, files={"trace.ndjson": path}, timeout=1500,
                 name=stage, expect_violation=True, constants={"MAXSIZE": 65536})
    if tv.violated:
        keep = ctx.save("rejected_%s.ndjson" % re.sub(r"\W+", "_", stage), open(path).read())
        tv2 = ctx.tlc("UniqueTrace", "UniqueTrace.cfg", workers=1, files={"trace.ndjson": keep}, timeout=1500,
                      name=stage + " (re-validation)", expect_violation=True, record=False)
        if not tv2.violated:
            raise Infra("trace rejection not reproducible")
        if tv.violated != "invariant:SketchCanonical":
            raise Infra("UniqueTrace failed with %s (machinery): %s" % (tv.violated, tv.cex[:500]))
        # the specification names the offending event
        line = 0
        for pl in tv.printed:
            m = re.match(r'^<<"SKETCH_NOT_CANONICAL_AT_LINE", (\d+)>>', pl)
            if m:
                line = int(m.group(1))
        ev = ""
        try:
            ev = open(keep).read().splitlines()[line - 1]
        except Exception:
            pass
        d = {}
        try:
            d = json.loads(ev)
        except Exception:
            pass
        sig = "unique-sketch-not-canonical"
        if d.get("op") == "Merge":
            sig = "unique-merge-not-canonical"
        elif d.get("op") == "MergeRead":
            sig = "unique-mergeread-not-canonical"
        elif d.get("op") == "tsValues.merge":
            sig = "unique-tsvalues-merge-not-canonical"
        ctx.violation(sig, "%s: real sketch after %s is not the canonical thinning of its input: %s" % (what, d.get("op"), ev[:400]), keep)
        return False
    return True


def run(ctx):
    import os
    stages = set((os.environ.get("VERIF_C04_STAGES") or "merge,unique").split(","))  # development aid
    if "merge" in stages:
        run_merge(ctx)
    if "unique" in stages:
        run_unique(ctx)
    ctx.ev.assume("value aggregates: integer-exact domain (sums in units of 1/6); floating-point rounding of sums is "
                  "outside the model, as the property states")
    ctx.ev.assume("the order in which Merge walks the right-hand hash table is a storage detail; the model walks it in "
                  "ascending order, the real code in table order - both are validated against the order-free Canon")
    ctx.ev.assume("API rows merged by tsValues.merge carry values and a non-empty host (rows are written by the "
                  "aggregator with the sender's host)")


def run_merge(ctx):
    th = ctx.thorough
    rnd = random.Random(ctx.seed)
    # ---------------------------------------------------------------- value aggregates and hosts
    inv = "MergeCanonical MergeHosts TsCanonical"
    if th:
        mc = ctx.tlc("RowMergeMC", "RowMerge_mc_big.cfg", timeout=3000,
                     constants={"MaxLeaves": 4, "shapes": 10, "DEN": 6, "invariants": inv})
        ctx.require_model_ok(mc, "RowMerge invariants")
        cov = ctx.tlc("RowMergeMC", "RowMerge_mc.cfg", timeout=900, coverage=True, name="RowMerge MC with coverage",
                      constants={"MaxLeaves": 3, "shapes": 10, "DEN": 6, "invariants": inv})
        ctx.require_model_ok(cov, "RowMerge invariants (coverage run)")
        if cov.zero_cov:
            raise Infra("actions never taken in RowMerge: %s" % cov.zero_cov)
    beh = ctx.tlc("RowMergeMC", "RowMerge_beh_big.cfg" if th else "RowMerge_beh.cfg", timeout=3000 if th else 900,
                  name="MC + merge behaviours (multiset, order, tree)",
                  constants={"MaxLeaves": 4 if th else 3, "shapes": 6 if th else 10, "DEN": 6, "invariants": inv})
    ctx.require_model_ok(beh, "RowMerge invariants / behaviour export")
    tab = shape_table(beh)
    bs = beh.behaviours
    rnd.shuffle(bs)
    bs = bs[: (30000 if th else 8000)]
    res, out, rc = ctx.go_test("internal/data_model", "TestVerifC04Merge", inp=[[tab]] + bs,
                               env={"VERIF_DEN": 6, "VERIF_ROUNDS": 3 if th else 2}, timeout=1500)
    res = ctx.need_result(res, out, rc, "TestVerifC04Merge")
    n = ctx.replay_s2i_mismatches(res, "merge")
    if rc != 0 and not n:
        ctx.save("driver_merge.log", out[-20000:])
        raise Infra("merge driver failed without a mismatch")
    ctx.ev.add_impl("MultiValue/ItemValue/ItemCounter merges reproduced (behaviours x rng rounds)", res["replayed"],
                    steps=res["steps"], distinct_classes=res.get("distinct", 0))
    for s in res.get("samples", [])[:2]:
        ctx.ev.sample(s)
    # the same behaviours on the API's tsValues.merge (with real sketches attached)
    res2, out2, rc2 = ctx.go_test("internal/api", "TestVerifC04TsValues", inp=[[tab]] + bs[: (10000 if th else 3000)],
                                  env={"VERIF_DEN": 6, "VERIF_BIGEVERY": 300 if th else 400}, timeout=1500)
    res2 = ctx.need_result(res2, out2, rc2, "TestVerifC04TsValues")
    n2 = ctx.replay_s2i_mismatches(res2, "tsvalues")
    if rc2 != 0 and not n2:
        ctx.save("driver_tsvalues.log", out2[-20000:])
        raise Infra("tsValues driver failed without a mismatch")
    ok_ts = validate_unique_trace(ctx, res2["files"][0], "sketches merged by tsValues.merge", "api")
    ctx.ev.add_impl("tsValues.merge behaviours reproduced", res2["replayed"], steps=res2["steps"],
                    sketch_events=res2.get("consts", {}).get("traceEvents", 0) if ok_ts else 0)


def run_unique(ctx):
    th = ctx.thorough
    # ---------------------------------------------------------------- unique sketch
    um = ctx.tlc("Unique", "Unique_mc_big.cfg" if th else "Unique_mc.cfg", timeout=3000 if th else 900,
                 constants={"MAXSIZE": 2, "NSk": 3, "MaxIns": 5 if th else 4, "MaxMrg": 2, "hashes": 6 if th else 5})
    ctx.require_model_ok(um, "Unique invariants")
    ctx.ev.set("exhaustive", True)
    if th:
        u4 = ctx.tlc("Unique", "Unique_mc_max4.cfg", timeout=3000, coverage=True, name="Unique MC (MAXSIZE 4, two sketches)",
                     constants={"MAXSIZE": 4, "NSk": 2, "MaxIns": 6, "MaxMrg": 2, "hashes": 8})
        ctx.require_model_ok(u4, "Unique invariants (MAXSIZE 4)")
        if u4.zero_cov:
            raise Infra("actions never taken in Unique: %s" % u4.zero_cov)
    if th:
        for cfg, what in (("Unique_orig_merge.cfg", "Merge filtering with rhs.good"),
                          ("Unique_orig_mergeread.cfg", "MergeRead not raising the skip degree")):
            r = ctx.tlc("Unique", cfg, timeout=600, expect_violation=True, name="non-vacuity: " + what)
            if r.violated != "invariant:Canonical":
                raise Infra("Canonical does not fire on the original code (%s): %s" % (what, r.violated))
    prog = ctx.tlc("Unique", "Unique_prog.cfg", timeout=600, name="merge programs")
    ctx.require_model_ok(prog, "merge programs")
    res3, out3, rc3 = ctx.go_test("internal/data_model", "TestVerifC04Unique", inp=prog.behaviours,
                                  env={"VERIF_NSK": 3, "VERIF_MAXPROGS": 600 if th else 120, "VERIF_NSCEN": 4 if th else 2},
                                  timeout=1500)
    res3 = ctx.need_result(res3, out3, rc3, "TestVerifC04Unique")
    if res3.get("consts", {}).get("uniquesHashMaxSize") != 65536:
        raise Infra("uniquesHashMaxSize changed: re-instantiate specs/UniqueTrace.cfg")
    n3 = ctx.replay_s2i_mismatches(res3, "unique")
    if rc3 != 0 and not n3:
        ctx.save("driver_unique.log", out3[-20000:])
        raise Infra("unique driver failed without a mismatch")
    ok = validate_unique_trace(ctx, res3["files"][0], "real sketches merged in all orders and trees", "data_model")
    ctx.ev.add_impl("merge programs executed on real sketches around 1x-3x the limit, accepted by UniqueTrace",
                    res3["replayed"] if ok else 0, steps=res3["steps"], distinct_classes=res3.get("distinct", 0))
    for s in res3.get("samples", [])[:2]:
        ctx.ev.sample(s)
