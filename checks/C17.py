"""C17 - the binlog-backed SQLite engine stays consistent with its binlog across crashes.

MC:   SqliteEngine.tla: master Do / failing callback / Do-read / View, the fsbinlog writer loop
      at system-call granularity, txLoop's COMMIT behind binlogWaitDBSync, the commit-now path of
      NoWaitCommit, Close, the re-read / replica path (Apply with the apply queue, apply()'s skip
      of applied bytes, Skip, Commit with COMMIT + drain), Crash = SIGKILL anywhere, Restart from
      the stored offset; the property on what survives a kill and on ghost acknowledgement sets.
      Exhaustive for WaitCommit, NoWaitCommit and the replica role.
I->S: chains of REAL processes (engine + fsbinlog on real files, seeded concurrent Do/View
      workload) are killed with SIGKILL at every instrumented point x first occurrences and at
      random times, restarted on the same files, killed again, finally closed; everything they
      logged before dying plus the database file and the binlog files found after every death is
      validated by SqliteEngineTrace.tla, which evaluates the property invariants on the observed
      states.
S->I: behaviours of the reading path exported by TLC (exhaustive short + simulated long) are
      replayed on the real engine callbacks over a file database; full state compared per step."""
import concurrent.futures
import json
import os
import random
import shutil
import tempfile

from vlib import Infra, NCPU

INV_WHAT = {
    "DbIsPrefix": "the database left by a killed process is not the application of the binlog prefix its stored offset marks",
    "DbNotAheadOfFile": "the stored binlog offset points behind the end of the binlog files",
    "DbNotAheadOfSync": "SQLite COMMIT of an offset the binlog had not reported committed (fsynced) yet",
    "TxMirrorsBinlog": "the write connection does not show exactly the events appended to the binlog (effect without event, lost or doubled event, wrong offset)",
    "TxMirrorsRead": "during the re-read the write connection is not the application of the binlog up to its stored offset",
    "RecoveredAll": "after kill + restart the engine misses events that are in the binlog files",
    "RecoveredExact": "after kill + restart the engine state differs from the application of the binlog files",
    "AckedDurable": "a write was acknowledged in WaitCommit mode before the binlog reported it committed / it is missing from the files",
    "AckedRecovered": "an acknowledged write is missing after restart",
    "FailedNowhere": "a write whose callback failed left a database change or a binlog record",
    "ViewWithinBinlog": "View showed effects of events the binlog had not committed",
    "ReadWithinBinlog": "a Do-read returned effects of events the binlog had not committed (WaitCommit)",
    "CommitInfoSound": "committedInfo ahead of fsync",
    "DiskBinlogSound": "the binlog files do not hold a prefix of what was appended (or lost fsynced records)",
    "CleanCloseComplete": "after a clean Close the database does not hold the whole binlog",
}
# events that mean the driver (or the engine) stopped working rather than misbehaved: undecided, with the log kept
RESTART_STEPS = ("NewFsBinlog", "OpenEngine", "Do(up)")
INFRA_EVENTS = ("Hung", "DiskErr", "ChildErr", "ChildExit", "AppendErr")
# actions every instance of a role / durability mode must exercise (vacuity, checked with -coverage)
COMMON = {"DoRead", "ViewA", "ReadApply", "ReadSkip", "ReadCommit", "Crash", "Restart"}
LIVE = {
    "wait": COMMON | {"DoWrite", "DoQueue", "DoWriteFail", "TxCommit", "BlWrite", "BlSync", "BlCommit", "ReplayDone", "Close"},
    "nowait": COMMON | {"DoWriteLazy", "DoNowBegin", "DoQueue", "DoNowFinish", "DoWriteFail", "BlWrite", "BlSync", "BlCommit",
                        "ReplayDone", "Close"},
    "replica": COMMON | {"ExtAppend", "DoWriteReplica"},
}


def tlc_many(ctx, jobs):
    """jobs: list of (args, kwargs) for ctx.tlc; run concurrently, results in order."""
    if not jobs:
        return []
    with concurrent.futures.ThreadPoolExecutor(max_workers=max(1, min(4, len(jobs)))) as ex:
        futs = [ex.submit(ctx.tlc, *a, **kw) for a, kw in jobs]
        return [f.result() for f in futs]


def split_runs(path, nparts, tmp, tag):
    """Cut a trace into about nparts files at Reset events (every run is self-contained)."""
    lines = open(path).read().splitlines()
    if not lines:
        return []
    starts = [i for i, ln in enumerate(lines) if '"ev":"Reset"' in ln]
    if not starts or starts[0] != 0:
        raise Infra("trace %s does not start with Reset" % path)
    per = max(1, len(lines) // nparts)
    cuts, nxt = [0], per
    for st in starts[1:]:
        if st >= nxt:
            cuts.append(st)
            nxt = st + per
    cuts.append(len(lines))
    parts = []
    for a, b in zip(cuts, cuts[1:]):
        p = os.path.join(tmp, "trace_%s_%d.ndjson" % (tag, len(parts)))
        with open(p, "w") as f:
            f.write("\n".join(lines[a:b]) + "\n")
        parts.append((p, lines[a:b]))
    return parts


def rejected_line(tv):
    for ln in tv.printed:
        if "TRACE_REJECTED_AT_LINE" in ln:
            try:
                return int(ln.strip("<>").split(",")[1])
            except Exception:
                pass
    return None


def cex_line(tv):
    """last value of l in a counterexample (the state that violates the invariant)"""
    last = None
    for ln in tv.out.splitlines():
        ln = ln.strip()
        if ln.startswith("/\\ l = "):
            try:
                last = int(ln[len("/\\ l = "):])
            except ValueError:
                pass
    return last


def run_of(lines, idx):
    """the lines of the run that contains 0-based line idx"""
    idx = min(max(idx, 0), len(lines) - 1)
    a = idx
    while a > 0 and '"ev":"Reset"' not in lines[a]:
        a -= 1
    b = idx + 1
    while b < len(lines) and '"ev":"Reset"' not in lines[b]:
        b += 1
    return a, b


def validate_traces(ctx, traces, stage):
    """traces: [(mode, path)].  All parts of all modes are validated concurrently.
    Returns the number of accepted runs; reports violations."""
    nparts = max(1, min(NCPU // 2, 8))
    jobs, meta = [], []
    for mode, path in traces:
        parts = split_runs(path, nparts, ctx.tmp, mode)
        cfg = "SqliteEngineTrace_%s.cfg" % mode
        for i, (p, lines) in enumerate(parts):
            jobs.append((("SqliteEngineTrace", cfg), dict(workers=1, files={"trace.ndjson": p}, timeout=3000, heap="4g",
                                                        name="%s %s part %d/%d" % (stage, mode, i + 1, len(parts)),
                                                        expect_violation=True)))
            meta.append((mode, cfg, p, lines))
    if not jobs:
        return 0
    with concurrent.futures.ThreadPoolExecutor(max_workers=min(len(jobs), max(2, NCPU))) as ex:
        futs = [ex.submit(ctx.tlc, *a, **kw) for a, kw in jobs]
        results = [f.result() for f in futs]
    accepted = 0
    for (mode, cfg, p, lines), tv in zip(meta, results):
        nruns = sum(1 for ln in lines if '"ev":"Reset"' in ln)
        if not tv.violated:
            accepted += nruns
            continue
        if tv.violated.startswith("invariant:"):
            inv = tv.violated.split(":", 1)[1]
            at = cex_line(tv)
            idx = (at - 2) if at else len(lines) - 1   # state l = n+1 was produced by line n
            sig = "invariant:" + inv
            what = INV_WHAT.get(inv, inv)
        else:
            at = rejected_line(tv)
            idx = (at - 1) if at else len(lines) - 1
            try:
                ev = json.loads(lines[min(idx, len(lines) - 1)])
            except Exception:
                ev = {}
            if ev.get("ev") == "ChildErr" and ev.get("what") in RESTART_STEPS and ev.get("gen", 0) >= 2:
                # the engine refused to start on the files a killed process left behind
                a, b = run_of(lines, idx)
                keep = ctx.save("restart_failed_%s.ndjson" % mode, "\n".join(lines[a:b]) + "\n")
                head = json.loads(lines[a])
                ctx.violation("restart-failed", "%s mode, run class %s: after a kill the engine does not start again: %s" % (
                    mode, head.get("class"), json.dumps(ev)[:400]), keep)
                accepted += sum(1 for ln in lines[:a] if '"ev":"Reset"' in ln)
                continue
            if ev.get("ev") in INFRA_EVENTS:
                a, b = run_of(lines, idx)
                keep = ctx.save("stopped_%s.ndjson" % mode, "\n".join(lines[a:b]) + "\n")
                raise Infra("a child process stopped with an error in a %s run (%s): %s" % (mode, keep, json.dumps(ev)[:600]))
            if tv.violated not in ("postcondition",):
                ctx.save("tlc_trace_error_%s.log" % mode, tv.out[-20000:])
                raise Infra("trace validation failed with %s" % tv.violated)
            sig = "trace-rejected:" + str(ev.get("ev"))
            what = "the real execution is not a behaviour of the specification at event %s" % json.dumps(ev)[:400]
        a, b = run_of(lines, idx)
        witness = lines[a:b]
        keep = ctx.save("rejected_%s_%s.ndjson" % (mode, sig.replace(":", "_").replace("/", "_")), "\n".join(witness) + "\n")
        # deterministic re-validation of the stored witness
        tv2 = ctx.tlc("SqliteEngineTrace", cfg, workers=1, files={"trace.ndjson": keep}, timeout=1200, heap="4g",
                      name="re-validation of the witness (%s)" % mode, expect_violation=True, record=False)
        if not tv2.violated:
            raise Infra("rejection of %s not reproducible on the extracted run" % keep)
        head = json.loads(witness[0]) if witness else {}
        ctx.violation(sig, "%s mode, run class %s: %s (line %s of the witness)" % (
            mode, head.get("class"), what, idx - a + 1), keep)
        accepted += sum(1 for ln in lines[:a] if '"ev":"Reset"' in ln)   # the rest of the part was not judged
    return accepted


def run(ctx):
    shm = None
    if os.path.isdir("/dev/shm") and os.access("/dev/shm", os.W_OK):
        # process-kill semantics: what matters is what reached the page cache; tmpfs keeps the
        # many fsyncs of SQLite's rollback journal from dominating the run time
        shm = tempfile.mkdtemp(prefix="verif-C17-", dir="/dev/shm")
    try:
        _run(ctx, shm or ctx.tmp)
    finally:
        if shm:
            shutil.rmtree(shm, ignore_errors=True)


def _run(ctx, scratch):
    th = ctx.thorough
    rnd = random.Random(ctx.seed)
    W = max(2, NCPU // 3)
    # 1. model checking of the design
    consts = {"StartSize": 24, "SvcSizes": [20], "Size(w)": "12+4w"}
    live = ("wait", ("SqliteEngineMC", "SqliteEngine_live.cfg"), dict(workers=W, timeout=3000, heap="4g", constants=consts,
            name="MC liveness: a waiting Do is acknowledged unless the process is killed (weakly fair binlog writer)"))

    def mc(kind, cfg, name):
        return (kind, ("SqliteEngineMC", cfg), dict(workers=W, timeout=6000 if th else 1500, heap="6g", coverage=th,
                                                  name=name, constants=consts))
    if th:
        jobs = [mc("wait", "SqliteEngine_mc_big.cfg", "MC WaitCommit master (4 writes, 1 failing, 2 readers, 2 crashes)"),
                mc("wait", "SqliteEngine_mc_mid.cfg", "MC WaitCommit master (3 writes, 1 failing, 2 readers, 2 crashes, crc32 records)"),
                mc("nowait", "SqliteEngine_nowait_big.cfg", "MC NoWaitCommit master (4 writes, 1 failing, 2 readers, 2 crashes)"),
                mc("replica", "SqliteEngine_replica_big.cfg", "MC replica (3 writes, 1 reader, 2 crashes, crc32 records)"),
                live]
    else:
        jobs = [mc("wait", "SqliteEngine_mc.cfg", "MC WaitCommit master (3 writes, 1 failing, 1 reader, 1 crash, crc32 records)"),
                mc("nowait", "SqliteEngine_nowait.cfg", "MC NoWaitCommit master (3 writes, 1 failing, 1 reader, 1 crash)"),
                mc("replica", "SqliteEngine_replica.cfg", "MC replica (3 writes, 1 crash, crc32 records)"),
                live]
    model_only = os.environ.get("VERIF_C17_SKIP_MC") == "1" or os.environ.get("VERIF_SELFTEST") == "1"
    if model_only:   # the exhaustive stage judges the specification, not the tree under test, and ignores the seed
        jobs = []
        ctx.log("exhaustive configurations skipped (selftest / VERIF_C17_SKIP_MC)")
    # (the two behaviour exports for stage 2 run in the same pool)
    beh_job = (("SqliteEngineMC", "SqliteEngine_beh_big.cfg" if th else "SqliteEngine_beh.cfg"),
               dict(timeout=3000, heap="6g", workers=W, name="behaviour export (reading path, %d steps)" % (9 if th else 8)))
    sim_job = (("SqliteEngineMC", "SqliteEngine_sim.cfg"),
               dict(simulate=(400 if th else 40, 41), timeout=1800, heap="4g",
                    name="simulated long behaviours (5 writes, 3 crashes)"))
    results = tlc_many(ctx, [(a, kw) for _k, a, kw in jobs] + [beh_job, sim_job])
    beh, sim = results[-2], results[-1]
    for (kind, _a, kw), res in zip(jobs, results):
        ctx.require_model_ok(res, "SqliteEngine invariants")
        if kw.get("coverage"):
            dead = sorted(a for a in LIVE[kind] if res.coverage.get(a, 0) == 0)
            if dead:
                raise Infra("vacuous model checking: actions never taken in %s: %s" % (kw["name"], dead))
    ctx.ev.set("exhaustive", not model_only)

    # 2. S->I: the reading path
    ctx.require_model_ok(beh, "behaviour export")
    bs = beh.behaviours
    if not bs:
        raise Infra("no behaviours exported")
    bs.sort(key=lambda b: json.dumps(b, sort_keys=True))   # TLC's worker interleaving must not pick the sample
    rnd.shuffle(bs)

    def group_of(b):
        if any(s["a"] == "Desync" for s in b):
            return "desync"          # apply() must skip the bytes the database already holds
        if any(s["a"] == "Commit" and s["post"]["cinfo"] != s["off"] or
               s["a"] == "Commit" and s["off"] < s["post"]["dbo"] and s["post"]["rst"] == "wtc" for s in b):
            return "lowcommit"       # Commit below the stored / applied offset
        if any(s["a"] == "Crash" for s in b) and any(s["a"] == "Apply" and s["tail"] != "none" for s in b):
            return "tailcrash"       # payload ending in a partial event / foreign record, then crash + restart
        if any(s["a"] == "Apply" and s["tail"] != "none" and s["ids"] for s in b):
            return "tail"            # ... complete events followed by such a tail
        if any(s["a"] == "Crash" for s in b):
            return "crash"
        return "plain"
    groups = {}
    for b in bs:
        groups.setdefault(group_of(b), []).append(b)
    n1 = 4800 if th else 900
    take = []
    for k in ("desync", "lowcommit", "tailcrash", "tail", "crash", "plain"):
        take += groups.get(k, [])[: n1 // 6]
    if not groups.get("desync") or not groups.get("lowcommit") or not groups.get("tail") or not groups.get("tailcrash"):
        raise Infra("behaviour export lacks Desync / low Commit / partial-tail behaviours: %s" % {k: len(v) for k, v in groups.items()})
    ctx.require_model_ok(sim, "simulation export")
    per = {}
    for b in sim.behaviours:
        per.setdefault(json.dumps(b[:-1], sort_keys=True), []).append(b)
    simb = []
    for k in sorted(per):
        alts = per[k]
        rnd.shuffle(alts)
        simb += alts[:2]
    s2i, out, rc = ctx.go_test("internal/sqlite", "TestVerifC17S2I", inp=take + simb, timeout=3000,
                               env={"VERIF_TMP": scratch, "VERIF_C17_PAR": max(2, NCPU // 2)})
    s2i = ctx.need_result(s2i, out, rc, "TestVerifC17S2I")
    nbad = ctx.replay_s2i_mismatches(s2i, "s2i")
    ctx.ev.add_impl("reading-path behaviours reproduced by the real engine callbacks", s2i["replayed"],
                    steps=s2i["steps"], from_tlc_exhaustive=len(take), from_tlc_simulation=len(simb),
                    step_classes=s2i.get("distinct"))
    if s2i["replayed"] + nbad < len(take) + len(simb) and not nbad:
        raise Infra("S->I driver replayed %d of %d behaviours" % (s2i["replayed"], len(take) + len(simb)))

    # 3. I->S: real processes, real kills
    env = {"VERIF_TMP": scratch, "VERIF_C17_OCC": 4 if th else 1, "VERIF_C17_NRANDOM": 40 if th else 6,
           "VERIF_C17_PAR": max(2, NCPU // 2)}
    res, out, rc = ctx.go_test("internal/sqlite", "TestVerifC17Crash", env=env, timeout=3000)
    res = ctx.need_result(res, out, rc, "TestVerifC17Crash")
    cnt = res.get("counters", {})
    if cnt.get("hung"):
        ctx.save("hung_notes.txt", "\n".join(res.get("notes") or []))
        raise Infra("%d child processes hung" % cnt["hung"])
    accepted = validate_traces(ctx, list(zip(("wait", "nowait"), res["files"])), "trace validation")
    kills = {k[5:]: v for k, v in cnt.items() if k.startswith("kill@")}
    ctx.ev.add_impl("kill/restart chains of real engine processes accepted by SqliteEngineTrace", accepted,
                    steps=res["steps"], generations=cnt.get("generations", 0), kills_by_point=kills,
                    torn_tails=cnt.get("torn_tail", 0), cut_lines=cnt.get("cut_lines", 0), sqlite_busy=cnt.get("sqlite_busy", 0),
                    run_classes=res.get("distinct"))
    for s in res.get("samples", [])[:2]:
        ctx.ev.sample(s)
    ctx.ev.sample({"kills_by_point": kills})
    missing = [p for p in (res.get("consts", {}).get("points_serve") or []) if not any(k.endswith("/" + p) for k in kills)]
    if missing:
        ctx.log("WARNING: kill points never hit: %s" % missing)
    ctx.ev.set("kill_points_never_hit", missing)
    ctx.ev.assume("process-kill semantics only (no power loss): what write(2) put into the binlog files and what SQLite "
                  "committed survive; scratch files live on tmpfs when available")
    ctx.ev.assume("stock SQLite 3.53 in rollback-journal mode stands in for the WAL2 branch (journal_mode=WAL2 is ignored); "
                  "its COMMIT is trusted to be atomic under SIGKILL")
    ctx.ev.assume("'durable binlog' is observed through Engine.Commit (called after fsync): a COMMIT, an acknowledgement or "
                  "a View result ahead of the last Engine.Commit is reported even if the bytes had reached the file")
    ctx.ev.assume("SQLITE_BUSY after the 5 s busy timeout (rollback journal: readers and the committing writer exclude each "
                  "other, unlike WAL2) is a stand-in artefact: a reader skips that observation, a broken write connection "
                  "ends the generation with a kill and the files are judged as after any kill (counted: sqlite_busy)")
    ctx.ev.assume("fsbinlog's own format, rotation and torn writes are C18's subject: no rotation here (1 GiB chunks), a "
                  "binlog whose last write was cut inside a record is counted (torn_tails) and not judged")


def replay(ctx, path):
    """tools/check C17 --replay <witness>: re-judge a stored witness against the current tree/spec."""
    if path.endswith(".ndjson"):
        first = json.loads(open(path).readline())
        mode = first.get("mode", "wait")
        tv = ctx.tlc("SqliteEngineTrace", "SqliteEngineTrace_%s.cfg" % mode, workers=1, files={"trace.ndjson": path},
                     timeout=1200, heap="4g", name="witness re-validation", expect_violation=True)
        print(tv.cex[-6000:] if tv.violated else "witness accepted by the specification")
        if tv.violated:
            sig = tv.violated if tv.violated.startswith("invariant:") else "trace-rejected"
            ctx.violation(sig, "stored witness is still rejected (%s)" % tv.violated, path)
        return
    mm = json.load(open(path))
    res, out, rc = ctx.go_test("internal/sqlite", "TestVerifC17S2I", inp=[mm["beh"]], timeout=600,
                               env={"VERIF_C17_PAR": 1})
    res = ctx.need_result(res, out, rc, "TestVerifC17S2I")
    ctx.replay_s2i_mismatches(res, "s2i")
    print(json.dumps(res.get("mismatches"), indent=1)[:6000])
