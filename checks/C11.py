"""C11 - tag values are normalized and raw tag values parsed exactly.

MC:   TagValue.tla transcribes appendValidStringValue (fast path scan + slow path loop, both modes)
      and validStringValue over an alphabet of rune classes with a run-length filler; the laws of the
      property (forced value valid, idempotent, valid input unchanged, strict fails only on invalid
      UTF-8 and otherwise equals forcing) and a loop-free reference semantics are invariants checked
      for every input TLC enumerates.  RawTag.tla transcribes the two raw tag parsers over token
      strings with digit-sequence arithmetic and states "accepted exactly the decimal integers in
      range" and "the stored pattern decodes back".
S->I: every input TLC explored is exported with the specification's verdict, concretised with
      several representatives per class and executed on the public functions of format.go; outputs
      are compared with the specification (abstractly and byte-exact) and the laws are asserted on
      the concrete bytes.  A seeded random part checks the laws on arbitrary byte / decimal strings."""
import re
from concurrent.futures import ThreadPoolExecutor
from vlib import Infra

INV_NOTE = ("ForceValid ForceIdempotent ValidFixpoint ForceStrAgrees StrictOnlyOnInvalid StrictAgrees "
            "StrictExact FastAgrees FoldAgrees RefAgrees SlowShape TruncationTight NoCutWhenFits")


def exported(res, tag, nfields):
    """lines  "TAG|f1|...|fn"  printed by the Export invariant (one per state)"""
    rows = []
    pre = '"%s|' % tag
    for line in res.out.splitlines():
        if not line.startswith(pre):
            continue
        f = line.strip()[1:-1].split("|")
        if len(f) != nfields + 1 or not line.rstrip().endswith('"'):
            raise Infra("cannot parse export line %r" % line[:200])
        rows.append(f[1:])
    return rows


def run(ctx):
    th = ctx.thorough
    lines = set()
    # 1. strings: model checking + export of every explored input
    runs = [("TagValue_mc_big.cfg" if th else "TagValue_mc.cfg", True)]
    if th:
        runs.append(("TagValue_deep_big.cfg", True))
        runs.append(("TagValue_small_big.cfg", False))
    # the TLC runs and the build of the driver are independent: run them side by side
    ctx.overlay()
    jobs = []
    with ThreadPoolExecutor(max_workers=len(runs) + 2) as pool:
        build = pool.submit(ctx.go_build_test, "internal/format")
        for i, (cfg, exp) in enumerate(runs):
            jobs.append((cfg, exp, pool.submit(
                ctx.tlc, "TagValue", cfg, timeout=7200 if th else 1200, coverage=(th and i == 0), keep_beh=False,
                constants={"MaxLen": 128 if exp else "small", "invariants": INV_NOTE})))
        rawjob = pool.submit(ctx.tlc, "RawTagMC", "RawTag_mc_big.cfg" if th else "RawTag_mc.cfg",
                             timeout=3600 if th else 1200, coverage=th, keep_beh=False)
        for cfg, exp, job in jobs:
            mc = job.result()
            ctx.require_model_ok(mc, "TagValue laws (%s)" % cfg)
            if exp:
                rows = exported(mc, "C11S", 4)
                if len(rows) != mc.distinct:
                    raise Infra("export incomplete: %d lines for %d states" % (len(rows), mc.distinct))
                for r in rows:
                    lines.add("S\t" + "\t".join(r))
            mc.printed = []
            mc.out = ""
        # 2. raw tags
        raw = rawjob.result()
        ctx.require_model_ok(raw, "RawTag laws")
        rrows = exported(raw, "C11R", 6)
        if not rrows or 3 * len(rrows) != raw.distinct:
            raise Infra("raw export incomplete: %d lines for %d states" % (len(rrows), raw.distinct))
        for r in rrows:
            lines.add("R\t" + "\t".join(r))
        build.result()
    ctx.ev.set("exhaustive", True)
    # the quantified cases must be present (non-vacuity of the export)
    flags = {l.split("\t")[4] for l in lines if l.startswith("S\t")}
    if flags != {"E", "e", "-"}:
        raise Infra("string export lacks strict classes: %s" % sorted(flags))
    rflags = {(l.split("\t")[2], l.split("\t")[4]) for l in lines if l.startswith("R\t")}
    for need in (("A", "A"), ("r", "A"), ("r", "r"), ("P", "P"), ("r", "P")):
        if need not in rflags:
            raise Infra("raw export lacks class %s" % (need,))
    # 3. the real code
    inp = ctx.tmp + "/c11_cases.tsv"
    with open(inp, "w") as f:
        for l in sorted(lines):
            f.write(l + "\n")
    res, out, rc = ctx.go_test("internal/format", "TestVerifC11", inp=inp,
                               env={"VERIF_NRANDOM": 300000 if th else 40000, "VERIF_VARIANTS": 4 if th else 3},
                               timeout=3600 if th else 900)
    res = ctx.need_result(res, out, rc, "TestVerifC11")
    if res.get("consts", {}).get("MaxStringLen") != 128:
        raise Infra("format.MaxStringLen is %s: specs/TagValue*.cfg must be re-instantiated" % res.get("consts"))
    n = ctx.replay_s2i_mismatches(res, "c11")
    cnt = res.get("counters", {})
    if n == 0 and rc != 0:
        ctx.save("driver_failed.log", out[-20000:])
        raise Infra("TestVerifC11 failed without a mismatch: %s" % out[-1500:])
    if n == 0 and (cnt.get("string_cases", 0) + cnt.get("raw_cases", 0) != len(lines)):
        raise Infra("driver handled %s cases of %d" % (cnt, len(lines)))
    ok = 0 if n else res["replayed"]
    ctx.ev.add_impl("TLC-explored inputs reproduced by format.go (strings + raw tags)", ok, steps=res["steps"],
                    string_cases=cnt.get("string_cases", 0), raw_cases=cnt.get("raw_cases", 0),
                    random_strings=cnt.get("random_strings", 0), random_raw=cnt.get("random_raw", 0),
                    concretisations_rejected=cnt.get("concretisations_rejected", 0),
                    distinct_nontrivial=res.get("distinct", 0))
    for s in res.get("samples", [])[:3]:
        ctx.ev.sample(s)
    for l in sorted(lines)[:: max(1, len(lines) // 3)][:3]:
        ctx.ev.sample(l)
    ctx.ev.assume("exhaustive per rune class and length (all class sequences within the bounds, 3-4 representatives "
                  "per class), not per byte string; which class a rune belongs to is what unicode.IsSpace / "
                  "unicode.IsPrint / utf8.DecodeRune of the Go library say (trusted; every representative and every "
                  "concretised input is classified back with the library before use)")
    ctx.ev.assume("strict normalisation must fail when a stray byte is decoded before the cut at 128 bytes; for stray "
                  "bytes only behind the cut the property admits both outcomes (the code succeeds)")
    ctx.ev.assume("a decimal integer is -?[0-9]+; for an explicit '+' the property text is silent: the 32-bit parser "
                  "accepts '+5', the 64-bit parser rejects it, both are admitted, an accepted one must be in range "
                  "and store the right pattern")
    ctx.ev.assume("the 64-bit pattern is compared after joining (lo, hi) as uint64(uint32(hi))<<32 | uint32(lo)")
