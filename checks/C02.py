"""C02 - row aggregates survive the agent -> aggregator transfer unchanged.

MC:   specs/RowTransfer.tla (+ RowAlgebra.tla): rows built from events as agent.Shard.Apply* /
      MultiValue.Apply* do; the encoder / decoder of transfer.go transcribed; Transfer SPECIFIED by
      the property.  TLC checks decode(encode(row, sf)) = TransferSpec(row, sf) for every reachable
      row (all event sequences up to 2 / 3 over 16 / 30 shapes, sf in {1,2,4}, percentile or not,
      6 key layouts).
S->I: every behaviour TLC explored (plus simulation-generated longer ones) is replayed on the real
      code (harness/internal/data_model/verif_c02_transfer_test.go): real Apply*, real encode path
      of sampleBucket's keepF, bytes read back, real KeyFromStatshouseMultiItem +
      MergeWithTLMultiItem into an empty aggregator item; the projection is compared with the
      specification's post state.  A second driver (internal/agent) sends the same events through a
      real agent.Shard and the real sampleBucket."""
import json, os, random, re
from vlib import Infra

REAL = {"BelieveTimestampWindow": 93600, "MaxTags": 48}


def tables(ctx, res):
    sh = ks = None
    for line in res.printed:
        m = re.match(r'^<<"(SHAPES|KEYS)", (".*")>>$', line)
        if m:
            val = json.loads(json.loads(m.group(2)))
            if m.group(1) == "SHAPES":
                sh = val
            else:
                ks = val
    if not sh or not ks:
        raise Infra("RowTransferMC did not print its tables")
    return {"a": "Tables", "shapes": sh, "keys": ks}


def replay(ctx, stage, tab, behs, env=None):
    inp = [[tab]] + behs
    e = {"VERIF_DEN": 6, "VERIF_BUCKET": 1700000000}
    e.update(env or {})
    res, out, rc = ctx.go_test("internal/data_model", "TestVerifC02Transfer", inp=inp, env=e, timeout=1500)
    res = ctx.need_result(res, out, rc, "TestVerifC02Transfer/" + stage)
    consts = res.get("consts", {})
    for k, v in REAL.items():
        if consts.get(k) != v:
            raise Infra("code constant %s changed (%s): re-instantiate specs/RowTransferMC.tla" % (k, consts.get(k)))
    if res["counters"].get("drift"):
        ctx.save("drift_%s.txt" % stage, "\n".join(res.get("notes", [])))
        raise Infra("%s: the rows built by the real Apply* differ from RowAlgebra's in %d behaviours "
                    "(the model no longer describes the code; see out/C02/drift_%s.txt)" % (
                        stage, res["counters"]["drift"], stage))
    n = ctx.replay_s2i_mismatches(res, stage)
    if rc != 0 and not n:
        ctx.save("driver_%s.log" % stage, out[-20000:])
        raise Infra("driver failed in %s without a mismatch" % stage)
    ctx.ev.add_impl("transfer: spec behaviours reproduced by the code (%s)" % stage, res["replayed"],
                    steps=res["steps"], distinct_classes=res.get("distinct", 0),
                    mismatches=res["counters"].get("mismatches_total", 0))
    for s in res.get("samples", [])[:2]:
        ctx.ev.sample(s)
    return res


def run(ctx):
    th = ctx.thorough
    stages = set((os.environ.get("VERIF_C02_STAGES") or "exh,agent,sim").split(","))  # development aid
    consts = {"DEN": 6, "SFs": [1, 2, 4], "Window": 93600, "MaxCnt": 24}
    # 1. the design (encoder/decoder of transfer.go against the specified Transfer) is checked on every
    #    state of the runs that also export the behaviours for the driver
    inv = "CodecMatchesSpec CodecAdditive KeyCodec RowHostsAdmissible RowSane"
    b1 = ctx.tlc("RowTransferMC", "RowTransfer_beh.cfg", timeout=900, name="MC + behaviour export (<=2 events, 30 shapes)",
                 constants=dict(consts, MaxEv=2, shapes=30, keys=1, invariants=inv))
    ctx.require_model_ok(b1, "RowTransfer invariants")
    if th:
        b3 = ctx.tlc("RowTransferMC", "RowTransfer_beh3.cfg", timeout=3000, name="MC + behaviour export (<=3 events, 16 shapes)",
                     constants=dict(consts, MaxEv=3, shapes=16, keys=1, invariants=inv))
        ctx.require_model_ok(b3, "RowTransfer invariants (<=3 events)")
        b1.behaviours += b3.behaviours
    tab = tables(ctx, b1)
    b2 = ctx.tlc("RowTransferMC", "RowTransfer_beh_keys.cfg", timeout=900, name="MC + behaviour export (all key layouts)",
                 constants=dict(consts, MaxEv=1, shapes=30, keys=6, invariants=inv))
    ctx.require_model_ok(b2, "RowTransfer invariants (keys)")
    ctx.ev.set("exhaustive", True)
    if th:
        # action coverage (vacuity) on the small alphabet x all key layouts
        cov = ctx.tlc("RowTransferMC", "RowTransfer_mc.cfg", timeout=900, coverage=True, name="MC with coverage (16 shapes, 6 keys)",
                      constants=dict(consts, MaxEv=2, shapes=16, keys=6, invariants=inv))
        ctx.require_model_ok(cov, "RowTransfer invariants (coverage run)")
        if cov.zero_cov:
            raise Infra("actions never taken in RowTransfer: %s" % cov.zero_cov)
        # non-vacuity: the invariant must fire on the encoder as it was before the repairs
        for cfg, what in (("RowTransfer_orig_sum.cfg", "sum omitted when min = max"),
                          ("RowTransfer_orig_host.cfg", "empty host restored from the max host")):
            r = ctx.tlc("RowTransferMC", cfg, timeout=900, expect_violation=True, name="non-vacuity: " + what)
            if r.violated != "invariant:CodecMatchesSpec":
                raise Infra("CodecMatchesSpec does not fire on the original encoder (%s): %s" % (what, r.violated))
    # 2. replay on the real code
    if "exh" in stages:
        replay(ctx, "exhaustive", tab, b1.behaviours + b2.behaviours)
    if "agent" in stages:
        # the same behaviours (sample factor 1) through a real agent.Shard and the real sampleBucket
        ab = [b for b in b1.behaviours + b2.behaviours if b[-1].get("sf") == 1]
        random.Random(ctx.seed).shuffle(ab)
        ab = ab[: (10000 if th else 3000)]
        res, out, rc = ctx.go_test("internal/agent", "TestVerifC02Agent", inp=[[tab]] + ab,
                                   env={"VERIF_DEN": 6, "VERIF_BUCKET": 1700000000}, timeout=1500)
        res = ctx.need_result(res, out, rc, "TestVerifC02Agent")
        if res["counters"].get("drift"):
            raise Infra("agent: rows built by the real Shard.Apply* differ from RowAlgebra's (%s)" % res.get("notes", [])[:2])
        n = ctx.replay_s2i_mismatches(res, "agent")
        if rc != 0 and not n:
            ctx.save("driver_agent.log", out[-20000:])
            raise Infra("agent driver failed without a mismatch")
        ctx.ev.add_impl("transfer through real agent.Shard.Apply* + sampleBucket (sf 1)", res["replayed"], steps=res["steps"],
                        distinct_classes=res.get("distinct", 0))
    # 3. longer behaviours generated by simulation of the same specification
    if "sim" not in stages:
        return
    sim = ctx.tlc("RowTransferMC", "RowTransfer_sim.cfg", simulate=(3000 if th else 600, 12), timeout=1500,
                  name="simulation (<=8 events)")
    ctx.require_model_ok(sim, "simulation")
    replay(ctx, "simulated", tab, sim.behaviours)
    ctx.ev.assume("numeric domain of the model is integer-exact (sums in units of 1/6); float rounding of "
                  "sum*sf for non-representable values is outside the model")
    ctx.ev.assume("keys reaching the encoder have a non-zero timestamp (agent.Shard sets it); string tags "
                  "unknown to the aggregator's mapping cache stay strings")
    ctx.ev.assume("counts per row <= 24 so that the real t-digest (compression 40/80) never merges distinct "
                  "centroids; centroids are compared as bags value -> weight")
