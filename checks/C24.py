"""C24 - the API points cache never serves rows older than an invalidation.

MC:   PointsCache.tla (mechanism of pcache.go transcribed + property on ghost state),
      exhaustive over a boundary alphabet with the code's real constants.
I->S: the operation sequences TLC explored (plus seeded random longer ones) are executed on
      the real pointsCache; the recorded decisions are validated by PointsCacheTrace.tla,
      which evaluates the property invariants at every step of the real execution."""
import random
from vlib import Infra


def validate_trace(ctx, path, stage):
    res = ctx.tlc("PointsCacheTrace", "PointsCacheTrace.cfg", workers=1, files={"trace.ndjson": path},
                  timeout=900, name=stage, expect_violation=True)
    return res


def run(ctx):
    th = ctx.thorough
    # 1. model checking of the design
    mc = ctx.tlc("PointsCacheMC", "PointsCache_mc_big.cfg" if th else "PointsCache_mc.cfg",
                 timeout=3000 if th else 600, coverage=th,
                 constants={"steps": [3600, 60, 1], "From": -172800, "Linger": 15, "MaxSize": 6,
                            "MaxOps": 7 if th else 6})
    ctx.require_model_ok(mc, "PointsCache invariants")
    ctx.ev.set("exhaustive", True)
    # 2. behaviours (operation sequences) for the driver
    beh = ctx.tlc("PointsCacheMC", "PointsCache_beh.cfg", timeout=600, name="behaviour export")
    ctx.require_model_ok(beh, "behaviour export")
    bs = beh.behaviours
    # Stratified sample: every *shape* (sequence of action names, with Get/Inval marked by whether
    # they hit the same key / a second inside the last requested range) is represented, so rare
    # shapes such as Get, Inval, Tick, Store, Get are never sampled away.
    maxlen = max(len(b) for b in bs)
    full = [b for b in bs if len(b) == maxlen]
    rnd = random.Random(ctx.seed)
    rnd.shuffle(full)

    def shape(b):
        out, last = [], None
        for st in b:
            a = st["a"]
            if a == "Get":
                same = last is not None and (st["k"], st["f"], st["t"]) == last
                last = (st["k"], st["f"], st["t"])
                out.append("G=" if same else "G")
            elif a == "Inval":
                inr = last is not None and any(last[1] <= x < last[2] for x in st["secs"])
                out.append("I+" if inr else "I")
            elif a == "Tick":
                out.append("T%d" % st["d"])
            else:
                out.append("S")
        return " ".join(out)

    per = 12 if th else 3
    buckets = {}
    for b in full:
        buckets.setdefault(shape(b), []).append(b)
    take = []
    for sh in sorted(buckets):
        take += buckets[sh][:per]
    ctx.ev.set("behaviour_shapes", len(buckets))
    res, out, rc = ctx.go_test("internal/api", "TestVerifC24", inp=take,
                               env={"VERIF_NRANDOM": 20000 if th else 2000, "VERIF_NOW0": 1080172797,
                                    "VERIF_MAXSIZE": 6, "VERIF_NROWS": 1}, timeout=1200)
    res = ctx.need_result(res, out, rc, "TestVerifC24")
    consts = res.get("consts", {})
    if consts.get("invalidateFrom") != -172800 or consts.get("invalidateLinger") != 15 or consts.get("steps") != "[3600 60 1]":
        raise Infra("code constants changed (%s): specs/PointsCache*.cfg must be re-instantiated" % consts)
    trace = res["files"][0]
    tv = validate_trace(ctx, trace, "trace validation")
    ntr = res["replayed"]
    if tv.violated:
        keep = ctx.save("rejected_trace.ndjson", open(trace).read())
        # deterministic re-validation of the stored witness
        tv2 = validate_trace(ctx, keep, "trace re-validation")
        if not tv2.violated:
            raise Infra("trace rejection not reproducible")
        where = [l for l in tv.printed if "TRACE_REJECTED" in l]
        sig = tv.violated if tv.violated.startswith("invariant") else "trace-rejected"
        ctx.violation(sig, "real pointsCache execution violates %s %s" % (tv.violated, where), keep)
        ntr = 0
    ctx.ev.add_impl("pointsCache traces accepted by PointsCacheTrace", ntr, steps=res["steps"],
                    from_tlc_behaviours=len(take), random=res["replayed"] - len(take))
    for s in res.get("samples", [])[:6]:
        ctx.ev.sample(s)
    ctx.ev.assume("clock advances in whole seconds (injected now); single-threaded driver with the load "
                  "window opened inside the loader stub")
    ctx.ev.assume("range is taken half-open [from,to) in the property; the code checks [from,to]")
