"""C08 - the agent places every accepted event in exactly one correct send second.

MC:   AgentQueue.tla (resolutionShardFromHashLocked, the shared body of the Shard.Apply*/Add*
      methods, flushBuckets with gap / jump-ahead / AgentWindow / capacity-1 channel,
      goFlushIteration, ApplyMetric with its status rows and the secondary shard, shutdown
      flush; property on ghost fields of the queued rows), exhaustive over small rings that keep
      the code's tight relation between ring length, future slots, spread and resolutions.
      Deliberately wrong designs (too coarse a resolution for the ring, no `late` branch,
      rounding up, rounding before the clamp, jump-ahead not by whole rings) must break it.
S->I: the same specification instantiated with the code's real constants (128 / 3 / 120, 1.3 s):
      behaviours explored exhaustively over a boundary alphabet (start lag x clock step x flush|event x
      event x flush|consume|shutdown) and long simulated ones are replayed on two real Agents each (empty mapping cache + canonical tags vs. full
      mapping cache + permuted, aliased tags) through Agent.Map / Agent.ApplyMetric / the Add* API /
      Shard.flushBuckets / Agent.goFlushIteration / ShutdownFlusher / FlushAllData; CurrentTime,
      SendTime, channel and the rows of SuperQueue are compared with the specification after
      every step, buckets are read from BucketsToPreprocess."""
import json
import os
import random
import re
from vlib import Infra

REAL = {"superQueueLen": 128, "superQueueFutureSlots": 3, "spread": 120, "agentWindowMs": 1300, "timingShard": 1}
HEAP = "6g"   # the largest instance has a few million states; a modest heap survives a shared machine
INV = ["ExactlyOnce", "AllFlushed", "NotEarly", "RingOK", "Rounded", "Placement", "DropsJustified",
       "OutIncreasing", "SendBound", "ChanCap", "Monotone"]


def spec_cfg(res):
    """The instance TLC ran (printed by an ASSUME of the specification)."""
    for l in res.printed:
        m = re.match(r'^<<"CFG", (".*")>>$', l)
        if m:
            return json.loads(json.loads(m.group(1)))
    raise Infra("specification did not print its instance")


def run_replay(ctx, cfg, behs, name, timeout=1500):
    if cfg["qlen"] != REAL["superQueueLen"] or cfg["future"] != REAL["superQueueFutureSlots"] \
            or cfg["spread"] != REAL["spread"] or cfg["timing_shard"] != REAL["timingShard"]:
        raise Infra("%s: behaviours were not generated with the real constants: %s" % (name, cfg))
    res, out, rc = ctx.go_test("internal/agent", "TestVerifC08Replay", inp=[cfg] + behs, timeout=timeout)
    res = ctx.need_result(res, out, rc, name)
    c = res.get("consts", {})
    if any(c.get(k) != v for k, v in REAL.items()):
        raise Infra("code constants changed (%s, expected %s): specs/AgentQueue_*.cfg must be re-instantiated" % (c, REAL))
    cnt = res.get("counters", {})
    if cnt.get("driver_errors"):
        ctx.save("driver_notes_%s.txt" % name, "\n".join(res.get("notes", [])) + "\n" + out[-5000:])
        raise Infra("driver error in %s: %s" % (name, res.get("notes")))
    n = 0
    for mm in (res.get("mismatches") or [])[:5]:   # witnesses carry the instance, so that --replay can rerun them alone
        n += 1
        mm["cfg"] = cfg
        path = ctx.save("%s_mismatch_%d.json" % (name, n), mm)
        ctx.violation(mm.get("sig") or name, "%s: step %s (%s) %s want=%s got=%s" % (
            name, mm.get("step"), (mm.get("beh") or [{}] * (mm.get("step", 0) + 1))[mm.get("step", 0)].get("a"), mm.get("note"),
            json.dumps(mm.get("want"))[:400], json.dumps(mm.get("got"))[:400]), path)
    ctx.ev.add_impl(name, res["replayed"] if n == 0 else 0, steps=res["steps"], given=len(behs), agents_per_behaviour=2,
                    distinct_event_classes=res.get("distinct", 0),
                    steps_by_action={k[6:]: v for k, v in cnt.items() if k.startswith("steps:")})
    for s in res.get("samples", [])[:2]:
        ctx.ev.sample("%s: %s" % (name, s))
    if n == 0 and res["replayed"] != len([b for b in behs if b]):
        raise Infra("%s: %d of %d behaviours replayed" % (name, res["replayed"], len(behs)))
    return res


def replay(ctx, path):
    """tools/check C08 --replay <witness>: rerun one stored behaviour on the current tree."""
    with open(path) as f:
        w = json.load(f)
    if "cfg" not in w or "beh" not in w:
        raise Infra("not a C08 witness: %s" % path)
    print("replaying behaviour of %d steps; it diverged at step %s: %s" % (len(w["beh"]), w.get("step"), w.get("note")))
    run_replay(ctx, w["cfg"], [w["beh"]], "replayed_witness")


def last_per_trace(behs, rnd, keep=1):
    """A simulation exports every candidate last step of a trace: keep `keep` of them per trace."""
    per = {}
    for b in behs:
        per.setdefault(json.dumps(b[:-1], sort_keys=True), []).append(b)
    res = []
    for k in sorted(per):
        alts = per[k]
        rnd.shuffle(alts)
        res += alts[:keep]
    return res


def run(ctx):
    th = ctx.thorough
    rnd = random.Random(ctx.seed)
    small = {"QLen": 8, "FutureSlots": 1, "Spread": 4, "resolutions": [1, 2], "T0": 64}
    # 1. the design: exhaustive model checking over small rings
    runs = [("AgentQueue_mc.cfg", "one shard, ring 8", dict(small, Ticks=[0, 1, 2, 9], MaxOps=6, MaxEvents=2)),
            ("AgentQueue_mc2.cfg", "two shards with secondary shards, ApplyMetric + API, ring 8",
             dict(small, NShards=2, Ticks=[0, 1, 2, 9], MaxOps=4, MaxEvents=2))]
    if th:
        runs = [("AgentQueue_mc_big.cfg", "one shard, ring 16, resolutions 1/2/4",
                 {"QLen": 16, "FutureSlots": 1, "Spread": 8, "resolutions": [1, 2, 4], "Ticks": [0, 1, 2, 8, 17], "MaxOps": 6, "MaxEvents": 2}),
                ("AgentQueue_mc_back.cfg", "one shard, ring 8, clock also steps back and over two rings",
                 dict(small, Ticks=[-1, 0, 1, 2, 9, 19], MaxOps=6, MaxEvents=2)),
                ("AgentQueue_mc2_big.cfg", "two shards with secondary shards, ApplyMetric + API, ring 8",
                 dict(small, NShards=2, Ticks=[0, 1, 2, 9], MaxOps=5, MaxEvents=2))]
    selftest = os.environ.get("VERIF_SELFTEST") == "1"   # mutant runs: the model-only stages do not depend on the code
    if selftest:
        runs = []
    for i, (cfg, name, consts) in enumerate(runs):
        mc = ctx.tlc("AgentQueueMC", cfg, timeout=3000 if th else 900, name=name, constants=consts, keep_beh=False, heap=HEAP)
        ctx.require_model_ok(mc, "AgentQueue invariants (%s)" % name)
    ctx.ev.set("exhaustive", True)
    ctx.ev.set("invariants", INV)
    # 2. vacuity: wrong designs must violate the property
    # (several workers: whichever property-level invariant is reached first is reported)
    anyinv = tuple("invariant:" + x for x in INV)
    bad = [("AgentQueue_bad.cfg", None, anyinv)]
    variants = [("nolate", anyinv), ("jumpexact", anyinv), ("ceil", anyinv), ("roundfirst", anyinv)]
    for v, exp in (variants if th else variants[:2]):
        bad.append(("AgentQueue_mc.cfg", v, exp))
    if selftest:
        bad = []
    broken = {}
    for cfg, variant, expect in bad:
        files = None
        if variant:
            with open("%s/specs/%s" % (ctx.root, cfg)) as f:
                files = {"AgentQueue_variant.cfg": f.read().replace('Variant = "code"', 'Variant = "%s"' % variant)}
            cfg = "AgentQueue_variant.cfg"
        r = ctx.tlc("AgentQueueMC", cfg, timeout=900, files=files, expect_violation=True, record=False, keep_beh=False, heap=HEAP,
                    name="wrong design: %s" % (variant or "resolution 4 in a ring of 8"))
        if r.violated not in expect:
            raise Infra("vacuity check failed: wrong design %s gives %s, expected %s" % (variant or cfg, r.violated, expect))
        broken[variant or "resolution_too_coarse_for_ring"] = r.violated
    ctx.ev.set("wrong_designs_violate", broken)
    # 3. behaviours with the real constants for the driver
    beh = ctx.tlc("AgentQueueMC", "AgentQueue_beh_big.cfg" if th else "AgentQueue_beh.cfg", timeout=2400, heap=HEAP,
                  name="behaviour export, real constants, boundary alphabet",
                  constants={"QLen": 128, "FutureSlots": 3, "Spread": 120, "NShards": 2, "T0": 86400057,
                             "shape": "start lag x tick x flush|event x event x flush|consume|stop+FlushAllData"})
    ctx.require_model_ok(beh, "behaviour export")
    full = list(beh.behaviours)   # only complete behaviours are printed (ExportBeh)
    rnd.shuffle(full)
    # every shape gets its share: group by the sequence of actions, take round-robin
    shapes = {}
    for b in full:
        shapes.setdefault(" ".join(s["a"] for s in b), []).append(b)
    limit = 25000 if th else 3000
    take = []
    while len(take) < limit and any(shapes.values()):
        for k in sorted(shapes):
            if shapes[k] and len(take) < limit:
                take.append(shapes[k].pop())
    if not take:
        raise Infra("no behaviours exported")
    ctx.ev.set("boundary_behaviours_exported", len(full))
    run_replay(ctx, spec_cfg(beh), take, "tlc_behaviours_boundary")
    nsim = 250 if th else 24
    sim = ctx.tlc("AgentQueueMC", "AgentQueue_sim.cfg", simulate=(nsim, 46), timeout=2400, heap=HEAP,
                  name="simulated long behaviours, real constants",
                  constants={"QLen": 128, "FutureSlots": 3, "Spread": 120, "NShards": 2, "MaxOps": 45, "MaxEvents": 30})
    ctx.require_model_ok(sim, "simulation export")
    simb = last_per_trace(sim.behaviours, rnd)
    if not simb:
        raise Infra("simulation exported nothing")
    run_replay(ctx, spec_cfg(sim), simb, "simulated_long")
    ctx.ev.assume("single-threaded driver: one public call at a time (every call of the real code holds the shard "
                  "mutex for its whole critical section; FlushAllData runs after the flusher stopped, as in production)")
    ctx.ev.assume("rows added by Agent.addBuiltins (queue sizes, cache statistics of the previous second) are kept out of the "
                  "ring by setting beforeFlushTime to the maximum; every other row the code adds itself (ingestion status, "
                  "clamped-future status, __timing_errors) is modelled")
    ctx.ev.assume("resolutions are the ones RestoreCachedInfo allows (divisors of 60, at most 60); CurrentTime >= ring length")
    ctx.ev.assume("'not late' of the property text = the computed slot is not behind SendTime at acceptance and the agent does "
                  "not sleep through more than a ring afterwards (a jump-ahead moves queued rows by whole ring lengths)")
