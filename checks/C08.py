"""C08 - the agent places every accepted event in exactly one correct send second.

MC:   AgentQueue.tla (resolutionShardFromHashLocked, the shared body of the Shard.Apply*/Add*
      methods, flushBuckets with gap / jump-ahead / AgentWindow / capacity-1 channel,
      goFlushIteration, ApplyMetric with its status rows and the secondary shard, shutdown
      flush; property on ghost fields of the queued rows), exhaustive over small rings that keep
      the code's tight relation between ring length, future slots, spread and resolutions.
      Deliberately wrong designs (too coarse a resolution for the ring, no `late` branch,
      rounding up, rounding before the clamp, jump-ahead not by whole rings) must break it.
S->I: the same specification instantiated with the code's real constants (128 / 3 / 120, 1.3 s):
      behaviours explored exhaustively over a boundary alphabet (start lag x clock step x flush|event x
      event x flush|consume|shutdown) and long simulated ones are replayed on two real Agents each (empty mapping cache + canonical tags vs. full
      mapping cache + permuted, aliased tags) through Agent.Map / Agent.ApplyMetric / the Add* API /
      Shard.flushBuckets / Agent.goFlushIteration / ShutdownFlusher / FlushAllData; CurrentTime,
      SendTime, channel and the rows of SuperQueue are compared with the specification after
      every step, buckets are read from BucketsToPreprocess.
The constants of the instance (ring length, future slots, the literal of the gap formula, shard of
__timing_errors) are READ FROM THE CODE first and the export configurations are generated with them.  The export
runs carry no INVARIANTS: a behaviour whose final state breaks a property-level invariant in the model is tagged
(BAD), replayed first, and the driver observes the property on the real code alone (row stamped later than its
bucket, timestamp not a multiple of the resolution, event handed to sending twice or never): that is the witness
of a VIOLATION.  A changed constant with a model that holds and a conforming replay is reported as OK with a note."""
import json
import os
import random
import re
from vlib import Infra

REAL = {"superQueueLen": 128, "superQueueFutureSlots": 3, "spread": 120, "agentWindowMs": 1300, "timingShard": 1}
HEAP = "6g"   # the largest instance has a few million states; a modest heap survives a shared machine
INV = ["ExactlyOnce", "AllFlushed", "NotEarly", "RingOK", "Rounded", "Placement", "DropsJustified",
       "OutIncreasing", "SendBound", "ChanCap", "Monotone"]


def spec_cfg(res):
    """The instance TLC ran (printed by an ASSUME of the specification)."""
    for l in res.printed:
        m = re.match(r'^<<"CFG", (".*")>>$', l)
        if m:
            return json.loads(json.loads(m.group(1)))
    raise Infra("specification did not print its instance")


def code_consts(ctx):
    """Constants of the code the specification is instantiated with (TestVerifC08Consts)."""
    res, out, rc = ctx.go_test("internal/agent", "TestVerifC08Consts", timeout=600)
    res = ctx.need_result(res, out, rc, "TestVerifC08Consts")
    c = res.get("consts", {})
    if not all(k in c for k in REAL) or not c.get("gapLinear"):
        raise Infra("cannot instantiate the specification from the code: constants %s (the gap must be CurrentTime - SendTime - c)" % c)
    if not 1000 < c["agentWindowMs"] < 2000:
        raise Infra("AgentWindow %s ms is outside (1 s, 2 s): the clock abstraction (whole second + 'half') does not apply" % c["agentWindowMs"])
    if c["superQueueLen"] < 16 or c["superQueueFutureSlots"] < 0 or c["superQueueFutureSlots"] >= 60:
        raise Infra("cannot instantiate the specification with %s" % c)
    return c


def inst_cfg(ctx, cfg, consts):
    """The export configuration `cfg` with the constants read from the code."""
    with open("%s/specs/%s" % (ctx.root, cfg)) as f:
        text = f.read()
    for k, v in (("QLen", consts["superQueueLen"]), ("FutureSlots", consts["superQueueFutureSlots"]),
                 ("Spread", consts["spread"]), ("TimingShard", consts["timingShard"])):
        text, n = re.subn(r"(?m)^  %s = -?\d+$" % k, "  %s = %d" % (k, v), text)
        if n != 1:
            raise Infra("%s: constant %s not found" % (cfg, k))
    name = "AgentQueue_inst_" + cfg[len("AgentQueue_"):]
    return name, {name: text}


def model_bad(res):
    """Behaviours whose final state breaks a property-level invariant in the model (BAD lines)."""
    out = []
    for l in res.printed:
        m = re.match(r'^<<"BAD", (".*")>>$', l)
        if m:
            out.append(json.loads(json.loads(m.group(1))))
    return out


def run_replay(ctx, cfg, behs, name, consts, flagged=(), timeout=1500):
    """Replay behaviours on the real code.  `flagged`: behaviours the model (instantiated with the code's constants)
    says break the property; they are replayed first and must be reproduced on the real code."""
    if cfg["qlen"] != consts["superQueueLen"] or cfg["future"] != consts["superQueueFutureSlots"] \
            or cfg["spread"] != consts["spread"] or cfg["timing_shard"] != consts["timingShard"]:
        raise Infra("%s: behaviours were not generated with the code's constants: %s vs %s" % (name, cfg, consts))
    fl = [x["beh"] for x in flagged][:200]
    seen = set(json.dumps(b, sort_keys=True) for b in fl)
    behs = fl + [b for b in behs if json.dumps(b, sort_keys=True) not in seen]
    nviol0 = len(ctx.violations)
    res, out, rc = ctx.go_test("internal/agent", "TestVerifC08Replay", inp=[cfg] + behs, timeout=timeout)
    res = ctx.need_result(res, out, rc, name)
    c = res.get("consts", {})
    if any(c.get(k) != consts[k] for k in REAL):
        raise Infra("constants of the code changed during the run (%s vs %s)" % (c, consts))
    cnt = res.get("counters", {})
    if cnt.get("driver_errors"):
        ctx.save("driver_notes_%s.txt" % name, "\n".join(res.get("notes", [])) + "\n" + out[-5000:])
        raise Infra("driver error in %s: %s" % (name, res.get("notes")))
    n = 0
    for mm in (res.get("mismatches") or [])[:5]:   # witnesses carry the instance, so that --replay can rerun them alone
        n += 1
        mm["cfg"] = cfg
        path = ctx.save("%s_mismatch_%d.json" % (name, n), mm)
        ctx.violation(mm.get("sig") or name, "%s: step %s (%s) %s want=%s got=%s" % (
            name, mm.get("step"), (mm.get("beh") or [{}] * (mm.get("step", 0) + 1))[mm.get("step", 0)].get("a"), mm.get("note"),
            json.dumps(mm.get("want"))[:400], json.dumps(mm.get("got"))[:400]), path)
    ctx.ev.add_impl(name, res["replayed"] if n == 0 else 0, steps=res["steps"], given=len(behs), agents_per_behaviour=2,
                    distinct_event_classes=res.get("distinct", 0),
                    steps_by_action={k[6:]: v for k, v in cnt.items() if k.startswith("steps:")})
    for s in res.get("samples", [])[:2]:
        ctx.ev.sample("%s: %s" % (name, s))
    if n == 0 and res["replayed"] != len([b for b in behs if b]):
        raise Infra("%s: %d of %d behaviours replayed" % (name, res["replayed"], len(behs)))
    if flagged and len(ctx.violations) == nviol0:
        names = sorted(set(x for f in flagged for x in f["broken"]))
        p = ctx.save("model_cex_%s.json" % name, flagged[0])
        raise Infra("%s: the specification instantiated with the code's constants %s breaks %s in %d behaviours, but the "
                    "real code did not show it (see %s)" % (name, consts, names, len(flagged), p))
    return res


def replay(ctx, path):
    """tools/check C08 --replay <witness>: rerun one stored behaviour on the current tree."""
    with open(path) as f:
        w = json.load(f)
    if "cfg" not in w or "beh" not in w:
        raise Infra("not a C08 witness: %s" % path)
    print("replaying behaviour of %d steps; it diverged at step %s: %s" % (len(w["beh"]), w.get("step"), w.get("note")))
    run_replay(ctx, w["cfg"], [w["beh"]], "replayed_witness", code_consts(ctx))


def last_per_trace(behs, rnd, keep=1):
    """A simulation exports every candidate last step of a trace: keep `keep` of them per trace."""
    per = {}
    for b in behs:
        per.setdefault(json.dumps(b[:-1], sort_keys=True), []).append(b)
    res = []
    for k in sorted(per):
        alts = per[k]
        rnd.shuffle(alts)
        res += alts[:keep]
    return res


def run(ctx):
    th = ctx.thorough
    rnd = random.Random(ctx.seed)
    small = {"QLen": 8, "FutureSlots": 1, "Spread": 4, "resolutions": [1, 2], "T0": 64}
    # 1. the design: exhaustive model checking over small rings
    runs = [("AgentQueue_mc.cfg", "one shard, ring 8", dict(small, Ticks=[0, 1, 2, 9], MaxOps=6, MaxEvents=2)),
            ("AgentQueue_mc2.cfg", "two shards with secondary shards, ApplyMetric + API, ring 8",
             dict(small, NShards=2, Ticks=[0, 1, 2, 9], MaxOps=4, MaxEvents=2))]
    if th:
        runs = [("AgentQueue_mc_big.cfg", "one shard, ring 16, resolutions 1/2/4",
                 {"QLen": 16, "FutureSlots": 1, "Spread": 8, "resolutions": [1, 2, 4], "Ticks": [0, 1, 2, 8, 17], "MaxOps": 6, "MaxEvents": 2}),
                ("AgentQueue_mc_back.cfg", "one shard, ring 8, clock also steps back and over two rings",
                 dict(small, Ticks=[-1, 0, 1, 2, 9, 19], MaxOps=6, MaxEvents=2)),
                ("AgentQueue_mc2_big.cfg", "two shards with secondary shards, ApplyMetric + API, ring 8",
                 dict(small, NShards=2, Ticks=[0, 1, 2, 9], MaxOps=5, MaxEvents=2))]
    selftest = os.environ.get("VERIF_SELFTEST") == "1"   # mutant runs: the model-only stages do not depend on the code
    if selftest:
        runs = []
    for i, (cfg, name, consts) in enumerate(runs):
        mc = ctx.tlc("AgentQueueMC", cfg, timeout=3000 if th else 900, name=name, constants=consts, keep_beh=False, heap=HEAP)
        ctx.require_model_ok(mc, "AgentQueue invariants (%s)" % name)
    ctx.ev.set("exhaustive", True)
    ctx.ev.set("invariants", INV)
    # 2. vacuity: wrong designs must violate the property
    # (several workers: whichever property-level invariant is reached first is reported)
    anyinv = tuple("invariant:" + x for x in INV)
    bad = [("AgentQueue_bad.cfg", None, anyinv)]
    variants = [("nolate", anyinv), ("jumpexact", anyinv), ("ceil", anyinv), ("roundfirst", anyinv)]
    for v, exp in (variants if th else variants[:2]):
        bad.append(("AgentQueue_mc.cfg", v, exp))
    if selftest:
        bad = []
    broken = {}
    for cfg, variant, expect in bad:
        files = None
        if variant:
            with open("%s/specs/%s" % (ctx.root, cfg)) as f:
                files = {"AgentQueue_variant.cfg": f.read().replace('Variant = "code"', 'Variant = "%s"' % variant)}
            cfg = "AgentQueue_variant.cfg"
        r = ctx.tlc("AgentQueueMC", cfg, timeout=900, files=files, expect_violation=True, record=False, keep_beh=False, heap=HEAP,
                    name="wrong design: %s" % (variant or "resolution 4 in a ring of 8"))
        if r.violated not in expect:
            raise Infra("vacuity check failed: wrong design %s gives %s, expected %s" % (variant or cfg, r.violated, expect))
        broken[variant or "resolution_too_coarse_for_ring"] = r.violated
    ctx.ev.set("wrong_designs_violate", broken)
    # 3. the constants of the code; the export configurations are instantiated with them
    consts = code_consts(ctx)
    changed = {k: [consts[k], v] for k, v in REAL.items() if consts[k] != v}
    ctx.ev.set("code_constants", {k: consts[k] for k in REAL})
    if changed:
        ctx.log("constants of the code differ from the instance the small-ring runs mirror: %s (code, expected); "
                "the real-constants configurations are re-instantiated with the code's values" % changed)
        ctx.ev.set("code_constants_changed", changed)
    cons = {"QLen": consts["superQueueLen"], "FutureSlots": consts["superQueueFutureSlots"], "Spread": consts["spread"], "NShards": 2}

    def export(cfg, name, extra, simulate=None):
        inst, files = inst_cfg(ctx, cfg, consts)
        r = ctx.tlc("AgentQueueMC", inst, timeout=2400, heap=HEAP, files=files, simulate=simulate, name=name,
                    constants=dict(cons, **extra))
        ctx.require_model_ok(r, name)   # no INVARIANTS in these configurations: only evaluation errors end up here
        bad = model_bad(r)
        if bad:
            ctx.log("%s: %d behaviours end in a state that breaks %s in the model with the code's constants" % (
                name, len(bad), sorted(set(x for f in bad for x in f["broken"]))))
        return r, bad

    def by_shape(full, limit):
        # every shape gets its share: group by the sequence of actions, take round-robin
        rnd.shuffle(full)
        shapes = {}
        for b in full:
            shapes.setdefault(" ".join(s["a"] for s in b), []).append(b)
        take = []
        while len(take) < limit and any(shapes.values()):
            for k in sorted(shapes):
                if shapes[k] and len(take) < limit:
                    take.append(shapes[k].pop())
        return take

    model_broken = {}
    # 3a. directed family: SendTime lagging 5..9 s (around the discard threshold), channel occupied or not, 60-second rows
    #     stamped at the next minute boundary (CurrentTime + future slots) with the last spread indexes
    lag, lag_bad = export("AgentQueue_lag.cfg", "directed family: lag 5..9 x minute boundary x last spread indexes",
                          {"T0": "R0 + 60 - FutureSlots", "Lags0": [5, 6, 7, 8, 9], "SpreadOf": "{0, r-3, r-2, r-1}"})
    take = by_shape(list(lag.behaviours), 12000 if th else 2500)
    if not take:
        raise Infra("no behaviours exported (directed family)")
    ctx.ev.set("directed_lag_behaviours_exported", len(lag.behaviours))
    model_broken["directed_lag_family"] = len(lag_bad)
    run_replay(ctx, spec_cfg(lag), take, "directed_lag_family", consts, flagged=lag_bad)
    # 3b. boundary alphabet
    beh, beh_bad = export("AgentQueue_beh_big.cfg" if th else "AgentQueue_beh.cfg", "behaviour export, real constants, boundary alphabet",
                          {"T0": "R0 + 60 - FutureSlots",
                           "shape": "start lag x tick x flush|event x event x flush|consume|stop+FlushAllData"})
    take = by_shape(list(beh.behaviours), 25000 if th else 3000)   # only complete behaviours are printed (ExportBeh)
    if not take:
        raise Infra("no behaviours exported")
    ctx.ev.set("boundary_behaviours_exported", len(beh.behaviours))
    model_broken["tlc_behaviours_boundary"] = len(beh_bad)
    run_replay(ctx, spec_cfg(beh), take, "tlc_behaviours_boundary", consts, flagged=beh_bad)
    # 3c. long simulated behaviours
    nsim = 250 if th else 24
    sim, sim_bad = export("AgentQueue_sim.cfg", "simulated long behaviours, real constants", {"MaxOps": 45, "MaxEvents": 30},
                          simulate=(nsim, 46))
    simb = last_per_trace(sim.behaviours, rnd)
    if not simb:
        raise Infra("simulation exported nothing")
    model_broken["simulated_long"] = len(sim_bad)
    run_replay(ctx, spec_cfg(sim), simb, "simulated_long", consts, flagged=sim_bad)
    ctx.ev.set("model_behaviours_breaking_the_property", model_broken)
    if changed:
        ctx.ev.assume("constants read from the code differ from the documented instance (%s: code, expected); the real-constants "
                      "specification was re-instantiated with them, its explored behaviours keep the property and the real code "
                      "conforms to it; the small-ring exhaustive runs mirror the documented instance only" % changed)
    ctx.ev.assume("single-threaded driver: one public call at a time (every call of the real code holds the shard "
                  "mutex for its whole critical section; FlushAllData runs after the flusher stopped, as in production)")
    ctx.ev.assume("rows added by Agent.addBuiltins (queue sizes, cache statistics of the previous second) are kept out of the "
                  "ring by setting beforeFlushTime to the maximum; every other row the code adds itself (ingestion status, "
                  "clamped-future status, __timing_errors) is modelled")
    ctx.ev.assume("resolutions are the ones RestoreCachedInfo allows (divisors of 60, at most 60); CurrentTime >= ring length")
    ctx.ev.assume("'not late' of the property text = the computed slot is not behind SendTime at acceptance and the agent does "
                  "not sleep through more than a ring afterwards (a jump-ahead moves queued rows by whole ring lengths)")
