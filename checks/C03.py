"""C03 - inserted rows equal the merge of all contributions and read back intact.

MC:   specs/InsertRows.tla: AggMerge (the item loop of handleSendSourceBucket with
      MergeWithTLMultiItem / MergeWithTL2 transcribed: per-key shards, string-top entries, zero
      counts, host substitution, random counter host, unique sketch with thinning, centroids) and
      Insert (rowDataMarshalAppendPositions when no budget binds) against the separately stated
      property (each key once; aggregates = order-free folds over the contributions received;
      admissible hosts; unique state canonical and exact below the limit).  Exhaustive over a table
      of contributions (all value kinds, two agents, two buckets, clamped timestamps).
S->I: every contribution sequence TLC explored plus seeded random ones (real constants, up to 24
      contributions, 3 buckets) and sketches around the real exact-mode limit go through the real
      MergeWithTLMultiItem into real aggregatorBucket shards, the real
      rowDataMarshalAppendPositions and the repository's own column decoders
      (harness/internal/aggregator/verif_c03_insert_test.go); specs/InsertRowsTrace.tla evaluates
      the property on the decoded rows; the driver itself compares decoded unique state /
      centroids / host arguments with what the encoder was given."""
import os, random, re
from vlib import Infra

REAL = {"BelieveTimestampWindow": 93600, "AggregationShardsPerSecond": 256,
        "AggregatorStringTopCapacity": 1000, "StringTopCountInsert": 20}
COLUMNS = ("statshouse_v3_incoming(index_type,metric,time," + ",".join("tag%d,stag%d" % (i, i) for i in range(48)) +
           ",count,max_count,min,max,sum,sumsquare,percentiles,uniq_state,min_host,max_host,max_count_host)")


def inputs_of(behs):
    seen = {}
    for b in behs:
        if b and b[-1].get("a") == "Insert":
            seen[repr(b)] = b
    return list(seen.values())


def validate(ctx, path, stage):
    return ctx.tlc("InsertRowsTrace", "InsertRowsTrace.cfg", workers=1, files={"trace.ndjson": path},
                   timeout=2400, name=stage, expect_violation=True)


def run(ctx):
    th = ctx.thorough
    selftest = os.environ.get("VERIF_SELFTEST") == "1"   # mutant runs: the model does not depend on the code
    consts = {"MaxContrib": 3 if th else 2, "NShards": 4, "UniqLimit": 3, "Window": 100, "BucketTimes": [1000, 997], "shapes": 12}
    # 1. the design + 2. contribution sequences for the driver
    if th and not selftest:
        # one exploration does both: invariants checked and every transition's behaviour exported
        beh = ctx.tlc("InsertRowsMC", "InsertRows_mcbeh_big.cfg", timeout=3000, coverage=True, constants=consts,
                      name="InsertRows invariants + behaviour export")
        ctx.require_model_ok(beh, "InsertRows invariants")
        ctx.ev.set("exhaustive", True)
        for cfg, inv in (("InsertRows_bad_dup.cfg", "InsertNoDup"), ("InsertRows_bad_sum.cfg", "InsertMerged"),
                         ("InsertRows_bad_host.cfg", "InsertMerged")):
            r = ctx.tlc("InsertRowsMC", cfg, timeout=600, expect_violation=True, name="non-vacuity: " + cfg, record=False)
            if r.violated != "invariant:" + inv:
                raise Infra("%s does not fire on the broken specification %s (%s)" % (inv, cfg, r.violated))
    else:
        if not selftest:
            mc = ctx.tlc("InsertRowsMC", "InsertRows_mc.cfg", timeout=600, constants=consts)
            ctx.require_model_ok(mc, "InsertRows invariants")
            ctx.ev.set("exhaustive", True)
        beh = ctx.tlc("InsertRowsMC", "InsertRows_beh_big.cfg" if th else "InsertRows_beh.cfg", timeout=3000 if th else 600,
                      name="behaviour export")
        ctx.require_model_ok(beh, "behaviour export")
    inputs = inputs_of(beh.behaviours)
    rnd = random.Random(ctx.seed)
    rnd.shuffle(inputs)
    take = inputs[: (12000 if th else 1500)]
    res, out, rc = ctx.go_test("internal/aggregator", "TestVerifC03", inp=take,
                               env={"VERIF_NRANDOM": 3000 if th else 400,
                                    "VERIF_NWRAPPED": 12 if th else 4, "VERIF_NOVERLAP": 40 if th else 6,
                                    "VERIF_BIGUNIQ": "3000,40000,65535,65536,65537,100000,140000" if th else "3000"},
                               timeout=2400)
    res = ctx.need_result(res, out, rc, "TestVerifC03")
    consts = res.get("consts", {})
    for k, v in REAL.items():
        if consts.get(k) != v:
            raise Infra("code constant %s changed (%s): adjust specs/InsertRowsTrace.cfg / the driver" % (k, consts.get(k)))
    if consts.get("tableDesc") != COLUMNS:
        ctx.log("NOTE: getTableDesc() changed; the harness reader follows it: %s" % consts.get("tableDesc"))
    n = ctx.replay_s2i_mismatches(res, "insert")
    if rc != 0 and not n:
        ctx.save("driver.log", out[-20000:])
        raise Infra("driver failed without a result")
    c = res["counters"]
    if c.get("sampling_bound") or c.get("refused"):
        ctx.save("driver_notes.txt", "\n".join(res.get("notes", [])))
        raise Infra("the precondition of C03 was not established by the driver (sampling bound in %s runs, "
                    "%s contributions refused): %s" % (c.get("sampling_bound", 0), c.get("refused", 0), res.get("notes", [])[:3]))
    if not c.get("rows") or not c.get("big_sketches"):
        raise Infra("driver is vacuous: %s" % c)
    if th and not c.get("big_sketches_thinned"):
        raise Infra("no sketch crossed the exact-mode limit: %s" % c)
    ntr = res["replayed"]
    if not n:
        trace = res["files"][0]
        tv = validate(ctx, trace, "trace validation")
        if tv.violated:
            keep = ctx.save("rejected_trace.ndjson", open(trace).read())
            tv2 = validate(ctx, keep, "trace re-validation")
            if not tv2.violated:
                raise Infra("trace rejection not reproducible")
            where = [l for l in tv.printed if "TRACE_REJECTED" in l]
            sig = tv.violated if tv.violated.startswith("invariant") else "trace-rejected"
            ctx.violation(sig, "insert body of the real aggregator violates %s %s" % (tv.violated, where), keep)
            ntr = 0
    else:
        ntr = 0
    ctx.ev.add_impl("insert bodies accepted by InsertRowsTrace", ntr, steps=res["steps"],
                    from_tlc_behaviours=c.get("tlc_behaviours", 0), random=c.get("random_runs", 0),
                    rows_decoded=c.get("rows", 0), builtin_rows_skipped=c.get("other_rows", 0),
                    big_sketches=c.get("big_sketches", 0), big_sketches_thinned=c.get("big_sketches_thinned", 0),
                    distinct_classes=res.get("distinct", 0))
    for s in res.get("samples", [])[:2]:
        ctx.ev.sample(s)
    ctx.ev.assume("the insert budget and the string-top insert limit do not bind (MinInsertBudget 2^40, at most 5 "
                  "string-top values per key; asserted from the sampler statistics and every item's SF)")
    ctx.ev.assume("a key is contributed to one aggregator bucket of an insert only (the same key in a recent and a "
                  "historic bucket inserted together yields one row per bucket, which ClickHouse merges)")
    ctx.ev.assume("contributions are merged by a copy of the item loop of handleSendSourceBucket (the handler needs a "
                  "live RPC context); no string tag is known to the mapping cache; metrics have no meta "
                  "(no SkipMinHost / SkipMaxHost / SkipSumSquare)")
    ctx.ev.assume("at most 60 units of centroid weight per row, so that the real t-digest (compression 80, decoded "
                  "at 256) never merges distinct centroids; centroids are compared as bags value -> weight")
    ctx.ev.assume("integer aggregates and centroid weights (exact in float64 / float32); distinct values of a unique "
                  "row are counted by their 32-bit hashes; the skewed value of a host argument is not compared")


def replay(ctx, path):
    tv = validate(ctx, path, "replay")
    print("replay of %s: %s %s" % (path, tv.violated, [l for l in tv.printed if "TRACE" in l]))
    if tv.violated:
        sig = tv.violated if tv.violated.startswith("invariant") else "trace-rejected"
        ctx.violation(sig, "stored trace violates %s" % tv.violated, path)
