"""C12 - ingestion accepts only valid events and accounts for every rejected one.

MC:   Ingest.tla: the decision pipeline of worker.HandleMetrics -> Agent.Map -> Agent.ApplyMetric
      -> Shard.Apply* -> MultiValue.Apply* transcribed in the order of the code, and the
      property (Valid, TrueReasons, DocSemantics) stated from its text.  TLC enumerates blocks of
      the input space (counter x payload x tag list x timestamp x metric description classes)
      and checks that the mechanism satisfies the property; multi-event blocks check that rows
      and status records accumulate.
S->I: every enumerated behaviour is concretised (several concrete representatives per class)
      and pushed through the real worker.HandleMetrics of a test agent; the shard buckets are
      projected to (metric rows, ingestion-status rows) and compared with the specification."""
import json, os, random, re
from vlib import Infra, SPECS, _beh_re

ALL_REASONS = {"ok", "ErrMetricNotFound", "ErrMetricNameEncoding", "ErrMetricDisabled", "ErrMetricBuiltin",
               "ErrShardingFailed", "ErrMapTagNameEncoding", "ErrMapTagValueEncoding", "ErrMapTagValueCorrupted",
               "ErrValueUniqueBothSet", "ErrZeroCounter", "ErrNanInfCounter", "ErrNegativeCounter",
               "ErrTooBigCounter", "ErrNanInfValue", "ErrTooBigValue"}
ALL_WARNINGS = {"OKCached", "WarnMapTagNameNotFound", "WarnMapTagNameFoundDraft", "WarnMapTagSetTwice",
                "WarnMapInvalidRawTagValue", "WarnDeprecatedKeyName", "WarnTimestampClampedFuture"}
BLOCK_OPS = {"seq": 2, "seq3": 3, "seqbig": 2, "seqts": 2}


GENERIC_TAGLISTS = ["none", "env", "unknown", "unkbadval", "badname", "top", "topmapped", "host", "hosttwice"]
POOR_METRICS = {"builtinok", "builtinno", "builtindist"}     # their tags are not the model's user-metric layout
METRIC_WEIGHTS = {"plain": 6, "pct": 3, "res5": 2, "dual": 3, "builtinok": 1, "disabled": 0.5, "shardoor": 0.5,
                  "builtinno": 0.3, "builtindist": 0.3, "notfound": 0.7, "badname": 0.4}


def beh_key(b):
    return tuple((s["m"], s["c"], s["p"], s["t"], s["s"]) for s in b)


def class_sets():
    """The class names, read from the specification itself."""
    src = open(os.path.join(SPECS, "Ingest.tla")).read()
    out = {}
    for name in ("AllCounters", "AllPayloads", "AllTagLists", "AllMetrics", "AllStamps"):
        m = re.search(r"^%s == \{(.*?)\}" % name, src, re.S | re.M)
        if not m:
            raise Infra("cannot find %s in Ingest.tla" % name)
        out[name] = re.findall(r'"(\w+)"', m.group(1))
    return out


def gen_scripts(seed, n, maxlen):
    """Seeded random behaviours over the FULL product of the classes (the blocks only enumerate
    sub-products).  Events of one behaviour prefer a common (metric, tag list, timestamp) so that
    rows merge."""
    cs = class_sets()
    rnd = random.Random(seed * 7919 + 12)
    metrics = [m for m in cs["AllMetrics"]]
    weights = [METRIC_WEIGHTS.get(m, 1) for m in metrics]

    def pick_tags(m):
        return rnd.choice(GENERIC_TAGLISTS if m in POOR_METRICS else cs["AllTagLists"])
    scripts = []
    for _ in range(n):
        ln = rnd.randint(1, maxlen)
        m0 = rnd.choices(metrics, weights)[0]
        t0 = pick_tags(m0)
        s0 = rnd.choice([s for s in cs["AllStamps"] if s != "none"])
        sc = []
        for i in range(ln):
            if rnd.random() < 0.65:
                m, t, st = m0, t0, s0
            else:
                m = rnd.choices(metrics, weights)[0]
                t = pick_tags(m)
                st = rnd.choice(cs["AllStamps"])
            if i == 0 and rnd.random() < 0.2:
                st = "none"
            if i > 0 and st == "none":
                st = s0
            c = rnd.choice(cs["AllCounters"]) if rnd.random() < 0.5 else rnd.choice(["c0", "c1", "c2", "c3", "c6", "c5h"])
            sc.append((m, c, rnd.choice(cs["AllPayloads"]), t, st))
        scripts.append(tuple(sc))
    scripts = sorted(set(scripts))
    tla = "---- MODULE IngestRand ----\nEXTENDS Ingest\nRandScript == <<\n" + ",\n".join(
        "  << " + ", ".join('<<"%s", "%s", "%s", "%s", "%s">>' % e for e in sc) + " >>" for sc in scripts) + "\n>>\n====\n"
    return scripts, tla


def slim(b):
    out = []
    for s in b:
        d = s["dec"]
        out.append({"a": s["a"], "b": s["b"], "m": s["m"], "c": s["c"], "p": s["p"], "t": s["t"], "s": s["s"],
                    "ev": s["ev"], "valid": s["valid"], "true": s["true"], "post": s["post"],
                    "dec": {"accept": d["accept"], "reason": d["reason"], "key": d["key"], "emit": d["emit"]}})
    return out


class Vacuity:
    """The enumeration must reach every branch of the table the property talks about."""

    def __init__(self):
        self.reasons, self.warns = set(), set()
        self.n = {"accepted": 0, "rejected": 0, "counter_absent_with_values": 0, "counter_scales_values": 0,
                  "rejected_with_several_true_reasons": 0, "accepted_without_contribution": 0, "multi_event_rows": 0}

    def add(self, b):
        n = self.n
        for s in b:
            d = s["dec"]
            self.reasons.add(d["reason"])
            if d["accept"]:
                n["accepted"] += 1
                for e in d["emit"]:
                    self.warns.add(e["st"])
                c = d["contrib"]
                if c["present"] and c["hasVal"] and c["cexact"]:
                    if s["ev"]["ctr"]["n"] == 0:
                        n["counter_absent_with_values"] += 1
                    elif c["cnt"] != {"k": "fin", "n": len(s["ev"]["v"]) + len(s["ev"]["u"]), "d": 1}:
                        n["counter_scales_values"] += 1
                if not c["present"]:
                    n["accepted_without_contribution"] += 1
            else:
                n["rejected"] += 1
                if len(s["true"]) > 1:
                    n["rejected_with_several_true_reasons"] += 1
        if len(b) > 1 and any(len(r["agg"]["uniq"]) or r["agg"]["cnt"]["n"] > 6 for r in b[-1]["post"]["rows"]):
            n["multi_event_rows"] += 1

    def check(self, ctx):
        missing = (ALL_REASONS - self.reasons) | (ALL_WARNINGS - self.warns)
        ctx.ev.set("table_coverage", self.n)
        need = ("accepted", "rejected", "counter_absent_with_values", "counter_scales_values",
                "rejected_with_several_true_reasons", "multi_event_rows")
        if missing or not all(self.n[k] for k in need):
            raise Infra("vacuous enumeration: unreached %s, coverage %s" % (sorted(missing), self.n))


def collect(res, sink, vac, want_len):
    """Stream the BEH lines of a TLC run into the driver's input file: drop the repeated prints
    (TLC evaluates the action constraint more than once per transition) and proper prefixes of
    longer behaviours (every step is checked there)."""
    seen, n = set(), 0
    for line in res.out.splitlines():
        if not line.startswith('<<"BEH"'):
            continue
        h = hash(line)
        if h in seen:
            continue
        seen.add(h)
        m = _beh_re.match(line)
        if not m:
            raise Infra("cannot parse BEH line: %s" % line[:200])
        b = json.loads(json.loads(m.group(1)))
        if len(b) != want_len(b):
            continue
        vac.add(b)
        sink.write(json.dumps(slim(b), separators=(",", ":")) + "\n")
        n += 1
    res.out = ""
    return n


def run(ctx):
    th = ctx.thorough
    cfg = "Ingest_thorough.cfg" if th else "Ingest_quick.cfg"
    inp = os.path.join(ctx.tmp, "c12_behaviours.ndjson")
    vac = Vacuity()
    with open(inp, "w") as sink:
        mc = ctx.tlc("IngestMC", cfg, timeout=3300 if th else 1500, keep_beh=False, heap="6g" if th else "3g",
                     constants={"T0": 2000000043, "FutureSlots": 3, "TagShift": 100, "Blocks": "see " + cfg})
        ctx.require_model_ok(mc, "Ingest invariants")
        ctx.ev.set("exhaustive", True)
        ntab = collect(mc, sink, vac, lambda b: BLOCK_OPS.get(b[0]["b"], 1))
        if not ntab:
            raise Infra("TLC exported no behaviours")
        vac.check(ctx)
        ctx.log("enumerated behaviours: %d (%s)" % (ntab, vac.n))
        # seeded random behaviours over the full class product, decided by TLC as well
        scripts, tla = gen_scripts(ctx.seed, 3000 if th else 300, 4)
        rmc = ctx.tlc("IngestRand", "Ingest_rand.cfg", timeout=3000 if th else 1200, files={"IngestRand.tla": tla},
                      keep_beh=False, heap="4g" if th else "3g", name="seeded random behaviours", constants={"scripts": len(scripts), "seed": ctx.seed})
        ctx.require_model_ok(rmc, "Ingest invariants on random behaviours")
        whole = set(scripts)
        nrand = collect(rmc, sink, vac, lambda b: len(b) if beh_key(b) in whole else -1)
        if nrand != len(scripts):
            raise Infra("TLC exported %d of %d scripted behaviours" % (nrand, len(scripts)))
    ctx.ev.set("enumerated_behaviours", ntab)
    ctx.ev.set("random_behaviours", nrand)
    nbeh = ntab + nrand
    for legacy in (0, 1):
        stage = "legacy-apply-values" if legacy else "apply-values"
        res, out, rc = ctx.go_test("cmd/statshouse", "TestVerifC12Ingest", inp=inp,
                                   env={"VERIF_T0": 2000000043, "VERIF_C12_LEGACY": legacy,
                                        "VERIF_C12_VARIANTS": 4 if th else 3}, timeout=3000)
        res = ctx.need_result(res, out, rc, "TestVerifC12Ingest")
        c = res.get("consts", {})
        want = {"TagIDShift": 100, "MaxTags": 48, "StringTopTagIndexV3": 47, "HostTagIndex": -2, "MaxStringLen": 128}
        for k, v in want.items():
            if c.get(k) != v:
                raise Infra("code constant %s = %s, the specification was instantiated with %s" % (k, c.get(k), v))
        if not str(c.get("metric.builtinok", "")).endswith("/res60/dual=false") or \
           not str(c.get("metric.res5", "")).endswith("/res5/dual=false") or \
           not str(c.get("metric.dual", "")).endswith("/res1/dual=true"):
            raise Infra("metric descriptions of the harness do not match the model: %s" % c)
        if rc != 0 and not res.get("mismatches"):
            p = ctx.save("driver_failed_%s.log" % stage, out[-20000:])
            raise Infra("driver failed without mismatches (rc=%s), see %s" % (rc, p))
        n = ctx.replay_s2i_mismatches(res, stage)
        ok = res["replayed"] if n == 0 else 0
        cnt = res.get("counters", {})
        ctx.ev.add_impl("worker.HandleMetrics on TLC behaviours (%s)" % stage, ok, steps=res["steps"],
                        behaviours=nbeh, mismatches=cnt.get("mismatches_total", 0), notes=cnt.get("notes", 0),
                        reason_differs_but_true=cnt.get("reason_differs_but_true", 0),
                        warn_status_differs=cnt.get("warn_status_differs", 0))
        for s in res.get("samples", [])[:3]:
            ctx.ev.sample(s)
        for nt in res.get("notes", [])[:6]:
            ctx.log("note:", nt)
    ctx.ev.assume("single-threaded driver; the test agent is never Run, its shard clock is fixed at T0 = 2000000043 "
                  "(the wall clock must be earlier), 5 shards, no disk cache, mappings cache holding two strings")
    ctx.ev.assume("an event's classes are concretised with 1-3 representatives each (values additionally scaled by a unit "
                  "in single-event behaviours); aggregates are compared with relative tolerance 1e-9")
    ctx.ev.assume("events whose counter or a histogram weight is exactly MaxFloat32: only row existence, min and max are compared")
    ctx.ev.assume("tag validity: a tag the metric does not have is ignored by the code whatever its value; the property's "
                  "'tag names and values are valid' is read as: every name is UTF-8 and every value of a tag of the metric is "
                  "UTF-8 without the corrupted-balancer marker")
    ctx.ev.assume("OK/warning status records, shard and time-slot placement and which of several true reasons is reported "
                  "are compared with the model but deviations are notes, not violations")
