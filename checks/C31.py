"""C31 - the balancer forwards every accepted packet upstream promptly and in order.

MC:   Balancer.tla transcribes pktBuffer.push/pop/swap (condition variable, batch timer), the
      tcpPool fail-over with the pointer exchange and the drop accounting, and sendLoop
      (reconnect, write, skip after a write error, would-block report, Close).  Safety on ghost
      state (per-connection order, nothing lost inside a buffer, drops only when both buffers
      refused, drops counted and reported), liveness under fairness of the senders and timers
      only (no fairness on arrivals): everything accepted is eventually written.
      The three oddities of the code are constants; the configurations that switch the defect
      back on must FAIL (non-vacuity of the properties).
I->S: the real Egress + handler against local TCP listeners (reading / stalled / resetting),
      arrival patterns single-then-idle / sparse / bursty / buffer-full, scripts derived from
      TLC-simulated behaviours plus seeded random ones; hook events and the bytes received by
      the listeners are validated by BalancerTrace.tla (property invariants in every step).
S->I: Report/ReportErr sequences on the real reportWouldBlockIfAny."""
import json, os, random, re
from concurrent.futures import ThreadPoolExecutor
from vlib import Infra

KNOWN_SKIP_SIG = "write-error-skip"


def model_checks(ctx):
    th = ctx.thorough
    runs = [("Balancer_mc.cfg", "safety: threshold/timer/error/close interleavings (BufLen=10, 20%)", 900),
            ("Balancer_mc_full.cfg", "safety: both buffers full, fail-over, drops (BufLen=1)", 900),
            ("Balancer_live.cfg", "liveness: accepted => eventually written, drops => eventually reported", 900),
            ("Balancer_live_stall.cfg", "liveness with an upstream that stops reading: the write deadline frees the sender", 900)]
    if th:
        runs += [("Balancer_mc_big.cfg", "safety big (BufLen=10, 4 packets, 2 faults)", 5400),
                 ("Balancer_mc_full_big.cfg", "safety big: drops with a fault and reconnects (BufLen=1, 6 packets)", 5400),
                 ("Balancer_mc_len_big.cfg", "safety big: two packet lengths, Close (BufLen=1)", 5400),
                 ("Balancer_live_big.cfg", "liveness big: with a fault, late timers, Close", 5400),
                 ("Balancer_live_full_big.cfg", "liveness big: drops are eventually reported", 5400),
                 ("Balancer_noskip.cfg", "what-if: no skip after a write error => nothing accepted is ever lost", 900)]
    for cfg, name, to in runs:
        res = ctx.tlc("BalancerMC", cfg, timeout=to, name=name, coverage=(th and cfg == "Balancer_mc_big.cfg"))
        ctx.require_model_ok(res, name)
        ctx.log("%s: %d states, %d distinct, %.0fs" % (cfg, res.generated, res.distinct, res.wall))
    ctx.ev.set("exhaustive", True)
    # the properties are not vacuous: with the defect switched back on, TLC must find it
    neg = [("Balancer_live_nosignal.cfg", "property", "timer callback without signal: liveness cycle"),
           ("Balancer_nosignal_inv.cfg", "invariant:NoStuck", "timer callback without signal: sender sleeps past its deadline"),
           ("Balancer_skip.cfg", "invariant:InOrderNoLoss", "skip after a write error loses an accepted packet"),
           ("Balancer_reportloss.cfg", "invariant:NoReportLost", "failed report write loses the amount"),
           ("Balancer_reportrace.cfg", "invariant:NoReportLost", "report as Load / write / Store(0): a drop during the report write is erased"),
           ("Balancer_live_nodeadline.cfg", "property", "write deadline never armed: a stalled upstream blocks the sender for ever")]
    demo = {}
    for cfg, want, name in (neg if th else neg[:1] + neg[2:3]):
        res = ctx.tlc("BalancerMC", cfg, timeout=900, name="expected counterexample: " + name, expect_violation=True)
        if res.violated != want:
            raise Infra("specification lost its teeth: %s should give %s, got %s" % (cfg, want, res.violated))
        demo[cfg] = res.violated
        ctx.save("model_cex_%s.txt" % cfg.replace(".cfg", ""), res.cex[:20000])
    ctx.ev.set("expected_model_counterexamples", demo)


def behaviours(ctx, want):
    """Scripts for the driver: complete behaviours of random simulations of Balancer (BufLen=10)."""
    beh = ctx.tlc("BalancerMC", "Balancer_beh.cfg", simulate=(max(want * 3, 60), 40), timeout=600,
                  name="behaviour export (simulation)")
    ctx.require_model_ok(beh, "behaviour export")
    seen, out = set(), []
    for b in beh.behaviours:
        # keep what the driver can act on; identical scripts are useless
        key = json.dumps([(s.get("a"), s.get("s"), s.get("res")) for s in b if s.get("a") in
                          ("Push", "TimeoutFires", "WriteOK", "WriteErr", "Close")])
        if key in seen or sum(1 for s in b if s.get("a") == "Push") == 0:
            continue
        seen.add(key)
        out.append(b)
    rnd = random.Random(ctx.seed)
    rnd.shuffle(out)
    # prefer scripts with a timer expiry or a write error in them
    out.sort(key=lambda b: -min(3, sum(1 for s in b if s.get("a") in ("TimeoutFires", "WriteErr"))))
    return out[:want]


def validate(ctx, path, idx):
    return ctx.tlc("BalancerTrace", "BalancerTrace.cfg", workers=1, files={"trace.ndjson": path}, timeout=2400,
                   name="trace validation %d" % idx, expect_violation=True, heap="6g")


def scenario_at(path, line):
    """Scenario (number, kind) of trace line `line` (1-based) and the event there."""
    scn, kind, ev = None, None, None
    with open(path) as f:
        for i, l in enumerate(f, 1):
            if '"ev":"Reset"' in l:
                d = json.loads(l)
                scn, kind = d.get("scn"), d.get("kind")
            if i == line:
                ev = l.strip()[:300]
                break
    return scn, kind, ev


def run(ctx):
    th = ctx.thorough
    if os.environ.get("VERIF_SELFTEST") == "1":
        ctx.log("selftest of a code mutation: the model-checking stage does not depend on the code, skipped")
    else:
        model_checks(ctx)

    # ---- S->I: the would-block report
    rep, out, rc = ctx.go_test("internal/balancer", "TestVerifC31Report", env={"VERIF_NREPORT": 2000 if th else 300}, timeout=600)
    rep = ctx.need_result(rep, out, rc, "TestVerifC31Report")
    ctx.replay_s2i_mismatches(rep, "report")
    ctx.ev.add_impl("Report/ReportErr sequences on the real reportWouldBlockIfAny", rep["replayed"] - len(rep.get("mismatches") or []),
                    steps=rep["steps"], distinct=rep.get("distinct"))

    # ---- I->S: the real egress
    nbeh = 60 if th else 10
    behs = behaviours(ctx, nbeh)
    env = {"VERIF_NSCN": 130 if th else 20, "VERIF_NLSTALL": 3 if th else 1, "VERIF_NOVERDUE": 4 if th else 2, "VERIF_NREPORTRACE": 6 if th else 2, "VERIF_NNEWEGRESS": 2 if th else 1,
           "VERIF_PAR": 8 if th else 6, "VERIF_NFILES": 8 if th else 3}
    res, out, rc = ctx.go_test("internal/balancer", "TestVerifC31", inp=behs, env=env, timeout=1500 if th else 600)
    res = ctx.need_result(res, out, rc, "TestVerifC31")
    consts = res.get("consts", {})
    if consts.get("bufferLen") != 200 or consts.get("swapThreshold") != 40 or consts.get("pktHeadLen") != 4:
        raise Infra("code constants changed (%s): specs/BalancerTrace.cfg must be re-instantiated" %
                    {k: consts.get(k) for k in ("bufferLen", "swapThreshold", "pktHeadLen")})
    total = env["VERIF_NSCN"] + env["VERIF_NLSTALL"] + env["VERIF_NOVERDUE"] + env["VERIF_NREPORTRACE"] + env["VERIF_NNEWEGRESS"] + len(behs)
    ninfra = res.get("counters", {}).get("infra", 0)
    if ninfra:
        ctx.log("scenarios without a usable trace: %d of %d: %s" % (ninfra, total, (res.get("notes") or [])[:5]))
    if res["replayed"] < 0.8 * total:
        raise Infra("only %d of %d scenarios produced a trace: %s" % (res["replayed"], total, (res.get("notes") or [])[:8]))
    files = res["files"]
    with ThreadPoolExecutor(max_workers=4) as ex:
        tvs = list(ex.map(lambda a: validate(ctx, a[1], a[0]), enumerate(files)))
    accepted = 0
    scn_info = consts.get("scenarios", {})
    per_file = {}
    for k, v in scn_info.items():
        per_file[v["file"]] = per_file.get(v["file"], 0) + 1
    known_skips = 0
    for i, (path, tv) in enumerate(zip(files, tvs)):
        nscn = sum(1 for l in open(path) if '"ev":"Reset"' in l)
        for l in tv.printed:
            if "KNOWN_SKIP" in l:
                known_skips += 1
                m = re.search(r'<<"KNOWN_SKIP", (\d+), (\d+)>>', l)
                keep = ctx.save("known_skip_trace_%d.ndjson" % i, open(path).read())
                ctx.violation(KNOWN_SKIP_SIG, "scenario %s: after a write error pop() skipped %s accepted packet(s): never written, "
                              "not counted as dropped" % (m.group(1) if m else "?", m.group(2) if m else "?"), keep)
        if not tv.violated:
            accepted += nscn
            continue
        keep = ctx.save("rejected_trace_%d.ndjson" % i, open(path).read())
        where = [l for l in tv.printed if "TRACE_REJECTED" in l]
        line = None
        if where:
            line = int(re.search(r"(\d+)>>", where[0]).group(1))
        else:
            j = tv.out.rfind("/\\ l = ")   # the counterexample prints every state of a long trace: do not regex it
            m = re.match(r"/\\ l = (\d+)", tv.out[j:j + 40]) if j >= 0 else None
            if m:
                line = int(m.group(1)) - 1
        scn, kind, ev = scenario_at(keep, line) if line else (None, None, None)
        sig = tv.violated if tv.violated.startswith("invariant") else "trace-rejected"
        if kind == "lstall" and sig == "invariant:Prompt":
            sig = "write-deadline-never-armed"   # the stalled-listener scenario: the write deadline is what is being tested
        if sig == "invariant:DeadlineHonoured":
            sig = "write-deadline-never-armed"   # same defect, deterministic witness (write held past WriteTimeout succeeds)
        ctx.violation(sig, "real balancer execution violates %s at trace line %s (scenario %s, %s): %s" %
                      (tv.violated, line, scn, kind, ev), keep)
    ctx.ev.add_impl("balancer executions accepted by BalancerTrace", accepted, steps=res["steps"],
                    from_tlc_behaviours=len(behs), seeded=res["replayed"] - len(behs),
                    counters=res.get("counters"), distinct_classes=res.get("distinct"))
    ctx.ev.set("known_skip_scenarios", known_skips)
    for s in res.get("samples", [])[:3]:
        ctx.ev.sample(s)
    for s in (rep.get("samples") or [])[:1]:
        ctx.ev.sample(s)
    ctx.ev.sample({"late_quiesces": res.get("counters", {}).get("quiesce_late", 0), "notes": (res.get("notes") or [])[:4]})
    ctx.ev.assume("'healthy upstream' = the listener reads and the driver's gate before the write is open; the delay ceiling "
                  "is 5 s of responsive time (a poll step delayed by machine load counts 20 ms at most) without any data progress "
                  "(batch handed to/finished by a writer, connection, report, frame received), against swapWaitMax = 1 s")
    ctx.ev.assume("'written upstream' = accepted by the kernel for that connection: for a connection the listener reset, the "
                  "received frames must be a prefix of the written ones; for all others they must be equal")
    ctx.ev.assume("Egress.Close ends the obligations: packets still buffered at Close are not required to be written; calls "
                  "after Close must be counted as dropped")
    ctx.ev.assume("a drop is legitimate when both buffers refused the packet because their write slice was full at the "
                  "moment each was tried (the two attempts of one call are not simultaneous)")
    ctx.ev.assume("time is abstract in the model: TimeoutFires = swapWaitMax elapsed; DialOK = ReconnectDelay + dial")
