"""C30 - access control grants exactly the permissions carried by a valid token.

MC:   Access.tla (property clauses written from the property text + the mechanism of
      vkuth/access.go and api/access.go transcribed), exhaustive over the token space around
      the validity edges with the real 5 s window and over the policy space (bit sets,
      protected prefixes, names, metric pairs).
S->I: every behaviour TLC explored ([Parse session, View | Edit]) is executed on the real code
      with REAL minted tokens (ed25519 / HS256 / none, wrong kid, tampered) and an injected
      clock; the spec's verdict (violated clauses) travels with the behaviour.
I->S: seeded random sessions over real strings are executed on the real code; the recorded
      decisions are validated by AccessTrace.tla, which evaluates the property clauses at
      every step."""
import random
from concurrent.futures import ThreadPoolExecutor
from vlib import Infra

INVS = "token clauses, carried bits, view/edit clauses, mechanism consistency"


def sample(ctx, bs, n, salt):
    bs = [b for b in bs if len(b) >= 1]
    # behaviours of length 1 are prefixes of the longer ones unless the session was rejected
    full = [b for b in bs if len(b) >= 2]
    rejected = [b for b in bs if len(b) == 1 and (b[0].get("post") or {}).get("impl") == "rejected"]
    rnd = random.Random(ctx.seed * 7919 + salt)
    rnd.shuffle(full)
    rnd.shuffle(rejected)
    return rejected[:n] + full[:n]


def validate_trace(ctx, path, stage):
    return ctx.tlc("AccessTrace", "AccessTrace.cfg", workers=1, files={"trace.ndjson": path},
                   timeout=2400, name=stage, expect_violation=True, heap="6g")


def run(ctx):
    th = ctx.thorough
    consts = {"App": "statshouse", "Issuer": "vkuth", "Tol_ms": 5000}
    # 1. model checking of the design (property clauses vs transcribed mechanism) and, in the same
    #    exploration, export of every behaviour for the replay
    if th:
        # independent exhaustive runs side by side (the full token product hangs off one initial
        # state, so TLC explores it with a single worker)
        jobs = [
            ("mc", dict(module="AccessMC", cfg="Access_mc_big.cfg", coverage=True, workers=6,
                        name="policy space: <=2 bits x protected sets x names x renames/attribute changes")),
            ("m3", dict(module="AccessMC", cfg="Access_mc3_big.cfg", workers=5, name="policy space: <=3 bits")),
            ("mt", dict(module="AccessMCBig", cfg="Access_mc_tok_big.cfg", workers=2,
                        name="full token product (decisive values)")),
            # the code before the repair of the presort-tag hole: the clause must fire at design level
            ("d", dict(module="AccessMC", cfg="Access_defect.cfg", workers=2, name="pre-fix design (must violate)",
                       expect_violation=True)),
        ]

        def one(job):
            kw = dict(job[1])
            kw["record"] = False          # evidence is filled from the main thread below
            return job[0], ctx.tlc(kw.pop("module"), kw.pop("cfg"), timeout=3000, heap="6g", **kw)
        with ThreadPoolExecutor(max_workers=len(jobs)) as ex:
            done = dict(ex.map(one, jobs))
        for k, kw in jobs[:3]:
            ctx.ev.add_tlc(done[k], name=kw["name"], constants=consts)
            ctx.require_model_ok(done[k], INVS)
        if done["d"].violated != "invariant:EditKeepsPresort":
            raise Infra("EditKeepsPresort is not live: the pre-fix transcription gives %s" % done["d"].violated)
    beh = ctx.tlc("AccessMC", "Access_beh_big.cfg" if th else "Access_beh.cfg", timeout=3000 if th else 900,
                  name="families tok/view/rename/attr: invariants + behaviour export", constants=consts, heap="6g")
    ctx.require_model_ok(beh, INVS)
    ctx.ev.set("exhaustive", True)

    # 2. S->I
    take = sample(ctx, beh.behaviours, 25000 if th else 8000, 0)
    res, out, rc = ctx.go_test("internal/api", "TestVerifC30Replay", inp=take, timeout=1800)
    res = ctx.need_result(res, out, rc, "TestVerifC30Replay")
    ctx.ev.set("code_constants", res.get("consts", {}))
    nbad = ctx.replay_s2i_mismatches(res, "replay")
    ctx.ev.add_impl("TLC behaviours replayed on parseAccessToken/CanViewMetric/CanEditMetric with real tokens",
                    res["replayed"] if not nbad else 0, steps=res["steps"], distinct_outcomes=res.get("distinct"),
                    differs_from_transcription=res.get("counters", {}).get("differs_from_transcription", 0),
                    parse_panics=res.get("counters", {}).get("parse_panics", 0))
    for s in (res.get("notes") or [])[:3]:
        ctx.log("note: " + s)

    # 3. I->S
    nsess = 12000 if th else 1500
    res2, out2, rc2 = ctx.go_test("internal/api", "TestVerifC30Random", env={"VERIF_NSESSIONS": nsess}, timeout=1800)
    res2 = ctx.need_result(res2, out2, rc2, "TestVerifC30Random")
    cnt = res2.get("counters", {})
    if cnt.get("accepted", 0) < nsess // 10 or cnt.get("view_granted_nonadmin", 0) < 20 or cnt.get("edit_granted_nonadmin", 0) < 20:
        if nbad:
            return  # the replay already witnessed why (e.g. every token rejected)
        raise Infra("random driver is vacuous: %s" % cnt)
    trace = res2["files"][0]
    tv = validate_trace(ctx, trace, "trace validation")
    ntr = res2["replayed"]
    if tv.violated:
        keep = ctx.save("rejected_trace.ndjson", open(trace).read())
        tv2 = validate_trace(ctx, keep, "trace re-validation")
        if not tv2.violated:
            raise Infra("trace rejection not reproducible")
        where = [l for l in tv.printed if "TRACE_REJECTED" in str(l)]
        sig = tv.violated.split(":", 1)[1] if tv.violated.startswith("invariant:") else "trace-rejected"
        ctx.violation(sig, "real access-control decisions violate %s %s" % (tv.violated, where), keep)
        ntr = 0
    ctx.ev.add_impl("random sessions on the real code accepted by AccessTrace", ntr, steps=res2["steps"],
                    accepted_tokens=cnt.get("accepted", 0), view_granted_nonadmin=cnt.get("view_granted_nonadmin", 0),
                    edit_granted_nonadmin=cnt.get("edit_granted_nonadmin", 0), parse_panics=cnt.get("parse_panics", 0))
    for s in (res.get("samples") or [])[:3]:
        ctx.ev.sample(s)
    ctx.ev.assume("token acceptance is a necessary condition ('only if'): a token is flagged only when accepted against a "
                  "clause, or rejected although it satisfies the strictest reading (kind header, nbf, iat, exp present and inside the window without the tolerance)")
    ctx.ev.assume("a time claim inside the 5 s tolerance or absent (nbf, iat), missing kind header: either decision keeps the property")
    ctx.ev.assume("'for a user' = non-empty user in vkuth_data (service tokens name a user too)")
    ctx.ev.assume("raw-tag attribute = tag is raw (raw kind non-empty); a change of the raw format is not covered")
    ctx.ev.assume("remote-config metrics = the four names of format.RemoteConfigMetric at the pinned commit")
    ctx.ev.assume("claims are whole seconds (jwt NumericDate precision); the clock has millisecond fractions")
    ctx.ev.assume("localMode / insecureMode bypass tokens by configuration and are outside the property")

