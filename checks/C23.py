"""C23 - the API series cache returns correctly placed, fresh data under concurrency. (work in progress)"""
import json, os, re
from concurrent.futures import ThreadPoolExecutor
from vlib import Infra


def validate(ctx, path, name):
    return ctx.tlc("SeriesCacheAbsTrace", "SeriesCacheAbsTrace.cfg", workers=1, files={"trace.ndjson": path},
                   timeout=1800, name=name, expect_violation=True, heap="4g")


def run_at(path, line):
    run, cfg, ev = None, None, None
    with open(path) as f:
        for i, l in enumerate(f, 1):
            if '"ev":"Reset"' in l:
                d = json.loads(l)
                run, cfg = d.get("run"), d.get("cfg")
            if i == line:
                ev = l.strip()[:400]
                break
    return run, cfg, ev


def judge_traces(ctx, files, stage):
    with ThreadPoolExecutor(max_workers=4) as ex:
        tvs = list(ex.map(lambda a: validate(ctx, a[1], "%s trace validation %d" % (stage, a[0])), enumerate(files)))
    accepted = 0
    for i, (path, tv) in enumerate(zip(files, tvs)):
        nrun = sum(1 for l in open(path) if '"ev":"Reset"' in l)
        if not tv.violated:
            accepted += nrun
            continue
        keep = ctx.save("%s_rejected_trace_%d.ndjson" % (stage, i), open(path).read())
        where = [l for l in tv.printed if "TRACE_REJECTED" in l]
        line = int(re.search(r"(\d+)>>", where[0]).group(1)) if where else None
        if line and tv.violated.startswith("invariant"):
            line -= 1  # the state after the event of the previous line violates the invariant
        run, cfg, ev = run_at(keep, line) if line else (None, None, None)
        sig = tv.violated if tv.violated.startswith("invariant") else "trace-rejected"
        ctx.violation(sig, "real cache2 execution violates %s at trace line %s (run %s %s): %s" % (
            tv.violated, line, run, json.dumps(cfg), ev), keep)
    return accepted


def run(ctx):
    th = ctx.thorough
    env = {"VERIF_C23_LANES": 8 if th else 4, "VERIF_C23_NRUNS": 60 if th else 12,
           "VERIF_C23_RESET": os.environ.get("VERIF_C23_RESET", "1"), "VERIF_C23_INFLIGHT": os.environ.get("VERIF_C23_INFLIGHT", "1")}
    res, out, rc = ctx.go_test("internal/api", "TestVerifC23Random", env=env, timeout=1500)
    if res is None and "panic:" in out:
        p = ctx.save("driver_panic.log", out[-30000:])
        raise Infra("driver died: %s" % p)
    res = ctx.need_result(res, out, rc, "TestVerifC23Random")
    for mm in (res.get("mismatches") or [])[:5]:
        p = ctx.save("go_mismatch.json", mm)
        ctx.violation(mm.get("sig") or "go", "direct check on returned rows: want %s got %s" % (mm.get("want"), json.dumps(mm.get("got"))[:400]), p)
    for n in res.get("notes", [])[:5]:
        ctx.log("note:", n[:3000])
    acc = judge_traces(ctx, res["files"], "random")
    ctx.ev.add_impl("random concurrent runs accepted by SeriesCacheAbsTrace", acc, steps=res["steps"], distinct_classes=res.get("distinct"))
    for s in res.get("samples", [])[:3]:
        ctx.ev.sample(s)
