"""C23 - the API series cache returns correctly placed, fresh data under concurrency.

Two layers, so that the verdict never hinges on the model of the mechanism:

Layer 1  SeriesCacheAbs.tla: the property itself over the externally observable, totally ordered
         events Get/Load/Inv Begin/End, Quiesce, Emptied (placement, "exactly the rows of one
         successful load", freshness, termination, accounting zero when emptied).
         I->S: SeriesCacheAbsTrace.tla validates the event logs of the real cache2 recorded by
         (a) a seeded random concurrent driver (many goroutines of Get with chunk-straddling
         ranges, play modes, forced loads, invalidate, setLimits with the real trim goroutine,
         reset, loads of random duration, failures, inflight-memory announcements, randomly held
         "loaded, not yet published" gates) and (b) a schedule driver that replays interleavings.
Layer 2  SeriesCache.tla: the protocol of one bucket transcribed from tscache2.go (init /
         maybeAddChunk / awaitCopyChunks, loadChunks split at the points where others can
         interleave, invalidate split at its clock read, trim, accounting); TLC checks exhaustively
         that it implies layer 1, that every awaiter is answered exactly once, that the accounting
         equals the attached data and that every request returns under fairness.
         SeriesCacheMem.tla: the memory-limit protocol (allocCond / trimCond / inflight bytes):
         every request finishes.
         SeriesCacheShard.tla: the shard's bucket list and the two cursors that survive the release
         of the shard mutex (invalidateIter, trimIter) against removeBucketUnlocked: an invalidate
         call that returned has visited every bucket that was in the shard during the whole call.
         The configurations that describe the code BEFORE the repairs made for this property must
         fail (non-vacuity); the schedules of their counterexamples, hand-written scenarios and
         simulated behaviours of the repaired model drive the real code (S->I as schedule hints;
         the outcome is judged by layer 1 only)."""
import json, os, random, re
from concurrent.futures import ThreadPoolExecutor
from vlib import Infra

SCENARIOS = os.path.join(os.path.dirname(os.path.abspath(__file__)), "C23_scenarios.json")

# (cfg, what, expected violation or None, thorough only)
PROTOCOL_RUNS = [
    ("SeriesCache_mc.cfg", "protocol: 2 chunks x 2 slots, 2 requests (all ranges), 1 invalidation", None, False),
    ("SeriesCache_mc1.cfg", "protocol: 1 chunk, 2 requests, invalidation, trim, load failure", None, False),
    ("SeriesCache_mcp.cfg", "protocol: play mode (stale accepted) and forced loads", None, False),
    ("SeriesCache_live.cfg", "liveness: every request returns (fair loaders)", None, False),
    ("SeriesCache_orig_await.cfg", "before the repair: a request joins a load that finished before the invalidation", "invariant:CexExport", False),
    ("SeriesCache_anyaw.cfg", "what-if: any finishing load takes the awaiters: an older load answers a request awaiting the newer one", "invariant:CexExport", False),
    ("SeriesCache_half_await.cfg", "half repair (only maybeAddChunk): a superseded load still publishes", "invariant:CexExport", True),
    ("SeriesCache_mc2_big.cfg", "protocol: 2 chunks x 2 slots, 2 requests, 1 invalidation, 1 trim, 1 failure", None, True),
    ("SeriesCache_mc1g3_big.cfg", "protocol: 1 chunk, 3 requests, invalidation, trim, failure", None, True),
    ("SeriesCache_mc_big.cfg", "protocol: 2 chunks x 2 slots, 3 requests (whole chunks), 1 invalidation", None, True),
    ("SeriesCache_mc_gap_big.cfg", "protocol: 3 chunks, 3 requests (gap chunks: several loads of one chunk in flight)", None, True),
    ("SeriesCache_mc_inv2_big.cfg", "protocol: 1 chunk, 3 requests, 2 invalidations", None, True),
    ("SeriesCache_mc_play_big.cfg", "protocol: play mode and forced loads, 2 invalidations, failure", None, True),
    ("SeriesCache_mc_open_big.cfg", "protocol: last chunk still open (always reloaded)", None, True),
    ("SeriesCache_mc_linger_big.cfg", "protocol: last chunk in the linger period (served and reloaded)", None, True),
    ("SeriesCache_live_big.cfg", "liveness with trim", None, True),
    ("SeriesCache_overlap_inv.cfg", "what-if outside the assumption: overlapping invalidate calls move invalidatedAt backwards", "invariant:CexExport", True),
]
MEM_RUNS = [
    ("SeriesCacheMem_mc.cfg", "memory limits: 2 loads, hard 3 / soft 2", None, False),
    ("SeriesCacheMem_orig.cfg", "before the repair: two loads over the hard limit sleep forever", "invariant:NoStuck", False),
    ("SeriesCacheMem_mc2.cfg", "memory limits: 3 loads announcing twice, hard 3 / soft 2", None, True),
    ("SeriesCacheMem_mc3_big.cfg", "memory limits: 3 loads, hard 4 / soft 2", None, True),
    ("SeriesCacheMem_mc4_big.cfg", "memory limits: 3 loads, hard 2 / soft 1, empty cache", None, True),
    ("SeriesCacheMem_nolimit_big.cfg", "no limits", None, True),
    ("SeriesCacheMem_orig2.cfg", "before the repair: trim sleeps over the soft limit", "property", True),
]


SHARD_RUNS = [
    ("SeriesCacheShard_mc.cfg", "shard: bucket list, invalidate / trim cursors, removals (4 buckets)", None, False),
    ("SeriesCacheShard_seed.cfg", "what-if: bucket unlinked before the cursors are moved: invalidate ends early", "invariant:InvReachesAll", False),
    ("SeriesCacheShard_mc_big.cfg", "shard: 6 buckets, 2 invalidations, 2 trim walks, 2 evictions, reset", None, True),
]


def model_checks(ctx):
    th = ctx.thorough
    cex = []
    demo = {}
    for module, runs in (("SeriesCacheMC", PROTOCOL_RUNS), ("SeriesCacheMem", MEM_RUNS), ("SeriesCacheShard", SHARD_RUNS)):
        for cfg, what, want, big in runs:
            if big and not th:
                continue
            res = ctx.tlc(module, cfg, timeout=3000 if th else 900, name=what, expect_violation=bool(want),
                          coverage=(th and cfg == "SeriesCache_mc2_big.cfg"), workers=8)
            ctx.log("%s: %d states, %d distinct, %.0fs%s" % (cfg, res.generated, res.distinct, res.wall,
                                                                  " -> " + str(res.violated) if res.violated else ""))
            if want:
                if res.violated != want:
                    raise Infra("specification lost its teeth: %s should give %s, got %s" % (cfg, want, res.violated))
                demo[cfg] = res.violated
                if cfg in CFG_CS:
                    for b in res.behaviours[:3]:
                        cex.append((cfg, b))
            else:
                ctx.require_model_ok(res, what)
    ctx.ev.set("exhaustive", True)
    ctx.ev.set("expected_model_counterexamples", demo)
    return cex


CFG_CS = {"SeriesCache_orig_await.cfg": 2, "SeriesCache_half_await.cfg": 2, "SeriesCache_anyaw.cfg": 2,
          "SeriesCache_beh.cfg": 2, "SeriesCache_beh3.cfg": 1}


def simulated_behaviours(ctx, cfg, num, depth, want):
    beh = ctx.tlc("SeriesCacheMC", cfg, simulate=(num, depth), timeout=900, name="behaviour export (simulation) " + cfg)
    ctx.require_model_ok(beh, "behaviour export")
    bs = beh.behaviours
    out, seen = [], set()
    for i, b in enumerate(bs):
        if i + 1 < len(bs) and len(bs[i + 1]) > len(b):
            continue  # a prefix of the next one
        if sum(1 for s in b if s.get("a") == "Start") < 2:
            continue
        k = json.dumps(b, sort_keys=True)
        if k not in seen:
            seen.add(k)
            out.append(b)
    rnd = random.Random(ctx.seed)
    rnd.shuffle(out)
    # prefer schedules with an invalidation between a load and a later request
    out.sort(key=lambda b: -min(3, sum(1 for s in b if s.get("a") in ("InvApply", "Trim")) + sum(1 for s in b if s.get("a") == "LoadEnd" and not s.get("ok"))))
    return out[:want]


def validate(ctx, path, name):
    return ctx.tlc("SeriesCacheAbsTrace", "SeriesCacheAbsTrace.cfg", workers=1, files={"trace.ndjson": path},
                   timeout=2400, name=name, expect_violation=True, heap="4g")


def run_at(path, line):
    run, cfg, ev = None, None, None
    with open(path) as f:
        for i, l in enumerate(f, 1):
            if '"ev":"Reset"' in l:
                d = json.loads(l)
                run, cfg = d.get("run"), d.get("cfg")
            if i == line:
                ev = l.strip()[:500]
                break
    return run, cfg, ev


def judge_traces(ctx, files, stage):
    with ThreadPoolExecutor(max_workers=4) as ex:
        tvs = list(ex.map(lambda a: validate(ctx, a[1], "%s trace validation %d" % (stage, a[0])), enumerate(files)))
    accepted = 0
    for i, (path, tv) in enumerate(zip(files, tvs)):
        nrun = sum(1 for l in open(path) if '"ev":"Reset"' in l)
        if not tv.violated:
            accepted += nrun
            continue
        keep = ctx.save("%s_rejected_trace_%d.ndjson" % (stage, i), open(path).read())
        tv2 = validate(ctx, keep, "%s trace re-validation %d" % (stage, i))
        if tv2.violated != tv.violated:
            raise Infra("trace rejection not reproducible (%s vs %s)" % (tv.violated, tv2.violated))
        where = [l for l in tv.printed if "TRACE_REJECTED" in l]
        line = int(re.search(r"(\d+)>>", where[0]).group(1)) if where else None
        if line is None:
            m = re.findall(r"/\\ l = (\d+)", tv.cex)
            line = int(m[-1]) if m else None
        if line and tv.violated.startswith("invariant"):
            line -= 1  # the state after the event of the previous line violates the invariant
        run, cfg, ev = run_at(keep, line) if line else (None, None, None)
        sig = tv.violated if tv.violated.startswith("invariant") else "trace-rejected"
        ctx.violation(sig, "real cache2 execution violates %s at trace line %s (run %s %s): %s" % (
            tv.violated, line, run, json.dumps(cfg), ev), keep)
        # runs before the rejected one were accepted
        accepted += sum(1 for j, l in enumerate(open(path), 1) if '"ev":"Reset"' in l and line and j < line) - 1
    return max(accepted, 0)


def drive(ctx, test, stage, **kw):
    res, out, rc = ctx.go_test("internal/api", test, **kw)
    if res is None and "panic:" in out:
        # a panic on a goroutine of the cache (trim, loadChunks) kills the test binary
        i = out.find("panic:")
        head = out[i:i + 6000]
        first = head.split("\n\n")[0] + "\n" + (head.split("\n\n")[1] if "\n\n" in head else "")
        p = ctx.save("%s_panic.log" % stage, out[max(0, i - 2000):i + 30000])
        if "tscache2" in first and "verif_c23" not in first.split("tscache2")[0][-400:]:
            ctx.violation("panic", "the cache panics: %s" % head.split("\n")[0][:300], p)
            return None
        raise Infra("driver %s died: %s" % (test, p))
    res = ctx.need_result(res, out, rc, test)
    for k, mm in enumerate((res.get("mismatches") or [])[:5]):
        p = ctx.save("%s_go_witness_%d.json" % (stage, k), mm)
        ctx.violation(mm.get("sig") or "go", "%s: %s want %s got %s" % (stage, mm.get("note") or "direct check on the real cache",
                                                                          mm.get("want"), json.dumps(mm.get("got"))[:400]), p)
    for n in (res.get("notes") or [])[:4]:
        ctx.log("note:", n[:2500])
    return res


def run(ctx):
    th = ctx.thorough
    dev = os.environ.get("VERIF_C23_DEV", "")  # development aid: "nomc" skips TLC model checking, "nosim" the simulations
    cex = [] if "nomc" in dev else model_checks(ctx)

    # ---- schedules on the real code
    scen = json.load(open(SCENARIOS))
    sched = list(scen)
    for cfg, b in cex:
        sched.append([{"a": "Scenario", "name": "cex:" + cfg, "cs": CFG_CS[cfg]}] + b)
    nsim = 0
    sims = [("SeriesCache_beh.cfg", 400 if th else 100, 16, 300 if th else 60)]
    if th:
        sims.append(("SeriesCache_beh3.cfg", 400, 20, 300))
    for cfg, num, depth, want in sims:
        for b in ([] if "nosim" in dev else simulated_behaviours(ctx, cfg, num, depth, want)):
            sched.append([{"a": "Scenario", "name": "sim:" + cfg, "cs": CFG_CS[cfg]}] + b)
            nsim += 1
    res = drive(ctx, "TestVerifC23Sched", "sched", inp=sched, env={"VERIF_C23_LANES": 6 if th else 3}, timeout=2400)
    if res is not None:
        ninfra = res.get("counters", {}).get("infra", 0)
        if ninfra > max(3, len(sched) // 10):
            raise Infra("schedule driver could not steer %d steps: %s" % (ninfra, (res.get("notes") or [])[:5]))
        acc = judge_traces(ctx, res["files"], "sched")
        c = res.get("counters", {})
        ctx.ev.add_impl("scheduled runs of the real cache2 accepted by SeriesCacheAbsTrace", acc, steps=res["steps"],
                        scenarios=len(scen), from_model_counterexamples=len(cex), from_simulated_behaviours=nsim,
                        distinct_classes=res.get("distinct"),
                        load_decisions_compared_with_model=c.get("l2_compared", 0), load_decisions_agreeing=c.get("l2_agree", 0))
        ctx.ev.sample({"scenario": scen[0]})
        if sched[len(scen):]:
            ctx.ev.sample({"schedule_from_tlc": sched[-1]})

    # ---- random concurrent runs of the real code
    env = {"VERIF_C23_LANES": 8 if th else 4, "VERIF_C23_NRUNS": 75 if th else 12}
    res = None if "norandom" in dev else drive(ctx, "TestVerifC23Random", "random", env=env, timeout=2400)
    if res is not None:
        acc = judge_traces(ctx, res["files"], "random")
        ctx.ev.add_impl("random concurrent runs of the real cache2 accepted by SeriesCacheAbsTrace", acc, steps=res["steps"],
                        distinct_classes=res.get("distinct"))
        for s in (res.get("samples") or [])[:2]:
            ctx.ev.sample({"random_run": s})
        if res.get("consts", {}).get("invalidateLingerNs") != 15000000000:
            raise Infra("invalidateLinger changed: %s" % res.get("consts"))

    # ---- the same random driver under the race detector (sanity aid: a report is not a verdict)
    if th and os.environ.get("VERIF_C23_RACE", "1") == "1":
        r2, out, rc = ctx.go_test("internal/api", "TestVerifC23Random", env={"VERIF_C23_LANES": 4, "VERIF_C23_NRUNS": 15},
                                  timeout=2400, race=True)
        n = out.count("WARNING: DATA RACE")
        ctx.ev.set("race_detector_reports", n)
        if n:
            p = ctx.save("race_reports.log", out[-60000:])
            raise Infra("the race detector reports %d data race(s) in the random driver run, see %s" % (n, p))
        ctx.need_result(r2, out, rc, "TestVerifC23Random (race build)")

    ctx.ev.assume("freshness is read as real-time order of non-overlapping operations: rows of load L are forbidden for request G "
                  "iff an invalidation I of the slot exists with L finished < I began and I completed < G began; a load's "
                  "'finished' is the instant the storage stub reads the storage, immediately before it returns")
    ctx.ev.assume("invalidate calls do not overlap each other (the product has one invalidation goroutine and cache2Shard keeps "
                  "one iteration cursor for it); trimming is done by the cache's single trim goroutine")
    ctx.ev.assume("wall clock readings do not decrease (the cache orders loads and invalidations by time.Now().UnixNano())")
    ctx.ev.assume("play-mode requests are only required to return (the statement constrains non-play requests)")
    ctx.ev.assume("'waits forever': after every load has returned and every gate of the driver is open, a request that has "
                  "not returned within VERIF_C23_DEADLINE_S (120 s) while its goroutine sleeps inside the cache")
    ctx.ev.assume("layer 2 models one bucket; the shard's bucket list with its invalidate / trim cursors is SeriesCacheShard.tla, the "
                  "accounting and memory limits shared by the buckets SeriesCacheMem.tla (mixing of queries is checked on the real "
                  "code: every row carries its query)")
