"""C09 - the agent disk cache survives restarts and crashes without corruption.

MC:   DiskCache.tla (disk_cache.go transcribed: files of records, known buckets with byte
      positions, tail reader, reference counts, size counters; property on ghost state),
      exhaustive over two shards, every tear offset of the last write, restarts, rotation by
      size and by age, body corruption.
S->I: behaviours exported by TLC (exhaustive small scope, simulated long ones over three shards,
      and a family with 17 MiB bodies that crosses the real 50 MiB rotation threshold) are
      replayed on the real DiskBucketStorage in a scratch directory.  Every step compares the API
      result, TotalFileSize and the files parsed from disk with the specification's state; every
      behaviour ends with a restart and - if its last step wrote - a crash at EVERY byte of that
      write, each followed by a full re-read through a fresh storage."""
import json
import os
import random
from vlib import Infra

HEAP = "6g"   # the state spaces are small; do not claim the default 24g on a shared machine
CONSTS = {"HeaderSize": 20, "MagicLen": 4, "MagicCommon": 2, "RotateSize": 52428800}


def replay(ctx, behs, name, env=None, timeout=3000):
    res, out, rc = ctx.go_test("internal/agent", "TestVerifC09", inp=behs, env=env or {}, timeout=timeout)
    res = ctx.need_result(res, out, rc, name)
    c = res.get("consts", {})
    if (c.get("headerSize") != CONSTS["HeaderSize"] or c.get("fileRotateSize") != CONSTS["RotateSize"]
            or c.get("magicCommon") != CONSTS["MagicCommon"] or c.get("magicLen") != CONSTS["MagicLen"]
            or c.get("fileRotateIntervalSec") != 3600):
        raise Infra("code constants changed (%s): specs/DiskCache*.cfg must be re-instantiated" % c)
    if res.get("counters", {}).get("driver_errors"):
        ctx.save("driver_notes_%s.txt" % name, "\n".join(res.get("notes", [])) + "\n" + out[-5000:])
        raise Infra("driver error in %s: %s" % (name, res.get("notes")))
    n = ctx.replay_s2i_mismatches(res, name)
    cnt = res.get("counters", {})
    ctx.ev.add_impl(name, res["replayed"] if n == 0 else 0, steps=res["steps"], given=len(behs),
                    restart_and_tear_checks=cnt.get("restart_and_tear_checks", 0),
                    steps_by_action={k[6:]: v for k, v in cnt.items() if k.startswith("steps:")})
    for s in res.get("samples", [])[:2]:
        ctx.ev.sample("%s: %s" % (name, s))
    if res["replayed"] != len([b for b in behs if b]) and n == 0:
        raise Infra("%s: %d of %d behaviours replayed" % (name, res["replayed"], len(behs)))
    return res


def pick(behs, rnd, limit, want=None):
    """Sample behaviours: every behaviour is exported together with all its prefixes, so prefer
    the long ones; keep those ending in a write (they get the every-byte tear sweep)."""
    if want:
        behs = [b for b in behs if want(b)]
    rnd.shuffle(behs)
    behs.sort(key=lambda b: -len(b))
    long = behs[: limit * 2 // 3]
    rest = behs[limit * 2 // 3:]
    writes = [b for b in rest if b[-1]["a"] in ("Put", "Erase")]
    rnd.shuffle(writes)
    return long + writes[: limit - len(long)]


def model_check(ctx, th):
    mc = ctx.tlc("DiskCacheMC", heap=HEAP, cfg="DiskCache_mc_big.cfg" if th else "DiskCache_mc.cfg",
                 timeout=6000 if th else 3000,
                 constants=dict(CONSTS, RotateSize=45, Shards=2, Lens=[0, 3], TearKs="0..23", MaxOps=6 if th else 5))
    ctx.require_model_ok(mc, "DiskCache invariants")
    if th:
        mc1 = ctx.tlc("DiskCacheMC", heap=HEAP, cfg="DiskCache_mc_one.cfg", timeout=6000, name="one shard, deeper",
                      constants=dict(CONSTS, RotateSize=45, Shards=1, Lens=[0, 1, 3], MaxPuts=4, MaxOps=6, MaxRestarts=3))
        ctx.require_model_ok(mc1, "DiskCache invariants (one shard, deeper)")
    ctx.ev.set("exhaustive", True)
    # 2. vacuity: the reader as it was found (half-erased magic not skipped) must break the property
    bad = ctx.tlc("DiskCacheMC", heap=HEAP, cfg="DiskCache_defect.cfg", timeout=1800, name="HalfIsDeleted=FALSE (reader as found)",
                  expect_violation=True, record=False)
    if bad.violated not in ("invariant:RereadExact", "invariant:TailOrder"):
        raise Infra("vacuity check failed: the specification of the unrepaired reader satisfies the property (%s)" % bad.violated)
    ctx.ev.set("defect_model_violates", bad.violated)


def run(ctx):
    th = ctx.thorough
    rnd = random.Random(ctx.seed)
    # 1. the design: exhaustive model checking (does not depend on the repository: skipped when
    #    tools/selftest runs the check against a mutated copy)
    if not os.environ.get("VERIF_SELFTEST"):
        model_check(ctx, th)
    # 3. behaviours for the driver
    beh = ctx.tlc("DiskCacheMC", heap=HEAP, cfg="DiskCache_beh.cfg",
                  timeout=3000, name="behaviour export (2 shards)")
    ctx.require_model_ok(beh, "behaviour export")
    take = pick(beh.behaviours, rnd, 20000 if th else 2500)
    if not take:
        raise Infra("no behaviours exported")
    replay(ctx, take, "tlc_behaviours")
    sim = ctx.tlc("DiskCacheMC", heap=HEAP, cfg="DiskCache_sim.cfg", simulate=(80 if th else 12, 51), timeout=1800,
                  name="simulated long behaviours (3 shards)")
    ctx.require_model_ok(sim, "simulation export")
    # the export prints every candidate last step of a trace: keep two per trace
    per = {}
    for b in sim.behaviours:
        per.setdefault(json.dumps(b[:-1], sort_keys=True), []).append(b)
    simb = []
    for k in sorted(per):
        alts = per[k]
        rnd.shuffle(alts)
        writes = [b for b in alts if b[-1]["a"] in ("Put", "Erase")]
        simb += (writes[:1] + [b for b in alts if b not in writes[:1]])[:2]
    if not simb:
        raise Infra("simulation exported nothing")
    replay(ctx, simb, "simulated_long")
    # 4. real rotation threshold: 17 MiB bodies, the third put rotates the file
    rot = ctx.tlc("DiskCacheMC", heap=HEAP, cfg="DiskCache_rot.cfg", timeout=1800, name="behaviour export (17 MiB bodies)")
    ctx.require_model_ok(rot, "rotation export")
    def rotates(b):
        return sum(1 for s in b if s["a"] == "Put") >= 3
    big = pick(rot.behaviours, rnd, 20 if th else 4, want=rotates)
    if not big:
        raise Infra("no rotating behaviour exported")
    replay(ctx, big, "real_rotation_threshold", env={"VERIF_C09_BIG": 1, "VERIF_C09_WORKERS": 2})
    ctx.ev.assume("fault model of the property text: restart at any point; crash = only the first k bytes of the "
                  "last write reached the file (the cache never fsyncs, the files are the state); plus a flipped body byte")
    ctx.ev.assume("file names (creation instants, local time, nanoseconds) increase: the wall clock does not step "
                  "back during a run")
    ctx.ev.assume("rotation by age is driven by moving writingFileCreatedTs back one hour (white-box); rotation by "
                  "size uses the real 50 MiB threshold with 17 MiB bodies")
    ctx.ev.assume("I/O errors of the file system (failed open/write/remove) are not injected")
