"""Shared machinery of the metadata-database checks C15, C16, C19 (not a check itself).

specs/MetaDB.tla is one module for the three properties; every check model-checks the
instances that matter for it, exports behaviours (exhaustive small instances and seeded random
scripts followed by specs/MetaDBScript.tla) and replays them on the real DBV2 with
harness/internal/metadata/verif_c15c16c19_db_test.go in its own VERIF_MODE."""
import json, os, random, re
from vlib import Infra, SPECS

PKG = "internal/metadata"
TEST = "TestVerifC15C16C19"
CODE_MAX_RESET = 10000          # dbv2.go maxResetLimit, cross-checked against the driver's report


def read_cfg(name):
    with open(os.path.join(SPECS, name)) as f:
        return f.read()


def variant(text, consts=None, invariants=None, properties=None, export=None):
    """Derive a cfg from a base cfg: replace constant bindings, the INVARIANTS / PROPERTIES lines
    (None keeps, "" removes) and add the behaviour export."""
    for k, v in (consts or {}).items():
        text, n = re.subn(r"(?m)^(\s*)%s\s*(=|<-).*$" % re.escape(k), lambda m: "%s%s %s" % (m.group(1), k, v), text)
        if n != 1:
            raise Infra("cfg has no single binding for %s" % k)
    if invariants is not None:
        text = re.sub(r"(?m)^INVARIANTS.*\n", "", text)
        if invariants:
            text += "INVARIANTS " + invariants + "\n"
    if properties is not None:
        text = re.sub(r"(?m)^PROPERTIES.*\n", "", text)
        if properties:
            text += "PROPERTIES " + properties + "\n"
    if export:
        text = re.sub(r"(?m)^ACTION_CONSTRAINT.*\n", "", text)
        text += "ACTION_CONSTRAINT %s\n" % export
    return text


def cfg_int(text, name):
    m = re.search(r"(?m)^\s*%s\s*=\s*(-?\d+)\s*$" % name, text)
    if not m:
        raise Infra("cfg has no integer constant %s" % name)
    return int(m.group(1))


def driver_consts(text):
    if cfg_int(text, "MaxResetLimit") != CODE_MAX_RESET:
        raise Infra("MaxResetLimit in cfg differs from the code constant")
    step = cfg_int(text, "StepSec")
    if cfg_int(text, "U32Q") != (1 << 32) // step or cfg_int(text, "U32R") != (1 << 32) % step:
        raise Infra("U32Q/U32R do not match StepSec")
    return {"maxBudget": cfg_int(text, "MaxBudget"), "step": step, "bonus": cfg_int(text, "BudgetBonus"),
            "global": cfg_int(text, "GlobalBudget"), "clock0": cfg_int(text, "Clock0")}


def budget_consts(max_budget, step, bonus, glob, clock0):
    return {"MaxBudget": "= %d" % max_budget, "StepSec": "= %d" % step, "BudgetBonus": "= %d" % bonus,
            "GlobalBudget": "= %d" % glob, "Clock0": "= %d" % clock0,
            "U32Q": "= %d" % ((1 << 32) // step), "U32R": "= %d" % ((1 << 32) % step)}


def wrap(behaviours, cfg_text, src):
    c = driver_consts(cfg_text)
    return [{"c": c, "src": src, "steps": b} for b in behaviours if b]


def mc(ctx, base, name, consts=None, invariants=None, properties=None, export=False, timeout=1800, coverage=False):
    """One TLC run of MetaDBMC with a derived cfg.  With export=True the behaviours through every
    explored transition are returned wrapped for the driver."""
    c = dict(consts or {})
    if export:
        c["WithPost"] = "= TRUE"
    text = variant(read_cfg(base), c, invariants, properties, "Export" if export else None)
    res = ctx.tlc("MetaDBMC", "gen.cfg", files={"gen.cfg": text}, timeout=timeout, name=name, coverage=coverage,
                  constants={k: v for k, v in c.items()})
    ctx.require_model_ok(res, name)
    items = wrap(res.behaviours, text, name) if export else []
    res.behaviours = []
    return res, items


def expect_model_violation(ctx, base, name, consts, invariants, properties, expect, timeout=1800):
    """Non-vacuity: a deliberately broken instance (a defect switched back on) must make the named
    invariant / action property fire; otherwise the invariant is dead and the check is broken."""
    text = variant(read_cfg(base), consts, invariants, properties)
    res = ctx.tlc("MetaDBMC", "gen.cfg", files={"gen.cfg": text}, timeout=timeout, name=name, expect_violation=True,
                  keep_beh=False, record=False)
    if not res.violated or expect not in res.violated:
        raise Infra("vacuity: %s expected a violation of %s, TLC says %s" % (name, expect, res.violated))
    ctx.log("non-vacuity ok: %s -> %s" % (name, res.violated))
    ctx.ev.cov.setdefault("vacuity_probes", []).append({"name": name, "violated": res.violated})


# ---------------------------------------------------------------- random scripts
ENT_NAMES = [("a", ""), ("b", ""), ("c", ""), ("n", ""), ("o", ""), ("n:a", "n"), ("n:b", "n"), ("o:a", "o"), ("n:c", "n")]
KEYS = ["k%d" % i for i in range(1, 15)]
METRICS = ["m1", "m2", "m3"]
PAYLOADS = [("d1", 0, ""), ("d2", 0, "x"), ("d3", 7, "yy"), ("d4", 0, "meta4"), ("d1", 9, "")]


def _save_op(rnd):
    name, ns = rnd.choice(ENT_NAMES)
    data, dele, meta = rnd.choice(PAYLOADS)
    r = rnd.random()
    if r < 0.35:     # create
        typ = rnd.choice([0, 0, 0, 1, 2, 4, 4])
        if ns == "" and rnd.random() < 0.3:
            typ = 4
        return {"a": "Save", "name": name, "idk": rnd.choice([0, 0, 0, 0, -1, -7]), "oldk": -1, "data": data, "del": 0,
                "meta": meta, "create": True, "typk": typ}
    keep = rnd.random() < 0.5
    return {"a": "Save", "name": "" if keep else name, "idk": rnd.choice([1, 2, 3, 4, 5, 6, -1, -7]),
            "oldk": rnd.choice([0, 0, 0, 0, 1, 2, -1]), "data": data, "del": dele, "meta": meta,
            "create": rnd.random() < 0.05, "typk": rnd.choice([-1, -1, -1, -1, -1, 0, 1, 4])}


def _race_op(rnd):
    idk = rnd.choice([1, 2, 3, 4])
    qs = []
    for _ in range(2):
        name, ns = rnd.choice(ENT_NAMES)
        keep = rnd.random() < 0.6
        data, dele, meta = rnd.choice(PAYLOADS)
        qs.append({"name": "" if keep else name, "idk": idk, "oldk": 0, "data": data + "r", "del": dele, "meta": meta,
                   "create": False, "typk": -1})
    return {"a": "Race", "q1": qs[0], "q2": qs[1]}


def gen_script(rnd, length, families, max_snaps):
    """families: subset of {"ent", "map", "boot"}; weights favour state-changing operations."""
    ops, snaps, nkeys = [], 0, rnd.choice([4, 6, 10, 14])
    keys = KEYS[:nkeys]
    hot = rnd.choice(METRICS)
    while len(ops) < length:
        fam = rnd.choice(sorted(families))
        r = rnd.random()
        if r < 0.04 and snaps < max_snaps:
            snaps += 1
            ops.append({"a": "Snap"})
        elif fam == "ent":
            ops.append(_race_op(rnd) if r > 0.9 else _save_op(rnd))
        elif fam == "boot":
            n = rnd.choice([0, 1, 2, 3])
            ops.append({"a": "Boot", "ms": [[rnd.choice(keys), rnd.randint(1, 9)] for _ in range(n)]})
        elif r < 0.55:
            ops.append({"a": "Goc", "metric": hot if rnd.random() < 0.7 else rnd.choice(METRICS), "key": rnd.choice(keys)})
        elif r < 0.67:
            ops.append({"a": "Tick", "d": rnd.choice([0, 1, 3, 9, 10, 11, 25, 60, 3600])})
        elif r < 0.77:
            ops.append({"a": "Reset", "metric": rnd.choice(METRICS), "limit": rnd.choice([0, -1, 1, 2, 5, 20000])})
        elif r < 0.83:
            n = rnd.choice([1, 1, 2, 3])
            ops.append({"a": "Del", "ids": sorted(set(rnd.randint(1, nkeys + 2) for _ in range(n)))})
        elif r < 0.89:
            # the newest mappings go (MAX(id) of the table drops), then the busy metric asks again
            ops.append({"a": "DelTop", "n": rnd.choice([0, 0, 1, 2, 3])})
            ops.append({"a": "Goc", "metric": hot, "key": rnd.choice(keys)})
            ops.append({"a": "Goc", "metric": hot, "key": rnd.choice(keys)})
        else:
            n = rnd.choice([0, 1, 1, 2])
            ops.append({"a": "Put", "ks": [rnd.choice(keys) for _ in range(n)], "vs": [rnd.randint(1, nkeys + 6) for _ in range(n)]})
    return {"ops": ops}


def real_constants_script(rnd):
    """One long history of a single metric under the default constants of the metadata server
    (budget 1000, step 3600 s, bonus 10): exhaust the budget, wait, refill, reset, reopen."""
    ops, nk = [], [0]

    def create(n, metric="m1"):
        for _ in range(n):
            nk[0] += 1
            ops.append({"a": "Goc", "metric": metric, "key": "key%05d" % nk[0]})
    create(1000)
    create(2)                                   # refused
    ops.append({"a": "Goc", "metric": "m1", "key": "key00007"})     # lookup still served
    ops.append({"a": "Tick", "d": rnd.choice([1, 100, 1877])})      # still inside the hour
    create(1)                                   # refused
    ops.append({"a": "Tick", "d": 3600})
    create(12)                                  # 10 accepted, 2 refused
    ops.append({"a": "Snap"})
    create(1)
    ops.append({"a": "Tick", "d": 2 * 3600 + rnd.choice([0, 5, 3599])})
    create(22)
    ops.append({"a": "Reset", "metric": "m1", "limit": rnd.choice([3, 7])})
    create(9)
    ops.append({"a": "Del", "ids": [1000, 1001]})
    ops.append({"a": "Goc", "metric": "m2", "key": "key01000"})     # deleted key comes back under a new id
    ops.append({"a": "Reset", "metric": "m1", "limit": 20000})      # clamped to maxResetLimit
    create(5)
    ops.append({"a": "Reset", "metric": "m1", "limit": 0})
    create(3)
    return {"ops": ops}


def scripts(ctx, name, families, n, length, budget, invariants, properties, salt=0, timeout=3600, max_snaps=3, fixed=None):
    """Generate n seeded scripts (or take the given ones), let MetaDBScript follow them (checking the
    given invariants and action properties in every state) and return the behaviours wrapped for
    the driver."""
    rnd = random.Random(ctx.seed * 7919 + salt)
    sc = fixed if fixed is not None else [gen_script(rnd, length, families, max_snaps) for _ in range(n)]
    n = len(sc)
    lines = "\n".join(json.dumps(x, separators=(",", ":")) for x in sc) + "\n"
    c = budget_consts(*budget)
    if fixed is not None:
        c["WithPost"] = "= FALSE"       # long histories: replies only, no projected state per step
    text = variant(read_cfg("MetaDB_script.cfg"), c, invariants, properties, "SExport")
    res = ctx.tlc("MetaDBScript", "gen.cfg", files={"gen.cfg": text, "scripts.ndjson": lines}, timeout=timeout,
                  name=name, constants={"budget": list(budget), "scripts": n, "length": length})
    ctx.require_model_ok(res, name)
    if not (0.9 * n <= len(res.behaviours) <= n):       # identical scripts collapse into one
        raise Infra("%s: %d scripts but %d behaviours exported" % (name, n, len(res.behaviours)))
    items = wrap(res.behaviours, text, name)
    res.behaviours = []
    return res, items


def random_budget(rnd):
    step = rnd.choice([5, 10, 60, 3600])
    return (rnd.choice([1, 2, 3, 5]), step, rnd.choice([0, 1, 2, 3]), rnd.choice([0, 1, 2, 4, 1000000]),
            rnd.choice([1641027722, 1000003, step * 1000, step * 77 + step - 1]))


# ---------------------------------------------------------------- driver
def _shape(item):
    out = []
    for st in item["steps"]:
        a = st.get("a")
        if a == "Save":
            rq = st["rq"]
            out.append((a, st.get("why"), rq.get("create"), rq.get("typ"), rq.get("id", 0) < 0))
        elif a == "Race":
            out.append((a, st.get("ok1"), st.get("ok2")))
        elif a == "Goc":
            out.append((a, st.get("kind"), st.get("charged")))
        else:
            out.append((a,))
    return tuple(out)


def newest_deleted_then_asked(item):
    """History class: a deletion removes the newest mapping (MAX(id) of the table drops) after a
    creation was refused or beyond the global budget, and the metric asks for a new key afterwards."""
    glob = item["c"]["global"]
    top, seen_del = 0, False
    for st in item["steps"]:
        a = st.get("a")
        m = (st.get("post") or {}).get("m")
        if a == "Del" and m is not None:
            now = max([x[1] for x in m] + [0])
            if top > glob and now < top:
                seen_del = True
        elif a == "Goc" and seen_del and st.get("kind") in ("flood", "created"):
            return True
        if m is not None:
            top = max([x[1] for x in m] + [0])
    return False


def sample(ctx, items, n, salt=0, first=None):
    """Seeded sample that favours variety: behaviours are grouped by the shape of their operation
    sequence (operation, outcome class) and the groups are served round-robin.  Behaviours
    satisfying `first` are taken before the others (up to half of the sample)."""
    rnd = random.Random(ctx.seed * 104729 + salt)
    if first is not None:
        pri = [it for it in items if first(it)]
        rest = [it for it in items if not first(it)]
        take = sample(ctx, pri, n // 2, salt + 1000003)
        return take + sample(ctx, rest, n - len(take), salt)
    groups = {}
    for it in items:
        groups.setdefault(_shape(it), []).append(it)
    keys = sorted(groups, key=repr)
    rnd.shuffle(keys)
    for k in keys:
        rnd.shuffle(groups[k])
    out = []
    while len(out) < n and keys:
        nxt = []
        for k in keys:
            if len(out) >= n:
                break
            out.append(groups[k].pop())
            if groups[k]:
                nxt.append(k)
        keys = nxt
    return out


TRACE_PROPS = {
    "C15": ("VersionsUnique NameUnique NamespaceExists JournalOnceAscending",
            "TEditNeedsCurrentVersion TEditHitsItsEntity TVersionsIncrease TRaceOneWinner TNamespaceNeverRenamed"),
    "C19": ("Bijection PositiveIds UsedComplete FloodBound",
            "TMappingStable TGetOrCreateIdempotent TDeadIdsNeverReissued"),
}


def validate_traces(ctx, mode, res, items, stage):
    """I->S: the recorded executions (requests, the code's replies, tables read back) must be
    accepted by MetaDBTrace with the property invariants / action properties holding in every
    step.  One TLC run per group of runs sharing the budget constants."""
    inv, prop = TRACE_PROPS[mode]
    accepted = 0
    for key, path in sorted((res.get("consts", {}).get("groups") or {}).items()):
        mb, step, bonus, glob = [int(x) for x in key.split("_")]
        if mb >= 100:       # tables of a thousand rows: leave the quadratic invariants to the small instances
            inv = " ".join(x for x in inv.split() if x not in ("Bijection", "UsedComplete", "JournalOnceAscending"))
        text = variant(read_cfg("MetaDBTrace.cfg"), budget_consts(mb, step, bonus, glob, 0), inv, prop)
        with open(path) as f:
            lines = f.read().splitlines()
        runs = sum(1 for x in lines if '"ev":"Begin"' in x)
        tv = ctx.tlc("MetaDBTrace", "gen.cfg", workers=1, files={"gen.cfg": text, "trace.ndjson": path}, timeout=7200,
                     name="%s trace %s" % (stage, key), expect_violation=True, keep_beh=False,
                     constants={"budget": [mb, step, bonus, glob], "runs": runs, "lines": len(lines)})
        if not tv.violated:
            accepted += runs
            continue
        # locate the offending line: rejected traces print it, invariant / property violations
        # show the line counter of the last state
        m = re.findall(r"TRACE_REJECTED_AT_LINE\D+(\d+)", tv.out)
        if m and tv.violated == "postcondition":
            ln = int(m[-1])
        else:
            ls = [int(x) for x in re.findall(r"(?m)^/\\ l = (\d+)", tv.out)]
            ln = (max(ls) - 1) if ls else 1
        ln = max(1, min(ln, len(lines)))
        ev = json.loads(lines[ln - 1])
        b = ev.get("b")
        run = [json.loads(x) for x in lines if json.loads(x).get("b") == b] if b is not None else [ev]
        if tv.violated == "postcondition":
            sig = "trace-rejected: %s read-back differs from the accepted requests" % ev.get("ev")
        else:
            sig = tv.violated
        keep = ctx.save("%s_rejected_%s.json" % (stage, key), {
            "violated": tv.violated, "line": ln, "event": ev, "run": run,
            "behaviour": items[b] if b is not None and b < len(items) else None, "tlc": tv.cex[-6000:]})
        ctx.violation(sig, "%s: execution of the real DBV2 violates %s at %s (budget constants %s)" % (
            stage, tv.violated, json.dumps(ev)[:500], key), keep)
    return accepted


BATCH = 1500    # behaviours per driver process: Engine.Close leaves its commit-timer goroutine behind, so one
                # process must not open tens of thousands of engines


def _drive_batches(ctx, mode, items, stage, timeout):
    """Run the driver in batches and merge the results (counters summed, trace files of the same
    budget constants concatenated; behaviour indices are global through VERIF_BASE)."""
    total = None
    merged = {}
    for base in range(0, max(1, len(items)), BATCH):
        part = items[base:base + BATCH]
        res, out, rc = ctx.go_test(PKG, TEST, inp=part, env={"VERIF_MODE": mode, "VERIF_WORKERS": 10, "VERIF_BASE": base},
                                   timeout=timeout)
        res = ctx.need_result(res, out, rc, "%s %s batch %d" % (TEST, stage, base // BATCH))
        for key, path in (res.get("consts", {}).get("groups") or {}).items():
            dst = os.path.join(ctx.tmp, "trace_%s_%s.ndjson" % (stage, key))
            with open(path) as f, open(dst, "a") as g:
                g.write(f.read())
            merged[key] = dst
        if total is None:
            total = res
        else:
            for k, v in (res.get("counters") or {}).items():
                total["counters"][k] = total["counters"].get(k, 0) + v
            for k in ("mismatches", "samples", "notes"):
                total[k] = (total.get(k) or []) + (res.get(k) or [])
            total["steps"] = total.get("steps", 0) + res.get("steps", 0)
            total["distinct"] = total.get("distinct", 0) + res.get("distinct", 0)
    total.setdefault("consts", {})["groups"] = merged
    return total


def drive(ctx, mode, items, stage, timeout=7200):
    """Replay the behaviours on the real DBV2.  Returns the driver result; mismatches become
    violations of the calling property (signature = mismatch class)."""
    res = _drive_batches(ctx, mode, items, stage, timeout)
    if res.get("consts", {}).get("maxResetLimit") != CODE_MAX_RESET:
        raise Infra("maxResetLimit of the code is %s: re-instantiate MaxResetLimit in specs/MetaDB*.cfg" %
                    res.get("consts", {}).get("maxResetLimit"))
    cnt = res.get("counters", {})
    if cnt.get("infra", 0):
        ctx.save("driver_notes_%s.json" % stage, res.get("notes", []))
        raise Infra("%s: %d behaviours could not be executed: %s" % (stage, cnt["infra"], res.get("notes", [])[:3]))
    nmm = cnt.get("mismatching", 0)
    by_sig = {}
    for mm in res.get("mismatches") or []:
        by_sig.setdefault(mm.get("sig") or stage, []).append(mm)
    k = 0
    for sig, mms in sorted(by_sig.items()):
        for mm in mms[:2]:
            k += 1
            p = ctx.save("%s_mismatch_%d.json" % (stage, k), mm)
            ctx.violation(sig, "%s: %s at step %s: want=%s got=%s %s" % (
                stage, sig, mm.get("step"), json.dumps(mm.get("want"))[:400], json.dumps(mm.get("got"))[:400],
                mm.get("note", "")), p)
    ok = cnt.get("ok", 0)
    exact = ok - cnt.get("left_spec", 0)
    if mode in TRACE_PROPS:
        acc = validate_traces(ctx, mode, res, items, stage)
        ctx.ev.add_impl("%s: executions of DBV2 accepted by MetaDBTrace (%s properties in every step)" % (stage, mode),
                        acc, steps=res.get("steps", 0), given=len(items), read_mismatches=nmm,
                        also_exactly_as_mechanism_spec=exact, distinct_op_sequences=res.get("distinct", 0))
    else:
        ctx.ev.add_impl("%s: histories whose reopened databases equal the primary (%s)" % (stage, mode), ok,
                        steps=res.get("steps", 0), given=len(items), mismatching=nmm,
                        primary_exactly_as_mechanism_spec=exact, distinct_op_sequences=res.get("distinct", 0))
    if cnt.get("left_spec", 0):
        ctx.log("%s: %d behaviours left the mechanism of the specification (not a verdict): %s" % (
            stage, cnt["left_spec"], res.get("notes", [])[:2]))
        ctx.ev.set("mechanism_notes_" + stage, res.get("notes", [])[:5])
    for s in res.get("samples", [])[:3]:
        ctx.ev.sample(s)
    ctx.log("%s: %d/%d behaviours ok, %d mismatching, %d steps" % (stage, ok, len(items), nmm, res.get("steps", 0)))
    return res


def replay_witness(ctx, mode, path):
    """tools/check <ID> --replay <witness>: run the stored behaviour again on the real DBV2."""
    with open(path) as f:
        w = json.load(f)
    beh = w.get("behaviour") or w.get("beh")
    if not beh:
        raise Infra("witness %s carries no behaviour" % path)
    ctx.log("replaying the stored behaviour (%d steps, source %s)" % (len(beh.get("steps", [])), beh.get("src")))
    drive(ctx, mode, [beh], "replayed")
