"""C01 - accepted metric data is never silently lost between agent and storage.

MC:   specs/Conveyor.tla design layer (ConveyorMC) - all interleavings of sends, filing, ticks,
      inserts, replies with insert failures, lost responses, aggregator restarts, liveness flips.
I->S: a real in-process cluster (3 aggregators built from the real code, one real agent with a
      disk cache, fake ClickHouse scanning every accepted body for marker rows, TCP fault proxy)
      runs seeded fault scenarios; the hook trace is validated by specs/ConveyorTrace.tla,
      which evaluates the property's invariants at every step and the end-to-end delivery
      condition at quiescence."""
import json, os, concurrent.futures
from vlib import Infra


MC_ENABLED = True


def run_scenario(ctx, name, salt, seconds):
    res, out, rc = ctx.go_test("internal/aggregator", "TestVerifC01",
                               env={"VERIF_C01_SCENARIO": name, "VERIF_C01_SALT": salt, "VERIF_C01_SECONDS": seconds,
                                    "VERIF_C01_INSERTERS": 1 if name == "conveyor-full" else 2},
                               timeout=600)
    res = ctx.need_result(res, out, rc, "TestVerifC01 " + name)
    return name, salt, res


def consts_module(evs):
    secs = set()
    rep = {}
    for e in evs:
        if "sec" in e:
            secs.add(e["sec"])
        if e["ev"] == "AggStart":
            rep[e["inst"]] = e["rep"]
    fn = " @@ ".join('"%s" :> %d' % kv for kv in sorted(rep.items()))
    return ("------------------------- MODULE ConveyorTraceConsts -------------------------\n"
            "EXTENDS TLC\nTrSecs == {%s}\nTrInsts == {%s}\nTrRepOf == (%s)\n"
            "===============================================================================\n") % (
        ", ".join(map(str, sorted(secs))), ", ".join('"%s"' % i for i in sorted(rep)), fn)


def validate(ctx, name, salt, res):
    trace = res["files"][0]
    evs = [json.loads(l) for l in open(trace)]
    cm = consts_module(evs)
    bad = [e for e in evs if e["ev"] in ("AReadErr", "APutErr")]
    if bad:
        raise Infra("environment failure in scenario %s: %s" % (name, bad[:2]))
    tv = ctx.tlc("ConveyorTrace", "ConveyorTrace.cfg", workers=1, files={"trace.ndjson": trace, "ConveyorTraceConsts.tla": cm}, timeout=900,
                 name="trace %s/%s" % (name, salt), expect_violation=True)
    if tv.violated:
        keep = ctx.save("rejected_%s_%s.ndjson" % (name, salt), open(trace).read())
        tv2 = ctx.tlc("ConveyorTrace", "ConveyorTrace.cfg", workers=1, files={"trace.ndjson": keep, "ConveyorTraceConsts.tla": cm}, timeout=900,
                      record=False, expect_violation=True)
        if not tv2.violated:
            raise Infra("trace rejection not reproducible")
        where = [l for l in tv.printed if "TRACE_REJECTED" in l]
        line = None
        if where:
            import re
            m = re.search(r"(\d+)>>", where[0])
            line = int(m.group(1)) if m else None
        evd = evs[line - 1] if line and line <= len(evs) else None
        if tv.violated.startswith("invariant"):
            sig = tv.violated
        elif evd is not None:
            sig = "trace-rejected:" + evd["ev"] + (":" + str(evd.get("why", evd.get("kind", ""))) if evd.get("why") or evd.get("kind") else "")
        else:
            sig = "trace-rejected"
        ctx.violation(sig, "scenario %s/%s: real cluster run violates %s at event %s" % (name, salt, tv.violated, json.dumps(evd)), keep)
        return 0
    return 1


def run(ctx):
    th = ctx.thorough
    # design-level model checking
    mcs = []
    if MC_ENABLED:
        # safety (time passes freely) and progress (urgent time, bounded liveness) configurations
        cfgs = (["Conveyor_mc_big.cfg", "Conveyor_progress_big.cfg", "Conveyor_mc.cfg", "Conveyor_progress.cfg"] if th
                else ["Conveyor_mc.cfg", "Conveyor_progress.cfg"])
        mcx = concurrent.futures.ThreadPoolExecutor(max_workers=2)
        mcs = [mcx.submit(ctx.tlc, "ConveyorMC", c, workers=6, timeout=3400 if th else 900, coverage=False) for c in cfgs]
    scen = [("scripted", 0, 30), ("agent-restart", 0, 46), ("conveyor-full", 0, 26)]
    if th:
        scen += [("random", ctx.seed * 100 + k, 40) for k in range(7)]
    else:
        scen += [("random", ctx.seed * 100, 26)]
    ok = 0
    ctx.go_build_test("internal/aggregator")
    with concurrent.futures.ThreadPoolExecutor(max_workers=4) as ex:  # scenarios are real-time bound, not CPU bound
        futs = [ex.submit(run_scenario, ctx, *sc) for sc in scen]
        results = [f.result() for f in futs]
    for f in mcs:
        ctx.require_model_ok(f.result(), "Conveyor design layer")
    steps = 0
    for name, salt, res in results:
        ok += validate(ctx, name, salt, res)
        steps += res["counters"].get("events", 0)
        ctx.ev.sample({"scenario": name, "salt": salt, "faults": res.get("samples"), "counters": res["counters"]})
    ctx.ev.add_impl("cluster runs accepted by ConveyorTrace", ok, steps=steps, scenarios=len(scen))
    ctx.ev.assume("in-process cluster: aggregator restart = real shutdown sequence (graceful) or closing the RPC "
                  "server with its storage endpoint dead (crash-like); agent kill is not in the property's fault list")
    ctx.ev.assume("rows of a second are recognised in insert bodies by marker rows (unique id in a tag) added from the agent's "
                  "before-flush callback; the agent hook APrep reports which marker ids each flushed bucket really carries; "
                  "seconds without marker rows are not constrained")
    ctx.ev.assume("eventual delivery is checked as: every marked second is inserted within 120 s after all faults healed")
