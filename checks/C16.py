"""C16 - replaying the metadata binlog reproduces the primary's observable state."""
import os, sys
sys.path.insert(0, os.path.dirname(os.path.abspath(__file__)))
import metadb_common as M

INV = "ReplayReproducesPrimary"


def run(ctx):
    th = ctx.thorough
    items = []
    # 1. the design: replay handlers folded over the binlog from the empty file and from every
    #    snapshot reproduce the primary (entities + mappings + flood limits + bootstrap together,
    #    then the two families alone with their larger alphabets)
    r, it = M.mc(ctx, "MetaDB_mix.cfg", "mix", {"MaxOps": "= 3"}, INV, "", export=True)
    items += M.sample(ctx, it, 3000 if th else 300, 1)
    r, it = M.mc(ctx, "MetaDB_ent.cfg", "ent", {"MaxOps": "= 3"}, INV, "", export=True)
    items += M.sample(ctx, it, 3000 if th else 250, 2)
    r, it = M.mc(ctx, "MetaDB_map.cfg", "map", {"MaxOps": "= 3"}, INV, "", export=True)
    items += M.sample(ctx, it, 3000 if th else 250, 3)
    if th:
        M.mc(ctx, "MetaDB_mix.cfg", "mix deep", {"MaxOps": "= 4"}, INV, "", timeout=7200, coverage=True)
        M.mc(ctx, "MetaDB_ent.cfg", "ent deep", {"MaxOps": "= 4"}, INV, "", timeout=7200)
        M.mc(ctx, "MetaDB_map2.cfg", "map2 deep", {"MaxOps": "= 5"}, INV, "", timeout=7200)
        # the invariant is live: the rename defect switched back on must break it, and without the
        # ResetFlood exception it must break through ResetFlood
        M.expect_model_violation(ctx, "MetaDB_ent.cfg", "bug replay-rename", {"Bugs": '= {"replay-rename"}', "MaxOps": "= 2"},
                                 INV, "", "ReplayReproducesPrimary")
        M.expect_model_violation(ctx, "MetaDB_mix.cfg", "no ResetFlood exception", {"MaxOps": "= 2"},
                                 "ReplayExact", "", "ReplayExact")
    ctx.ev.set("exhaustive", True)
    # 2. seeded random long histories over all families
    import random
    rnd = random.Random(ctx.seed)
    for k in range(4 if th else 1):
        budget = M.random_budget(rnd) if k else (2, 10, 1, 1, 1003)
        r, it = M.scripts(ctx, "scripts %d" % k, {"ent", "map", "boot"}, 300 if th else 70, 30, budget, INV, "", salt=k)
        items += it
    # 3. the real DBV2: primary against the database reopened from the binlog
    M.drive(ctx, "C16", items, "replay")
    ctx.ev.assume("clock never steps back; single writer process; snapshots are copies of the database file taken "
                  "after a clean Close (the engine commits and the binlog is flushed), reopening is a clean start")
    ctx.ev.assume("PutBootstrap is issued through the engine with applyPutBootstrap (DBV2 has no public method for it)")


def replay(ctx, path):
    M.replay_witness(ctx, "C16", path)
