"""C25 - table queries assemble aligned, unique, ordered rows.

MC:   TableRelation.tla states the property as a relation between the input of the row
      assembly (LOD split, storage output per handler-what, row markers, direction, limit) and
      its output; TableAssembly.tla transcribes getTableFromLODs / limitQueries / inRange /
      lessThan and TLC checks, for every input of the bounded instances, that the
      transcription's output satisfies every clause of the relation.
S->I: every input TLC enumerated is exported together with the transcription's output and
      replayed on the real getTableFromLODs (white-box, loadPoints stub returning exactly the
      specified storage output); the real output must satisfy the relation and equal the
      transcription's.
I->S: seeded random larger inputs (3 LODs, 3 handler-whats, 2 tags + string top) run on the
      real code; checked against the relation in the driver and, as recorded input/output
      pairs, by TLC against TableRelation (TableAssemblyTrace.tla).  handleGetTable itself is run
      over a range that its LOD computation splits in two (stub loader in the cache) and its pages
      are checked against the same relation."""
import json
from vlib import Infra

WIDTHS = {"widths_2": "[7 2]", "widths_3": "[7 7 5]"}


def validate_trace(ctx, path, stage):
    return ctx.tlc("TableAssemblyTrace", "TableAssemblyTrace.cfg", workers=1, files={"trace.ndjson": path},
                   timeout=3000, name=stage, expect_violation=True)


def run(ctx):
    th = ctx.thorough
    # 1. I->S first (cheap): random larger inputs on the real code, relation checked in the driver
    #    and, for the recorded input/output pairs, by TLC against TableRelation
    ntrace = 1500 if th else 300
    res2, out2, rc2 = ctx.go_test("internal/api", "TestVerifC25Random",
                                  env={"VERIF_NRANDOM": 300000 if th else 20000, "VERIF_NTRACE": ntrace},
                                  timeout=6000 if th else 1500)
    res2 = ctx.need_result(res2, out2, rc2, "TestVerifC25Random")
    consts = res2.get("consts", {})
    for k, v in WIDTHS.items():
        if consts.get(k) != v:
            raise Infra("the code groups the requested functions differently (%s=%s, expected %s): "
                        "re-instantiate Width in specs/TableAssemblyMC.tla" % (k, consts.get(k), v))
    nbad = ctx.replay_s2i_mismatches(res2, "random")
    trace = res2["files"][0]
    tv = validate_trace(ctx, trace, "trace validation")
    naccepted = ntrace
    if tv.violated:
        keep = ctx.save("rejected_trace.ndjson", open(trace).read())
        tv2 = validate_trace(ctx, keep, "trace re-validation")
        if not tv2.violated:
            raise Infra("trace rejection not reproducible")
        where = [l for l in tv.printed if "TRACE_REJECTED" in l]
        sig = TRACE_SIG.get(tv.violated)
        if sig is None:
            raise Infra("trace validation failed outside the property: %s %s" % (tv.violated, where))
        ctx.violation(sig, "real getTableFromLODs output rejected by TableAssemblyTrace: %s %s" % (tv.violated, where), keep)
        naccepted = 0
    elif tv.distinct != ntrace + 1:
        raise Infra("trace validation visited %s states for %d recorded calls" % (tv.distinct, ntrace))
    elif nbad:
        # the driver's own evaluation of the relation and TLC's disagree on the first ntrace calls?
        first = min(m.get("step", 0) for m in res2["mismatches"])
        if first <= ntrace and any(m.get("sig") in TRACE_SIG.values() for m in res2["mismatches"] if m.get("step") == first):
            raise Infra("driver reports call %d as violating the relation but TableAssemblyTrace accepts it" % first)
    ctx.ev.add_impl("random inputs on getTableFromLODs checked against the relation in the driver",
                    res2["replayed"], steps=res2["steps"], classes=res2.get("distinct"))
    ctx.ev.add_impl("recorded input/output pairs accepted by TableAssemblyTrace", naccepted)
    for s in res2.get("samples", [])[:2]:
        ctx.ev.sample(s)
    assumptions(ctx)
    # 1b. endpoint level: handleGetTable (its own LOD split, two LODs across the 1m/1s table edge)
    res3, out3, rc3 = ctx.go_test("internal/api", "TestVerifC25Endpoint", timeout=900)
    res3 = ctx.need_result(res3, out3, rc3, "TestVerifC25Endpoint")
    if res3["replayed"] != 10:
        raise Infra("endpoint driver ran %s of 10 cases" % res3["replayed"])
    ctx.replay_s2i_mismatches(res3, "endpoint")
    ctx.ev.add_impl("handleGetTable pages over a two-LOD range checked against the relation", res3["replayed"],
                    steps=res3["steps"])
    for s in res3.get("samples", [])[:1]:
        ctx.ev.sample(s)
    if ctx.violations:
        return          # the verdict is a violation already; the exhaustive part would only add time
    # 2. model checking of the transcription against the relation (+ export of every case)
    cases = []
    runs = [("TableAssembly_beh_big.cfg" if th else "TableAssembly_mc.cfg", True,
             {"keys": "2 times x 2 tags", "splits": 2, "widths": [7, 2], "limits": "0..3" if th else "1..3",
              "markers": "none + 4 at rows" if th else "none + 2"}),
            ("TableAssembly_lods_mid.cfg" if th else "TableAssembly_lods.cfg", True,
             {"keys": "3 times x 1 tag", "splits": 4, "widths": [7, 2], "limits": "0..3" if th else "1..3",
              "markers": "none + 3" if th else "none + 2"})]
    if th:
        runs += [("TableAssembly_mc_big.cfg", False,
                  {"keys": "2 times x 2 tags", "splits": 2, "widths": [7, 2], "limits": "0..3",
                   "markers": "none + 4 between rows"}),
                 ("TableAssembly_lods_big.cfg", False,
                  {"keys": "3 times x 1 tag", "splits": 4, "widths": [7, 7, 5], "limits": "1..3",
                   "markers": "none + 2"})]
    for cfg, export, consts in runs:
        mc = ctx.tlc("TableAssemblyMC", cfg, timeout=6000 if th else 1500, keep_beh=export,
                     coverage=(th and not export), constants=consts)
        ctx.require_model_ok(mc, "TableAssembly invariants (%s)" % cfg)
        if export:
            if not mc.behaviours:
                raise Infra("no cases exported by %s" % cfg)
            cases += mc.behaviours
    ctx.ev.set("exhaustive", True)
    # 2b. the client protocol over the relation: paging walks partition the window
    pg = ctx.tlc("TablePagingMC", "TablePaging_mc_big.cfg" if th else "TablePaging_mc.cfg", timeout=3000 if th else 900,
                 constants={"keys": "2 times x 3 tags" if th else "2 times x 2 tags", "widths": [2] if th else [7, 2],
                            "limits": "1..4" if th else "1..3"})
    ctx.require_model_ok(pg, "TablePaging properties")
    if th:
        lv = ctx.tlc("TablePagingMC", "TablePaging_live.cfg", timeout=3000,
                     constants={"keys": "2 times x 2 tags", "widths": [7, 2], "limits": "1..3", "property": "<>done under WF"})
        ctx.require_model_ok(lv, "TablePaging termination")
    seen, walks = set(), []
    for b in pg.behaviours:      # ENABLED evaluations print a walk more than once
        k = json.dumps(b, sort_keys=True)
        if k not in seen:
            seen.add(k)
            walks.append(b)
    if not walks:
        raise Infra("no paging walks exported")
    res4, out4, rc4 = ctx.go_test("internal/api", "TestVerifC25Paging", inp=walks, timeout=6000 if th else 1500)
    res4 = ctx.need_result(res4, out4, rc4, "TestVerifC25Paging")
    if res4["replayed"] != 2 * len(walks):
        raise Infra("paging driver replayed %d of %d walks" % (res4["replayed"], 2 * len(walks)))
    ctx.replay_s2i_mismatches(res4, "paging")
    ctx.ev.add_impl("TLC-enumerated paging walks replayed on getTableFromLODs (each over 2 LOD splits)",
                    res4["replayed"], steps=res4["steps"])
    for s in res4.get("samples", [])[:1]:
        ctx.ev.sample(s)
    # 3. S->I: the enumerated inputs on the real code
    res, out, rc = ctx.go_test("internal/api", "TestVerifC25Enum", inp=cases, timeout=6000 if th else 1500)
    res = ctx.need_result(res, out, rc, "TestVerifC25Enum")
    if res["replayed"] != len(cases):
        raise Infra("driver replayed %d of %d cases" % (res["replayed"], len(cases)))
    ctx.replay_s2i_mismatches(res, "enum")
    ctx.ev.add_impl("TLC-enumerated inputs replayed on getTableFromLODs", res["replayed"], steps=res["steps"],
                    classes=res.get("distinct"))
    for s in res.get("samples", [])[:3]:
        ctx.ev.sample(s)


TRACE_SIG = {"invariant:TrAligned": "columns", "invariant:TrUnique": "duplicate-row",
             "invariant:TrOrdered": "order", "invariant:TrWindow": "window", "invariant:TrLimit": "limit",
             "invariant:TrFirst": "rows", "invariant:TrHasMore": "hasmore"}


def assumptions(ctx):
    ctx.ev.assume("storage contract: one group per time slot of the LOD, a key at most once per query, LODs ascending and "
                  "adjacent (as GetLODs produces them); the rows of a group come in the order the real query asks for "
                  "(the stub reads the ORDER BY clause of buildSeriesQuery; a sort key without DESC is ascending)")
    ctx.ev.assume("tags are raw integers (no mapping storage), the string top is an unmapped string; a handler-what "
                  "serves 7 functions (tsValueCount), so 2/3 handler-whats are exercised with 9/19 functions")
    ctx.ev.assume("markers carry all group-by tags (as the markers returned by the endpoint do)")


def replay(ctx, path):
    """Re-run one stored witness (a mismatch file written by this check) on the current tree."""
    with open(path) as f:
        txt = f.read()
    if path.endswith(".ndjson"):        # a rejected trace: validate it again
        tv = validate_trace(ctx, path, "trace replay")
        if tv.violated:
            ctx.violation(TRACE_SIG.get(tv.violated, "trace-rejected"), "stored trace still rejected: %s" % tv.violated, path)
        return
    mm = json.loads(txt)
    beh = mm.get("beh") or {}
    if "walk" in beh:
        beh["walk"]["lods"] = beh.get("lods")
        test, inp, stage = "TestVerifC25Paging", [beh["walk"]], "paging"
    elif "lods" in beh and "st" in beh:
        beh.pop("exp", None)
        test, inp, stage = "TestVerifC25Enum", [beh], "enum"
    else:
        test, inp, stage = "TestVerifC25Endpoint", None, "endpoint"
    res, out, rc = ctx.go_test("internal/api", test, inp=inp, timeout=900)
    res = ctx.need_result(res, out, rc, test)
    n = ctx.replay_s2i_mismatches(res, stage)
    ctx.ev.add_impl("replayed witness %s" % path, res["replayed"] if n == 0 else 0)
    print("replayed %s with %s: %d mismatches" % (path, test, n))
