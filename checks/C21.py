"""C21 - persistent caches reload exactly what was saved and never serve wrong data.

Chunks:   PersistCacheChunks.tla (ChunkedStorage2's file layout, reader and writer transcribed;
          crash points, truncation, corrupted cells) model-checked; the behaviours TLC explored
          (and longer simulated ones) are replayed on the real ChunkedStorage2 with the real
          ChunkSize, every abstract damage position expanded into concrete byte offsets / bits.
Mappings: PersistCacheMappings.tla (MappingsCache with its save file; eviction and TTL visiting
          order as nondeterministic decisions) model-checked; the operation sequences TLC explored
          plus seeded random longer ones are executed on the real MappingsCache and the recorded
          decisions/observations validated by PersistCacheMappingsTrace.tla (I->S)."""
import json, os, random
from vlib import Infra

MAP_CONSTS = {"CapDiv": 1024, "sizes": "len*5/4+32", "markers": [0, -1, -2]}


def dedupe(behs):
    seen, out = set(), []
    for b in behs:
        k = json.dumps(b, sort_keys=True)
        if k not in seen:
            seen.add(k)
            out.append(b)
    return out


def maximal(behs):
    """behaviours that are not a proper prefix of another exported one"""
    keys = [json.dumps(b, sort_keys=True)[:-1] for b in behs]
    ks = sorted(keys)
    drop = set()
    for i in range(len(ks) - 1):
        if ks[i + 1].startswith(ks[i] + ","):
            drop.add(ks[i])
    return [b for b, k in zip(behs, keys) if k not in drop]


# ------------------------------------------------------------------------------ mappings
def mappings_model(ctx):
    th = ctx.thorough
    if th:
        mc = ctx.tlc("PersistCacheMappingsMC", "PersistCacheMappings_mc_big.cfg", timeout=3000, coverage=True,
                     name="mappings model", constants=dict(MAP_CONSTS, MaxOps=5))
        ctx.require_model_ok(mc, "PersistCacheMappings invariants")
    vi = ctx.tlc("PersistCacheMappingsMC", "PersistCacheMappings_victims_big.cfg" if th else "PersistCacheMappings_victims.cfg",
                 timeout=3000 if th else 600, name="eviction rule: literal transcription = characterisation",
                 constants={"CapDiv": 2})
    ctx.require_model_ok(vi, "VictimsAgree")
    if not th:
        return
    # the two repaired defects are visible at the design level: the model of the original code violates the property
    for cfg, inv in (("PersistCacheMappings_orig_ttl.cfg", ("invariant:ReloadSame", "invariant:FileSync")),
                     ("PersistCacheMappings_orig_dup.cfg", ("invariant:Accounting",))):
        r = ctx.tlc("PersistCacheMappingsMC", cfg, timeout=600, name="model of the code before the repair: " + cfg,
                    expect_violation=True)
        if r.violated not in inv:
            raise Infra("%s: expected %s, TLC says %s (vacuity guard)" % (cfg, inv, r.violated))


def mappings_trace(ctx, path, cfg, stage):
    return ctx.tlc("PersistCacheMappingsTrace", cfg, workers=1, files={"trace.ndjson": path},
                   timeout=1500, name=stage, expect_violation=True)


def mappings_impl(ctx):
    th = ctx.thorough
    # exhaustive over the small alphabet, all invariants checked, every explored behaviour exported
    beh = ctx.tlc("PersistCacheMappingsMC", "PersistCacheMappings_beh.cfg", timeout=900,
                  name="mappings model (small alphabet) + behaviour export", constants=dict(MAP_CONSTS, MaxOps=4))
    ctx.require_model_ok(beh, "PersistCacheMappings invariants / behaviour export")
    bs = maximal(dedupe(beh.behaviours))
    rnd = random.Random(ctx.seed)
    rnd.shuffle(bs)
    take = bs[: (3000 if th else 600)]
    res, out, rc = ctx.go_test("internal/pcache", "TestVerifC21Mappings", inp=take,
                               env={"VERIF_NRANDOM": 2500 if th else 400, "VERIF_NCONCURRENT": 150 if th else 20}, timeout=1200)
    res = ctx.need_result(res, out, rc, "TestVerifC21Mappings")
    c = res.get("consts", {})
    if c.get("elementSizeMem_a") != 33 or c.get("elementSizeMem_8") != 42:
        raise Infra("elementSizeMem changed (%s): Size() of PersistCacheMappings.tla must be re-transcribed" % c)
    ctx.replay_s2i_mismatches(res, "mappings-run")
    trace = res["files"][0]
    tv = mappings_trace(ctx, trace, "PersistCacheMappingsTrace.cfg", "mappings trace validation")
    ntr = res["replayed"]
    if tv.violated:
        keep = ctx.save("mappings_rejected_trace.ndjson", open(trace).read())
        where = [l for l in tv.printed if "TRACE_REJECTED" in l]
        if tv.violated.startswith("invariant"):
            tv2 = mappings_trace(ctx, keep, "PersistCacheMappingsTrace.cfg", "mappings trace re-validation")
            if tv2.violated != tv.violated:
                raise Infra("trace rejection not reproducible")
            ctx.violation("mappings:" + tv.violated, "real MappingsCache execution violates %s" % tv.violated, keep)
        else:
            # the code did something the transcribed mechanism does not do: judge it by the property alone
            tp = mappings_trace(ctx, keep, "PersistCacheMappingsTrace_prop.cfg", "mappings trace, property only")
            if tp.violated and not tp.violated.startswith("invariant"):
                raise Infra("trace unreadable for PersistCacheMappingsTrace (%s %s), see %s" % (tp.violated, tp.printed[-1:], keep))
            if tp.violated:
                ctx.violation("mappings:" + tp.violated, "real MappingsCache execution violates %s %s" % (tp.violated, where), keep)
            else:
                ctx.log("NOTE: MappingsCache deviates from the transcribed mechanism at %s but every observed "
                        "execution satisfies the property" % where)
                ctx.ev.set("mappings_mechanism_deviation", str(where)[:300])
        ntr = 0
    ctx.ev.add_impl("MappingsCache executions accepted by PersistCacheMappingsTrace", ntr, steps=res["steps"],
                    from_tlc_behaviours=len(take), random=res["replayed"] - len(take) - res.get("counters", {}).get("concurrent_runs", 0),
                    concurrent=res.get("counters", {}).get("concurrent_runs", 0))
    for s in res.get("samples", [])[:3]:
        ctx.ev.sample(s)

# ------------------------------------------------------------------------------ chunks
CHUNK_CONSTS = {"Half": 2, "Max": 4, "ChunkSize": 1 << 20, "header": 8, "hash": 16}


def chunks_model(ctx):
    th = ctx.thorough
    mc = ctx.tlc("PersistCacheChunksMC", "PersistCacheChunks_mc_big.cfg" if th else "PersistCacheChunks_mc.cfg",
                 timeout=3000 if th else 600, coverage=th, name="chunks model",
                 constants=dict(CHUNK_CONSTS, MaxOps=13 if th else 11, MaxDamage=2 if th else 1))
    ctx.require_model_ok(mc, "PersistCacheChunks invariants")


def sim_behaviours(ctx, cfg, num, per_walk, rnd, name):
    sim = ctx.tlc("PersistCacheChunksMC", cfg, simulate=(num, 31), timeout=1500, name=name)
    ctx.require_model_ok(sim, name)
    # TLC prints the walk and its siblings at the last level: keep per_walk of them
    groups = {}
    for b in dedupe(sim.behaviours):
        groups.setdefault(json.dumps(b[:-1], sort_keys=True), []).append(b)
    out = []
    for k in sorted(groups):
        g = groups[k]
        rnd.shuffle(g)
        out += g[:per_walk]
    return [b for b in out if any(s["a"] == "Read" for s in b)]


def chunks_replay(ctx, behs, mode, stage, **kw):
    th = ctx.thorough
    res, out, rc = ctx.go_test("internal/data_model", "TestVerifC21Chunks", inp=behs,
                               env={"VERIF_HALF": CHUNK_CONSTS["Half"], "VERIF_MODE": mode,
                                    "VERIF_VARIANTS_REAL": 3 if th else 2, "VERIF_VARIANTS_SMALL": 128 if th else 10,
                                    "VERIF_FILE_EVERY": 5 if th else 0}, timeout=2400)
    res = ctx.need_result(res, out, rc, "TestVerifC21Chunks " + mode)
    c = res.get("consts", {})
    if (c.get("ChunkSize"), c.get("chunkHeaderSize"), c.get("chunkHashSize")) != (1 << 20, 8, 16):
        raise Infra("chunk format constants changed (%s): PersistCacheChunks must be re-instantiated" % c)
    if c.get("flushAtCells") != CHUNK_CONSTS["Half"] or not c.get("limitOK"):
        raise Infra("the writer's flush threshold / hard limit changed (%s): re-instantiate Half/Max" % c)
    cnt = res.get("counters", {})
    n = ctx.replay_s2i_mismatches(res, stage)
    if cnt.get("layout_mismatch") and not n:
        raise Infra("the real file layout differs from the model's (%s): re-transcribe PersistCacheChunks" % res.get("notes", [])[:2])
    ctx.ev.add_impl("PersistCacheChunks behaviours reproduced by ChunkedStorage2 (%s)" % stage, 0 if n else res["replayed"],
                    steps=res["steps"], concrete_runs=cnt.get("runs_" + mode, 0),
                    err_flag_differences=cnt.get("err_flag_diff", 0), **kw)
    for s in res.get("samples", [])[:1]:
        ctx.ev.sample({"chunks_behaviour_" + mode: s[:10]})


def chunks_impl(ctx):
    th = ctx.thorough
    rnd = random.Random(ctx.seed + 21)
    behs = sim_behaviours(ctx, "PersistCacheChunks_sim.cfg", 600 if th else 200, 2 if th else 1, rnd,
                          "chunks: simulated long behaviours (real flush threshold)")
    nsim = len(behs)
    # directed: save two chunks, close, then everything within 8 more operations (rewrite, crash inside
    # the rewrite, append, reload) - where the chaining of the hash matters
    dr = ctx.tlc("PersistCacheChunksMC", "PersistCacheChunks_dir.cfg", timeout=900,
                 name="chunks: directed behaviours after a two-chunk save")
    ctx.require_model_ok(dr, "chunks directed export")
    directed = [b for b in maximal(dedupe(dr.behaviours)) if any(s["a"] == "Read" for s in b)]
    behs += directed
    if th:
        ex = ctx.tlc("PersistCacheChunksMC", "PersistCacheChunks_beh.cfg", timeout=1500,
                     name="chunks: exhaustive short behaviours")
        ctx.require_model_ok(ex, "chunks behaviour export")
        short = [b for b in maximal(dedupe(ex.behaviours)) if any(s["a"] == "Read" for s in b)]
        rnd.shuffle(short)
        behs += short[:4000]
    chunks_replay(ctx, behs, "real", "chunks-real-unit", simulated=nsim, directed=len(directed),
                  exhaustive_short=len(behs) - nsim - len(directed))
    small = sim_behaviours(ctx, "PersistCacheChunks_sim_small.cfg", 300 if th else 150, 1, rnd,
                           "chunks: simulated long behaviours (small items, one chunk per save)")
    chunks_replay(ctx, small, "small", "chunks-small-unit", simulated=len(small))


def run(ctx):
    only = os.environ.get("VERIF_C21_ONLY", "")   # development aid: "chunks" / "mappings" / "impl" = conformance stages only
    if only:
        ctx.log("VERIF_C21_ONLY=%s: model-checking stages skipped" % only)
    if not only:
        chunks_model(ctx)
    if only in ("", "chunks", "impl"):
        chunks_impl(ctx)
    if not only:
        mappings_model(ctx)
    if only in ("", "mappings", "impl"):
        mappings_impl(ctx)
    ctx.ev.set("exhaustive", True)
    ctx.ev.assume("xxh3-128 is treated as collision free (a corrupted chunk never keeps its hash)")
    ctx.ev.assume("MappingsCache operation sequences are driven single-threaded (the concurrent runs - getters racing with one modifier - are judged only by the values returned and the accounting after the join); timestamps stay far below 2^32")
    ctx.ev.assume("mapping save files of the harness fit one chunk (strings < 1 KB); multi-chunk files are covered by the ChunkedStorage2 half")
