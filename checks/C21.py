"""C21 - persistent caches reload exactly what was saved and never serve wrong data.

Chunks:   PersistCacheChunks.tla (ChunkedStorage2's file layout, reader and writer transcribed;
          crash points, truncation, corrupted cells) model-checked; the behaviours TLC explored
          (and longer simulated ones) are replayed on the real ChunkedStorage2 with the real
          ChunkSize, every abstract damage position expanded into concrete byte offsets / bits.
Mappings: PersistCacheMappings.tla (MappingsCache with its save file; eviction and TTL visiting
          order as nondeterministic decisions) model-checked; the operation sequences TLC explored
          plus seeded random longer ones are executed on the real MappingsCache and the recorded
          decisions/observations validated by PersistCacheMappingsTrace.tla (I->S)."""
import json, random
from vlib import Infra

MAP_CONSTS = {"CapDiv": 1024, "sizes": "len*5/4+32", "markers": [0, -1, -2]}


def dedupe(behs):
    seen, out = set(), []
    for b in behs:
        k = json.dumps(b, sort_keys=True)
        if k not in seen:
            seen.add(k)
            out.append(b)
    return out


def maximal(behs):
    """behaviours that are not a proper prefix of another exported one"""
    keys = [json.dumps(b, sort_keys=True)[:-1] for b in behs]
    ks = sorted(keys)
    drop = set()
    for i in range(len(ks) - 1):
        if ks[i + 1].startswith(ks[i] + ","):
            drop.add(ks[i])
    return [b for b, k in zip(behs, keys) if k not in drop]


# ------------------------------------------------------------------------------ mappings
def mappings_model(ctx):
    th = ctx.thorough
    mc = ctx.tlc("PersistCacheMappingsMC", "PersistCacheMappings_mc_big.cfg" if th else "PersistCacheMappings_mc.cfg",
                 timeout=3000 if th else 600, coverage=th, name="mappings model",
                 constants=dict(MAP_CONSTS, MaxOps=5 if th else 4))
    ctx.require_model_ok(mc, "PersistCacheMappings invariants")
    vi = ctx.tlc("PersistCacheMappingsMC", "PersistCacheMappings_victims_big.cfg" if th else "PersistCacheMappings_victims.cfg",
                 timeout=3000 if th else 600, name="eviction rule: literal transcription = characterisation",
                 constants={"CapDiv": 2})
    ctx.require_model_ok(vi, "VictimsAgree")
    # the two repaired defects are visible at the design level: the original code's model violates the property
    for cfg, inv in (("PersistCacheMappings_orig_ttl.cfg", ("invariant:ReloadSame", "invariant:FileSync")),
                     ("PersistCacheMappings_orig_dup.cfg", ("invariant:Accounting",))):
        r = ctx.tlc("PersistCacheMappingsMC", cfg, timeout=600, name="model of the code before the repair: " + cfg,
                    expect_violation=True)
        if r.violated not in inv:
            raise Infra("%s: expected %s, TLC says %s (vacuity guard)" % (cfg, inv, r.violated))


def mappings_trace(ctx, path, cfg, stage):
    return ctx.tlc("PersistCacheMappingsTrace", cfg, workers=1, files={"trace.ndjson": path},
                   timeout=1500, name=stage, expect_violation=True)


def mappings_impl(ctx):
    th = ctx.thorough
    beh = ctx.tlc("PersistCacheMappingsMC", "PersistCacheMappings_beh.cfg", timeout=600, name="mappings behaviour export")
    ctx.require_model_ok(beh, "mappings behaviour export")
    bs = maximal(dedupe(beh.behaviours))
    rnd = random.Random(ctx.seed)
    rnd.shuffle(bs)
    take = bs[: (6000 if th else 1200)]
    res, out, rc = ctx.go_test("internal/pcache", "TestVerifC21Mappings", inp=take,
                               env={"VERIF_NRANDOM": 6000 if th else 700}, timeout=1200)
    res = ctx.need_result(res, out, rc, "TestVerifC21Mappings")
    c = res.get("consts", {})
    if c.get("elementSizeMem_a") != 33 or c.get("elementSizeMem_8") != 42:
        raise Infra("elementSizeMem changed (%s): Size() of PersistCacheMappings.tla must be re-transcribed" % c)
    ctx.replay_s2i_mismatches(res, "mappings-run")
    trace = res["files"][0]
    tv = mappings_trace(ctx, trace, "PersistCacheMappingsTrace.cfg", "mappings trace validation")
    ntr = res["replayed"]
    if tv.violated:
        keep = ctx.save("mappings_rejected_trace.ndjson", open(trace).read())
        where = [l for l in tv.printed if "TRACE_REJECTED" in l]
        if tv.violated.startswith("invariant"):
            tv2 = mappings_trace(ctx, keep, "PersistCacheMappingsTrace.cfg", "mappings trace re-validation")
            if tv2.violated != tv.violated:
                raise Infra("trace rejection not reproducible")
            ctx.violation("mappings:" + tv.violated, "real MappingsCache execution violates %s" % tv.violated, keep)
        else:
            # the code did something the transcribed mechanism does not do: judge it by the property alone
            tp = mappings_trace(ctx, keep, "PersistCacheMappingsTrace_prop.cfg", "mappings trace, property only")
            if tp.violated:
                sig = tp.violated if tp.violated.startswith("invariant") else "trace-rejected"
                ctx.violation("mappings:" + sig, "real MappingsCache execution violates %s %s" % (tp.violated, where), keep)
            else:
                ctx.log("NOTE: MappingsCache deviates from the transcribed mechanism at %s but every observed "
                        "execution satisfies the property" % where)
                ctx.ev.set("mappings_mechanism_deviation", str(where)[:300])
        ntr = 0
    ctx.ev.add_impl("MappingsCache executions accepted by PersistCacheMappingsTrace", ntr, steps=res["steps"],
                    from_tlc_behaviours=len(take), random=res["replayed"] - len(take))
    for s in res.get("samples", [])[:3]:
        ctx.ev.sample(s)


def run(ctx):
    mappings_model(ctx)
    mappings_impl(ctx)
    ctx.ev.set("exhaustive", True)
    ctx.ev.assume("xxh3-128 is treated as collision free (a corrupted chunk never keeps its hash)")
    ctx.ev.assume("MappingsCache is driven single-threaded; timestamps stay far below 2^32")
    ctx.ev.assume("mapping save files of the harness fit one chunk (strings < 1 KB); multi-chunk files are covered by the ChunkedStorage2 half")
