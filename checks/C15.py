"""C15 - metadata edits are versioned and optimistic-concurrency safe."""
import os, sys, random
sys.path.insert(0, os.path.dirname(os.path.abspath(__file__)))
import metadb_common as M

INV = "VersionsUnique NameUnique NamespaceExists JournalOnceAscending"
PROP = "EditNeedsCurrentVersion CurrentVersionAccepted VersionsIncrease RaceOneWinner NamespaceNeverRenamed"


def run(ctx):
    th = ctx.thorough
    # 1. the design: SaveEntity + resolveEntity rules transcribed, every request (creates, edits
    #    from the current and from a stale version, renames, deletes, wrong event types, builtin
    #    ids, racing pairs) in every state reachable with MaxOps effective operations
    r, items = M.mc(ctx, "MetaDB_ent.cfg", "ent", {"MaxOps": "= 3"}, INV, PROP, export=True)
    items = M.sample(ctx, items, 3000 if th else 500, 1)
    if th:
        M.mc(ctx, "MetaDB_ent.cfg", "ent deep", {"MaxOps": "= 4"}, INV, PROP, timeout=7200, coverage=True)
        # liveness of the properties: the type-confusion defect switched back on renames a namespace
        M.expect_model_violation(ctx, "MetaDB_ent.cfg", "bug ns-typeconf", {"Bugs": '= {"ns-typeconf"}', "MaxOps": "= 2"},
                                 INV, PROP, "NamespaceNeverRenamed")
        M.expect_model_violation(ctx, "MetaDB_ent.cfg", "bug ns-createflag", {"Bugs": '= {"ns-createflag"}', "MaxOps": "= 2"},
                                 INV, PROP, "NamespaceNeverRenamed")
    ctx.ev.set("exhaustive", True)
    # 2. seeded random long histories (4 event types, 2 namespaces, builtin ids, races, reopen)
    rnd = random.Random(ctx.seed)
    for k in range(3 if th else 1):
        r, it = M.scripts(ctx, "scripts %d" % k, {"ent"}, 300 if th else 100, 40, (2, 10, 1, 0, 1003 + 17 * k), INV, PROP, salt=10 + k)
        items += it
    # 3. the real DBV2
    M.drive(ctx, "C15", items, "entities")
    ctx.ev.assume("create requests carry version 0; the clock never steps back; requests are the SaveEntity arguments "
                  "the RPC handler passes through unchanged")
    ctx.ev.assume("racing edits: two goroutines call SaveEntity at once; the engine serialises them, the outcome must be "
                  "one of the two serialisations computed by the specification")


def replay(ctx, path):
    M.replay_witness(ctx, "C15", path)
